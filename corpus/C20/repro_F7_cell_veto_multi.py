"""Reproducer of finding F7 (no tracer): MultiProcessMediator + cell-veto event handler -> KeyError <Cell object>.

usage:  PYTHONPATH=<dir containing the jellyfysh package> /venv/bin/python repro_F7_cell_veto_multi.py <that dir>
(the heap / Coulomb cffi extensions must be built in that copy; never run against /repo's stale .so files)
"""
import os
import random
import sys
from configparser import ConfigParser

os.chdir(os.path.join(sys.argv[1], "jellyfysh"))
from jellyfysh.base import factory  # noqa: E402
from jellyfysh.base.exceptions import EndOfRun  # noqa: E402
from jellyfysh.base.strings import to_camel_case  # noqa: E402

cfg = ConfigParser()
cfg.read("config_files/2018_JCP_149_064113/coulomb_atoms/cell_veto.ini")
cfg.set("FinalTimeEndOfRunEventHandler", "end_of_run_time", "0.05")
cfg.set("SeparationOutputHandler", "filename", "/tmp/repro_F7_out.dat")
cfg.set("Run", "mediator", "multi_process_mediator")
cfg.add_section("MultiProcessMediator")
for k, v in cfg.items("SingleProcessMediator"):
    cfg.set("MultiProcessMediator", k, v)
cfg.set("MultiProcessMediator", "number_cores", "3")
random.seed(1)
factory.build_from_config(cfg, to_camel_case(cfg.get("Run", "setting")), "jellyfysh.setting")
m = factory.build_from_config(cfg, "MultiProcessMediator", "jellyfysh.mediator")
try:
    try:
        m.run()      # KeyError: <...cells.Cell object> in get_arguments_cell_veto_event_handler
    except EndOfRun:
        print("end of run reached (defect not reproduced)")
finally:
    m.post_run()     # run.py does not do this after an exception: the workers would be left behind
