#!/usr/bin/env python3
"""Regenerates the per-property status table of DESIGN.md section 10.5 (between STATUS-TABLE-BEGIN / -END) from
coq/Props/*.v, tools/claims.json and evidence/*.json."""
import glob, json, os, re
HERE = os.path.dirname(os.path.dirname(os.path.abspath(__file__)))
claims = json.load(open(os.path.join(HERE, "tools", "claims.json")))
rows = []
for i in range(1, 21):
    P = "C%02d" % i
    files = sorted(glob.glob(os.path.join(HERE, "coq", "Props", P + "*.v")))
    nthm = npart = nref = 0
    for f in files:
        src = open(f).read()
        names = re.findall(r"^Theorem\s+(\w+)", src, re.M)
        nthm += len(names)
        npart += sum(1 for n in names if n.endswith("_partial"))
        nref += sum(1 for n in names if n.endswith("_refuted"))
    ax = "?"
    ev = os.path.join(HERE, "evidence", P + ".json")
    if os.path.exists(ev):
        txt = json.dumps(json.load(open(ev)))
        ax = "Reals axioms" if ("sig_forall_dec" in txt or "Classical_Prop.classic" in txt) else "none"
    text = (claims.get(P, {}).get("text") or "") + (claims.get(P, {}).get("note") or "")
    claim = "partial (see level text)" if "PARTIAL" in text.upper()[:400] else "full"
    rows.append("| %s | %s | %d (%d _partial, %d _refuted) | %s | %s |" % (
        P, ", ".join(os.path.basename(f) for f in files), nthm, npart, nref, ax, claim))
table = ["| property | Props files | theorems | axioms under Print Assumptions | claim |",
         "|----------|-------------|----------|--------------------------------|-------|"] + rows
p = os.path.join(HERE, "DESIGN.md")
s = open(p).read()
a, b = s.index("<!-- STATUS-TABLE-BEGIN -->"), s.index("<!-- STATUS-TABLE-END -->")
s = s[:a] + "<!-- STATUS-TABLE-BEGIN -->\n" + "\n".join(table) + "\n" + s[b:]
open(p, "w").write(s)
print("\n".join(rows))
