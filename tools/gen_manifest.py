#!/usr/bin/env python3
"""Regenerates MANIFEST.json from tools/claims.json (one entry per property: claimed or not, texts)."""
import json
import os
HERE = os.path.dirname(os.path.dirname(os.path.abspath(__file__)))
claims = json.load(open(os.path.join(HERE, "tools", "claims.json")))
props = [json.loads(l)["id"] for l in open(os.path.join(HERE, "properties.jsonl")) if l.strip()]
checks, na = [], []
for pid in props:
    c = claims.get(pid)
    if c and c.get("claimed"):
        checks.append({
            "property_id": pid,
            "quick_cmd": "./check %s --tier quick" % pid,
            "thorough_cmd": "./check %s --tier thorough" % pid,
            "evidence_file": "evidence/%s.json" % pid,
            "replay_cmd_template": "./check %s --replay {path}" % pid,
            "engine": "coq-jf",
            "level_claimed": {"category": "proof", "text": c["text"], "design_ref": c.get("design_ref", "DESIGN.md section 5, " + pid)},
            "level_note": c["note"],
            "technique": c["technique"],
        })
    else:
        na.append({"property_id": pid, "reason": (c or {}).get("reason", "not built yet in this development; design in DESIGN.md section 5")})
m = {
    "version": 1,
    "setup_cmd": "./setup.sh",
    "hooks": {
        "guard": "JELLYFYSH_VERIF",
        "enable": "checks copy /repo/jellyfysh to a scratch directory, rebuild the cffi extensions there from the current C sources and run with JELLYFYSH_VERIF=1 and PYTHONPATH=<scratch>; no hook commits exist in /repo (tracing is done by wrapping from outside)",
        "baseline_off_cmd": "cd /repo && /venv/bin/python -m pytest -ra -q -p no:cacheprovider --timeout=900 --continue-on-collection-errors",
        "source_commits": claims.get("_hook_commits", []),
        "add_only": True,
    },
    "engines": [{
        "name": "coq-jf", "path": "coq/",
        "serves_properties": [c["property_id"] for c in checks],
        "kind_free_text": "Coq 8.16.1 development (models, proofs, property theorems) + Python correspondence harness (harness/) evaluating the executable models inside Coq (vm_compute) against the implementation",
    }],
    "checks": checks,
    "not_applicable": na,
    "notes": "Machine-checked proof in Coq; see DESIGN.md. Known findings: known_findings.json.",
}
json.dump(m, open(os.path.join(HERE, "MANIFEST.json"), "w"), indent=1)
print("claimed:", [c["property_id"] for c in checks])
