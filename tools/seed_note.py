#!/usr/bin/env python3
"""usage: seed_note.py <id> <text>  — records what was strengthened for a seeded change in seeded/<id>/meta.json"""
import json, sys, os
HERE = os.path.dirname(os.path.dirname(os.path.abspath(__file__)))
p = os.path.join(HERE, "seeded", sys.argv[1], "meta.json")
d = json.load(open(p)); d["checks_against_it_after_strengthening"] = sys.argv[2]
json.dump(d, open(p, "w"), indent=1)
