#!/bin/bash
# usage: mkworktree.sh <dir>   — scratch git worktree of /repo (HEAD, detached) with the cffi extensions built
set -e
d="$1"
git -C /repo worktree add --detach "$d" HEAD -q
cd "$d"
for b in jellyfysh/scheduler/heap_scheduler/heap_build.py jellyfysh/potential/merged_image_coulomb_potential/merged_image_coulomb_potential_build.py jellyfysh/potential/inverse_power_coulomb_bounding_potential/inverse_power_coulomb_bounding_potential_build.py; do /venv/bin/python $b >/dev/null 2>&1; done
find . -name "_*.so" | wc -l
