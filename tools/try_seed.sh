#!/bin/bash
# usage: try_seed.sh <Cxx> <patch.diff> [more check ids...]
# Applies a seeded change to a scratch worktree of /repo and runs the check(s) against it (VERIF_REPO), then removes it.
set -u
p="$1"; patch="$2"; shift 2
d=/tmp/seedtest_$$
git -C /repo worktree add --detach "$d" HEAD -q
if ! git -C "$d" apply "$patch"; then echo "PATCH DOES NOT APPLY"; git -C /repo worktree remove --force "$d"; exit 2; fi
cd /verif
for c in "$p" "$@"; do
  echo "== $c against $(basename $patch)"
  VERIF_REPO="$d" VERIF_SKIP_MAKE=1 ./check "$c" 2>&1 | grep -E "^(VIOLATION|OK|KNOWN|  #)" | cut -c1-400
done
git -C /repo worktree remove --force "$d"
