#!/bin/bash
# usage: tools/commit.sh "message"  — stage everything except Coq files that are not (freshly) compiled (work in progress
# of a builder), then commit.
cd /verif
git add -A
for v in $(git diff --cached --name-only --diff-filter=AM | grep '^coq/.*\.v$'); do
  vo="${v%.v}.vo"
  if [ ! -f "$vo" ] || [ "$v" -nt "$vo" ]; then echo "skipping WIP $v"; git reset -q HEAD -- "$v"; fi
done
git commit -qm "$1" && echo committed
