#!/bin/bash
# usage: confirm_seed.sh <Cxx> <k> [extra check ids]   — confirms seeded change /tmp/seed_<Cxx>/patch<k>.diff myself:
# existing tests pass with it, the demonstration fails with it and passes without, and runs ./check against it.
# Keeps it as /verif/seeded/<Cxx>-<k>/ {patch.diff, demo.py, meta.json}.
set -u
P="$1"; K="$2"; shift 2
ROUND="${ROUND:-1}"
if [ "$ROUND" = "7" ]; then SRC=/tmp/seed7_$P; ID="$P-$((K+${BASE7:-10}))"; elif [ "$ROUND" = "6" ]; then SRC=/tmp/seed6_$P; N=$(ls -d /verif/seeded/$P-* 2>/dev/null | grep -v "/$P-$((K+${BASE6:-8}))$" | wc -l); ID="$P-$((K+${BASE6:-8}))"; elif [ "$ROUND" = "5" ]; then SRC=/tmp/seed5_$P; ID="$P-$((K+8))"; elif [ "$ROUND" = "4" ]; then SRC=/tmp/seed4_$P; ID="$P-$((K+6))"; elif [ "$ROUND" = "3" ]; then SRC=/tmp/seed3_$P; ID="$P-$((K+4))"; elif [ "$ROUND" = "2" ]; then SRC=/tmp/seed2_$P; ID="$P-$((K+2))"; else SRC=/tmp/seed_$P; ID="$P-$K"; fi
D=/tmp/seedconf_$ID
OUT=/verif/seeded/$ID
mkdir -p "$OUT"
/verif/tools/mkworktree.sh "$D" >/dev/null
cp "$SRC/patch$K.diff" "$OUT/patch.diff"; cp "$SRC/demo$K.py" "$OUT/demo.py"; cp "$SRC/meta$K.json" "$OUT/author_meta.json"
cp "$SRC/demo$K.py" "$D/demo.py"; cp "$SRC/demo$K.py" "$D/demo$K.py"
rebuild() { cd "$D"; for b in jellyfysh/scheduler/heap_scheduler/heap_build.py jellyfysh/potential/merged_image_coulomb_potential/merged_image_coulomb_potential_build.py jellyfysh/potential/inverse_power_coulomb_bounding_potential/inverse_power_coulomb_bounding_potential_build.py; do /venv/bin/python $b >/dev/null 2>&1; done; }
git -C "$SRC" checkout -- . 2>/dev/null
cd "$SRC/jellyfysh" && PYTHONPATH="$SRC" timeout 2400 /venv/bin/python ../demo$K.py >/tmp/seedconf_$ID.clean.log 2>&1; RC_CLEAN=$?
cp "$OUT/patch.diff" "$OUT/patch.orig.diff"
if ! git -C "$D" apply "$OUT/patch.diff" 2>/dev/null; then
  # /repo moved on since the author's worktree was made (a fix: commit): rebase the change with a 3-way merge
  git -C "$D" apply --3way "$OUT/patch.orig.diff" >/dev/null 2>&1 || { echo "patch does not apply"; exit 2; }
  git -C "$D" reset -q; git -C "$D" diff > "$OUT/patch.diff"
fi
TOUCHC=$(grep -cE '^\+\+\+ .*(\.[ch]|_build\.py)$' "$OUT/patch.diff")
[ "$TOUCHC" != "0" ] && rebuild
cd "$D" && TESTS=$(timeout 1500 /venv/bin/python -m pytest -q -p no:cacheprovider --timeout=900 -n 8 2>&1 | tail -1)
git -C "$SRC" apply "$OUT/patch.orig.diff"
if [ "$TOUCHC" != "0" ]; then ( cd "$SRC"; for b in jellyfysh/scheduler/heap_scheduler/heap_build.py jellyfysh/potential/merged_image_coulomb_potential/merged_image_coulomb_potential_build.py jellyfysh/potential/inverse_power_coulomb_bounding_potential/inverse_power_coulomb_bounding_potential_build.py; do /venv/bin/python $b >/dev/null 2>&1; done ); fi
cd "$SRC/jellyfysh" && PYTHONPATH="$SRC" timeout 2400 /venv/bin/python ../demo$K.py >/tmp/seedconf_$ID.mut.log 2>&1; RC_MUT=$?
git -C "$SRC" checkout -- .
if [ "$TOUCHC" != "0" ]; then ( cd "$SRC"; for b in jellyfysh/scheduler/heap_scheduler/heap_build.py jellyfysh/potential/merged_image_coulomb_potential/merged_image_coulomb_potential_build.py jellyfysh/potential/inverse_power_coulomb_bounding_potential/inverse_power_coulomb_bounding_potential_build.py; do /venv/bin/python $b >/dev/null 2>&1; done ); fi
cd /verif
CHECKS=""
for c in "$P" "$@"; do
  R=$(VERIF_REPO="$D" VERIF_SKIP_MAKE=1 ./check "$c" 2>&1 | grep -E "^(VIOLATION|OK|  #)" | head -2 | tr '\n' ' ' | cut -c1-500)
  CHECKS="$CHECKS$c: $R || "
done
python3 - "$ID" "$P" "$TESTS" "$RC_CLEAN" "$RC_MUT" "$CHECKS" <<'PY'
import json, sys
ID, P, tests, rc_clean, rc_mut, checks = sys.argv[1:7]
am = json.load(open('/verif/seeded/%s/author_meta.json' % ID))
meta = {"id": ID, "property": P, "summary": am.get("summary"), "needs": am.get("needs"), "files": am.get("files"),
        "confirmed_by_me": {"existing_tests_with_change": tests, "demo_exit_clean_tree": int(rc_clean),
                            "demo_exit_with_change": int(rc_mut),
                            "how": "tests: scratch worktree (tools/mkworktree.sh), git apply, pytest -n 8; demonstration: in its author's worktree, clean tree then git apply then restored"},
        "checks_against_it": checks}
json.dump(meta, open('/verif/seeded/%s/meta.json' % ID, 'w'), indent=1)
print(ID, '| tests:', tests, '| demo clean/mut:', rc_clean, rc_mut, '|', checks[:300])
PY
rm -f "$OUT/author_meta.json" "$OUT/patch.orig.diff"
git -C /repo worktree remove --force "$D"
