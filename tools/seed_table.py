#!/usr/bin/env python3
"""Regenerates the table of seeded changes in DESIGN.md (between the markers SEEDED-TABLE-BEGIN / -END) from
seeded/*/meta.json."""
import glob, json, re, os
HERE = os.path.dirname(os.path.dirname(os.path.abspath(__file__)))
rows = []
for f in sorted(glob.glob(os.path.join(HERE, "seeded", "*", "meta.json"))):
    d = json.load(open(f))
    own = d["property"]
    first = d.get("checks_against_it", "")
    m = re.search(r"%s: (VIOLATION|OK)" % own, first)
    caught_first = bool(m and m.group(1) == "VIOLATION")
    others = [c for c in re.findall(r"(C\d\d): VIOLATION", first) if c != own]
    note = d.get("checks_against_it_after_strengthening", "")
    if not note and others:
        note = "also caught by " + ", ".join(others)
    summ = " ".join((d.get("summary") or "").split())
    if len(summ) > 230:
        summ = summ[:227] + "..."
    rows.append("| %s | %s | %s | %s |" % (d["id"], summ.replace("|", "/"), "yes" if caught_first else "no",
                                          " ".join(note.split()).replace("|", "/")))
table = ["| id | change | first run | strengthening / other checks that catch it |",
         "|----|--------|-----------|---------------------------------------------|"] + rows
p = os.path.join(HERE, "DESIGN.md")
s = open(p).read()
a, b = s.index("<!-- SEEDED-TABLE-BEGIN -->"), s.index("<!-- SEEDED-TABLE-END -->")
s = s[:a] + "<!-- SEEDED-TABLE-BEGIN -->\n" + "\n".join(table) + "\n" + s[b:]
open(p, "w").write(s)
print(len(rows), "rows;", sum(1 for r in rows if "| yes |" in r), "caught on first run")
