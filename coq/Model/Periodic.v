(** * Model/Periodic.v — model of the periodic boundaries of jellyfysh/setting
    (classes HypercubicPeriodicBoundaries and HypercuboidPeriodicBoundaries), on binary64.

    The model mirrors the CURRENT code, i.e. including the repair of finding F1:
    [correct_position_entry] maps a float modulo that rounded to the system length itself to 0.0.

    [None] stands for Python's ZeroDivisionError of [x % 0.0] (the setting classes refuse system
    lengths <= 0, so this never happens for an initialised setting). *)
From Coq Require Import ZArith Bool List.
From Flocq Require Import Core.Core IEEE754.BinarySingleNaN.
Require Import JF.Base.F64 JF.Base.PyFloat.
Import ListNotations.

Definition ftwo : f64 := B754_finite (prec:=53) (emax:=1024) false 4503599627370496 (-51) eq_refl.   (* 2.0 *)

(** [system_length_over_two = system_length / 2.0] (computed once by the setter; pure). *)
Definition half (L : f64) : f64 := fdiv L ftwo.

(** [correct_position_entry]:
      corrected_entry = position_entry % system_length
      return 0.0 if corrected_entry == system_length else corrected_entry *)
Definition wrap (x L : f64) : option f64 :=
  match py_mod x L with
  | None => None
  | Some m => Some (if feq m L then fzero else m)
  end.

(** The float modulo alone (the code before the repair of F1); kept for documentation
    ([wrap_raw_hits_L]). *)
Definition wrap_raw (x L : f64) : option f64 := py_mod x L.

(** [correct_separation_entry]:
      (separation_entry + system_length_over_two) % system_length - system_length_over_two *)
Definition sep (s L : f64) : option f64 :=
  match py_mod (fadd s (half L)) L with
  | None => None
  | Some m => Some (fsub m (half L))
  end.

(** [next_image]: position_entry + system_length *)
Definition next_image (x L : f64) : f64 := fadd x L.

(** Sequencing of partial results over a vector. *)
Fixpoint all_some {A : Type} (l : list (option A)) : option (list A) :=
  match l with
  | [] => Some []
  | None :: _ => None
  | Some a :: r => match all_some r with Some r' => Some (a :: r') | None => None end
  end.

(** ** Hypercubic: one system length for every direction. *)

(** [correct_position]: for index, entry in enumerate(position): position[index] = entry corrected. *)
Definition cubic_correct_position (L : f64) (pos : list f64) : option (list f64) :=
  all_some (map (fun x => wrap x L) pos).

Definition cubic_correct_separation (L : f64) (s : list f64) : option (list f64) :=
  all_some (map (fun x => sep x L) s).

(** [separation_vector]: [target[i] - reference[i] for i in range(dimension)], then corrected.
    (Vectors shorter than the dimension raise IndexError in Python; the model reads [fnan] there
    and is only used on vectors of length >= dimension.) *)
Definition raw_separation (dim : nat) (ref tgt : list f64) : list f64 :=
  map (fun i => fsub (nth i tgt fnan) (nth i ref fnan)) (seq 0 dim).

Definition cubic_separation_vector (dim : nat) (L : f64) (ref tgt : list f64) : option (list f64) :=
  cubic_correct_separation L (raw_separation dim ref tgt).

Definition cubic_next_image (L : f64) (x : f64) (direction : nat) : f64 := next_image x L.

(** ** Hypercuboid: [system_lengths[index]] per direction ([dimension = len(system_lengths)]). *)

(** Entry functions with explicit index; [None] also for an index outside the tuple (IndexError). *)
Definition cuboid_wrap_entry (Ls : list f64) (x : f64) (i : nat) : option f64 :=
  match nth_error Ls i with Some L => wrap x L | None => None end.

Definition cuboid_sep_entry (Ls : list f64) (s : f64) (i : nat) : option f64 :=
  match nth_error Ls i with Some L => sep s L | None => None end.

Fixpoint enumerate_from {A : Type} (i : nat) (l : list A) : list (nat * A) :=
  match l with [] => [] | a :: r => (i, a) :: enumerate_from (S i) r end.

Definition cuboid_correct_position (Ls : list f64) (pos : list f64) : option (list f64) :=
  all_some (map (fun ix => cuboid_wrap_entry Ls (snd ix) (fst ix)) (enumerate_from 0 pos)).

Definition cuboid_correct_separation (Ls : list f64) (s : list f64) : option (list f64) :=
  all_some (map (fun ix => cuboid_sep_entry Ls (snd ix) (fst ix)) (enumerate_from 0 s)).

Definition cuboid_separation_vector (Ls : list f64) (ref tgt : list f64) : option (list f64) :=
  cuboid_correct_separation Ls (raw_separation (length Ls) ref tgt).

Definition cuboid_next_image (Ls : list f64) (x : f64) (direction : nat) : option f64 :=
  match nth_error Ls direction with Some L => Some (next_image x L) | None => None end.
