(** * Model/Lifting.v — model of jellyfysh/lifting/{lifting,inside_first_lifting,outside_first_lifting,
    ratio_lifting}.py over Q.

    A derivative table is the list of [(rate, identifier, is_active)] in the order in which the event
    handler calls [Lifting.insert].  Every random draw is an explicit argument:
    [u1] is the draw used by [insert] for the active unit ([random.uniform(0.0, rate)]), [u2] the draw
    used by [RatioLifting.get_active_identifier] ([random.uniform(0.0, sum(negative rates))]).
    CPython: [random.uniform(a, b) = a + (b - a) * random()], modelled by [uniform u a b].
    No proofs in this file. *)
From Coq Require Import QArith List Bool ZArith.
Import ListNotations.
Open Scope Q_scope.

Definition Qlt_bool (a b : Q) : bool := negb (Qle_bool b a).

(** [random.uniform(a, b)] for the draw [u = random.random()] *)
Definition uniform (u a b : Q) : Q := a + (b - a) * u.

(** Python's [sum(list)]: left fold starting from 0 *)
Definition py_sum (l : list Q) : Q := fold_left Qplus l 0.

Inductive scheme := InsideFirst | OutsideFirst | Ratio.

(** attributes of class Lifting *)
Record lstate := mkL {
  neg_rates : list Q;      (* _negative_lifting_rates *)
  assoc_ids : list Z;      (* _associated_identifiers *)
  rand_pos : Q;            (* _random_position *)
  sum_pos : Q;             (* _sum_positive_lifting_rates *)
  active_rec : bool        (* _active_recorded *)
}.

Definition l_init : lstate := mkL [] [] 0 0 false.

(** [Lifting.reset] *)
Definition l_reset (st : lstate) : lstate := l_init.

(** [Lifting.insert]; [None] = AssertionError (active unit with a non-positive rate) *)
Definition l_insert (u1 : Q) (st : lstate) (rate : Q) (id : Z) (is_active : bool) : option lstate :=
  if Qlt_bool 0 rate then
    let sp := sum_pos st + rate in
    if is_active then
      Some (mkL (neg_rates st) (assoc_ids st) (rand_pos st + uniform u1 0 rate) sp true)
    else if negb (active_rec st) then
      Some (mkL (neg_rates st) (assoc_ids st) (rand_pos st + rate) sp (active_rec st))
    else
      Some (mkL (neg_rates st) (assoc_ids st) (rand_pos st) sp (active_rec st))
  else
    if is_active then None
    else Some (mkL (neg_rates st ++ [- rate]) (assoc_ids st ++ [id]) (rand_pos st) (sum_pos st)
                   (active_rec st)).

Definition entry := (Q * Z * bool)%type.

(** the handler's sequence of [insert] calls *)
Fixpoint l_fill (u1 : Q) (st : lstate) (t : list entry) : option lstate :=
  match t with
  | [] => Some st
  | (r, id, a) :: t' =>
      match l_insert u1 st r id a with
      | None => None
      | Some st' => l_fill u1 st' t'
      end
  end.

(** tables without the activity flag; the active unit is chosen by its index in the insertion order *)
Definition utable := list (Q * Z).

Definition inactive (t : utable) : list entry := map (fun e => (fst e, snd e, false)) t.

Fixpoint activate (a : nat) (t : utable) : list entry :=
  match t with
  | [] => []
  | e :: t' =>
      match a with
      | O => (fst e, snd e, true) :: inactive t'
      | S a' => (fst e, snd e, false) :: activate a' t'
      end
  end.

(** the cumulative walk shared by the three schemes:
    [for index, rate in enumerate(neg): summed += rate; if position <= summed: return index] *)
Fixpoint walk (p acc : Q) (idx : nat) (l : list Q) : option nat :=
  match l with
  | [] => None
  | r :: l' =>
      let acc' := acc + r in
      if Qle_bool p acc' then Some idx else walk p acc' (S idx) l'
  end.

Inductive lres :=
| LOk (index : nat) (id : Z)   (* index into the negative list, and the identifier returned *)
| LAssertionError              (* insert: active unit with non-positive rate *)
| LNotRecorded                 (* LiftingSchemeError *)
| LIndexError.                 (* [self._associated_identifiers[-1]] on an empty list *)

(** [return ids[index]] inside the loop, or the fall-through [return ids[-1]] *)
Definition l_finish (st : lstate) (w : option nat) : lres :=
  match w with
  | Some i => match nth_error (assoc_ids st) i with Some id => LOk i id | None => LIndexError end
  | None =>
      match assoc_ids st with
      | [] => LIndexError
      | _ => LOk (pred (length (assoc_ids st))) (last (assoc_ids st) 0%Z)
      end
  end.

(** the position compared against the cumulative negative rates *)
Definition l_position (s : scheme) (u2 : Q) (st : lstate) : Q :=
  match s with
  | InsideFirst => rand_pos st
  | OutsideFirst => py_sum (neg_rates st) - rand_pos st
  | Ratio => uniform u2 0 (py_sum (neg_rates st))
  end.

(** [get_active_identifier]; the second component is the state afterwards (OutsideFirstLifting
    overwrites [_random_position]). *)
Definition l_get (s : scheme) (u2 : Q) (st : lstate) : lres * lstate :=
  if negb (active_rec st) then (LNotRecorded, st)
  else
    let p := l_position s u2 st in
    let st' := match s with
               | OutsideFirst => mkL (neg_rates st) (assoc_ids st) p (sum_pos st) (active_rec st)
               | _ => st
               end in
    (l_finish st (walk p 0 0%nat (neg_rates st)), st').

(** reset; insert the whole table; get_active_identifier *)
Definition l_run (s : scheme) (u1 u2 : Q) (t : list entry) : lres :=
  match l_fill u1 (l_reset l_init) t with
  | None => LAssertionError
  | Some st => fst (l_get s u2 st)
  end.

(** two consecutive calls of get_active_identifier without reset (second draw [u2']) *)
Definition l_run_twice (s : scheme) (u1 u2 u2' : Q) (t : list entry) : lres * lres :=
  match l_fill u1 (l_reset l_init) t with
  | None => (LAssertionError, LAssertionError)
  | Some st => let '(r1, st1) := l_get s u2 st in (r1, fst (l_get s u2' st1))
  end.
