(** * Model/Occupancy.v — model of
      jellyfysh/activator/internal_state/single_active_cell_occupancy.py (class SingleActiveCellOccupancy)
    and of the cell taggers that read it
      activator/tagger/{cell_veto,cell_bounding_potential,excluded_cells,surplus_cells,cell_boundary}_tagger.py
    together with the part of the cell-veto machinery that decides WHO is a target
      event_handler/abstracts/cell_veto_event_handler.py (walker domain, translate)
      mediator/mediator.py get_arguments_cell_veto_event_handler (lookup occupancy[target_cell]).

    No proofs here (Proofs/OccupancyProofs.v).  Everything is parametric in the type of cells and of unit
    identifiers; [torus_cs] at the end is the Z^d-modulo-counts instance used by the correspondence. *)
From Coq Require Import List ZArith Bool Arith.
Import ListNotations.

(** Python exceptions that the modelled methods can raise. *)
Inductive err := KeyError | ValueError | IndexError | AssertionError.
Inductive res (A : Type) := Ok (a : A) | Err (e : err).
Arguments Ok {A} a.
Arguments Err {A} e.

Definition bind {A B} (r : res A) (f : A -> res B) : res B :=
  match r with Ok a => f a | Err e => Err e end.

Section Occupancy.
  Variables cell id : Type.
  Variable cell_eqb : cell -> cell -> bool.
  Variable id_eqb : id -> id -> bool.

  (** ** The cell system (class Cells / PeriodicCells) as far as the taggers use it. *)
  Record cellsys := mkCS {
    cs_cells : list cell;                 (* yield_cells() *)
    cs_nearby : cell -> list cell;        (* nearby_cells(cell): a Python set *)
    cs_zero : cell;                       (* zero_cell *)
    cs_translate : cell -> cell -> cell;  (* translate(cell, relative_cell) *)
    cs_relative : cell -> cell -> cell    (* relative_cell(cell, reference_cell) *)
  }.

  (** ** Python dicts with list values: insertion-ordered association lists. *)
  Definition amap := list (cell * list id).

  Fixpoint aget (m : amap) (c : cell) : option (list id) :=
    match m with
    | [] => None
    | (k, v) :: r => if cell_eqb k c then Some v else aget r c
    end.

  (** d[c] = v : in place if the key exists, else a new key at the end. *)
  Fixpoint aset (m : amap) (c : cell) (v : list id) : amap :=
    match m with
    | [] => [(c, v)]
    | (k, w) :: r => if cell_eqb k c then (k, v) :: r else (k, w) :: aset r c v
    end.

  (** del d[c] *)
  Fixpoint adel (m : amap) (c : cell) : amap :=
    match m with
    | [] => []
    | (k, w) :: r => if cell_eqb k c then r else (k, w) :: adel r c
    end.

  (** ** State of SingleActiveCellOccupancy *)
  Record state := mkState {
    occupants : amap;            (* self._occupants : every cell is a key (set in __init__) *)
    surplus : amap;              (* self._surplus *)
    active_cell : option cell;   (* self._active_cell *)
    active_id : option id;       (* self._active_unit_identifier *)
    limit : option nat           (* None: _number_occupants_not_bounded; Some k: _maximum_number_occupants = k > 0 *)
  }.

  (** CellOccupancy.__init__: [_number_occupants_not_bounded = maximum_number_occupants <= 0]. *)
  Definition limit_of_max (m : Z) : option nat :=
    if (m <=? 0)%Z then None else Some (Z.to_nat m).

  (** [len(occ) < self._maximum_number_occupants or self._number_occupants_not_bounded] *)
  Definition has_room (lim : option nat) (l : list id) : bool :=
    match lim with None => true | Some k => Nat.ltb (length l) k end.

  Definition set_occ (s : state) (m : amap) : state :=
    mkState m (surplus s) (active_cell s) (active_id s) (limit s).
  Definition set_sur (s : state) (m : amap) : state :=
    mkState (occupants s) m (active_cell s) (active_id s) (limit s).
  Definition set_active (s : state) (c : option cell) (a : option id) : state :=
    mkState (occupants s) (surplus s) c a (limit s).

  Definition get_or_nil (o : option (list id)) : list id :=
    match o with Some l => l | None => [] end.

  (** The block that occurs twice in the class (initialize, update):
<<
      if len(self._occupants[cell]) < max or not_bounded: self._occupants[cell].append(u)
      else: self._surplus.setdefault(cell, []).append(u)
>> *)
  Definition insert_unit (s : state) (c : cell) (u : id) : res state :=
    match aget (occupants s) c with
    | None => Err KeyError
    | Some oc =>
        if has_room (limit s) oc
        then Ok (set_occ s (aset (occupants s) c (oc ++ [u])))
        else Ok (set_sur s (aset (surplus s) c (get_or_nil (aget (surplus s) c) ++ [u])))
    end.

  (** __init__ : [_occupants = {cell: [] for cell in yield_cells()}], [_surplus = {}], no active unit. *)
  Definition init_state (cells : list cell) (lim : option nat) : state :=
    mkState (map (fun c => (c, [])) cells) [] None None lim.

  (** initialize: the units on the cell level in extraction order, each with the cell of its position
      ([position_to_cell]) and the result of the charge filter [_is_relevant_unit]. *)
  Fixpoint insert_all (s : state) (us : list (id * cell * bool)) : res state :=
    match us with
    | [] => Ok s
    | (u, c, rel) :: r =>
        if rel then bind (insert_unit s c u) (fun s' => insert_all s' r) else insert_all s r
    end.

  Definition initialize (cells : list cell) (lim : option nat) (us : list (id * cell * bool)) : res state :=
    insert_all (init_state cells lim) us.

  (** list.remove(x): first occurrence; None = ValueError *)
  Fixpoint remove_first (x : id) (l : list id) : option (list id) :=
    match l with
    | [] => None
    | y :: r => if id_eqb y x then Some r
                else match remove_first x r with Some r' => Some (y :: r') | None => None end
    end.

  (** list.pop(): (last element, rest); None = IndexError *)
  Fixpoint pop_last (l : list id) : option (id * list id) :=
    match l with
    | [] => None
    | [x] => Some (x, [])
    | y :: r => match pop_last r with Some (x, r') => Some (x, y :: r') | None => None end
    end.

  (** truth value of [self._surplus.get(cell, True)] *)
  Definition get_truthy (o : option (list id)) : bool :=
    match o with None => true | Some [] => false | Some (_ :: _) => true end.

  Definition opt_id_eqb (o : option id) (x : id) : bool :=
    match o with Some y => id_eqb y x | None => false end.

  (** The refill branch inside the try block of update:
<<
      if not self._surplus.get(self._active_cell, True):
          self._occupants[self._active_cell].append(self._surplus[self._active_cell].pop())
>> *)
  Definition refill_condition (s : state) (c : cell) : bool := negb (get_truthy (aget (surplus s) c)).

  Definition refill (s : state) (c : cell) : res state :=
    match aget (surplus s) c with
    | None => Err KeyError
    | Some sl =>
        match pop_last sl with
        | None => Err IndexError
        | Some (x, sl') =>
            let s' := set_sur s (aset (surplus s) c sl') in
            match aget (occupants s') c with
            | None => Err KeyError
            | Some oc => Ok (set_occ s' (aset (occupants s') c (oc ++ [x])))
            end
        end
    end.

  (** update(extracted_active_global_state): the single active unit on the cell level has identifier [nid],
      [rel] is [_is_relevant_unit(new_active_unit)], [c] is [position_to_cell(new_active_unit.position)]. *)
  Definition update (s : state) (nid : id) (rel : bool) (c : cell) : res state :=
    if opt_id_eqb (active_id s) nid
    then (* same identifier: only the active cell is determined again *)
      Ok (set_active s (Some c) (active_id s))
    else
      bind (match active_id s with
            | Some a =>
                match active_cell s with
                | Some ac => insert_unit s ac a
                | None => Err KeyError
                end
            | None => Ok s
            end) (fun s1 =>
      if rel then
        let s2 := set_active s1 (Some c) (Some nid) in
        bind (match aget (occupants s2) c with
              | None => Err KeyError
              | Some oc =>
                  match remove_first nid oc with
                  | Some oc' =>
                      let s3 := set_occ s2 (aset (occupants s2) c oc') in
                      if refill_condition s3 c then refill s3 c else Ok s3
                  | None => (* except ValueError: the new active unit is in the surplus list *)
                      match aget (surplus s2) c with
                      | None => Err KeyError
                      | Some sl =>
                          match remove_first nid sl with
                          | None => Err ValueError
                          | Some sl' => Ok (set_sur s2 (aset (surplus s2) c sl'))
                          end
                      end
                  end
              end) (fun s4 =>
        (* delete the surplus list if it is now empty *)
        if negb (get_truthy (aget (surplus s4) c)) then Ok (set_sur s4 (adel (surplus s4) c)) else Ok s4)
      else Ok (set_active s1 None None)).

  (** ** Read access used by the taggers and the mediator *)

  (** __getitem__(cell) *)
  Definition occ_of (s : state) (c : cell) : list id := get_or_nil (aget (occupants s) c).
  Definition sur_of (s : state) (c : cell) : list id := get_or_nil (aget (surplus s) c).

  (** yield_surplus(): all values of the surplus dict in dict order *)
  Definition yield_surplus (s : state) : list id := flat_map snd (surplus s).

  (** yield_active_cells() *)
  Definition yield_active_cells (s : state) : list (cell * id) :=
    match active_cell s, active_id s with
    | Some c, Some a => [(c, a)]
    | _, _ => []
    end.

  (** ** The taggers: [yield_identifiers_send_event_time] as the list of in-state identifier tuples. *)
  Definition instate := list id.

  Definition mem_cell (c : cell) (l : list cell) : bool := existsb (cell_eqb c) l.
  Definition is_nil (l : list id) : bool := match l with [] => true | _ => false end.

  (** CellVetoTagger, CellBoundaryTagger: [(active_identifier,)] *)
  Definition cell_veto_tagger (s : state) : list instate :=
    map (fun ca => [snd ca]) (yield_active_cells s).
  Definition cell_boundary_tagger (s : state) : list instate :=
    map (fun ca => [snd ca]) (yield_active_cells s).

  (** CellBoundingPotentialTagger: one in-state (active, *occupants[cell]) per non-empty cell that is not nearby *)
  Definition cell_bounding_tagger (cs : cellsys) (s : state) : list instate :=
    flat_map (fun ca =>
      map (fun c => snd ca :: occ_of s c)
          (filter (fun c => negb (is_nil (occ_of s c)) && negb (mem_cell c (cs_nearby cs (fst ca))))
                  (cs_cells cs)))
      (yield_active_cells s).

  (** ExcludedCellsTagger: (active, occupant) for every occupant of every nearby cell *)
  Definition excluded_cells_tagger (cs : cellsys) (s : state) : list instate :=
    flat_map (fun ca =>
      flat_map (fun nc => map (fun o => [snd ca; o]) (occ_of s nc)) (cs_nearby cs (fst ca)))
      (yield_active_cells s).

  (** SurplusCellsTagger: (active, surplus unit) for every surplus unit of the whole system *)
  Definition surplus_cells_tagger (s : state) : list instate :=
    flat_map (fun ca => map (fun o => [snd ca; o]) (yield_surplus s)) (yield_active_cells s).

  (** CellVetoEventHandler.initialize: the walker items are the cells that are not nearby the zero cell;
      the bound table is keyed by [relative_cell(cell, zero_cell)]. *)
  Definition veto_domain (cs : cellsys) : list cell :=
    filter (fun c => negb (mem_cell c (cs_nearby cs (cs_zero cs)))) (cs_cells cs).
  Definition veto_keys (cs : cellsys) : list cell :=
    map (fun c => cs_relative cs c (cs_zero cs)) (veto_domain cs).

  (** send_event_time returns [translate(active_cell, sampled)]; the mediator then looks up
      [occupancy[target_cell]] and hands all its occupants to send_out_state. *)
  Definition veto_targets_of_cell (cs : cellsys) (s : state) (ac r : cell) : list id :=
    occ_of s (cs_translate cs ac r).

  (** all units that a cell-veto event can reach from the current state *)
  Definition cell_veto_targets (cs : cellsys) (s : state) : list id :=
    flat_map (fun ca => flat_map (veto_targets_of_cell cs s (fst ca)) (veto_domain cs)) (yield_active_cells s).

  (** the non-active members of a list of in-states (every in-state starts with the active identifier) *)
  Definition targets_of (l : list instate) : list id := flat_map (@tl id) l.

  Definition bounding_targets (cs : cellsys) (s : state) : list id := targets_of (cell_bounding_tagger cs s).
  Definition nearby_targets (cs : cellsys) (s : state) : list id := targets_of (excluded_cells_tagger cs s).
  Definition surplus_targets (s : state) : list id := targets_of (surplus_cells_tagger s).
End Occupancy.

Arguments mkCS {cell}.
Arguments cs_cells {cell}.
Arguments cs_nearby {cell}.
Arguments cs_zero {cell}.
Arguments cs_translate {cell}.
Arguments cs_relative {cell}.
Arguments mkState {cell id}.
Arguments occupants {cell id}.
Arguments surplus {cell id}.
Arguments active_cell {cell id}.
Arguments active_id {cell id}.
Arguments limit {cell id}.
Arguments aget {cell id}.
Arguments aset {cell id}.
Arguments adel {cell id}.
Arguments has_room {id}.
Arguments set_occ {cell id}.
Arguments set_sur {cell id}.
Arguments set_active {cell id}.
Arguments get_or_nil {id}.
Arguments insert_unit {cell id}.
Arguments init_state {cell id}.
Arguments insert_all {cell id}.
Arguments initialize {cell id}.
Arguments remove_first {id}.
Arguments pop_last {id}.
Arguments get_truthy {id}.
Arguments opt_id_eqb {id}.
Arguments refill_condition {cell id}.
Arguments refill {cell id}.
Arguments update {cell id}.
Arguments occ_of {cell id}.
Arguments sur_of {cell id}.
Arguments yield_surplus {cell id}.
Arguments yield_active_cells {cell id}.
Arguments mem_cell {cell}.
Arguments is_nil {id}.
Arguments cell_veto_tagger {cell id}.
Arguments cell_boundary_tagger {cell id}.
Arguments cell_bounding_tagger {cell id}.
Arguments excluded_cells_tagger {cell id}.
Arguments surplus_cells_tagger {cell id}.
Arguments veto_domain {cell}.
Arguments veto_keys {cell}.
Arguments veto_targets_of_cell {cell id}.
Arguments cell_veto_targets {cell id}.
Arguments targets_of {id}.
Arguments bounding_targets {cell id}.
Arguments nearby_targets {cell id}.
Arguments surplus_targets {cell id}.

(** ** The Z^d-modulo-counts instance (CuboidPeriodicCells on index tuples).
    Cells are index tuples, [yield_cells] order has the first index running fastest. *)
Fixpoint list_Z_eqb (a b : list Z) : bool :=
  match a, b with
  | [], [] => true
  | x :: a', y :: b' => Z.eqb x y && list_Z_eqb a' b'
  | _, _ => false
  end.

Fixpoint zrange_from (a : Z) (n : nat) : list Z :=
  match n with O => [] | S k => a :: zrange_from (a + 1)%Z k end.
Definition zrange (n : Z) : list Z := zrange_from 0%Z (Z.to_nat n).

Fixpoint torus_cells (counts : list Z) : list (list Z) :=
  match counts with
  | [] => [[]]
  | n :: r => flat_map (fun tl => map (fun i => i :: tl) (zrange n)) (torus_cells r)
  end.

Fixpoint zip3 (f : Z -> Z -> Z -> Z) (a b c : list Z) : list Z :=
  match a, b, c with
  | x :: a', y :: b', z :: c' => f x y z :: zip3 f a' b' c'
  | _, _, _ => []
  end.

Definition torus_translate (counts c r : list Z) : list Z := zip3 (fun x y n => ((x + y) mod n)%Z) c r counts.
Definition torus_relative (counts c ref : list Z) : list Z := zip3 (fun x y n => ((x - y) mod n)%Z) c ref counts.

Fixpoint dedup_lz (l : list (list Z)) : list (list Z) :=
  match l with
  | [] => []
  | x :: r => if existsb (list_Z_eqb x) r then dedup_lz r else x :: dedup_lz r
  end.

(** itertools.product of range(c_d - layers, c_d + layers + 1), each entry reduced modulo the count; a set. *)
Fixpoint torus_nearby_raw (counts c : list Z) (layers : Z) : list (list Z) :=
  match counts, c with
  | n :: cr, x :: xr =>
      flat_map (fun tl => map (fun i => ((i mod n)%Z) :: tl)
                              (zrange_from (x - layers)%Z (Z.to_nat (2 * layers + 1))))
               (torus_nearby_raw cr xr layers)
  | _, _ => [[]]
  end.
Definition torus_nearby (counts : list Z) (layers : Z) (c : list Z) : list (list Z) :=
  dedup_lz (torus_nearby_raw counts c layers).

Definition torus_cs (counts : list Z) (layers : Z) : cellsys (list Z) :=
  mkCS (torus_cells counts) (torus_nearby counts layers) (map (fun _ => 0%Z) counts)
       (torus_translate counts) (torus_relative counts).
