(** * Model/SampleCount.v — how many samples a run writes (C17).

    Along a run the fixed-interval handler's pending candidate is always [last sample time + interval]
    (it re-creates itself), the end-of-run handler's candidate is [Time.from_float end_time], and the
    mediator commits the earliest candidate.  [count_ok] replays the committed legs of one recorded
    run against this: kind 1 = a sample of this handler, kind 2 = the end of the run, anything else =
    another event, which must not be later than the two pending candidates. *)
From Coq Require Import ZArith List Bool.
Require Import JF.Base.F64 JF.Model.Time JF.Model.Kinematics JF.Model.Sampling.
Import ListNotations.

Definition ft (T : ftime) : time := mkTime (fst T) (snd T).

Fixpoint count_ok (dt : f64) (e : time) (t : time) (legs : list (nat * ftime)) : bool :=
  match legs with
  | [] => true
  | (k, T) :: rest =>
      let nxt := time_add t dt in
      match k with
      | 1%nat => time_bits_eqb nxt T && time_le nxt e && count_ok dt e nxt rest
      | 2%nat => time_bits_eqb e T && time_le e nxt && match rest with [] => true | _ => false end
      | _ => time_le (ft T) nxt && time_le (ft T) e && count_ok dt e t rest
      end
  end.

Definition count_samples (legs : list (nat * ftime)) : nat :=
  length (filter (fun l => Nat.eqb (fst l) 1) legs).

Record ncase := { n_dt : f64; n_t0 : ftime; n_end : f64; n_legs : list (nat * ftime) }.

Definition check_ncase (c : ncase) : bool :=
  count_ok (n_dt c) (from_float (n_end c)) (ft (n_t0 c)) (n_legs c).
