(** * Model/Handlers.v — C01 glue: send_event_time / send_out_state of the interaction event handlers.

    Mirrors (binary64 for everything the handlers compute themselves):
      jellyfysh/event_handler/two_leaf_unit_event_handler.py                                   (TL)
      jellyfysh/event_handler/two_leaf_unit_bounding_potential_event_handler.py                (TLB)
      jellyfysh/event_handler/two_leaf_unit_event_handler_with_piecewise_constant_bounding_potential.py (PW2)
      jellyfysh/event_handler/fixed_separations_event_handler_with_piecewise_constant_bounding_potential.py (FIXED)
      jellyfysh/event_handler/two_composite_object_summed_bounding_potential_event_handler.py  (SUMMED)
      jellyfysh/event_handler/abstracts/{abstracts,event_handler_with_bounding_potential,composite_objects}.py
    The potentials are ORACLES: the values their [displacement] / [derivative] return are inputs ([feeds]),
    the arguments they are called with are outputs ([pcall]).  Random draws are inputs
    ([random.expovariate] returns [fd_expo]; [random.uniform(a, b) = a + (b - a) * u] with u from [fd_unif]),
    the arguments of the draws are outputs.
    The in-state is a flat pre-order list of units of a tree with at most two levels ([hu_parent] = index of
    the parent).  Reused: JF.Model.Periodic (separation vector, position correction), JF.Model.Time
    (Time.__add__), JF.Model.TimeSlice (time slicing), JF.Model.Lifting (the three schemes, over Q: the
    derivative values fed by the correspondence are dyadic so that the float sums of lifting.py are exact).
    No proofs in this file. *)
From Coq Require Import ZArith QArith List Bool Arith.
Require Import JF.Base.F64 JF.Base.PyFloat JF.Model.Time JF.Model.Periodic JF.Model.TimeSlice JF.Model.Lifting
        JF.Model.Kinematics.
Import ListNotations.

Record hunit := mkHU {
  hu_id : list Z;
  hu_pos : list f64;
  hu_vel : option (list f64);
  hu_ts : option time;
  hu_charge : f64;               (* unit.charge["q"]; fnan when the unit has no charge *)
  hu_parent : option nat;
  hu_weight : f64                (* Node.weight *)
}.

(** one call of potential.displacement (0), potential.derivative (1), bounding_potential.displacement (2),
    bounding_potential.derivative (3): velocity, separation vectors, charges, potential change *)
Record pcall := mkPC {
  pc_which : nat; pc_vel : list f64; pc_seps : list (list f64); pc_charges : list f64; pc_change : option f64
}.

Record henv := mkEnv {
  e_beta : f64; e_dim : nat; e_L : f64;
  e_charge : bool;               (* handler configured with a charge name *)
  e_ncharge : nat;               (* number_charge_arguments of the (bounding) potential *)
  e_change_required : bool;      (* TL: potential.potential_change_required *)
  e_offset : f64; e_maxd : f64;  (* piecewise constant bounding potential *)
  e_seps : list nat;             (* FIXED: the separations index list *)
  e_scheme : scheme
}.

Record feeds := mkFeeds {
  fd_disp : list f64; fd_bdisp : list f64; fd_der : list f64; fd_bder : list f64;
  fd_derv : list (list f64);     (* FIXED: derivative vectors *)
  fd_expo : list f64; fd_unif : list f64
}.

Record hres := mkRes {
  r_expo : list f64;                       (* arguments of random.expovariate *)
  r_unif : list (Q * Q);                   (* arguments of random.uniform (exact values) *)
  r_calls : list pcall;
  r_time : time;                           (* the candidate event time returned *)
  r_state1 : list hunit;                   (* all units after send_event_time (time-sliced) *)
  r_out : list hunit;                      (* all units after send_out_state *)
  r_inserts : list (f64 * list Z * bool)   (* lifting.insert calls *)
}.

Inductive hkind := TL | TLB | PW2 | FIXED | SUMMED | ROOTTL | ROOTSUM | CELLB | CCELLB | LCV | CCV.

Definition bind {A B} (o : option A) (f : A -> option B) : option B :=
  match o with Some a => f a | None => None end.
Notation "x <- e ;; f" := (bind e (fun x => f)) (at level 61, e at next level, right associativity).

Definition unit_dflt : hunit := mkHU [] [] None None fnan None fone.
Definition getu (st : list hunit) (i : nat) : hunit := nth i st unit_dflt.
Definition g (l : list f64) (i : nat) : f64 := nth i l fnan.

Definition is_leaf (st : list hunit) (i : nat) : bool :=
  negb (existsb (fun u => match hu_parent u with Some p => Nat.eqb p i | None => false end) st).
Definition leaf_idxs (st : list hunit) : list nat := filter (is_leaf st) (seq 0 (length st)).
Definition has_vel (st : list hunit) (i : nat) : bool :=
  match hu_vel (getu st i) with Some _ => true | None => false end.

(** _extract_active_leaf_unit: position in the leaf list of the unique leaf with a velocity *)
Definition active_pos (st : list hunit) (leaves : list nat) : option nat :=
  match filter (fun k => has_vel st (nth k leaves 0%nat)) (seq 0 (length leaves)) with
  | [k] => Some k
  | _ => None
  end.

Definition sepv (env : henv) (p q : list f64) : option (list f64) :=
  cubic_separation_vector (e_dim env) (e_L env) p q.

(** Python [max(a, b)]: b if b > a else a;  [min] over a sequence: first minimal element *)
Definition pymax (a b : f64) : f64 := if flt a b then b else a.
Definition pymin_list (l : list f64) : f64 :=
  match l with
  | [] => fnan
  | x :: r => fold_left (fun m d => if flt d m then d else m) r x
  end.
Definition funiform (u a b : f64) : f64 := fadd a (fmul (fsub b a) u).

(** ** time slicing of every unit of the state (BasicEventHandler._time_slice_all_units_in_state) *)
Definition slice_unit (env : henv) (T : time) (u : hunit) : option hunit :=
  match hu_vel u, hu_ts u with
  | None, _ => Some u
  | Some v, Some ts =>
      p <- time_slice_position (hu_pos u) v T ts (repeat (e_L env) (e_dim env)) ;;
      Some (mkHU (hu_id u) p (Some v) (Some T) (hu_charge u) (hu_parent u) (hu_weight u))
  | Some _, None => None
  end.
Definition slice_all (env : henv) (T : time) (st : list hunit) : option (list hunit) :=
  all_some (map (slice_unit env T) st).

(** ** SingleActiveLeafUnitEventHandler._exchange_velocity (trees with at most two levels) *)
Definition c13 : f64 := of_bits 4412443251819771522.   (* 1.0e-13 *)

Definition set_unit (st : list hunit) (i : nat) (u : hunit) : list hunit :=
  map (fun k => if Nat.eqb k i then u else getu st k) (seq 0 (length st)).

Definition add_change (ch : list (nat * list f64)) (p : nat) (vc : list f64) : list (nat * list f64) :=
  if existsb (fun e => Nat.eqb (fst e) p) ch
  then map (fun e => if Nat.eqb (fst e) p then (p, map (fun xy => fadd (fst xy) (snd xy)) (combine (snd e) vc)) else e) ch
  else ch ++ [(p, vc)].

Definition lookup_change (ch : list (nat * list f64)) (p : nat) : option (list f64) :=
  match filter (fun e => Nat.eqb (fst e) p) ch with e :: _ => Some (snd e) | [] => None end.

(** _commit_sub_tree_non_leaf_velocity_change for one unit *)
Definition commit_unit (env : henv) (T : time) (ch : list (nat * list f64)) (i : nat) (u : hunit) : option hunit :=
  match lookup_change ch i with
  | None => Some u
  | Some c =>
      match hu_vel u with
      | None => Some (mkHU (hu_id u) (hu_pos u) (Some c) (Some T) (hu_charge u) (hu_parent u) (hu_weight u))
      | Some _ =>
          u' <- slice_unit env T u ;;
          match hu_vel u' with
          | Some v =>
              let v' := map (fun xy => fadd (fst xy) (snd xy)) (combine v c) in
              if forallb (fun x => flt (fabs x) c13) v'
              then Some (mkHU (hu_id u') (hu_pos u') None None (hu_charge u') (hu_parent u') (hu_weight u'))
              else Some (mkHU (hu_id u') (hu_pos u') (Some v') (hu_ts u') (hu_charge u') (hu_parent u') (hu_weight u'))
          | None => None
          end
      end
  end.

Definition exchange (env : henv) (T : time) (st : list hunit) (a t : nat) : option (list hunit) :=
  let ua := getu st a in
  let ut := getu st t in
  va <- hu_vel ua ;;
  match hu_vel ut with
  | Some _ => None                                   (* assert target_unit.velocity is None *)
  | None =>
      (* register(active, [-c for c in v]) *)
      let ch1 := match hu_parent ua with
                 | Some p => [(p, map (fun c => fmul (fopp c) (hu_weight ua)) va)]
                 | None => []
                 end in
      (* register(target, active_unit.velocity): the list is scaled in place by the parents' weights *)
      let ch2 := match hu_parent ut with
                 | Some p => add_change ch1 p (map (fun c => fmul c (hu_weight ut)) va)
                 | None => ch1
                 end in
      let va' := match hu_parent ut with
                 | Some p => map (fun c => fmul c (hu_weight (getu st p))) va
                 | None => va
                 end in
      let st1 := set_unit st t (mkHU (hu_id ut) (hu_pos ut) (Some va') (hu_ts ua) (hu_charge ut) (hu_parent ut)
                                     (hu_weight ut)) in
      let st2 := set_unit st1 a (mkHU (hu_id ua) (hu_pos ua) None None (hu_charge ua) (hu_parent ua)
                                      (hu_weight ua)) in
      all_some (map (fun k => commit_unit env T ch2 k (getu st2 k)) (seq 0 (length st2)))
  end.

(** charges handed to a potential for the ordered pair of units (x, y) *)
Definition charges (env : henv) (st : list hunit) (x y : nat) : list f64 :=
  if e_charge env then [hu_charge (getu st x); hu_charge (getu st y)] else repeat fone (e_ncharge env).

(** ** bounding-potential confirmation of a two-leaf-unit event
    (_calculate_out_state_of_two_leaf_unit_bounding_potential and its piecewise-constant twins) *)
Definition confirm2 (env : henv) (T : time) (st1 : list hunit) (a o : nat) (b r u : f64)
  : option (list (Q * Q) * list hunit) :=
  if flt fzero r then
    let x := funiform u fzero b in
    if flt x r then (out <- exchange env T st1 a o ;; Some ([(0, f2q b)], out))
    else Some ([(0, f2q b)], st1)
  else Some ([], st1).

(** ** piecewise constant bounding potential: _displacement_from_piecewise_constant_bounding_potential *)
Definition pw_bound (env : henv) (d1 d2 change : f64) : option f64 * f64 :=
  let cd := fadd (pymax d1 d2) (e_offset env) in
  if fle cd fzero then (None, e_maxd env)
  else if flt (fdiv change cd) (e_maxd env) then (Some cd, fdiv change cd)
  else (None, e_maxd env).

Definition displaced (env : henv) (pos vel : list f64) : option (list f64) :=
  all_some (map (fun d => wrap (fadd (g pos d) (fmul (g vel d) (e_maxd env))) (e_L env)) (seq 0 (e_dim env))).

(** ** lifting: reset; insert ...; get_active_identifier.  Entries are identified by their rank. *)
Definition lift_select (env : henv) (rates : list f64) (active_rank : nat) (u1 u2 : f64)
  : option (nat * list (Q * Q)) :=
  let entries := map (fun k => (f2q (g rates k), Z.of_nat k, Nat.eqb k active_rank)) (seq 0 (length rates)) in
  let negsum := fold_left Qplus (map (fun r => - f2q r) (filter (fun r => negb (flt fzero r)) rates)) 0%Q in
  let draws := (0%Q, f2q (g rates active_rank)) ::
               match e_scheme env with Ratio => [(0%Q, negsum)] | _ => [] end in
  match l_run (e_scheme env) (f2q u1) (f2q u2) entries with
  | LOk _ id => Some (Z.to_nat id, draws)
  | _ => None
  end.

(** ** lexicographic order on identifiers; insertion sort of unit indices by identifier *)
Fixpoint lex_ltb (a b : list Z) : bool :=
  match a, b with
  | [], [] => false
  | [], _ :: _ => true
  | _ :: _, [] => false
  | x :: a', y :: b' => Z.ltb x y || (Z.eqb x y && lex_ltb a' b')
  end.
Fixpoint insert_by (st : list hunit) (i : nat) (l : list nat) : list nat :=
  match l with
  | [] => [i]
  | j :: r => if lex_ltb (hu_id (getu st i)) (hu_id (getu st j)) then i :: j :: r else j :: insert_by st i r
  end.
Definition sort_by_id (st : list hunit) (l : list nat) : list nat := fold_left (fun acc i => insert_by st i acc) l [].

(** ** the handlers *)
Definition run_two_leaf (k : hkind) (env : henv) (fd : feeds) (st : list hunit) : option hres :=
  let leaves := leaf_idxs st in
  match leaves with
  | [i0; i1] =>
      ap <- active_pos st leaves ;;
      let a := nth ap leaves 0%nat in
      let o := nth (1 - ap) leaves 0%nat in
      let ua := getu st a in
      va <- hu_vel ua ;; ts <- hu_ts ua ;;
      sep <- sepv env (hu_pos ua) (hu_pos (getu st o)) ;;
      let ch := charges env st i0 i1 in
      match k with
      | TL =>
          let change := if e_change_required env then Some (g (fd_expo fd) 0) else None in
          let T := time_add ts (g (fd_disp fd) 0) in
          st1 <- slice_all env T st ;;
          out <- exchange env T st1 a o ;;
          Some (mkRes (if e_change_required env then [e_beta env] else []) []
                      [mkPC 0 va [sep] ch change] T st1 out [])
      | TLB =>
          let T := time_add ts (g (fd_bdisp fd) 0) in
          st1 <- slice_all env T st ;;
          sep' <- sepv env (hu_pos (getu st1 a)) (hu_pos (getu st1 o)) ;;
          r <- confirm2 env T st1 a o (g (fd_bder fd) 0) (g (fd_der fd) 0) (g (fd_unif fd) 0) ;;
          Some (mkRes [e_beta env] (fst r)
                      [mkPC 2 va [sep] ch (Some (g (fd_expo fd) 0)); mkPC 3 va [sep'] ch None; mkPC 1 va [sep'] ch None]
                      T st1 (snd r) [])
      | PW2 =>
          np <- displaced env (hu_pos ua) va ;;
          sep2 <- sepv env np (hu_pos (getu st o)) ;;
          let '(rate, disp) := pw_bound env (g (fd_der fd) 0) (g (fd_der fd) 1) (g (fd_expo fd) 0) in
          let T := time_add ts disp in
          st1 <- slice_all env T st ;;
          sep' <- sepv env (hu_pos (getu st1 a)) (hu_pos (getu st1 o)) ;;
          let c1 := [mkPC 1 va [sep] ch None; mkPC 1 va [sep2] ch None] in
          match rate with
          | None => Some (mkRes [e_beta env] [] c1 T st1 st1 [])
          | Some b =>
              r <- confirm2 env T st1 a o b (g (fd_der fd) 2) (g (fd_unif fd) 0) ;;
              Some (mkRes [e_beta env] (fst r) (c1 ++ [mkPC 1 va [sep'] ch None]) T st1 (snd r) [])
          end
      | _ => None
      end
  | _ => None
  end.

(** FixedSeparations...: separations from the index list over the leaf positions *)
Fixpoint pair_up (l : list nat) : list (nat * nat) :=
  match l with i :: j :: r => (i, j) :: pair_up r | _ => [] end.
Definition fixed_seps (env : henv) (poss : list (list f64)) : option (list (list f64)) :=
  all_some (map (fun ij => sepv env (nth (fst ij) poss []) (nth (snd ij) poss [])) (pair_up (e_seps env))).

Definition run_fixed (env : henv) (fd : feeds) (st : list hunit) : option hres :=
  let leaves := leaf_idxs st in
  ap <- active_pos st leaves ;;
  let a := nth ap leaves 0%nat in
  let ua := getu st a in
  va <- hu_vel ua ;; ts <- hu_ts ua ;;
  let ch := repeat fone (e_ncharge env) in
  let poss := map (fun i => hu_pos (getu st i)) leaves in
  seps1 <- fixed_seps env poss ;;
  np <- displaced env (hu_pos ua) va ;;
  let poss2 := map (fun k => if Nat.eqb k ap then np else nth k poss []) (seq 0 (length poss)) in
  seps2 <- fixed_seps env poss2 ;;
  let d1 := g (nth 0 (fd_derv fd) []) ap in
  let d2 := g (nth 1 (fd_derv fd) []) ap in
  let '(rate, disp) := pw_bound env d1 d2 (g (fd_expo fd) 0) in
  let T := time_add ts disp in
  st1 <- slice_all env T st ;;
  seps' <- fixed_seps env (map (fun i => hu_pos (getu st1 i)) leaves) ;;
  let c1 := [mkPC 1 va seps1 ch None; mkPC 1 va seps2 ch None] in
  match rate with
  | None => Some (mkRes [e_beta env] [] c1 T st1 st1 [])
  | Some b =>
      let v3 := nth 2 (fd_derv fd) [] in
      let r := g v3 ap in
      let c2 := c1 ++ [mkPC 1 va seps' ch None] in
      if flt fzero r then
        let x := funiform (g (fd_unif fd) 0) fzero b in
        if flt x r then
          let rates := map (fun k => g v3 k) (seq 0 (length leaves)) in
          sel <- lift_select env rates ap (g (fd_unif fd) 1) (g (fd_unif fd) 2) ;;
          out <- exchange env T st1 a (nth (fst sel) leaves 0%nat) ;;
          Some (mkRes [e_beta env] ((0%Q, f2q b) :: snd sel) c2 T st1 out
                      (map (fun k => (g v3 k, hu_id (getu st (nth k leaves 0%nat)), Nat.eqb k ap))
                           (seq 0 (length leaves))))
        else Some (mkRes [e_beta env] [(0%Q, f2q b)] c2 T st1 st1 [])
      else Some (mkRes [e_beta env] [] c2 T st1 st1 [])
  end.

(** TwoCompositeObjectSummedBoundingPotentialEventHandler *)
Definition run_summed (env : henv) (fd : feeds) (st : list hunit) : option hres :=
  let sl := sort_by_id st (leaf_idxs st) in
  let half := Nat.div (length sl) 2 in
  let first := firstn half sl in
  let second := skipn half sl in
  let '(loc, tgt) := if forallb (fun i => negb (has_vel st i)) second then (first, second) else (second, first) in
  ap <- active_pos st loc ;;
  let a := nth ap loc 0%nat in
  let ua := getu st a in
  va <- hu_vel ua ;; ts <- hu_ts ua ;;
  let nt := length tgt in
  seps1 <- all_some (map (fun t => sepv env (hu_pos ua) (hu_pos (getu st t))) tgt) ;;
  let calls1 := map (fun k => mkPC 2 va [nth k seps1 []] (charges env st a (nth k tgt 0%nat)) (Some (g (fd_expo fd) k)))
                    (seq 0 nt) in
  let T := time_add ts (pymin_list (firstn nt (fd_bdisp fd))) in
  st1 <- slice_all env T st ;;
  let ua1 := getu st1 a in
  seps' <- all_some (map (fun t => sepv env (hu_pos ua1) (hu_pos (getu st1 t))) tgt) ;;
  let calls2 := flat_map (fun k => [mkPC 3 va [nth k seps' []] (charges env st a (nth k tgt 0%nat)) None;
                                    mkPC 1 va [nth k seps' []] (charges env st a (nth k tgt 0%nat)) None]) (seq 0 nt) in
  let ber := fold_left (fun acc k => fadd acc (pymax fzero (g (fd_bder fd) k))) (seq 0 nt) fzero in
  let fdv := fold_left (fun acc k => fadd acc (g (fd_der fd) k)) (seq 0 nt) fzero in
  let tgt0 := map (fun k => fsub fzero (g (fd_der fd) k)) (seq 0 nt) in
  let event_rate := pymax fzero fdv in
  let x := funiform (g (fd_unif fd) 0) fzero ber in
  let base := mkRes (repeat (e_beta env) nt) [(0%Q, f2q ber)] (calls1 ++ calls2) T st1 st1 [] in
  if fle event_rate x then Some base
  else
    (* _fill_lifting *)
    let others := filter (fun k => negb (Nat.eqb k ap)) (seq 0 (length loc)) in     (* non-active local ranks *)
    let rank_of (k : nat) : nat := length (filter (fun j => Nat.ltb j k) others) in
    let der_at (k t : nat) : f64 := g (fd_der fd) (nt + rank_of k * nt + t) in
    seps3 <- all_some (flat_map (fun k => map (fun t => sepv env (hu_pos (getu st1 (nth k loc 0%nat)))
                                                                (hu_pos (getu st1 (nth t tgt 0%nat)))) (seq 0 nt)) others) ;;
    let calls3 := flat_map (fun k => map (fun t => mkPC 1 va [nth (rank_of k * nt + t) seps3 []]
                                                        (charges env st (nth k loc 0%nat) (nth t tgt 0%nat)) None)
                                         (seq 0 nt)) others in
    let loc_rates := map (fun k => if Nat.eqb k ap then event_rate
                                   else fold_left (fun acc t => fadd acc (der_at k t)) (seq 0 nt) fzero)
                         (seq 0 (length loc)) in
    let tgt_rates := map (fun t => fold_left (fun acc k => fsub acc (der_at k t)) others (g tgt0 t)) (seq 0 nt) in
    let local_first := match hu_id (getu st (nth 0 loc 0%nat)), hu_id (getu st (nth 0 tgt 0%nat)) with
                       | x :: _, y :: _ => Z.ltb x y
                       | _, _ => false
                       end in
    let loc_entries := map (fun k => (g loc_rates k, nth k loc 0%nat, Nat.eqb k ap)) (seq 0 (length loc)) in
    let tgt_entries := map (fun t => (g tgt_rates t, nth t tgt 0%nat, false)) (seq 0 nt) in
    let entries := if local_first then loc_entries ++ tgt_entries else tgt_entries ++ loc_entries in
    let rates := map (fun e => fst (fst e)) entries in
    let active_rank := if local_first then ap else (nt + ap)%nat in
    sel <- lift_select env rates active_rank (g (fd_unif fd) 1) (g (fd_unif fd) 2) ;;
    let target_unit := snd (fst (nth (fst sel) entries (fnan, 0%nat, false))) in
    out <- exchange env T st1 a target_unit ;;
    Some (mkRes (repeat (e_beta env) nt) ((0%Q, f2q ber) :: snd sel) (calls1 ++ calls2 ++ calls3) T st1 out
                (map (fun e => (fst (fst e), hu_id (getu st (snd (fst e))), snd e)) entries)).

(** ** CompositeObjectsLifting._pass_composite_object_velocity (root mode: the whole composite object moves).
    The velocity lists handed to _register_velocity_change_leaf_cnode are scaled IN PLACE by the parents' weights
    at every registration, so the k-th leaf sees the list scaled k times (weights of root nodes are 1). *)
Definition split_objects (st : list hunit) : list nat * list nat :=
  let sl := sort_by_id st (leaf_idxs st) in
  let half := Nat.div (length sl) 2 in
  if forallb (fun i => negb (has_vel st i)) (skipn half sl) then (firstn half sl, skipn half sl)
  else (skipn half sl, firstn half sl).

Definition vec_eqb (a b : list f64) : bool :=
  Nat.eqb (length a) (length b) && forallb (fun xy => feq (fst xy) (snd xy)) (combine a b).

Definition pass_velocity (env : henv) (T : time) (st : list hunit) : option (list hunit) :=
  let '(loc, tgt) := split_objects st in
  v <- hu_vel (getu st (nth 0 loc 0%nat)) ;;
  if negb (forallb (fun i => match hu_vel (getu st i) with Some w => vec_eqb w v | None => false end) loc
           && forallb (fun i => negb (has_vel st i)) tgt) then None
  else
    let step (acc : list hunit * list (nat * list f64) * list f64 * list f64) (i : nat) :=
        let '(cur, ch, nv, pv) := acc in
        let u := getu cur i in
        if existsb (Nat.eqb i) loc then
          let cur' := set_unit cur i (mkHU (hu_id u) (hu_pos u) None None (hu_charge u) (hu_parent u) (hu_weight u)) in
          match hu_parent u with
          | Some p => (cur', add_change ch p (map (fun c => fmul c (hu_weight u)) nv),
                       map (fun c => fmul c (hu_weight (getu st p))) nv, pv)
          | None => (cur', ch, nv, pv)
          end
        else
          let cur' := set_unit cur i (mkHU (hu_id u) (hu_pos u) (Some pv) (Some T) (hu_charge u) (hu_parent u)
                                           (hu_weight u)) in
          match hu_parent u with
          | Some p => (cur', add_change ch p (map (fun c => fmul c (hu_weight u)) pv), nv,
                       map (fun c => fmul c (hu_weight (getu st p))) pv)
          | None => (cur', ch, nv, pv)
          end in
    let '(cur, ch, _, _) := fold_left step (leaf_idxs st) (st, [], map fopp v, v) in
    all_some (map (fun k => commit_unit env T ch k (getu cur k)) (seq 0 (length cur))).

(** RootUnitActiveTwoLeafUnitEventHandler: send_event_time of TwoLeafUnitEventHandler on the two branches [st];
    send_out_state(fresh root cnodes [st2]): time-slice them, pass the velocity of the composite object. *)
Definition run_root_tl (env : henv) (fd : feeds) (st st2 : list hunit) : option hres :=
  r <- run_two_leaf TL env fd st ;;
  s2 <- slice_all env (r_time r) st2 ;;
  out <- pass_velocity env (r_time r) s2 ;;
  Some (mkRes (r_expo r) [] (r_calls r) (r_time r) (r_state1 r) out []).

(** RootUnitActiveTwoCompositeObjectSummedBoundingPotentialEventHandler *)
Definition run_root_sum (env : henv) (fd : feeds) (st st2 : list hunit) : option hres :=
  let '(loc, tgt) := split_objects st in
  let l0 := getu st (nth 0 loc 0%nat) in
  v0 <- hu_vel l0 ;; ts <- hu_ts l0 ;;
  if negb (forallb (fun i => match hu_vel (getu st i) with Some w => vec_eqb w v0 | None => false end) loc) then None
  else
    let pairs := flat_map (fun l => map (fun t => (l, t)) tgt) loc in
    let np := length pairs in
    let vel_of (cur : list hunit) (i : nat) := match hu_vel (getu cur i) with Some w => w | None => [] end in
    seps1 <- all_some (map (fun lt => sepv env (hu_pos (getu st (fst lt))) (hu_pos (getu st (snd lt)))) pairs) ;;
    let calls1 := map (fun k => let lt := nth k pairs (0%nat, 0%nat) in
                                mkPC 2 (vel_of st (fst lt)) [nth k seps1 []] (charges env st (fst lt) (snd lt))
                                     (Some (g (fd_expo fd) k))) (seq 0 np) in
    let T := time_add ts (pymin_list (firstn np (fd_bdisp fd))) in
    st1 <- slice_all env T st ;;
    seps' <- all_some (map (fun lt => sepv env (hu_pos (getu st1 (fst lt))) (hu_pos (getu st1 (snd lt)))) pairs) ;;
    let calls2 := flat_map (fun k => let lt := nth k pairs (0%nat, 0%nat) in
                                     [mkPC 3 (vel_of st1 (fst lt)) [nth k seps' []] (charges env st (fst lt) (snd lt)) None;
                                      mkPC 1 (vel_of st1 (fst lt)) [nth k seps' []] (charges env st (fst lt) (snd lt)) None])
                           (seq 0 np) in
    let ber := fold_left (fun acc k => fadd acc (pymax fzero (g (fd_bder fd) k))) (seq 0 np) fzero in
    let fdv := fold_left (fun acc k => fadd acc (g (fd_der fd) k)) (seq 0 np) fzero in
    s2 <- slice_all env T st2 ;;
    let base := mkRes (repeat (e_beta env) np) [] (calls1 ++ calls2) T st1 s2 [] in
    if flt fzero fdv then
      let x := funiform (g (fd_unif fd) 0) fzero ber in
      if flt x fdv then
        out <- pass_velocity env T s2 ;;
        Some (mkRes (repeat (e_beta env) np) [(0%Q, f2q ber)] (calls1 ++ calls2) T st1 out [])
      else Some (mkRes (repeat (e_beta env) np) [(0%Q, f2q ber)] (calls1 ++ calls2) T st1 s2 [])
    else Some base.

(** Out-state of a composite-object event whose bounding event rate [b] is already known (cell bounding
    potential: returned by bounding_potential.derivative; cell veto: stored by send_event_time):
    pairwise derivatives with the target units, thinning, _fill_lifting, lifting, velocity hand-over.
    [d0]: index of the first derivative value consumed. *)
Definition comp_out (env : henv) (fd : feeds) (st0 st1 : list hunit) (T : time) (a : nat) (loc tgt : list nat)
           (b : f64) (use_rate : bool) : option (list (Q * Q) * list pcall * list hunit * list (f64 * list Z * bool)) :=
  let ua1 := getu st1 a in
  va <- hu_vel ua1 ;;
  let nt := length tgt in
  let apos := match filter (fun k => Nat.eqb (nth k loc 0%nat) a) (seq 0 (length loc)) with k :: _ => k | [] => 0%nat end in
  seps' <- all_some (map (fun t => sepv env (hu_pos ua1) (hu_pos (getu st1 t))) tgt) ;;
  let calls2 := map (fun k => mkPC 1 va [nth k seps' []] (charges env st0 a (nth k tgt 0%nat)) None) (seq 0 nt) in
  let fdv := fold_left (fun acc k => fadd acc (g (fd_der fd) k)) (seq 0 nt) fzero in
  let tgt0 := map (fun k => fsub fzero (g (fd_der fd) k)) (seq 0 nt) in
  let event_rate := pymax fzero fdv in
  let x := funiform (g (fd_unif fd) 0) fzero b in
  if fle event_rate x then Some ([(0%Q, f2q b)], calls2, st1, [])
  else
    let others := filter (fun k => negb (Nat.eqb k apos)) (seq 0 (length loc)) in
    let rank_of (k : nat) : nat := length (filter (fun j => Nat.ltb j k) others) in
    let der_at (k t : nat) : f64 := g (fd_der fd) (nt + rank_of k * nt + t) in
    seps3 <- all_some (flat_map (fun k => map (fun t => sepv env (hu_pos (getu st1 (nth k loc 0%nat)))
                                                                (hu_pos (getu st1 (nth t tgt 0%nat)))) (seq 0 nt)) others) ;;
    let calls3 := flat_map (fun k => map (fun t => mkPC 1 va [nth (rank_of k * nt + t) seps3 []]
                                                        (charges env st0 (nth k loc 0%nat) (nth t tgt 0%nat)) None)
                                         (seq 0 nt)) others in
    let loc_rates := map (fun k => if Nat.eqb k apos then (if use_rate then event_rate else fdv)
                                   else fold_left (fun acc t => fadd acc (der_at k t)) (seq 0 nt) fzero)
                         (seq 0 (length loc)) in
    let tgt_rates := map (fun t => fold_left (fun acc k => fsub acc (der_at k t)) others (g tgt0 t)) (seq 0 nt) in
    let local_first := match hu_id (getu st0 (nth 0 loc 0%nat)), hu_id (getu st0 (nth 0 tgt 0%nat)) with
                       | x :: _, y :: _ => Z.ltb x y
                       | _, _ => false
                       end in
    let loc_entries := map (fun k => (g loc_rates k, nth k loc 0%nat, Nat.eqb k apos)) (seq 0 (length loc)) in
    let tgt_entries := map (fun t => (g tgt_rates t, nth t tgt 0%nat, false)) (seq 0 nt) in
    let entries := if local_first then loc_entries ++ tgt_entries else tgt_entries ++ loc_entries in
    let rates := map (fun e => fst (fst e)) entries in
    let active_rank := if local_first then apos else (nt + apos)%nat in
    sel <- lift_select env rates active_rank (g (fd_unif fd) 1) (g (fd_unif fd) 2) ;;
    let target_unit := snd (fst (nth (fst sel) entries (fnan, 0%nat, false))) in
    out <- exchange env T st1 a target_unit ;;
    Some ((0%Q, f2q b) :: snd sel, calls2 ++ calls3, out,
          map (fun e => (fst (fst e), hu_id (getu st0 (snd (fst e))), snd e)) entries).

(** Cell-bounding handlers: the bounding potential is called with the RELATIVE CELL instead of a separation; the
    cell (an opaque object of the cell system) is represented by the one-entry vector [fd_disp[0]]. *)
Definition run_cellb (env : henv) (fd : feeds) (st : list hunit) : option hres :=
  let leaves := leaf_idxs st in
  match leaves with
  | [i0; i1] =>
      ap <- active_pos st leaves ;;
      let a := nth ap leaves 0%nat in
      let o := nth (1 - ap) leaves 0%nat in
      let ua := getu st a in
      va <- hu_vel ua ;; ts <- hu_ts ua ;;
      let cell := [g (fd_disp fd) 0] in
      let ch := charges env st i0 i1 in
      let T := time_add ts (g (fd_bdisp fd) 0) in
      st1 <- slice_all env T st ;;
      sep' <- sepv env (hu_pos (getu st1 a)) (hu_pos (getu st1 o)) ;;
      r <- confirm2 env T st1 a o (g (fd_bder fd) 0) (g (fd_der fd) 0) (g (fd_unif fd) 0) ;;
      Some (mkRes [e_beta env] (fst r)
                  [mkPC 2 va [cell] ch (Some (g (fd_expo fd) 0)); mkPC 3 va [cell] ch None; mkPC 1 va [sep'] ch None]
                  T st1 (snd r) [])
  | _ => None
  end.

Definition run_ccellb (env : henv) (fd : feeds) (st : list hunit) : option hres :=
  let '(loc, tgt) := split_objects st in
  ap <- active_pos st loc ;;
  let a := nth ap loc 0%nat in
  let ua := getu st a in
  va <- hu_vel ua ;; ts <- hu_ts ua ;;
  let cell := [g (fd_disp fd) 0] in
  let bch := if e_charge env then hu_charge ua :: map (fun t => hu_charge (getu st t)) tgt
             else repeat fone (e_ncharge env) in
  let T := time_add ts (g (fd_bdisp fd) 0) in
  st1 <- slice_all env T st ;;
  let b := g (fd_bder fd) 0 in
  r <- comp_out env fd st st1 T a loc tgt b false ;;
  let '(unif, calls, out, ins) := r in
  Some (mkRes [e_beta env] unif
              ([mkPC 2 va [cell] bch (Some (g (fd_expo fd) 0)); mkPC 3 va [cell] bch None] ++ calls) T st1 out ins).

(** Cell-veto handlers, send_out_state only.  [st] = the units of the stored in-state (the first [e_seps[0]] units)
    followed by the units of the target root cnode handed over by the mediator (none: target cell empty).
    The event time and the stored bounding event rate of send_event_time are inputs: fd_bdisp = [quotient;
    remainder], fd_bder = [rate] (send_event_time itself: C18 glue). *)
Definition run_cv (k : hkind) (env : henv) (fd : feeds) (st : list hunit) : option hres :=
  let na := nth 0 (e_seps env) 0%nat in
  let T := mkTime (g (fd_bdisp fd) 0) (g (fd_bdisp fd) 1) in
  let b := g (fd_bder fd) 0 in
  s_act <- slice_all env T (firstn na st) ;;
  let st1 := s_act ++ skipn na st in
  if Nat.eqb na (length st) then Some (mkRes [] [] [] T st1 st1 [])
  else
    match k with
    | LCV =>
        let leaves := leaf_idxs st1 in
        match leaves with
        | [i0; i1] =>
            ap <- active_pos st1 leaves ;;
            let a := nth ap leaves 0%nat in
            let o := nth (1 - ap) leaves 0%nat in
            va <- hu_vel (getu st1 a) ;;
            sep' <- sepv env (hu_pos (getu st1 a)) (hu_pos (getu st1 o)) ;;
            r <- confirm2 env T st1 a o b (g (fd_der fd) 0) (g (fd_unif fd) 0) ;;
            Some (mkRes [] (fst r) [mkPC 1 va [sep'] (charges env st i0 i1) None] T st1 (snd r) [])
        | _ => None
        end
    | CCV =>
        let '(loc, tgt) := split_objects st1 in
        ap <- active_pos st1 loc ;;
        let a := nth ap loc 0%nat in
        r <- comp_out env fd st st1 T a loc tgt b false ;;
        let '(unif, calls, out, ins) := r in
        Some (mkRes [] unif calls T st1 out ins)
    | _ => None
    end.

(** [st2]: the fresh root cnodes handed to send_out_state by the mediator (root-unit-active handlers only). *)
Definition run_handler2 (k : hkind) (env : henv) (fd : feeds) (st st2 : list hunit) : option hres :=
  match k with
  | TL | TLB | PW2 => run_two_leaf k env fd st
  | FIXED => run_fixed env fd st
  | SUMMED => run_summed env fd st
  | ROOTTL => run_root_tl env fd st st2
  | ROOTSUM => run_root_sum env fd st st2
  | CELLB => run_cellb env fd st
  | CCELLB => run_ccellb env fd st
  | LCV | CCV => run_cv k env fd st
  end.

Definition run_handler (k : hkind) (env : henv) (fd : feeds) (st : list hunit) : option hres :=
  run_handler2 k env fd st st.
