(** * Model/Cells.v — binary64 model of the per-direction float arithmetic of
    jellyfysh/activator/internal_state/cell_occupancy/cells/cuboid_cells.py
    (class CuboidCells, after the repair 0904f0b of finding F2).

    Everything here is about ONE direction [index] of the box: the constructor and
    [position_to_cell] treat the directions independently and combine them with the
    strides of Model/CellIndex.v.

      side            = system_lengths[index] / cells_per_side[index]
      _cell_index x   = min(int(x / side), cells_per_side[index] - 1)
      constructor     : the four [while] loops that step floats to find cell_min / cell_max

    No proofs in this file (Proofs/CellsProofs.v). *)
From Coq Require Import ZArith Bool List.
Require Import JF.Base.F64 JF.Base.PyFloat.
Local Open Scope Z_scope.

(** [_next_float_up] / [_next_float_down] (bit increment on the int64 image). *)
Definition next_float_up (x : f64) : f64 := fsucc x.
Definition next_float_down (x : f64) : f64 := fpred x.

(** [system_lengths[index] / cells_per_side[index]]  (float / int: the int is converted exactly). *)
Definition side (L : f64) (n : Z) : f64 := fdiv L (of_Z n).

(** Unclamped index, the expression used before the repair of F2. *)
Definition raw_idx (s : f64) (x : f64) : Z := py_int (fdiv x s).

(** [CuboidCells._cell_index(position_entry, index)]. *)
Definition idx (s : f64) (n : Z) (x : f64) : Z := Z.min (raw_idx s x) (n - 1).

(** [while cond(x): x = step(x)] with fuel; [None] = fuel exhausted. *)
Fixpoint step_while {X : Type} (fuel : nat) (step : X -> X) (cond : X -> bool) (x : X) : option X :=
  match fuel with
  | O => None
  | S k => if cond x then step_while k step cond (step x) else Some x
  end.

Definition obind {A B : Type} (o : option A) (f : A -> option B) : option B :=
  match o with Some a => f a | None => None end.

(** The two loops for the lower end, abstractly in the index function [ix] and the float steps
    (lines "while self._cell_index(lower_position, index) == ...: lower = down(lower)" and
    "while ... < ...: lower = up(lower)"). *)
Definition lower_loops {X : Type} (fuel : nat) (up down : X -> X) (ix : X -> Z) (i : Z) (start : X)
  : option X :=
  obind (step_while fuel down (fun x => ix x =? i) start)
        (fun x => step_while fuel up (fun x => ix x <? i) x).

(** The two loops for the upper end. *)
Definition upper_loops {X : Type} (fuel : nat) (up down : X -> X) (ix : X -> Z) (i : Z) (start : X)
  : option X :=
  obind (step_while fuel up (fun x => ix x =? i) start)
        (fun x => step_while fuel down (fun x => ix x >? i) x).

(** [lower_position = cell_identifier_list[index] * side]   (int * float). *)
Definition lower_start (s : f64) (i : Z) : f64 := fmul (of_Z i) s.
Definition upper_start (s : f64) (i : Z) : f64 := fmul (of_Z (i + 1)) s.

(** cell_min entry of the cell with identifier entry [i] in a direction of length [L] with [n] cells. *)
Definition cell_min (fuel : nat) (L : f64) (n i : Z) : option f64 :=
  let s := side L n in
  let lo := lower_start s i in
  if fgt lo fzero then lower_loops fuel next_float_up next_float_down (idx s n) i lo
  else Some lo.

(** cell_max entry: the last cell's maximum is the largest float below [L]. *)
Definition cell_max (fuel : nat) (L : f64) (n i : Z) : option f64 :=
  let s := side L n in
  if i + 1 =? n then Some (next_float_down L)
  else upper_loops fuel next_float_up next_float_down (idx s n) i (upper_start s i).

(** All extents of one direction: [(cell_min i, cell_max i)] for i = 0 .. n-1. *)
Fixpoint extents_from (fuel : nat) (L : f64) (n : Z) (i : Z) (count : nat)
  : list (option f64 * option f64) :=
  match count with
  | O => nil
  | S k => (cell_min fuel L n i, cell_max fuel L n i) :: extents_from fuel L n (i + 1) k
  end.
Definition extents (fuel : nat) (L : f64) (n : Z) : list (option f64 * option f64) :=
  extents_from fuel L n 0 (Z.to_nat n).

(** Fuel used by the correspondence (the real loops take a handful of steps). *)
Definition default_fuel : nat := 64.
