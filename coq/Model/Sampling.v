(** * Model/Sampling.v — fixed-interval sampling / dumping and end of run (C17).

    [FixedIntervalSamplingEventHandler]: [_event_time] starts at Time(0.0, 0.0), or at
    Time.from_float(-interval) when the first sample is to be taken at time zero; every
    [send_event_time] does [_event_time += interval].  [FixedIntervalDumpingEventHandler] likewise
    (from Time(0.0, 0.0)); [FinalTimeEndOfRunEventHandler] returns Time.from_float(end_of_run_time). *)
From Coq Require Import ZArith QArith List Bool.
Require Import JF.Base.F64 JF.Base.PyFloat JF.Model.Time JF.Model.Kinematics.
Import ListNotations.

(** the k-th candidate time (k = 1, 2, ...) of a fixed-interval handler *)
Fixpoint nth_time (t0 : time) (dt : f64) (k : nat) : time :=
  match k with
  | O => t0
  | S k' => time_add (nth_time t0 dt k') dt
  end.

Definition time_bits_eqb (t : time) (r : ftime) : bool :=
  feqb_bits (tq t) (fst r) && feqb_bits (tr t) (snd r).

(** recorded candidate times [ts] of one handler, in order, equal the model's iteration *)
Fixpoint times_conform (t : time) (dt : f64) (ts : list ftime) : bool :=
  match ts with
  | [] => true
  | r :: rest => let t' := time_add t dt in time_bits_eqb t' r && times_conform t' dt rest
  end.

(** a periodic handler as recorded: interval, initial [_event_time], its successive candidate times *)
Record periodic := { p_dt : f64; p_t0 : ftime; p_times : list ftime }.

Definition periodic_ok (p : periodic) : bool :=
  times_conform (mkTime (fst (p_t0 p)) (snd (p_t0 p))) (p_dt p) (p_times p).

(** ** Fully time-sliced states at samples. *)
Definition stamped_with (T : ftime) (u : unit) : bool :=
  match u_vel u, u_ts u with
  | Some _, Some ts => ftime_eqb ts T
  | None, _ => true
  | Some _, None => false
  end.

Definition is_output_kind (k : ekind) : bool :=
  match k with KSampling | KEndOfRun => true | _ => false end.

(** states after the commits zipped with the legs: at sampling / end-of-run legs every moving unit of
    the WHOLE global state carries the commit time as time stamp *)
Fixpoint samples_sliced (ls : list kleg) (ss : list kstate) : bool :=
  match ls, ss with
  | l :: lr, s :: sr =>
      (negb (is_output_kind (k_kind l)) || forallb (stamped_with (k_time l)) (s_units s))
      && samples_sliced lr sr
  | _, _ => true
  end.

Record scase := {
  sc_k : kcase;
  sc_periodic : list periodic;        (* all fixed-interval handlers of the run *)
  sc_end : option (f64 * ftime)       (* configured end time and the recorded candidate of the end-of-run handler *)
}.

Definition end_ok (e : option (f64 * ftime)) : bool :=
  match e with
  | None => true
  | Some (x, r) => time_bits_eqb (from_float x) r
  end.

Definition check_scase (c : scase) : bool :=
  let Ls := map f2q (kc_L (sc_k c)) in
  all_finite (kc_L (sc_k c)) && init_ok Ls (kc_init (sc_k c))
  && match run_states_k Ls 0 (kinit (sc_k c)) (kc_legs (sc_k c)) with
     | Some ss => samples_sliced (kc_legs (sc_k c)) ss
     | None => false
     end
  && forallb periodic_ok (sc_periodic c)
  && end_ok (sc_end c).
