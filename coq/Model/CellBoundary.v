(** * Model/CellBoundary.v — C11 / C07 glue: the cell-boundary event handler (binary64, bit-exact).

    Mirrors jellyfysh/event_handler/cell_boundary_event_handler.py (send_event_time, send_out_state) for trees with at
    most two levels.  The cell system is an ORACLE here (its own correspondence and theorems are C16): for the cell of the
    relevant unit the inputs are, per direction, [cell_min] of the neighbour in positive direction and [cell_max] of the
    neighbour in negative direction, as the real [neighbor_cell] returns them.  [next_image(s, d) = s + L_d].
    No proofs in this file. *)
From Coq Require Import ZArith List Bool Arith.
Require Import JF.Base.F64 JF.Base.PyFloat JF.Model.Time JF.Model.Periodic JF.Model.TimeSlice JF.Model.Lifting
        JF.Model.Kinematics JF.Model.Handlers.
Import ListNotations.

Record cbcand := mkCand { cb_t : f64; cb_bound : f64; cb_dir : nat }.

(** candidate of one direction, [None] when the velocity component is zero ([!= 0.0] is false) *)
Definition cb_candidate (x v L bmin bmax : f64) (d : nat) : option cbcand :=
  if fne v fzero then
    if fgt v fzero then
      let sep := fsub bmin x in
      let sep' := if flt sep fzero then fadd sep L else sep in
      Some (mkCand (fdiv sep' v) bmin d)
    else
      let sep := fsub x bmax in
      let sep' := if flt sep fzero then fadd sep L else sep in
      Some (mkCand (fdiv sep' (fabs v)) bmax d)
  else None.

Definition cb_better (cur : cbcand) (c : option cbcand) : cbcand :=
  match c with
  | Some c' => if flt (cb_t c') (cb_t cur) then c' else cur
  | None => cur
  end.

Definition cb_start : cbcand := mkCand finf fnan 0.

Definition cb_candidates (pos vel Ls bmins bmaxs : list f64) : list (option cbcand) :=
  map (fun d => cb_candidate (nth d pos fnan) (nth d vel fnan) (nth d Ls fnan) (nth d bmins fnan) (nth d bmaxs fnan) d)
      (seq 0 (length vel)).

Definition cb_choose (pos vel Ls bmins bmaxs : list f64) : option cbcand :=
  let best := fold_left cb_better (cb_candidates pos vel Ls bmins bmaxs) cb_start in
  if flt (cb_t best) finf then Some best else None.          (* assert current_smallest_time_to_boundary < inf *)

(** send_event_time: the relevant unit is unit [r] of the flat in-state *)
Definition cb_event (st : list hunit) (r : nat) (Ls bmins bmaxs : list f64) : option (time * cbcand) :=
  let u := getu st r in
  match hu_vel u, hu_ts u with
  | Some v, Some ts =>
      match cb_choose (hu_pos u) v Ls bmins bmaxs with
      | Some c => Some (time_add ts (cb_t c), c)
      | None => None
      end
  | _, _ => None
  end.

Fixpoint set_nth (l : list f64) (k : nat) (x : f64) : list f64 :=
  match l, k with
  | [], _ => []
  | _ :: r, O => x :: r
  | y :: r, S k' => y :: set_nth r k' x
  end.

(** send_out_state: time-slice every unit, then put the relevant unit onto the boundary *)
Definition slice_unit_Ls (Ls : list f64) (T : time) (u : hunit) : option hunit :=
  match hu_vel u, hu_ts u with
  | None, _ => Some u
  | Some v, Some ts =>
      match time_slice_position (hu_pos u) v T ts Ls with
      | Some p => Some (mkHU (hu_id u) p (Some v) (Some T) (hu_charge u) (hu_parent u) (hu_weight u))
      | None => None
      end
  | Some _, None => None
  end.

Definition cb_out_state (Ls : list f64) (T : time) (c : cbcand) (st : list hunit) (r : nat) : option (list hunit) :=
  match all_some (map (slice_unit_Ls Ls T) st) with
  | Some st1 =>
      Some (map (fun i => let u := getu st1 i in
                          if Nat.eqb i r
                          then mkHU (hu_id u) (set_nth (hu_pos u) (cb_dir c) (cb_bound c)) (hu_vel u) (hu_ts u)
                                    (hu_charge u) (hu_parent u) (hu_weight u)
                          else u) (seq 0 (length st1)))
  | None => None
  end.
