(** * Model/CellIndex.v — integer model of the index arithmetic of CuboidCells /
    CuboidPeriodicCells (any dimension, unequal numbers of cells per side).

    A cell is named by its identifier, a list of per-direction indices [id_k] with
    [0 <= id_k < n_k]; [ns] is [_cells_per_side].  The cell list [_cells] is indexed by the
    flat index [sum id_k * _cumulative_product[k]].

    No proofs in this file (Proofs/CellIndexProofs.v). *)
From Coq Require Import ZArith Bool List.
Import ListNotations.
Local Open Scope Z_scope.

Definition ident := list Z.

Definition ident_eq_dec : forall a b : ident, {a = b} + {a <> b} := list_eq_dec Z.eq_dec.

(** [_cumulative_product = [1, n0, n0*n1, ...]] (one entry per direction). *)
Fixpoint strides_from (acc : Z) (ns : list Z) : list Z :=
  match ns with
  | [] => []
  | n :: r => acc :: strides_from (acc * n) r
  end.
Definition strides (ns : list Z) : list Z := strides_from 1 ns.

Fixpoint dot (a b : list Z) : Z :=
  match a, b with
  | x :: a', y :: b' => x * y + dot a' b'
  | _, _ => 0
  end.

(** [sum(identifier[index] * _cumulative_product[index] for index in range(dimension))]. *)
Definition flat (ns : list Z) (id : ident) : Z := dot id (strides ns).

Fixpoint prod (ns : list Z) : Z :=
  match ns with [] => 1 | n :: r => n * prod r end.

(** [number_of_cells]. *)
Definition number_of_cells (ns : list Z) : Z := prod ns.

(** Inverse of [flat]. *)
Fixpoint unflat (ns : list Z) (k : Z) : ident :=
  match ns with
  | [] => []
  | n :: r => (k mod n) :: unflat r (k / n)
  end.

(** The constructor's odometer: "find the first d with id[d] + 1 < n[d] (else the last d);
    id[d] += 1; all smaller entries := 0". *)
Fixpoint next_ident (ns : list Z) (id : ident) : ident :=
  match id, ns with
  | i :: id', n :: ns' =>
      if i + 1 <? n then (i + 1) :: id'
      else match id' with
           | [] => [i + 1]
           | _ => 0 :: next_ident ns' id'
           end
  | _, _ => id
  end.

Definition zero (ns : list Z) : ident := map (fun _ => 0) ns.

Fixpoint idents_from (ns : list Z) (id : ident) (count : nat) : list ident :=
  match count with
  | O => []
  | S k => id :: idents_from ns (next_ident ns id) k
  end.
(** Identifiers of [_cells] in list order. *)
Definition all_idents (ns : list Z) : list ident := idents_from ns (zero ns) (Z.to_nat (prod ns)).

Fixpoint validb (ns : list Z) (id : ident) : bool :=
  match id, ns with
  | [], [] => true
  | i :: id', n :: ns' => (0 <=? i) && (i <? n) && validb ns' id'
  | _, _ => false
  end.

Definition valid (ns : list Z) (id : ident) : Prop := Forall2 (fun i n => 0 <= i < n) id ns.

(** Pointwise combination of two identifiers and the counts. *)
Fixpoint zip3 (f : Z -> Z -> Z -> Z) (a b ns : list Z) : list Z :=
  match a, b, ns with
  | x :: a', y :: b', n :: ns' => f x y n :: zip3 f a' b' ns'
  | _, _, _ => []
  end.

(** Index arithmetic the float-midpoint code of [relative_cell] / [translate] stands for:
    [relative_cell(cell, reference)] = cell - reference, [translate(cell, rel)] = cell + rel,
    per direction modulo the number of cells. *)
Definition relative (ns : list Z) (c ref : ident) : ident := zip3 (fun x y n => (x - y) mod n) c ref ns.
Definition translate (ns : list Z) (c rel : ident) : ident := zip3 (fun x y n => (x + y) mod n) c rel ns.

(** Replace entry [d] of [id] by [f id_d n_d]. *)
Fixpoint upd_dir (f : Z -> Z -> Z) (d : nat) (id ns : list Z) : list Z :=
  match d, id, ns with
  | O, i :: id', n :: _ => f i n :: id'
  | S d', i :: id', _ :: ns' => i :: upd_dir f d' id' ns'
  | _, _, _ => id
  end.

Definition sgn (positive : bool) : Z := if positive then 1 else -1.

(** [CuboidPeriodicCells.neighbor_cell]. *)
Definition neighbor_p (ns : list Z) (id : ident) (d : nat) (positive : bool) : ident :=
  upd_dir (fun i n => (i + sgn positive) mod n) d id ns.

(** [CuboidCells.neighbor_cell] (no periodic boundaries): [None] at the border. *)
Definition neighbor_np (ns : list Z) (id : ident) (d : nat) (positive : bool) : option ident :=
  let i := nth d id 0 in
  let n := nth d ns 0 in
  if positive then
    if i + 1 >=? n then None else Some (upd_dir (fun i _ => i + 1) d id ns)
  else
    if i - 1 <? 0 then None else Some (upd_dir (fun i _ => i - 1) d id ns).

(** Unit step in direction [d] as a relative cell. *)
Definition unit_cell (ns : list Z) (d : nat) (positive : bool) : ident :=
  upd_dir (fun _ n => sgn positive mod n) d (zero ns) ns.

Fixpoint range_from (a : Z) (count : nat) : list Z :=
  match count with
  | O => []
  | S k => a :: range_from (a + 1) k
  end.
(** [range(-layers, layers + 1)]. *)
Definition offsets (layers : Z) : list Z := range_from (- layers) (Z.to_nat (2 * layers + 1)).

(** [CuboidPeriodicCells._yield_nearby_cells]: itertools.product of the per-direction ranges,
    each entry wrapped by [% cells_per_side]; possibly with repetitions (when 2*layers+1 exceeds
    the number of cells in a direction). *)
Fixpoint nearby_raw_p (layers : Z) (ns : list Z) (id : ident) : list ident :=
  match id, ns with
  | [], [] => [[]]
  | i :: id', n :: ns' =>
      flat_map (fun d => map (cons ((i + d) mod n)) (nearby_raw_p layers ns' id')) (offsets layers)
  | _, _ => []
  end.
(** [_nearby_cells[cell] = set(...)]: the de-duplicated set. *)
Definition nearby_p (layers : Z) (ns : list Z) (id : ident) : list ident :=
  nodup ident_eq_dec (nearby_raw_p layers ns id).

(** [CuboidCells._yield_nearby_cells]: identifiers outside the grid are skipped. *)
Fixpoint nearby_np (layers : Z) (ns : list Z) (id : ident) : list ident :=
  match id, ns with
  | [], [] => [[]]
  | i :: id', n :: ns' =>
      flat_map (fun d => if (0 <=? i + d) && (i + d <? n)
                         then map (cons (i + d)) (nearby_np layers ns' id') else [])
               (offsets layers)
  | _, _ => []
  end.
