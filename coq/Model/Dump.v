(** * Model/Dump.v — dump / resume (C19).

    Part 1: a mediator loop over an abstract scheduler interface.  Everything except the scheduler is
    pickled as is ([dill] round trip = identity on values; runtime behaviour of dill itself is outside
    the model); the heap scheduler is pickled through [__getstate__] / [__setstate__], which REBUILDS
    the C heap, so the resumed run continues with a different but observationally equivalent scheduler.
    Part 2: bit-for-bit comparison of two recorded leg sequences (original run after the dump vs the
    resumed run; run with dumping minus the dumping events vs run without). *)
From Coq Require Import List Bool Arith ZArith.
Require Import JF.Base.F64 JF.Model.Kinematics.
Import ListNotations.

Section Mediator.
  (** [R]: everything but the scheduler (global state, activator, handlers, random stream, settings);
      [S]: scheduler; [H]: handlers; [T]: times; [E]: what is observed of a committed event. *)
  Variables R Sc H T E : Type.
  Variable push : Sc -> T -> H -> Sc.
  Variable trash : Sc -> H -> Sc.
  Variable get : Sc -> option H.              (* get_succeeding_event; None = SchedulerError *)
  (** one leg outside the scheduler: candidates to push, then (given the pick) the observed event,
      the new rest-state and the handlers to trash *)
  Variable produce : R -> list (T * H) * R.
  Variable commit : R -> H -> option (E * R * list H).     (* None = end of run *)

  Definition push_all (s : Sc) (l : list (T * H)) : Sc := fold_left (fun s c => push s (fst c) (snd c)) l s.
  Definition trash_all (s : Sc) (l : list H) : Sc := fold_left trash l s.

  Definition leg (st : R * Sc) : option (E * (R * Sc)) :=
    let '(cands, r1) := produce (fst st) in
    let s1 := push_all (snd st) cands in
    match get s1 with
    | None => None
    | Some h =>
        match commit r1 h with
        | None => None
        | Some (e, r2, tr) => Some (e, (r2, trash_all s1 tr))
        end
    end.

  Fixpoint run (n : nat) (st : R * Sc) : list E :=
    match n with
    | O => []
    | S n' => match leg st with
              | Some (e, st') => e :: run n' st'
              | None => []
              end
    end.

  (** observational equivalence of schedulers: a bisimulation for the interface *)
  Record bisim (eqv : Sc -> Sc -> Prop) : Prop := {
    b_push : forall s s' t h, eqv s s' -> eqv (push s t h) (push s' t h);
    b_trash : forall s s' h, eqv s s' -> eqv (trash s h) (trash s' h);
    b_get : forall s s', eqv s s' -> get s = get s'
  }.
End Mediator.

(** ** Part 2: recorded leg sequences, compared bit for bit. *)
Fixpoint units_eqb (a b : list unit) : bool :=
  match a, b with
  | [], [] => true
  | x :: a', y :: b' => units_eqb_one x y && units_eqb a' b'
  | _, _ => false
  end.

Fixpoint cands_eqb (a b : list (nat * ftime)) : bool :=
  match a, b with
  | [], [] => true
  | (h, t) :: a', (k, u) :: b' => Nat.eqb h k && ftime_eqb t u && cands_eqb a' b'
  | _, _ => false
  end.

Fixpoint nats_eqb (a b : list nat) : bool :=
  match a, b with
  | [], [] => true
  | x :: a', y :: b' => Nat.eqb x y && nats_eqb a' b'
  | _, _ => false
  end.

Definition kleg_eqb (a b : kleg) : bool :=
  Nat.eqb (k_pick a) (k_pick b) && ftime_eqb (k_time a) (k_time b)
  && cands_eqb (k_cands a) (k_cands b) && units_eqb (k_out a) (k_out b)
  && nats_eqb (k_trash a) (k_trash b) && units_eqb (k_after a) (k_after b).

Fixpoint klegs_eqb (a b : list kleg) : bool :=
  match a, b with
  | [], [] => true
  | x :: a', y :: b' => kleg_eqb x y && klegs_eqb a' b'
  | _, _ => false
  end.

(** remove the dumping handler [d] from a recorded run: its legs, its candidates, its trash entries.
    The candidates pushed at the beginning of a removed leg were created by the PREVIOUS event; they
    are carried over to the next kept leg. *)
Fixpoint strip_dump_c (d : nat) (carry : list (nat * ftime)) (ls : list kleg) : list kleg :=
  match ls with
  | [] => []
  | l :: r =>
      let cs := carry ++ filter (fun c => negb (Nat.eqb (fst c) d)) (k_cands l) in
      if Nat.eqb (k_pick l) d then strip_dump_c d cs r
      else {| k_kind := k_kind l; k_cands := cs; k_pick := k_pick l; k_time := k_time l; k_out := k_out l;
              k_trash := filter (fun h => negb (Nat.eqb h d)) (k_trash l); k_after := k_after l |}
           :: strip_dump_c d [] r
  end.
Definition strip_dump (d : nat) (ls : list kleg) : list kleg := strip_dump_c d [] ls.

Record dcase := {
  d_orig_suffix : list kleg;     (* legs of the dumping run after the dump *)
  d_resumed : list kleg          (* legs of the resumed run (same length) *)
}.
Definition check_dcase (c : dcase) : bool := klegs_eqb (d_orig_suffix c) (d_resumed c).

Record icase := {
  i_dump_handler : nat;
  i_with : list kleg;            (* run with dumping *)
  i_without : list kleg          (* same seed without dumping; as long as the stripped run *)
}.
Definition check_icase (c : icase) : bool :=
  klegs_eqb (firstn (length (i_without c)) (strip_dump (i_dump_handler c) (i_with c))) (i_without c).
