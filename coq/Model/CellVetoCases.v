(** * Model/CellVetoCases.v — case type and checker for the cell-veto glue correspondence (C18).
    Floats cross the boundary as 64-bit patterns. *)
From Coq Require Import ZArith Bool List.
Require Import JF.Base.F64 JF.Base.PyFloat JF.Model.Time JF.Model.CellIndex JF.Model.CellVeto.
Import ListNotations.
Local Open Scope Z_scope.

(** one direction as recorded from the handler: bounds per offset (upper, -lower);
    walker = (total, mean, table) with table rows ((offset index, rate), optional second item) *)
Definition wraw := (Z * Z * list ((nat * Z) * option (nat * Z)))%type.
Definition draw := (list (Z * Z) * wraw * wraw)%type.

Definition mk_walker (w : wraw) : f64 * f64 * list frow :=
  let '(t, m, tbl) := w in
  (of_bits t, of_bits m,
   map (fun r : (nat * Z) * option (nat * Z) =>
          let '((i0, r0), s) := r in
          ((i0, of_bits r0), match s with Some (i1, r1) => Some (i1, of_bits r1) | None => None end)) tbl).

Definition mk_dir (d : draw) : cvdir :=
  let '(bs, up, lo) := d in
  mkDir (map (fun b : Z * Z => (of_bits (fst b), of_bits (snd b))) bs) (mk_walker up) (mk_walker lo).

Inductive cvexp :=
| XOk (tq tr : Z) (target : ident) (ber : Z)
      (exchanged : bool)         (* send_out_state handed the velocity to the target unit *)
| XAssertionError
| XIndexError.

Record cvquery := mkQ {
  q_dir : nat; q_active : ident; q_sq : Z; q_sr : Z; q_speed : Z; q_cf : Z;
  q_row : nat; q_u : Z; q_e : Z;
  q_out : option (Z * Z);        (* target cell occupied: (derivative returned by the potential, confirmation draw) *)
  q_exp : cvexp }.

Inductive cvcase := CVGrid (ns : list Z) (seps : list ident) (dirs : list draw) (queries : list cvquery).

Fixpoint ident_eqb (a b : ident) : bool :=
  match a, b with
  | [], [] => true
  | x :: a', y :: b' => Z.eqb x y && ident_eqb a' b'
  | _, _ => false
  end.

(** initialisation: the totals / means of both walkers are those of max(bound, 0.0) over the offsets *)
Definition check_dir (d : cvdir) : bool :=
  let ru := walker_rates (d_bounds d) 0 in
  let rl := walker_rates (d_bounds d) 1 in
  let '(tu, mu, _) := d_upper d in
  let '(tl, ml, _) := d_lower d in
  feqb_bits (walker_total ru) tu && feqb_bits (walker_mean ru) mu
  && feqb_bits (walker_total rl) tl && feqb_bits (walker_mean rl) ml.

Definition check_query (ns : list Z) (seps : list ident) (dirs : list cvdir) (q : cvquery) : bool :=
  match nth_error dirs (q_dir q) with
  | None => false
  | Some d =>
      let r := cv_send_event_time ns seps d (q_active q) (mkTime (of_bits (q_sq q)) (of_bits (q_sr q)))
                 (of_bits (q_speed q)) (of_bits (q_cf q)) (q_row q) (of_bits (q_u q)) (of_bits (q_e q)) in
      match r, q_exp q with
      | CVOk t _ target ber, XOk tq' tr' target' ber' ex =>
          feqb_bits (tq t) (of_bits tq') && feqb_bits (tr t) (of_bits tr')
          && ident_eqb target target' && feqb_bits ber (of_bits ber')
          && Bool.eqb ex (cv_out_exchanged ber
                            (match q_out q with Some (dr, u) => Some (of_bits dr, of_bits u) | None => None end))
      | CVAssertionError, XAssertionError => true
      | CVIndexError, XIndexError => true
      | _, _ => false
      end
  end.

Definition check_cvcase (c : cvcase) : bool :=
  match c with
  | CVGrid ns seps dirs queries =>
      let ds := map mk_dir dirs in
      forallb check_dir ds && forallb (check_query ns seps ds) queries
  end.
