(** * Model/HandlersCases.v — case type and checker of the C01 handler-glue correspondence.

    One case = one send_event_time + send_out_state of a real event handler on a real Node/Unit in-state with
    stub potentials and patched draws.  The model (Model/Handlers.v) must reproduce bit for bit: the arguments
    of random.expovariate, every call of the (bounding) potential (velocity, separation vectors, charges,
    potential change), the candidate event time, every unit after send_event_time and after send_out_state
    (position, velocity, time stamp), the lifting.insert calls; and exactly (as rationals) the arguments of
    random.uniform. *)
From Coq Require Import ZArith QArith List Bool Arith.
Require Import JF.Base.F64 JF.Model.Time JF.Model.Lifting JF.Model.Kinematics JF.Model.Handlers.
Import ListNotations.

Fixpoint leqb {A : Type} (f : A -> A -> bool) (a b : list A) : bool :=
  match a, b with
  | [], [] => true
  | x :: a', y :: b' => f x y && leqb f a' b'
  | _, _ => false
  end.

Definition oeqb {A : Type} (f : A -> A -> bool) (a b : option A) : bool :=
  match a, b with
  | None, None => true
  | Some x, Some y => f x y
  | _, _ => false
  end.

Definition fl_eqb := leqb feqb_bits.
Definition time_eqb (a b : time) : bool := feqb_bits (tq a) (tq b) && feqb_bits (tr a) (tr b).

Definition pcall_eqb (a b : pcall) : bool :=
  Nat.eqb (pc_which a) (pc_which b) && fl_eqb (pc_vel a) (pc_vel b) && leqb fl_eqb (pc_seps a) (pc_seps b) &&
  fl_eqb (pc_charges a) (pc_charges b) && oeqb feqb_bits (pc_change a) (pc_change b).

(** observed unit: identifier, position, velocity, time stamp *)
Definition ounit := (list Z * list f64 * option (list f64) * option time)%type.
Definition ounit_of (u : hunit) : ounit := (hu_id u, hu_pos u, hu_vel u, hu_ts u).
Definition ounit_eqb (a b : ounit) : bool :=
  let '(i1, p1, v1, t1) := a in
  let '(i2, p2, v2, t2) := b in
  leqb Z.eqb i1 i2 && fl_eqb p1 p2 && oeqb fl_eqb v1 v2 && oeqb time_eqb t1 t2.

Definition insert_eqb (a b : f64 * list Z * bool) : bool :=
  feqb_bits (fst (fst a)) (fst (fst b)) && leqb Z.eqb (snd (fst a)) (snd (fst b)) && Bool.eqb (snd a) (snd b).

Definition unif_eqb (model : Q * Q) (seen : f64 * f64) : bool :=
  Qeq_bool (fst model) (f2q (fst seen)) && Qeq_bool (snd model) (f2q (snd seen)).

Fixpoint leqb2 {A B : Type} (f : A -> B -> bool) (a : list A) (b : list B) : bool :=
  match a, b with
  | [], [] => true
  | x :: a', y :: b' => f x y && leqb2 f a' b'
  | _, _ => false
  end.

Inductive hcase :=
| HCase (k : hkind) (env : henv) (fd : feeds) (st : list hunit)
        (expo : list f64) (unif : list (f64 * f64)) (calls : list pcall) (t : time)
        (state1 out : list ounit) (inserts : list (f64 * list Z * bool))
(** root-unit-active handlers: [st2] = the fresh root cnodes the mediator hands to send_out_state; [out] lists them *)
| HCase2 (k : hkind) (env : henv) (fd : feeds) (st st2 : list hunit)
         (expo : list f64) (unif : list (f64 * f64)) (calls : list pcall) (t : time)
         (state1 out : list ounit) (inserts : list (f64 * list Z * bool))
(** send_event_time only (the candidate was trashed before send_out_state): [calls] are the calls of that phase *)
| HCaseET (k : hkind) (env : henv) (fd : feeds) (st : list hunit)
          (expo : list f64) (calls : list pcall) (t : time) (state1 : list ounit).

(** bit 0: expovariate arguments, 1: uniform arguments, 2: potential calls, 3: event time, 4: state after
    send_event_time, 5: out-state, 6: lifting inserts; [None]: the model rejects the in-state *)
Definition diag_hcase (c : hcase) : option (list bool) :=
  match c with
  | HCase k env fd st expo unif calls t state1 out inserts =>
      match run_handler k env fd st with
      | None => None
      | Some r =>
          Some [fl_eqb (r_expo r) expo; leqb2 unif_eqb (r_unif r) unif; leqb pcall_eqb (r_calls r) calls;
                time_eqb (r_time r) t; leqb ounit_eqb (map ounit_of (r_state1 r)) state1;
                leqb ounit_eqb (map ounit_of (r_out r)) out; leqb insert_eqb (r_inserts r) inserts]
      end
  | HCase2 k env fd st st2 expo unif calls t state1 out inserts =>
      match run_handler2 k env fd st st2 with
      | None => None
      | Some r =>
          Some [fl_eqb (r_expo r) expo; leqb2 unif_eqb (r_unif r) unif; leqb pcall_eqb (r_calls r) calls;
                time_eqb (r_time r) t; leqb ounit_eqb (map ounit_of (r_state1 r)) state1;
                leqb ounit_eqb (map ounit_of (r_out r)) out; leqb insert_eqb (r_inserts r) inserts]
      end
  | HCaseET k env fd st expo calls t state1 =>
      match run_handler k env fd st with
      | None => None
      | Some r =>
          Some [fl_eqb (r_expo r) expo; leqb pcall_eqb (firstn (length calls) (r_calls r)) calls;
                time_eqb (r_time r) t; leqb ounit_eqb (map ounit_of (r_state1 r)) state1]
      end
  end.

Definition check_hcase (c : hcase) : bool :=
  match diag_hcase c with Some l => forallb (fun b => b) l | None => false end.
