(** * Model/PotentialsR.v — real-analysis models of JeLLyFysh's pair potentials (C02, C03).

    Transcribed branch by branch from
      jellyfysh/potential/abstracts.py            (StandardVelocity*Potential, MexicanHatPotential)
      jellyfysh/potential/inverse_power_potential.py
      jellyfysh/potential/lennard_jones_potential.py
      jellyfysh/potential/displaced_even_power_potential.py
      jellyfysh/potential/hard_sphere_potential.py, hard_dipole_potential.py
      jellyfysh/potential/cell_bounding_potential.py
      jellyfysh/potential/bending_potential.py
      jellyfysh/base/vectors.py
    over the reals (libm pow/sqrt are not correctly rounded, DESIGN.md section 3).

    Conventions.  A separation enters the axis-parallel routines through
      x  = separation[direction]                 (component along the motion)
      q  = sum of the squares of the other components  (rho^2, the squared transverse distance)
    so that the squared norm is  q + x*x.  [None : option R] stands for float('inf').
    The Python code raises ValueError (math.sqrt of a negative number) where the model takes sqrt of a
    negative real (= 0 in Coq); the lemma [radicands_nonneg_*] in Proofs/PotentialsRProofs.v shows that under the
    branch conditions this never happens in exact arithmetic.  No proofs in this file. *)
From Coq Require Import Reals List.
Import ListNotations.
Open Scope R_scope.

(** ** Extended values and helpers *)
Definition xadd (a : R) (b : option R) : option R :=
  match b with Some t => Some (a + t) | None => None end.
Definition xdiv (b : option R) (v : R) : option R :=
  match b with Some t => Some (t / v) | None => None end.

(** vectors.displacement_until_new_norm_sq_component_positive / _negative *)
Definition until_pos (x q n2 : R) : R := x - sqrt (n2 - q).
Definition until_neg (x q n2 : R) : R := x + sqrt (n2 - q).

(** vectors.permutation_3d *)
Definition vec3 := (R * R * R)%type.
Definition perm3 (v : vec3) (d : nat) : vec3 :=
  let '(a, b, c) := v in
  match d with O => (a, b, c) | S O => (b, c, a) | _ => (c, a, b) end.
Definition comp3 (v : vec3) (d : nat) : R :=
  let '(a, b, c) := v in match d with O => a | S O => b | _ => c end.
(** squared transverse part with respect to axis d *)
Definition trans3 (v : vec3) (d : nat) : R :=
  let '(a, b, c) := v in match d with O => b * b + c * c | S O => a * a + c * c | _ => a * a + b * b end.
Definition dot3 (u v : vec3) : R :=
  let '(a, b, c) := u in let '(a', b', c') := v in a * a' + b * b' + c * c'.
Definition norm3 (v : vec3) : R := sqrt (dot3 v v).
Definition sub3 (u v : vec3) : vec3 :=
  let '(a, b, c) := u in let '(a', b', c') := v in (a - a', b - b', c - c').
Definition scal3 (t : R) (v : vec3) : vec3 := let '(a, b, c) := v in (t * a, t * b, t * c).
Definition unit3 (d : nat) : vec3 := match d with O => (1, 0, 0) | S O => (0, 1, 0) | _ => (0, 0, 1) end.

(** ** StandardVelocityPotential: velocity = speed * e_d, speed > 0 *)
Definition sv_derivative (space_derivative speed : R) : R := space_derivative * speed.
Definition sv_displacement (space_displacement : option R) (speed : R) : option R := xdiv space_displacement speed.

(** ** InversePowerPotential  U = c1 c2 k / r^p *)
(** potential(charge_product, separation) = charge_product * prefactor / norm_sq ** (power / 2) *)
Definition ip_potential (p pref c r2 : R) : R := c * pref / Rpower r2 (p / 2).

(** standard_velocity_derivative *)
Definition ip_derivative (p pref c1 c2 x q : R) : R :=
  p * x / Rpower (sqrt (q + x * x)) (p + 2) * pref * c1 * c2.

Definition ip_disp_repulsive (p pref c dE x q : R) : option R :=
  if Rle_dec x 0 then None
  else
    let Umax := ip_potential p pref c (q + 0 * 0) in
    let U0 := ip_potential p pref c (q + x * x) in
    if Rlt_dec dE (Umax - U0)
    then let n2 := Rpower (c * pref / (U0 + dE)) (2 / p) in Some (until_pos x q n2)
    else None.

Definition ip_disp_attractive (p pref c dE x q : R) : option R :=
  let d0 := if Rlt_dec 0 x then x else 0 in
  let x1 := if Rlt_dec 0 x then 0 else x in
  let U0 := ip_potential p pref c (q + x1 * x1) in
  if Rle_dec 0 (U0 + dE) then None
  else let n2 := Rpower (c * pref / (U0 + dE)) (2 / p) in Some (d0 + until_neg x1 q n2).

(** standard_velocity_displacement *)
Definition ip_displacement (p pref c1 c2 dE x q : R) : option R :=
  let c := c1 * c2 in
  if Rlt_dec 0 (pref * c) then ip_disp_repulsive p pref c dE x q
  else ip_disp_attractive p pref c dE x q.

(** ** MexicanHatPotential (abstracts.py), generic in
      pot     : squared norm -> potential           (_potential)
      inv_in  : potential -> norm, inside the minimum   (_invert_potential_inside_minimum)
      inv_out : potential -> norm or inf, outside       (_invert_potential_outside_minimum)
      r0, r0sq: equilibrium separation and its square. *)
Record mexhat := MkMexHat {
  mh_pot : R -> R;
  mh_inv_in : R -> R;
  mh_inv_out : R -> option R;
  mh_r0 : R;
  mh_r0sq : R }.

Definition mh_front_outside (m : mexhat) (U0 dE x q : R) : option R :=
  match mh_inv_out m (U0 + dE) with
  | None => None
  | Some rn => Some (until_neg x q (rn * rn))
  end.

Definition mh_front_inside (m : mexhat) (dE x q : R) : option R :=
  let d := until_neg x q (mh_r0sq m) in
  let x1 := x - d in
  let U1 := mh_pot m (q + x1 * x1) in
  xadd d (mh_front_outside m U1 dE x1 q).

Definition mh_behind_inside (m : mexhat) (U0 dE x q : R) : option R :=
  let Umax := mh_pot m (q + 0 * 0) in
  let diff := Umax - U0 in
  if Rlt_dec dE diff
  then let rn := mh_inv_in m (U0 + dE) in Some (until_pos x q (rn * rn))
  else xadd x (mh_front_inside m (dE - diff) 0 q).

(** the try/except ValueError of _displacement_behind_outside_sphere is the explicit test
    "the radicand r0^2 - q of displacement_until_new_norm_sq_component_positive is non-negative" *)
Definition mh_behind_outside (m : mexhat) (dE x q : R) : option R :=
  if Rle_dec 0 (mh_r0sq m - q)
  then
    let d := until_pos x q (mh_r0sq m) in
    let x1 := x - d in
    let U1 := mh_pot m (q + x1 * x1) in
    xadd d (mh_behind_inside m U1 dE x1 q)
  else
    let U1 := mh_pot m (q + 0 * 0) in
    xadd x (mh_front_outside m U1 dE 0 q).

(** standard_velocity_displacement *)
Definition mh_displacement (m : mexhat) (dE x q : R) : option R :=
  if Rle_dec (mh_r0 m) (sqrt (q + x * x))
  then
    if Rle_dec x 0 then mh_front_outside m (mh_pot m (q + x * x)) dE x q
    else mh_behind_outside m dE x q
  else
    if Rle_dec x 0 then mh_front_inside m dE x q
    else mh_behind_inside m (mh_pot m (q + x * x)) dE x q.

(** ** LennardJonesPotential  U = k ((sigma/r)^12 - (sigma/r)^6), minimum -k/4 at r0 = 2^(1/6) sigma *)
Definition lj_pot (k sigma r2 : R) : R :=
  ip_potential 6 (- k * sigma ^ 6) 1 r2 + ip_potential 12 (k * sigma ^ 12) 1 r2.
Definition lj_derivative (k sigma x q : R) : R :=
  ip_derivative 6 (- k * sigma ^ 6) 1 1 x q + ip_derivative 12 (k * sigma ^ 12) 1 1 x q.
Definition lj_inv_in (k sigma U : R) : R :=
  sigma / Rpower ((1 + sqrt (1 + 4 * U / k)) / 2) (1 / 6).
Definition lj_inv_out (k sigma U : R) : option R :=
  if Rle_dec 0 U then None
  else Some (sigma / Rpower ((1 - sqrt (1 + 4 * U / k)) / 2) (1 / 6)).
Definition lj_r0 (sigma : R) : R := sigma * Rpower 2 (1 / 6).
Definition lj_mexhat (k sigma : R) : mexhat :=
  MkMexHat (lj_pot k sigma) (lj_inv_in k sigma) (lj_inv_out k sigma) (lj_r0 sigma) (lj_r0 sigma * lj_r0 sigma).
Definition lj_displacement (k sigma dE x q : R) : option R := mh_displacement (lj_mexhat k sigma) dE x q.

(** ** DisplacedEvenPowerPotential  U = k (r - r0)^p, p even natural number *)
Definition dep_pot (k r0 : R) (p : nat) (r2 : R) : R := k * (sqrt r2 - r0) ^ p.
Definition dep_derivative (k r0 : R) (p : nat) (x q : R) : R :=
  - INR p * k * (sqrt (q + x * x) - r0) ^ (p - 1) * x / sqrt (q + x * x).
Definition dep_inv_in (k r0 : R) (p : nat) (U : R) : R := r0 - Rpower (U / k) (1 / INR p).
Definition dep_inv_out (k r0 : R) (p : nat) (U : R) : option R := Some (r0 + Rpower (U / k) (1 / INR p)).
Definition dep_mexhat (k r0 : R) (p : nat) : mexhat :=
  MkMexHat (dep_pot k r0 p) (dep_inv_in k r0 p) (dep_inv_out k r0 p) r0 (r0 * r0).
Definition dep_displacement (k r0 : R) (p : nat) (dE x q : R) : option R :=
  mh_displacement (dep_mexhat k r0 p) dE x q.

(** ** HardSpherePotential.displacement(velocity, separation): general velocity.
    d2 = 4 radius^2 (the squared diameter). *)
Definition hs_displacement (d2 : R) (v s : vec3) : option R :=
  let vv := dot3 v v in
  let ss := dot3 s s in
  let vs := dot3 v s in
  let D := vs * vs - vv * (ss - d2) in
  if Rle_dec 0 D then (if Rle_dec 0 vs then Some ((vs - sqrt D) / vv) else None) else None.

(** ** HardDipolePotential.displacement: first contact with the inner sphere, else the time at which the
    maximal separation is reached. *)
Definition hd_displacement (min2 max2 : R) (v s : vec3) : R :=
  let vv := dot3 v v in
  let ss := dot3 s s in
  let vs := dot3 v s in
  let Dmin := vs * vs - vv * (ss - min2) in
  let Dmax := vs * vs - vv * (ss - max2) in
  if Rle_dec 0 vs
  then (if Rle_dec 0 Dmin then (vs - sqrt Dmin) / vv else (vs + sqrt Dmax) / vv)
  else (vs + sqrt Dmax) / vv.

(** ** CellBoundingPotential: constant bounding event rate.
    rate = derivative_bounds[upper or lower][cell separation][direction] * charge factor *)
Definition cb_rate (upper lower cf : R) : R := if Rlt_dec 0 cf then upper * cf else lower * cf.
Definition cb_displacement (rate dE : R) : option R := if Rlt_dec 0 rate then Some (dE / rate) else None.
Definition cb_derivative (rate : R) : R := rate.

(** ** BendingPotential.standard_velocity_derivative  U = k/2 (phi - phi0)^2, cos phi = s1.s2 / |s1| |s2|.
    Inputs: the components a1, a2 of the two separations along the direction of motion, n1 = |s1|, n2 = |s2|,
    dt = s1.s2.  Returns the derivatives with respect to the three units (i, j, k). *)
Definition bend_derivative (k phi0 a1 a2 n1 n2 dt : R) : R * R * R :=
  let cosphi := dt / n1 / n2 in
  let phi := acos cosphi in
  let dU := k * (phi - phi0) in
  let dphi := - 1 / sin phi in
  let dc1 := a2 / n1 / n2 - cosphi * a1 / (n1 * n1) in
  let dc2 := a1 / n1 / n2 - cosphi * a2 / (n2 * n2) in
  let d1 := dU * dphi * dc1 in
  let d2 := dU * dphi * dc2 in
  (d1, - d1 - d2, d2).

(** ** Energies as functions of the pair distance r (the specification side, not the code) *)
Definition ip_U (p kc r : R) : R := kc / Rpower r p.
Definition lj_U (k sigma r : R) : R := k * ((sigma / r) ^ 12 - (sigma / r) ^ 6).
Definition dep_U (k r0 : R) (p : nat) (r : R) : R := k * (r - r0) ^ p.

(** ** Independent specification of the event distance.
    Path of the separation while the active unit advances by s along the motion: x -> x - s, q fixed;
    pair distance  r(s) = sqrt (q + (x - s)^2). *)
Definition rpath (x q s : R) : R := sqrt (q + (x - s) * (x - s)).

(** Positive variation of f on [0, d] from explicit break points (sorted, f monotone between them):
    the break points are clamped to [0, d] and the positive parts of the increments are summed. *)
Definition clamp (d b : R) : R := Rmax 0 (Rmin d b).
Fixpoint pos_var_from (f : R -> R) (d a : R) (bs : list R) : R :=
  match bs with
  | [] => Rmax 0 (f d - f a)
  | b :: bs' => Rmax 0 (f (clamp d b) - f a) + pos_var_from f d (clamp d b) bs'
  end.
Definition Eplus (f : R -> R) (bs : list R) (d : R) : R := pos_var_from f d 0 bs.

(** break points: closest approach s = x for monotone U; additionally r(s) = r0 for Mexican hats *)
Definition breaks_monotone (x : R) : list R := [x].
Definition breaks_mexhat (x q r0 : R) : list R :=
  if Rlt_dec q (r0 * r0) then [x - sqrt (r0 * r0 - q); x; x + sqrt (r0 * r0 - q)] else [x].
