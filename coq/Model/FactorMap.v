(** * Model/FactorMap.v — model of jellyfysh/activator/tagger/factor_type_maps.py
      (FactorTypeMaps.__FactorTypeMaps._instantiate_factor_type_maps, _FactorTypeMap, _AllLeafUnitFactorTypeMap)
    and of FactorTypeMapInStateTagger.yield_identifiers_send_event_time.

    A factor file is a list of lines; a line is a list of character codes (as Python iterates the file: the
    trailing newline belongs to the line).  No proofs here (Proofs/FactorMapProofs.v). *)
From Coq Require Import List ZArith Bool.
Import ListNotations.
Open Scope Z_scope.

(** exceptions of this module *)
Inductive ferr := FactorSetError | AttributeErrorF | AssertionErrorF | KeyErrorF | NotImplementedErrorF | OtherErrorF.
Inductive fres (A : Type) := FOk (a : A) | FErr (e : ferr).
Arguments FOk {A} a.
Arguments FErr {A} e.

Definition fbind {A B} (r : fres A) (f : A -> fres B) : fres B :=
  match r with FOk a => f a | FErr e => FErr e end.

Definition iset := list Z.          (* one index set, in file order *)
Definition fname := list Z.         (* factor type (CamelCase), as character codes *)
Definition uid := list Z.           (* StateId: (root,) or (root, leaf) *)
Definition finstate := list uid.     (* one in-state identifier tuple *)

Fixpoint lz_eqb (a b : list Z) : bool :=
  match a, b with
  | [], [] => true
  | x :: a', y :: b' => Z.eqb x y && lz_eqb a' b'
  | _, _ => false
  end.

Fixpoint llz_eqb (a b : list (list Z)) : bool :=
  match a, b with
  | [], [] => true
  | x :: a', y :: b' => lz_eqb x y && llz_eqb a' b'
  | _, _ => false
  end.

(** ** The line format: the regular expression of _instantiate_factor_type_maps (verbose mode), i.e.
      group 1:  '[' , zero or more of (one or more digits, comma, blank), one or more digits, ']'
      then a comma and one white-space character ([\s]),
      group 2:  one or more of (an upper-case letter followed by zero or more lower-case letters),
    applied with [re.match] (anchored at the start of the line, anything may follow). *)
Definition is_digit (c : Z) : bool := (48 <=? c) && (c <=? 57).
Definition is_upper (c : Z) : bool := (65 <=? c) && (c <=? 90).
Definition is_lower (c : Z) : bool := (97 <=? c) && (c <=? 122).
(** [\s] on str patterns, restricted to code points below 128: \t \n \v \f \r, \x1c..\x1f, space *)
Definition is_space (c : Z) : bool := ((9 <=? c) && (c <=? 13)) || ((28 <=? c) && (c <=? 32)).

(** [0-9]* greedily, accumulating int(...) *)
Fixpoint take_digits (acc : Z) (l : list Z) : Z * list Z :=
  match l with
  | c :: r => if is_digit c then take_digits (10 * acc + (c - 48)) r else (acc, l)
  | [] => (acc, l)
  end.

(** [0-9]+ *)
Definition parse_int (l : list Z) : option (Z * list Z) :=
  match l with
  | c :: _ => if is_digit c then Some (take_digits 0 l) else None
  | [] => None
  end.

(** after '[': ([0-9]+, )*[0-9]+] ; fuel = length of the line *)
Fixpoint parse_indices (fuel : nat) (l : list Z) : option (list Z * list Z) :=
  match fuel with
  | O => None
  | S f =>
      match parse_int l with
      | None => None
      | Some (i, r) =>
          match r with
          | 93 :: r' => Some ([i], r')                          (* ']' *)
          | 44 :: 32 :: r' =>                                    (* ", " *)
              match parse_indices f r' with
              | Some (is, r'') => Some (i :: is, r'')
              | None => None
              end
          | _ => None
          end
      end
  end.

(** [A-Za-z]* *)
Fixpoint take_letters (l : list Z) : list Z :=
  match l with
  | c :: r => if is_upper c || is_lower c then c :: take_letters r else []
  | [] => []
  end.

(** group 2, greedy: an upper-case letter followed by the longest run of letters *)
Definition parse_name (l : list Z) : option fname :=
  match l with
  | c :: r => if is_upper c then Some (c :: take_letters r) else None
  | [] => None
  end.

Definition parse_line (l : list Z) : option (iset * fname) :=
  match l with
  | 91 :: r =>                                                   (* '[' *)
      match parse_indices (S (length l)) r with
      | Some (is, 44 :: s :: r') =>                              (* ',' then \s *)
          if is_space s then
            match parse_name r' with Some nm => Some (is, nm) | None => None end
          else None
      | _ => None
      end
  | _ => None
  end.

Definition is_comment (l : list Z) : bool := match l with 35 :: _ => true | _ => false end.   (* '#' *)

(** ** _FactorTypeMap *)
Record fmap := mkFmap {
  fm_local : option bool;               (* self._local *)
  fm_map : list (Z * list iset)         (* self._map : leaf index -> index sets, dict order *)
}.
Definition empty_fmap : fmap := mkFmap None [].

Fixpoint mget (m : list (Z * list iset)) (k : Z) : option (list iset) :=
  match m with
  | [] => None
  | (k', v) :: r => if Z.eqb k' k then Some v else mget r k
  end.
Fixpoint mset (m : list (Z * list iset)) (k : Z) (v : list iset) : list (Z * list iset) :=
  match m with
  | [] => [(k, v)]
  | (k', w) :: r => if Z.eqb k' k then (k', v) :: r else (k', w) :: mset r k v
  end.

(** the [local] property setter: first assignment fixes it, a different later value raises AttributeError *)
Definition set_local (m : fmap) (v : bool) : option fmap :=
  match fm_local m with
  | None => Some (mkFmap (Some v) (fm_map m))
  | Some b => if Bool.eqb b v then Some m else None
  end.

(** append_to_map(indices) *)
Fixpoint append_loop (n : Z) (mp : list (Z * list iset)) (todo : list Z) (indices : iset) : list (Z * list iset) :=
  match todo with
  | [] => mp
  | i :: r =>
      if n <=? i then append_loop n mp r indices
      else append_loop n (mset mp i (match mget mp i with Some l => l | None => [] end ++ [indices])) r indices
  end.
Definition append_to_map (n : Z) (m : fmap) (indices : iset) : fmap :=
  mkFmap (fm_local m) (append_loop n (fm_map m) indices indices).

(** ** FactorTypeMaps: self._factors *)
Definition fmaps := list (fname * fmap).
Fixpoint fget (fs : fmaps) (nm : fname) : option fmap :=
  match fs with
  | [] => None
  | (k, v) :: r => if lz_eqb k nm then Some v else fget r nm
  end.
Fixpoint fset (fs : fmaps) (nm : fname) (v : fmap) : fmaps :=
  match fs with
  | [] => [(nm, v)]
  | (k, w) :: r => if lz_eqb k nm then (k, v) :: r else (k, w) :: fset r nm v
  end.

(** one parsed line *)
Definition add_line (n : Z) (fs : fmaps) (indices : iset) (nm : fname) : fres fmaps :=
  if existsb (fun i => 2 * n <=? i) indices then FErr FactorSetError
  else
    let m := match fget fs nm with Some m => m | None => empty_fmap end in
    match set_local m (forallb (fun i => i <? n) indices) with
    | None => FErr AttributeErrorF
    | Some m' => FOk (fset fs nm (append_to_map n m' indices))
    end.

Fixpoint load_lines (n : Z) (lines : list (list Z)) (fs : fmaps) : fres fmaps :=
  match lines with
  | [] => FOk fs
  | l :: r =>
      if is_comment l then load_lines n r fs
      else match parse_line l with
           | None => FErr FactorSetError
           | Some (indices, nm) => fbind (add_line n fs indices nm) (load_lines n r)
           end
  end.

(** FactorTypeMaps(filename) with setting.number_of_nodes_per_root_node = n *)
Definition load_file (n : Z) (lines : list (list Z)) : fres fmaps := load_lines n lines [].

(** the same on already parsed lines (what the translator emits for the shipped files) *)
Definition pfile := list (iset * fname).
Fixpoint load_parsed (n : Z) (f : pfile) (fs : fmaps) : fres fmaps :=
  match f with
  | [] => FOk fs
  | (indices, nm) :: r => fbind (add_line n fs indices nm) (load_parsed n r)
  end.

(** the non-comment lines of a file, parsed; None if some line does not match *)
Fixpoint parse_file (lines : list (list Z)) : option pfile :=
  match lines with
  | [] => Some []
  | l :: r =>
      if is_comment l then parse_file r
      else match parse_line l, parse_file r with
           | Some p, Some ps => Some (p :: ps)
           | _, _ => None
           end
  end.

(** ** yield_factor_identifier *)
Fixpoint fzrange_from (a : Z) (k : nat) : list Z :=
  match k with O => [] | S k' => a :: fzrange_from (a + 1) k' end.
Definition fzrange (n : Z) : list Z := fzrange_from 0 (Z.to_nat n).

(** instantiate an index set for active composite object r and partner o *)
Definition inst (n r o : Z) (St : iset) : finstate :=
  map (fun t => if t <? n then [r; t] else [o; t - n]) St.
Definition inst_local (r : Z) (St : iset) : finstate := map (fun t => [r; t]) St.

Definition sets_for (m : fmap) (a : Z) : list iset :=
  match mget (fm_map m) a with Some l => l | None => [] end.

(** _yield_factor_identifier_local *)
Definition yield_local (nroot : Z) (m : fmap) (act : uid) : fres (list finstate) :=
  match act with
  | [r; a] =>
      if r <? nroot then FOk (map (inst_local r) (sets_for m a)) else FErr AssertionErrorF
  | _ => FErr AssertionErrorF
  end.

(** _yield_factor_identifier_non_local *)
Definition yield_non_local (n nroot : Z) (m : fmap) (act : uid) : fres (list finstate) :=
  match act with
  | [r; a] =>
      if (r <? nroot) && (a <? n) then
        FOk (flat_map (fun o => if Z.eqb o r then [] else map (inst n r o) (sets_for m a)) (fzrange nroot))
      else FErr AssertionErrorF
  | _ => FErr AssertionErrorF
  end.

(** _AllLeafUnitFactorTypeMap.yield_factor_identifier_no_composite_objects *)
Definition yield_no_composite (nroot : Z) (act : uid) : fres (list finstate) :=
  match act with
  | [r] =>
      if r <? nroot then
        FOk (flat_map (fun o => if Z.eqb o r then [] else [[act; [o]]]) (fzrange nroot))
      else FErr AssertionErrorF
  | _ => FErr AssertionErrorF
  end.

(** _AllLeafUnitFactorTypeMap._yield_factor_identifier_composite_objects *)
Definition yield_all_composite (n nroot : Z) (act : uid) : fres (list finstate) :=
  match act with
  | [r; a] =>
      if (r <? nroot) && (a <? n) then
        FOk (flat_map (fun o => if Z.eqb o r then [] else map (fun leaf => [act; [o; leaf]]) (fzrange n))
                      (fzrange nroot))
      else FErr AssertionErrorF
  | _ => FErr AssertionErrorF
  end.

(** _FactorTypeMap.yield_factor_identifier after [local] was set (the non-local variant is replaced by the
    no-composite one in __init__ when number_of_nodes_per_root_node == 1) *)
Definition yield_factor_identifier (n nroot : Z) (m : fmap) (act : uid) : fres (list finstate) :=
  match fm_local m with
  | None => FErr NotImplementedErrorF
  | Some true => yield_local nroot m act
  | Some false => if n =? 1 then yield_no_composite nroot act else yield_non_local n nroot m act
  end.

(** _AllLeafUnitFactorTypeMap (fallback of FactorTypeMaps.__getitem__ for an unknown factor type) *)
Definition yield_default (n nroot : Z) (act : uid) : fres (list finstate) :=
  if n =? 1 then yield_no_composite nroot act else yield_all_composite n nroot act.

(** FactorTypeMaps[name].yield_factor_identifier(act) *)
Definition yield_for (n nroot : Z) (fs : fmaps) (nm : fname) (act : uid) : fres (list finstate) :=
  match fget fs nm with
  | Some m => yield_factor_identifier n nroot m act
  | None => yield_default n nroot act
  end.

(** ** FactorTypeMapInStateTagger: set(...) over all active leaves *)
Fixpoint dedup (l : list finstate) : list finstate :=
  match l with
  | [] => []
  | x :: r => if existsb (llz_eqb x) r then dedup r else x :: dedup r
  end.

Fixpoint yield_all (n nroot : Z) (fs : fmaps) (nm : fname) (acts : list uid) : fres (list finstate) :=
  match acts with
  | [] => FOk []
  | a :: r => fbind (yield_for n nroot fs nm a) (fun l => fbind (yield_all n nroot fs nm r) (fun l' => FOk (l ++ l')))
  end.

Definition tagger_in_states (n nroot : Z) (fs : fmaps) (nm : fname) (active_leaves : list uid) : fres (list finstate) :=
  fbind (yield_all n nroot fs nm active_leaves) (fun l => FOk (dedup l)).

(** ** Well-formed parsed files (decidable) *)
Fixpoint nodupb (l : list Z) : bool :=
  match l with [] => true | x :: r => negb (existsb (Z.eqb x) r) && nodupb r end.

Fixpoint remove_one_z (x : Z) (l : list Z) : option (list Z) :=
  match l with
  | [] => None
  | y :: r => if Z.eqb y x then Some r else match remove_one_z x r with Some r' => Some (y :: r') | None => None end
  end.
(** same set of indices (multiset equality; with nodupb both: set equality) *)
Fixpoint perm_lz (a b : list Z) : bool :=
  match a with
  | [] => match b with [] => true | _ => false end
  | x :: r => match remove_one_z x b with Some b' => perm_lz r b' | None => false end
  end.

Definition is_local_set (n : Z) (St : iset) : bool := forallb (fun i => i <? n) St.

Definition wf_set (n : Z) (St : iset) : bool :=
  match St with [] => false | _ => true end
  && forallb (fun i => (0 <=? i) && (i <? 2 * n)) St
  && nodupb St
  && existsb (fun i => i <? n) St.

(** every later line with the same name has the same locality and is not the same set of indices *)
Fixpoint wf_rest (n : Z) (St : iset) (nm : fname) (rest : pfile) : bool :=
  match rest with
  | [] => true
  | (St', nm') :: r =>
      (if lz_eqb nm nm'
       then Bool.eqb (is_local_set n St) (is_local_set n St') && negb (perm_lz St St')
       else true) && wf_rest n St nm r
  end.

Fixpoint wf_file (n : Z) (f : pfile) : bool :=
  match f with
  | [] => true
  | (St, nm) :: r => wf_set n St && wf_rest n St nm r && wf_file n r
  end.

(** the index sets of one factor type, in file order *)
Definition sets_of (nm : fname) (f : pfile) : list iset :=
  map fst (filter (fun p => lz_eqb (snd p) nm) f).
