(** * Model/PotentialsRCases.v — statement form and tactics of the kernel-checked numerical correspondence
    between Model/PotentialsR.v and the implementation (C02, C03; DESIGN.md section 3).

    A generated case is a closed goal
        close_to (<model function> <exact rational inputs>) <implementation output as exact rational> <tol>
    or  <model function> <inputs> = None                      (the implementation returned float('inf'))
    or  Rabs (<model expression> - <output>) <= <tol>          (derivatives, energies).
    The tactics below evaluate the model *inside the proof*: every [if Rle_dec/Rlt_dec] of the model is decided by
    proving the comparison (or its negation) with Coq-Interval, every [let] is replaced by a fresh variable with a
    rigorous enclosure of width about 2^-90 (this keeps the expression handed to [interval] small), and the final
    inequality is proved by [interval].  Nothing is computed in Python. *)
From Coq Require Import Reals Lra.
From Interval Require Import Tactic.
Require Import JF.Model.PotentialsR JF.Model.CoulombBoundR.
Open Scope R_scope.

Lemma if_Rle_T (A : Type) a b (u v : A) : a <= b -> (if Rle_dec a b then u else v) = u.
Proof. intros; destruct (Rle_dec a b); [reflexivity | contradiction]. Qed.
Lemma if_Rle_F (A : Type) a b (u v : A) : b < a -> (if Rle_dec a b then u else v) = v.
Proof. intros; destruct (Rle_dec a b); [lra | reflexivity]. Qed.
Lemma if_Rlt_T (A : Type) a b (u v : A) : a < b -> (if Rlt_dec a b then u else v) = u.
Proof. intros; destruct (Rlt_dec a b); [reflexivity | contradiction]. Qed.
Lemma if_Rlt_F (A : Type) a b (u v : A) : b <= a -> (if Rlt_dec a b then u else v) = v.
Proof. intros; destruct (Rlt_dec a b); [lra | reflexivity]. Qed.

Definition close_to (o : option R) (v tol : R) : Prop :=
  match o with Some t => Rabs (t - v) <= tol | None => False end.

Ltac unfold_leaves :=
  cbv beta iota zeta delta [ip_potential ip_derivative until_pos until_neg lj_pot lj_derivative lj_inv_in lj_r0
     dep_pot dep_derivative dep_inv_in mh_pot mh_inv_in mh_inv_out mh_r0 mh_r0sq lj_mexhat dep_mexhat
     xadd xdiv close_to sv_derivative sv_displacement dot3 cb_rate cb_derivative bend_derivative
     ip_U lj_U dep_U rpath INR Nat.sub fst snd
     ipc_pot ipc_derivative ipc_per_lap ipc_laps_ok].
Ltac itv := unfold_leaves; interval with (i_prec 90).

Ltac step := match goal with
  | |- context [if Rle_dec ?a ?b then _ else _] =>
      first [rewrite (if_Rle_T _ a b) by itv | rewrite (if_Rle_F _ a b) by itv]
  | |- context [if Rlt_dec ?a ?b then _ else _] =>
      first [rewrite (if_Rlt_T _ a b) by itv | rewrite (if_Rlt_F _ a b) by itv] end.
Ltac unf f := progress cbv beta iota delta [f].
Ltac layer := first
  [ unf ip_displacement | unf ip_disp_repulsive | unf ip_disp_attractive
  | unf lj_displacement | unf dep_displacement
  | unf mh_displacement | unf mh_behind_outside | unf mh_behind_inside
  | unf mh_front_inside | unf mh_front_outside
  | unf lj_inv_out | unf dep_inv_out
  | unf hs_displacement | unf hd_displacement | unf cb_displacement | unf cb_rate
  | unf ipc_displacement_laps | unf ipc_rest ];
  cbv beta iota delta [mh_pot mh_inv_in mh_inv_out mh_r0 mh_r0sq lj_mexhat dep_mexhat dot3].
Ltac leaves t := eval cbv beta iota zeta delta [ip_potential ip_derivative until_pos until_neg lj_pot lj_derivative
     lj_inv_in lj_r0 dep_pot dep_derivative dep_inv_in mh_pot mh_inv_in mh_inv_out mh_r0 mh_r0sq lj_mexhat dep_mexhat
     xadd xdiv close_to sv_derivative sv_displacement dot3 cb_rate cb_derivative INR Nat.sub
     ipc_pot ipc_derivative ipc_per_lap] in t.
Ltac let_step := match goal with
  | |- context C [let y := ?e in @?b y] =>
      tryif is_var e then (let G := context C [b e] in change G; cbv beta)
      else (
        let e' := leaves e in
        let H0 := fresh "H" in let H := fresh "H" in let v := fresh "v" in
        interval_intro e' with (i_prec 90) as H0;
        match type of H0 with
        | ?lo <= _ <= ?hi => pose (v := e); assert (H : lo <= v <= hi) by exact H0; clear H0
        end;
        let G := context C [b v] in change G; cbv beta; clearbody v)
  end.
Ltac resolve := repeat (first [step; cbv beta iota | let_step | layer]).
(** the three forms of a case *)
Ltac close_case := resolve; itv.
Ltac none_case := resolve; reflexivity.
Ltac real_case := resolve; itv.
Ltac ipc_laps_case := unfold_leaves; split; interval with (i_prec 90).
Ltac ipc_close_case := close_case.
(** bending: [acos] is unfolded to its definition through [atan], which Coq-Interval evaluates *)
Ltac bend_case :=
  cbv beta iota delta [bend_derivative]; let_step; unfold acos; repeat (step; cbv beta iota); resolve; itv.
