(** * Model/Stale.v — a committed event was computed from the trajectory that is still current (C08).

    On top of the kinematics model, the validator keeps for every pending event handler the in-state
    (unit values) from which its candidate time was computed.  After every commit, every SURVIVING
    pending interaction / cell-veto event must still see all its units on the same trajectory in the new
    global state; at the commit of such an event its in-state must agree with the global state. *)
From Coq Require Import ZArith QArith Qabs List Bool.
Require Import JF.Base.F64 JF.Model.Kinematics.
Import ListNotations.
Open Scope Q_scope.

Definition instates := list (nat * list unit).

Fixpoint lookup_h (ins : instates) (h : nat) : option (list unit) :=
  match ins with
  | [] => None
  | (k, x) :: r => if Nat.eqb k h then Some x else lookup_h r h
  end.

Definition remove_h (ins : instates) (h : nat) : instates :=
  filter (fun e => negb (Nat.eqb (fst e) h)) ins.

(** handlers started in this leg replace their previous entry *)
Fixpoint add_all (ins : instates) (new : instates) : instates :=
  match new with
  | [] => ins
  | (h, x) :: r => add_all ((h, x) :: remove_h ins h) r
  end.

Definition remove_all (ins : instates) (hs : list nat) : instates :=
  fold_left remove_h hs ins.

(** same velocity (bit for bit) and same straight line modulo the box (positions agree at time [T]
    within the rounding bound of the time-slices involved); not moving: same position bit for bit *)
Definition same_line (Ls : list Q) (T : Q) (gu iu : unit) : bool :=
  match u_vel gu, u_vel iu with
  | None, None => vel_eqb (u_pos gu) (u_pos iu)
  | Some a, Some b =>
      vel_eqb a b &&
      forallb (fun d =>
                 match pos_at gu T d, pos_at iu T d with
                 | Some x, Some y =>
                     let L := nth d Ls 1 in
                     circ_le x y L (slice_tol gu T d L + slice_tol iu T d L + 8 * L * eps50)
                 | _, _ => false
                 end) (seq 0 (length Ls))
  | _, _ => false
  end.

Definition instate_current (Ls : list Q) (T : Q) (st : gstate) (ius : list unit) : bool :=
  forallb (fun iu => match lookup st (u_id iu) with
                     | Some gu => same_line Ls T gu iu
                     | None => false
                     end) ius.

Record sleg := {
  sl_k : kleg;
  sl_instates : instates       (* in-states of the handlers started in this leg, as extracted *)
}.

Definition is_factor_handler (fh : list nat) (h : nat) : bool := existsb (Nat.eqb h) fh.

(** one leg: returns the new kinematic state and the new pending in-states *)
Definition sleg_ok (Ls : list Q) (fh : list nat) (n : nat) (s : kstate) (ins : instates) (l : sleg)
  : option (kstate * instates) :=
  let ins1 := add_all ins (sl_instates l) in
  match leg_ok Ls n s (sl_k l), tvalue (k_time (sl_k l)) with
  | Some s', Some T =>
      let h := k_pick (sl_k l) in
      if (negb (is_factor_handler fh h)
          || match lookup_h ins1 h with
             | Some ius => instate_current Ls T (s_units s) ius      (* not stale at its commit *)
             | None => false
             end)
      then
        let ins2 := remove_all ins1 (k_trash (sl_k l)) in
        if forallb (fun e => negb (is_factor_handler fh (fst e))
                             || instate_current Ls T (s_units s') (snd e)) ins2    (* survivors undisturbed *)
        then Some (s', ins2) else None
      else None
  | _, _ => None
  end.

Fixpoint srun (Ls : list Q) (fh : list nat) (n : nat) (s : kstate) (ins : instates) (ls : list sleg)
  : option (list (kstate * instates)) :=
  match ls with
  | [] => Some []
  | l :: rest =>
      match sleg_ok Ls fh n s ins l with
      | Some (s', ins') =>
          match srun Ls fh (S n) s' ins' rest with Some r => Some ((s', ins') :: r) | None => None end
      | None => None
      end
  end.

Record stcase := { st_L : list f64; st_init : gstate; st_factor_handlers : list nat; st_legs : list sleg }.

Definition check_stcase (c : stcase) : bool :=
  let Ls := map f2q (st_L c) in
  all_finite (st_L c) && init_ok Ls (st_init c)
  && match srun Ls (st_factor_handlers c) 0
                {| s_units := st_init c; s_now := 0; s_pending := []; s_started := false; s_speed2 := None |}
                [] (st_legs c) with
     | Some _ => true
     | None => false
     end.
