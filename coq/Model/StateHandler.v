(** * Model/StateHandler.v — model of jellyfysh/state_handler (TreeStateHandler,
    TreePhysicalState, TreeLiftingState) on the object store of Base/Store.v.   (C13)

    What is an object (a store cell) and what is a plain value follows the Python code:
    - a position / velocity is a Python [list] of floats, a time stamp a [Time] object: mutable,
      may be shared; modelled as store addresses;
    - [Unit] and [Node] objects are created anew by every extraction and are only containers
      of references; modelled as immutable records held by the client;
    - the charge dictionary is NOT copied by any extraction (the same dict object is handed out
      every time) and is never written by [insert_into_global_state]; the property does not speak
      about it and it is not modelled (recorded as a fact in harness/c13.py).

    No proofs in this file (Proofs/StateHandlerProofs.v). *)
From Coq Require Import ZArith List Bool Arith PArith.
Require Import JF.Base.Store.
Import ListNotations.

(* ---------------------------------------------------------------------------------------- *)
(** ** Identifiers, units, branches *)

(** Identifier tuples of a tree with one or two levels: [(i,)] and [(i, j)]. *)
Inductive ident := Root (i : nat) | Leaf (i j : nat).

Definition ident_eqb (a b : ident) : bool :=
  match a, b with
  | Root i, Root i' => Nat.eqb i i'
  | Leaf i j, Leaf i' j' => Nat.eqb i i' && Nat.eqb j j'
  | _, _ => false
  end.

(** [Unit(identifier, position, charge, velocity, time_stamp)]: references to the objects. *)
Record unit_ := mkUnit { u_id : ident; u_pos : addr; u_vel : option addr; u_ts : option addr }.

(** A branch ([Node] tree of [Unit]s with a root cnode): root unit and its child cnodes. *)
Record branch := mkBranch { b_root : unit_; b_children : list unit_ }.

Definition units (b : branch) : list unit_ := b_root b :: b_children b.
Definition opt_addrs (o : option addr) : list addr := match o with Some a => [a] | None => [] end.
Definition unit_addrs (u : unit_) : list addr := u_pos u :: opt_addrs (u_vel u) ++ opt_addrs (u_ts u).
Definition branch_addrs (b : branch) : list addr := flat_map unit_addrs (units b).
(** Order in which [insert_into_global_state] visits the units of a sequence of branches. *)
Definition flat (bs : list branch) : list unit_ := flat_map units bs.

(** Values: (position, velocity or None, time stamp or None). *)
Definition uv := (val * option val * option val)%type.
Definition rvals (s : store) (r : addr * option addr * option addr) : uv :=
  let '(p, v, t) := r in (read s p, option_map (read s) v, option_map (read s) t).
Definition urefs (u : unit_) := (u_pos u, u_vel u, u_ts u).
Definition uvals (s : store) (u : unit_) : uv := rvals s (urefs u).

(* ---------------------------------------------------------------------------------------- *)
(** ** TreeLiftingState: [_lifting_dictionary] and [_lifted_identifiers] *)

Definition ldict := list (ident * (addr * addr)).

Fixpoint assoc (id : ident) (d : ldict) : option (addr * addr) :=
  match d with
  | [] => None
  | (k, x) :: r => if ident_eqb id k then Some x else assoc id r
  end.

Definition dremove (id : ident) (d : ldict) : ldict :=
  filter (fun kx => negb (ident_eqb id (fst kx))) d.

Definition mem (id : ident) (l : list ident) : bool := existsb (ident_eqb id) l.

(** [l_lifted] is the union of the per-level sets [_lifted_identifiers[1]], [..[2]] (the level
    of an identifier is its constructor). *)
Record lifting := mkL { l_dict : ldict; l_lifted : list ident }.

(** [TreeLiftingState._delete] *)
Definition lift_delete (l : lifting) (id : ident) : lifting :=
  match assoc id (l_dict l) with
  | Some _ => mkL (dremove id (l_dict l)) (filter (fun k => negb (ident_eqb id k)) (l_lifted l))
  | None => l
  end.

(** [TreeLiftingState.set].  [velocity] and [time_stamp] must both be given or both be None
    (Python: AssertionError otherwise; outside the domain of the model, left unchanged). *)
Definition lift_set (l : lifting) (id : ident) (vel ts : option addr) : lifting :=
  match vel, ts with
  | Some v, Some t =>
      mkL ((id, (v, t)) :: dremove id (l_dict l))
          (if mem id (l_lifted l) then l_lifted l else id :: l_lifted l)
  | None, None => lift_delete l id
  | _, _ => l
  end.

(** [TreeLiftingState.get]: [(velocity, time_stamp)] or [(None, None)]. *)
Definition lift_get (l : lifting) (id : ident) : option addr * option addr :=
  match assoc id (l_dict l) with Some (v, t) => (Some v, Some t) | None => (None, None) end.

(* ---------------------------------------------------------------------------------------- *)
(** ** TreePhysicalState: root nodes with child nodes, each holding a position reference *)

Definition pnode := (addr * list addr)%type.

Fixpoint upd {A} (n : nat) (f : A -> A) (l : list A) : list A :=
  match l, n with
  | [], _ => []
  | x :: r, O => f x :: r
  | x :: r, S n' => x :: upd n' f r
  end.

Definition phys_get (ph : list pnode) (id : ident) : option addr :=
  match id with
  | Root i => option_map fst (nth_error ph i)
  | Leaf i j => match nth_error ph i with Some (_, cs) => nth_error cs j | None => None end
  end.

(** [TreePhysicalState.set]: [node.value.position = position] (the reference is stored). *)
Definition phys_set (ph : list pnode) (id : ident) (a : addr) : list pnode :=
  match id with
  | Root i => upd i (fun n => (a, snd n)) ph
  | Leaf i j => upd i (fun n => (fst n, upd j (fun _ => a) (snd n))) ph
  end.

(* ---------------------------------------------------------------------------------------- *)
(** ** Global state *)

(** [g_levels], [g_npr]: setting.number_of_node_levels, setting.number_of_nodes_per_root_node. *)
Record gstate := mkG {
  g_store : store;
  g_phys : list pnode;
  g_lift : lifting;
  g_levels : nat;
  g_npr : nat
}.

Definition set_store (g : gstate) (s : store) : gstate :=
  mkG s (g_phys g) (g_lift g) (g_levels g) (g_npr g).

(** References held by the global state for an identifier; None if the identifier is not in
    the tree (Python: IndexError). *)
Definition grefs (g : gstate) (id : ident) : option (addr * option addr * option addr) :=
  match phys_get (g_phys g) id with
  | Some p => let '(v, t) := lift_get (g_lift g) id in Some (p, v, t)
  | None => None
  end.

(** The abstraction: values per identifier. *)
Definition abs (g : gstate) (id : ident) : option uv :=
  option_map (rvals (g_store g)) (grefs g id).

(* ---------------------------------------------------------------------------------------- *)
(** ** extract_from_global_state *)

Definition copy_opt (s : store) (o : option addr) : store * option addr :=
  match o with
  | Some a => let (s', a') := copy s a in (s', Some a')
  | None => (s, None)
  end.

(** [Unit(id, copy(position), charge, copy(velocity), copy(time_stamp))]  (arguments are
    evaluated left to right). *)
Definition extract_unit (l : lifting) (s : store) (id : ident) (p : addr) : store * unit_ :=
  let '(v, t) := lift_get l id in
  let (s1, p') := copy s p in
  let (s2, v') := copy_opt s1 v in
  let (s3, t') := copy_opt s2 t in
  (s3, mkUnit id p' v' t').

(** [_construct_cnode_with_all_children_cnodes(child, identifier + (index,), copy)] for the
    children [cs] (positions) of root [i], starting at child index [j]. *)
Fixpoint extract_children (l : lifting) (s : store) (i j : nat) (cs : list addr) : store * list unit_ :=
  match cs with
  | [] => (s, [])
  | pc :: r =>
      let (s1, u) := extract_unit l s (Leaf i j) pc in
      let (s2, us) := extract_children l s1 i (S j) r in
      (s2, u :: us)
  end.

(** Branch of [id]: copies of the node, of its ancestors, and of all its descendants.
    [None]: identifier outside the tree (Python raises IndexError; the global state is not
    touched). *)
Definition extract (g : gstate) (id : ident) : gstate * option branch :=
  match id with
  | Root i =>
      match nth_error (g_phys g) i with
      | Some (p, cs) =>
          let (s1, ru) := extract_unit (g_lift g) (g_store g) (Root i) p in
          let (s2, cus) := extract_children (g_lift g) s1 i 0 cs in
          (set_store g s2, Some (mkBranch ru cus))
      | None => (g, None)
      end
  | Leaf i j =>
      match nth_error (g_phys g) i with
      | Some (p, cs) =>
          match nth_error cs j with
          | Some pc =>
              let (s1, ru) := extract_unit (g_lift g) (g_store g) (Root i) p in
              let (s2, cu) := extract_unit (g_lift g) s1 (Leaf i j) pc in
              (set_store g s2, Some (mkBranch ru [cu]))
          | None => (g, None)
          end
      | None => (g, None)
      end
  end.

(* ---------------------------------------------------------------------------------------- *)
(** ** extract_active_global_state *)

Definition is_lifted (g : gstate) (id : ident) : bool := mem id (l_lifted (g_lift g)).

(** [yield_independent_lifted_identifiers] (two levels) and
    [_yield_independent_lifted_identifiers_simple] (one level: keys of the dictionary).
    The code iterates over a Python set / dict; the model lists the same identifiers in
    index order (the harness sorts the implementation's answer; iteration order is a
    representation detail). *)
Definition active_ids (g : gstate) : list ident :=
  if Nat.eqb (g_levels g) 1 then
    filter (fun id => match assoc id (l_dict (g_lift g)) with Some _ => true | None => false end)
           (map Root (seq 0 (length (g_phys g))))
  else
    flat_map (fun i =>
      if is_lifted g (Root i) then
        let ls := filter (fun j => is_lifted g (Leaf i j)) (seq 0 (g_npr g)) in
        if Nat.eqb (length ls) (g_npr g) then [Root i] else map (Leaf i) ls
      else []) (seq 0 (length (g_phys g))).

Fixpoint extract_list (g : gstate) (ids : list ident) : gstate * list branch :=
  match ids with
  | [] => (g, [])
  | id :: r =>
      let (g1, ob) := extract g id in
      let (g2, bs) := extract_list g1 r in
      (g2, match ob with Some b => b :: bs | None => bs end)
  end.

Definition extract_active (g : gstate) : gstate * list branch := extract_list g (active_ids g).

(* ---------------------------------------------------------------------------------------- *)
(** ** extract_global_state: new Unit/Node containers around the GLOBAL objects (no copy) *)

Definition global_unit (g : gstate) (id : ident) (p : addr) : unit_ :=
  let '(v, t) := lift_get (g_lift g) id in mkUnit id p v t.

Fixpoint global_children (g : gstate) (i j : nat) (cs : list addr) : list unit_ :=
  match cs with
  | [] => []
  | pc :: r => global_unit g (Leaf i j) pc :: global_children g i (S j) r
  end.

Fixpoint global_roots (g : gstate) (i : nat) (ph : list pnode) : list branch :=
  match ph with
  | [] => []
  | (p, cs) :: r => mkBranch (global_unit g (Root i) p) (global_children g i 0 cs) :: global_roots g (S i) r
  end.

Definition extract_global (g : gstate) : list branch := global_roots g 0 (g_phys g).

(* ---------------------------------------------------------------------------------------- *)
(** ** insert_into_global_state: stores the references it is given *)

Definition insert_unit (g : gstate) (u : unit_) : gstate :=
  mkG (g_store g) (phys_set (g_phys g) (u_id u) (u_pos u))
      (lift_set (g_lift g) (u_id u) (u_vel u) (u_ts u)) (g_levels g) (g_npr g).

(** root cnode first, then [insert_into_global_state(cnode.children)]. *)
Definition insert_branch (g : gstate) (b : branch) : gstate :=
  fold_left insert_unit (b_children b) (insert_unit g (b_root b)).

Definition insert (g : gstate) (bs : list branch) : gstate := fold_left insert_branch bs g.

(* ---------------------------------------------------------------------------------------- *)
(** ** Initial state: [TreeStateHandler.initialize(root_nodes)], lifting state empty *)

Fixpoint alloc_list (s : store) (vs : list val) : store * list addr :=
  match vs with
  | [] => (s, [])
  | v :: r => let (s1, a) := alloc s v in let (s2, l) := alloc_list s1 r in (s2, a :: l)
  end.

Fixpoint init_phys (s : store) (tree : list (val * list val)) : store * list pnode :=
  match tree with
  | [] => (s, [])
  | (pv, cvs) :: r =>
      let (s1, p) := alloc s pv in
      let (s2, cs) := alloc_list s1 cvs in
      let (s3, ns) := init_phys s2 r in
      (s3, (p, cs) :: ns)
  end.

Definition init (levels npr : nat) (tree : list (val * list val)) : gstate :=
  let (s, ph) := init_phys empty_store tree in mkG s ph (mkL [] []) levels npr.

(* ---------------------------------------------------------------------------------------- *)
(** ** The client (mediator + event handlers): holds branches, mutates them, commits them *)

Inductive field := FPos | FVel | FTs.

(** Operations.  Branches are named by their index [h] in the list of all branches handed
    out so far, units inside a branch by [k] (0 = root cnode, k+1 = k-th child cnode).
    - [OWrite]: in-place change of the object ([position[d] = x], [velocity[d] += x],
      [time_stamp.update(t)]);
    - [ONew]: the attribute is bound to a new object ([unit.velocity = new_velocity.copy()],
      [unit.time_stamp = copy(event_time)]);
    - [OClear]: [unit.velocity = None; unit.time_stamp = None];
    - [OShare]: the attribute is bound to the object of another unit
      ([target_unit.velocity = active_unit.velocity]). *)
Inductive op :=
| OExtract (id : ident)
| OExtractActive
| OExtractGlobal
| OWrite (h k : nat) (f : field) (v : val)
| ONew (h k : nat) (f : field) (v : val)
| OClear (h k : nat)
| OShare (h k h' k' : nat) (f : field)
| OInsert (hs : list nat).

(** [c_owned] is ghost state (it never influences [c_g] or [c_held]): the objects that
    belong to the client, i.e. were handed out by a copying extraction or created by the
    client, and have not been part of an inserted branch since. *)
Record cstate := mkC { c_g : gstate; c_held : list branch; c_owned : list addr }.

Definition get_unit (b : branch) (k : nat) : option unit_ :=
  match k with O => Some (b_root b) | S k' => nth_error (b_children b) k' end.

Definition map_unit (b : branch) (k : nat) (f : unit_ -> unit_) : branch :=
  match k with
  | O => mkBranch (f (b_root b)) (b_children b)
  | S k' => mkBranch (b_root b) (upd k' f (b_children b))
  end.

Definition field_get (u : unit_) (f : field) : option addr :=
  match f with FPos => Some (u_pos u) | FVel => u_vel u | FTs => u_ts u end.

(** Rebinding an attribute of a Unit (position cannot become None). *)
Definition field_set (f : field) (o : option addr) (u : unit_) : unit_ :=
  match f with
  | FPos => match o with Some a => mkUnit (u_id u) a (u_vel u) (u_ts u) | None => u end
  | FVel => mkUnit (u_id u) (u_pos u) o (u_ts u)
  | FTs => mkUnit (u_id u) (u_pos u) (u_vel u) o
  end.

Definition held_unit (c : cstate) (h k : nat) : option unit_ :=
  match nth_error (c_held c) h with Some b => get_unit b k | None => None end.

Definition target (c : cstate) (h k : nat) (f : field) : option addr :=
  match held_unit c h k with Some u => field_get u f | None => None end.

Definition rebind (c : cstate) (h k : nat) (fn : unit_ -> unit_) : list branch :=
  upd h (fun b => map_unit b k fn) (c_held c).

Fixpoint select {A} (l : list A) (hs : list nat) : list A :=
  match hs with
  | [] => []
  | h :: r => match nth_error l h with Some x => x :: select l r | None => select l r end
  end.

Definition inb (a : addr) (l : list addr) : bool := existsb (Pos.eqb a) l.

Definition step (c : cstate) (o : op) : cstate :=
  match o with
  | OExtract id =>
      let (g', ob) := extract (c_g c) id in
      match ob with
      | Some b => mkC g' (c_held c ++ [b]) (c_owned c ++ branch_addrs b)
      | None => mkC g' (c_held c) (c_owned c)
      end
  | OExtractActive =>
      let (g', bs) := extract_active (c_g c) in
      mkC g' (c_held c ++ bs) (c_owned c ++ flat_map branch_addrs bs)
  | OExtractGlobal =>
      mkC (c_g c) (c_held c ++ extract_global (c_g c)) (c_owned c)
  | OWrite h k f v =>
      match target c h k f with
      | Some a => mkC (set_store (c_g c) (write (g_store (c_g c)) a v)) (c_held c) (c_owned c)
      | None => c
      end
  | ONew h k f v =>
      match held_unit c h k with
      | Some _ =>
          let (s', a) := alloc (g_store (c_g c)) v in
          mkC (set_store (c_g c) s') (rebind c h k (field_set f (Some a))) (c_owned c ++ [a])
      | None => c
      end
  | OClear h k =>
      mkC (c_g c) (rebind c h k (fun u => field_set FTs None (field_set FVel None u))) (c_owned c)
  | OShare h k h' k' f =>
      match held_unit c h' k' with
      | Some u' => mkC (c_g c) (rebind c h k (field_set f (field_get u' f))) (c_owned c)
      | None => c
      end
  | OInsert hs =>
      let bs := select (c_held c) hs in
      mkC (insert (c_g c) bs) (c_held c)
          (filter (fun a => negb (inb a (flat_map branch_addrs bs))) (c_owned c))
  end.

Definition run (c : cstate) (ops : list op) : cstate := fold_left step ops c.

(** Discipline of the client (hypothesis of the non-interference theorem):
    - in-place writes only to objects the client owns;
    - inserted units carry velocity and time stamp together or neither (the code asserts it). *)
Definition unit_wfb (u : unit_) : bool :=
  match u_vel u, u_ts u with Some _, Some _ => true | None, None => true | _, _ => false end.

Definition op_okb (c : cstate) (o : op) : bool :=
  match o with
  | OWrite h k f _ => match target c h k f with Some a => inb a (c_owned c) | None => true end
  | OInsert hs => forallb unit_wfb (flat (select (c_held c) hs))
  | _ => true
  end.

Fixpoint disciplinedb (c : cstate) (ops : list op) : bool :=
  match ops with
  | [] => true
  | o :: r => op_okb c o && disciplinedb (step c o) r
  end.
