(** * Model/TimeCases.v — case type and checker for the C14 correspondence. *)
From Coq Require Import ZArith Bool List.
Require Import JF.Base.F64 JF.Base.PyFloat JF.Model.Time.
Import ListNotations.

Inductive tcase :=
| CAdd (q r d eq er : Z)
| CFrom (x eq er : Z)
| CSub (q1 r1 q2 r2 e : Z)
| CCmp (q1 r1 q2 r2 : Z) (res : list bool)   (* ==, !=, <, >, <=, >= *)
| CInf (eq er : Z).

Definition time_eqb_bits (t : time) (eq er : Z) : bool :=
  feqb_bits (tq t) (of_bits eq) && feqb_bits (tr t) (of_bits er).

Fixpoint list_beq (a b : list bool) : bool :=
  match a, b with
  | [], [] => true
  | x :: a', y :: b' => Bool.eqb x y && list_beq a' b'
  | _, _ => false
  end.

Definition check_tcase (c : tcase) : bool :=
  match c with
  | CAdd q r d eq er => time_eqb_bits (time_add (mkTime (of_bits q) (of_bits r)) (of_bits d)) eq er
  | CFrom x eq er => time_eqb_bits (from_float (of_bits x)) eq er
  | CSub q1 r1 q2 r2 e =>
      feqb_bits (time_sub (mkTime (of_bits q1) (of_bits r1)) (mkTime (of_bits q2) (of_bits r2))) (of_bits e)
  | CCmp q1 r1 q2 r2 res =>
      let a := mkTime (of_bits q1) (of_bits r1) in
      let b := mkTime (of_bits q2) (of_bits r2) in
      list_beq [time_eq a b; time_ne a b; time_lt a b; time_gt a b; time_le a b; time_ge a b] res
  | CInf eq er => time_eqb_bits time_inf eq er
  end.
