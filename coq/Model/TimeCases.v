(** * Model/TimeCases.v — case type and checker for the C14 correspondence. *)
From Coq Require Import ZArith Bool List.
Require Import JF.Base.F64 JF.Base.PyFloat JF.Model.Time.
Import ListNotations.

(** History of one Time object: construction, [Time.update] (an assignment of quotient and remainder),
    copies (copy.copy / copy.deepcopy / pickle round trip: the value is kept). *)
Inductive hstep :=
| HNew (q r : Z)            (* Time(q, r) *)
| HFrom (x : Z)             (* Time.from_float(x) *)
| HUpd (q r : Z)            (* t.update(Time(q, r)) *)
| HUpdAdd (q r d : Z)       (* t.update(Time(q, r) + d) *)
| HUpdFrom (x : Z)          (* t.update(Time.from_float(x)) *)
| HAdd (d : Z)              (* t = t + d : the object is now the RESULT of an addition (a fresh value) *)
| HCopy.                    (* t = copy(t) | deepcopy(t) | pickle round trip *)

Definition hstep_apply (t : time) (s : hstep) : time :=
  match s with
  | HNew q r | HUpd q r => mkTime (of_bits q) (of_bits r)
  | HFrom x | HUpdFrom x => from_float (of_bits x)
  | HUpdAdd q r d => time_add (mkTime (of_bits q) (of_bits r)) (of_bits d)
  | HAdd d => time_add t (of_bits d)
  | HCopy => t
  end.

Definition hist_value (steps : list hstep) : time := fold_left hstep_apply steps (mkTime fnan fnan).

Inductive tcase :=
| CAdd (q r d eq er : Z)
| CFrom (x eq er : Z)
| CSub (q1 r1 q2 r2 e : Z)
| CCmp (q1 r1 q2 r2 : Z) (res : list bool)   (* ==, !=, <, >, <=, >= *)
| CInf (eq er : Z)
| CHeap (times : list (Z * Z)) (order : list nat)    (* times pushed to the C heap, order in which they came out *)
| CHist (steps : list hstep) (q2 r2 d : Z)            (* object history, then every operation on the final object *)
        (eq er : Z) (cmp : list bool) (aq ar s1 s2 : Z).

Definition time_eqb_bits (t : time) (eq er : Z) : bool :=
  feqb_bits (tq t) (of_bits eq) && feqb_bits (tr t) (of_bits er).

Fixpoint list_beq (a b : list bool) : bool :=
  match a, b with
  | [], [] => true
  | x :: a', y :: b' => Bool.eqb x y && list_beq a' b'
  | _, _ => false
  end.

Definition check_tcase (c : tcase) : bool :=
  match c with
  | CAdd q r d eq er => time_eqb_bits (time_add (mkTime (of_bits q) (of_bits r)) (of_bits d)) eq er
  | CFrom x eq er => time_eqb_bits (from_float (of_bits x)) eq er
  | CSub q1 r1 q2 r2 e =>
      feqb_bits (time_sub (mkTime (of_bits q1) (of_bits r1)) (mkTime (of_bits q2) (of_bits r2))) (of_bits e)
  | CCmp q1 r1 q2 r2 res =>
      let a := mkTime (of_bits q1) (of_bits r1) in
      let b := mkTime (of_bits q2) (of_bits r2) in
      list_beq [time_eq a b; time_ne a b; time_lt a b; time_gt a b; time_le a b; time_ge a b] res
  | CInf eq er => time_eqb_bits time_inf eq er
  | CHeap times order =>
      (* the C heap hands the events out in an order that the quotient-then-remainder comparison accepts,
         and every event comes out exactly once *)
      let t (i : nat) := match nth_error times i with
                         | Some (q, r) => mkTime (of_bits q) (of_bits r)
                         | None => time_inf end in
      (fix sorted (l : list nat) : bool :=
         match l with
         | i :: ((j :: _) as rest) => negb (time_lt (t j) (t i)) && sorted rest
         | _ => true
         end) order
      && Nat.eqb (length order) (length times)
      && forallb (fun i => existsb (Nat.eqb i) order) (seq 0 (length times))
  | CHist steps q2 r2 d eq er cmp aq ar s1 s2 =>
      (* the object holds the value of the LAST assignment and every operation sees exactly that value *)
      let a := hist_value steps in
      let b := mkTime (of_bits q2) (of_bits r2) in
      time_eqb_bits a eq er
      && list_beq [time_eq a b; time_ne a b; time_lt a b; time_gt a b; time_le a b; time_ge a b;
                   time_eq b a; time_ne b a; time_lt b a; time_gt b a; time_le b a; time_ge b a] cmp
      && time_eqb_bits (time_add a (of_bits d)) aq ar
      && feqb_bits (time_sub a b) (of_bits s1) && feqb_bits (time_sub b a) (of_bits s2)
  end.
