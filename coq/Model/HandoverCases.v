(** * Model/HandoverCases.v — checker of the local chain contract on a recorded run.

    The case term is exactly a [kcase] (harness/hist.py [encode_kcase]); the checker evaluates
    [handover_ok] on every leg's out-state from the start-of-run event on. *)
From Coq Require Import ZArith QArith List Bool.
Require Import JF.Base.F64 JF.Model.Kinematics JF.Model.Handover.
Import ListNotations.

Definition check_hocase (c : kcase) : bool :=
  ids_nodup (map u_id (kc_init c)) && handover_run (kc_init c) false (kc_legs c).

(** index of the first leg whose out-state violates the contract (diagnosis only) *)
Fixpoint first_bad_leg (n : nat) (st : gstate) (started : bool) (legs : list kleg) : option nat :=
  match legs with
  | [] => None
  | l :: r =>
      let started' := started || is_start (k_kind l) in
      if negb started' || handover_ok st (k_out l)
      then first_bad_leg (S n) (commit st (k_out l)) started' r
      else Some n
  end.

(** both checkers on one parsed case (parsing the case term dominates the cost of a case file) *)
Definition check_kcase_and_hocase (c : kcase) : bool := check_kcase c && check_hocase c.
