(** * Model/CoulombBoundR.v — real model of inverse_power_coulomb_bounding_potential.c (C02, C03).

    U = kc / |r_nearest|, kc = prefactor * c_i * c_j, cubic box of side L, motion along +x of the permuted
    separation (x = separation[direction], q = sum of the squares of the two other components).
    [floor] is [Int_part]; [fmod (a, b)] for a >= 0, b > 0 is  a - floor (a / b) * b.  No proofs here. *)
From Coq Require Import Reals ZArith List.
Import ListNotations.
Open Scope R_scope.

Definition ipc_pot (kc x q : R) : R := kc / sqrt (x * x + q).

(** derivative(prefactor_product, sx, sy, sz) *)
Definition ipc_derivative (kc x q : R) : R := kc * x / Rpower (x * x + q) (3 / 2).

(** the part of displacement() after the whole laps have been removed (potential_change = the fmod remainder) *)
Definition ipc_rest (kc dE x q L : R) : R :=
  let h := L / 2 in
  let U0 := ipc_pot kc x q in
  let Uz := ipc_pot kc 0 q in
  let Uh := ipc_pot kc h q in
  if Rlt_dec 0 kc then
    if Rle_dec x 0 then
      let nn := kc / (Uh + dE) in (h + x) + (h - sqrt (nn * nn - q))
    else if Rle_dec (Uz - U0) dE then
      let nn := kc / (Uh + (dE - (Uz - U0))) in (x + h) + (h - sqrt (nn * nn - q))
    else
      let nn := kc / (U0 + dE) in x - sqrt (nn * nn - q)
  else
    if Rlt_dec 0 x then
      let nn := kc / (Uz + dE) in x + (0 + sqrt (nn * nn - q))
    else if Rle_dec (Uh - U0) dE then
      let nn := kc / (Uz + (dE - (Uh - U0))) in (x + L) + (0 + sqrt (nn * nn - q))
    else
      let nn := kc / (U0 + dE) in x + sqrt (nn * nn - q).

Definition ipc_per_lap (kc q L : R) : R := Rabs (ipc_pot kc 0 q - ipc_pot kc (L / 2) q).

Definition ipc_displacement_laps (laps : Z) (kc dE x q L : R) : option R :=
  Some (IZR laps * L + ipc_rest kc (dE - IZR laps * ipc_per_lap kc q L) x q L).

(** displacement(prefactor_product, sx, sy, sz, potential_change, system_length) *)
Definition ipc_displacement (kc dE x q L : R) : option R :=
  ipc_displacement_laps (Int_part (dE / ipc_per_lap kc q L)) kc dE x q L.

(** statement used by the correspondence: the number of laps claimed for a case is floor (dE / per_lap) *)
Definition ipc_laps_ok (laps : Z) (kc dE q L : R) : Prop :=
  IZR laps <= dE / ipc_per_lap kc q L < IZR laps + 1.

(** ** Specification side (independent of the C code): the nearest-image 1/r potential along the path.
    [nearest_image L u] reduces a coordinate to [-L/2, L/2); while the active unit advances by s the separation
    component along the motion is x - s; the energy is monotone between the break points x + j L/2
    (j even: closest approach to an image, j odd: half-way between two images). *)
Definition nearest_image (L u : R) : R := u - L * IZR (Int_part (u / L + 1 / 2)).
Definition ipc_path (kc x q L s : R) : R := ipc_pot kc (nearest_image L (x - s)) q.
Definition ipc_breaks (x L : R) (n : nat) : list R := map (fun j => x + INR j * (L / 2)) (seq 0 n).
