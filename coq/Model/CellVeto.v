(** * Model/CellVeto.v — model of the cell-veto handler glue on binary64:
    jellyfysh/event_handler/abstracts/cell_veto_event_handler.py ([initialize], [send_event_time], shared by
    LeafUnitCellVetoEventHandler and CompositeObjectCellVetoEventHandler) and the confirmation step of
    LeafUnitCellVetoEventHandler.send_out_state
    ([EventHandlerWithBoundingPotential._calculate_out_state_of_two_leaf_unit_bounding_potential]).

    Float operations are written in exactly the order the code evaluates them.  Cells are index tuples
    ([JF.Model.CellIndex]); the alias tables are data (their construction is [JF.Model.Walker], property
    alias_exact); draws are explicit: [row] (random.choice), [u] (random.uniform), [e] (random.expovariate).
    No proofs in this file. *)
From Coq Require Import ZArith Bool List.
Require Import JF.Base.F64 JF.Base.PyFloat JF.Model.Time JF.Model.CellIndex.
Import ListNotations.

(** Python's [max(a, b)] on floats: [b] if [b > a], else [a]. *)
Definition py_max (a b : f64) : f64 := if fgt b a then b else a.

(** Python's [sum] of floats.  CPython >= 3.12 ([builtin_sum], float fast path) does NOT fold [+] from the left: it
    uses Neumaier's compensated summation
      [t = s + x; if fabs(s) >= fabs(x): c += (s - t) + x else: c += (x - t) + s; s = t]
    starting from [s = (double)0, c = 0.0], and finally [if (c && isfinite(c)) s += c]. *)
Fixpoint neumaier (l : list f64) (s c : f64) : f64 * f64 :=
  match l with
  | [] => (s, c)
  | x :: r =>
      let t := fadd s x in
      let c' := if fge (fabs s) (fabs x) then fadd c (fadd (fsub s t) x) else fadd c (fadd (fsub x t) s) in
      neumaier r t c'
  end.
Definition py_fsum (l : list f64) : f64 :=
  let '(s, c) := neumaier l fzero fzero in
  if negb (fiszero c) && ffinite c then fadd s c else s.

(** [random.uniform(a, b)] = [a + (b - a) * random()] *)
Definition funiform (u a b : f64) : f64 := fadd a (fmul (fsub b a) u).

(** stored bound of one cell offset in one direction: [(upper_bound, -lower_bound)] *)
Definition bound := (f64 * f64)%type.
Definition bound_at (b : bound) (index : nat) : f64 := match index with O => fst b | _ => snd b end.

(** [initialize]: the rates handed to the two Walkers of a direction:
    [max(self._derivative_bounds[sep][direction][0 | 1], 0.0)] for the offsets in dictionary order *)
Definition walker_rates (bounds : list bound) (index : nat) : list f64 :=
  map (fun b => py_max (bound_at b index) fzero) bounds.

(** [Walker.__init__]: [_total_rate = sum(rates)], [_mean_rate = _total_rate / len(items)] *)
Definition walker_total (rates : list f64) : f64 := py_fsum rates.
Definition walker_mean (rates : list f64) : f64 := fdiv (walker_total rates) (of_Z (Z.of_nat (length rates))).

(** a row of a float alias table: (offset index, rate) of the first item and of the optional second item *)
Definition frow := ((nat * f64) * option (nat * f64))%type.

(** [Walker.sample_cell] on floats; [None] = IndexError *)
Definition fsample (row : frow) (mean u : f64) : option nat :=
  let '((i0, r0), second) := row in
  if fle (funiform u fzero mean) r0 then Some i0
  else match second with Some (i1, _) => Some i1 | None => None end.

(** data of one direction of motion *)
Record cvdir := mkDir {
  d_bounds : list bound;                 (* per offset, in the order of [_derivative_bounds] *)
  d_upper : f64 * f64 * list frow;       (* upper-bound walker: total, mean, table *)
  d_lower : f64 * f64 * list frow        (* lower-bound walker *)
}.

(** [if charge_factor > 0.0: walker = upper, index = 0  else: charge_factor *= -1.0; walker = lower, index = 1] *)
Definition cv_choose (cf : f64) : bool * f64 * nat :=
  if fgt cf fzero then (true, cf, O) else (false, fmul cf (fopp fone), 1%nat).

(** [time_displacement = random.expovariate(beta) / (total_rate * speed)], [total_rate = walker.total_rate * factor] *)
Definition cv_displacement (e walker_total_rate factor speed : f64) : f64 :=
  fdiv e (fmul (fmul walker_total_rate factor) speed).

Inductive cvres :=
| CVOk (event_time : time) (offset : nat) (target : ident) (bounding_event_rate : f64)
| CVAssertionError             (* assert self._bounding_event_rate > 0.0 *)
| CVIndexError.                (* row index out of range / single row not taken / unknown offset *)

(** [CellVetoEventHandler.send_event_time] after the in-state bookkeeping:
    [ns] cells per side, [seps] the offsets (index tuples) in the order of [_derivative_bounds],
    [active] the cell of the unit at cell level, [stamp] the active leaf unit's time stamp. *)
Definition cv_send_event_time (ns : list Z) (seps : list ident) (d : cvdir)
           (active : ident) (stamp : time) (speed cf : f64) (row : nat) (u e : f64) : cvres :=
  let '(upper, factor, index) := cv_choose cf in
  let '(wtotal, wmean, table) := if upper then d_upper d else d_lower d in
  match nth_error table row with
  | None => CVIndexError
  | Some r =>
      match fsample r wmean u with
      | None => CVIndexError
      | Some off =>
          match nth_error (d_bounds d) off, nth_error seps off with
          | Some b, Some rel =>
              let ber := fmul (bound_at b index) factor in
              if fgt ber fzero then
                CVOk (time_add stamp (cv_displacement e wtotal factor speed)) off (translate ns active rel) ber
              else CVAssertionError
          | _, _ => CVIndexError
          end
      end
  end.

(** confirmation in [send_out_state] (target cell occupied):
    [if real_derivative > 0: if random.uniform(0, self._bounding_event_rate) < real_derivative: exchange] *)
Definition cv_confirm (ber real_derivative u : f64) : bool :=
  fgt real_derivative fzero && flt (funiform u fzero ber) real_derivative.

(** velocities of (active, target) leaf unit after [send_out_state]; [None] target = empty cell *)
Definition cv_out_exchanged (ber : f64) (target : option (f64 * f64)) : bool :=
  match target with
  | None => false
  | Some (real_derivative, u) => cv_confirm ber real_derivative u
  end.
