(** * Model/Activator.v — model of jellyfysh/activator/tag_activator.py (TagActivator) and of the
    bookkeeping of jellyfysh/activator/tagger/tagger.py (activate / deactivate).

    Taggers and event handlers are numbered as in [TagActivator._taggers] and
    [TagActivator.get_event_handlers()].  What a tagger's (activated)
    [yield_identifiers_send_event_time] generates for the current active state is an INPUT of the
    model ([gen]); the model reproduces which handlers are started with which in-state, which are
    trashed, and which taggers are activated. *)
From Coq Require Import List Arith Bool.
Import ListNotations.

(** An in-state: [None] for taggers without in-state, else a tuple of identifiers. *)
Definition ident := list nat.
Definition instate := option (list ident).

Record wiring := {
  w_creates : list (list nat);      (* per tagger: indices of the taggers in its create list, in order *)
  w_trashes : list (list nat);
  w_activates : list (list nat);
  w_deactivates : list (list nat);
  w_handlers : list (list nat);     (* per tagger: its event handlers, in the order of get_event_handlers() *)
  w_start : nat;                    (* tagger of the start-of-run event handler *)
  w_tagger_of : list nat            (* per handler: its tagger *)
}.

Record astate := {
  a_running : list (list (nat * instate));   (* per tagger: running handlers with their in-state, append order *)
  a_notrun : list (list nat);                (* per tagger: not-running handlers; [pop()] takes the LAST *)
  a_active : list bool                       (* per tagger: activated? *)
}.

Definition nthl {A} (l : list (list A)) (i : nat) : list A := nth i l [].

Fixpoint set_nth {A} (l : list A) (i : nat) (v : A) : list A :=
  match l, i with
  | [], _ => []
  | _ :: r, O => v :: r
  | x :: r, S j => x :: set_nth r j v
  end.

Definition a_init (w : wiring) : astate :=
  {| a_running := map (fun _ => []) (w_handlers w);
     a_notrun := w_handlers w;
     a_active := map (fun _ => true) (w_handlers w) |}.

(** tagger.activate() / tagger.deactivate() *)
Definition set_active (s : astate) (xs : list nat) (b : bool) : astate :=
  {| a_running := a_running s; a_notrun := a_notrun s;
     a_active := fold_left (fun l x => set_nth l x b) xs (a_active s) |}.

Definition apply_activation (w : wiring) (s : astate) (t : nat) : astate :=
  set_active (set_active s (nthl (w_activates w) t) true) (nthl (w_deactivates w) t) false.

(** What tagger [x] effectively yields: nothing when deactivated. *)
Definition eff (s : astate) (gen : nat -> list instate) (x : nat) : list instate :=
  if nth x (a_active s) true then gen x else [].

(** Start the handlers of tagger [x] for the in-states [ins]: each one pops the last not-running
    handler; [None] = TagActivatorError (not-running list empty). *)
Fixpoint start_handlers (s : astate) (x : nat) (ins : list instate)
  : option (astate * list (nat * instate)) :=
  match ins with
  | [] => Some (s, [])
  | i :: rest =>
      match rev (nthl (a_notrun s) x) with
      | [] => None
      | h :: r =>
          let s1 := {| a_running := set_nth (a_running s) x (nthl (a_running s) x ++ [(h, i)]);
                       a_notrun := set_nth (a_notrun s) x (rev r);
                       a_active := a_active s |} in
          match start_handlers s1 x rest with
          | Some (s2, l) => Some (s2, (h, i) :: l)
          | None => None
          end
      end
  end.

Fixpoint create_all (s : astate) (gen : nat -> list instate) (xs : list nat)
  : option (astate * list (nat * instate)) :=
  match xs with
  | [] => Some (s, [])
  | x :: rest =>
      match start_handlers s x (eff s gen x) with
      | None => None
      | Some (s1, l1) =>
          match create_all s1 gen rest with
          | Some (s2, l2) => Some (s2, l1 ++ l2)
          | None => None
          end
      end
  end.

(** First call of [get_event_handlers_to_run] (preceding handler None): only the start-of-run
    tagger generates. *)
Definition act_first (w : wiring) (s : astate) (gen : nat -> list instate) :=
  create_all (apply_activation w s (w_start w)) gen [w_start w].

(** [_get_event_handlers_to_run_update] with the preceding handler's tagger [t]. *)
Definition act_update (w : wiring) (s : astate) (t : nat) (gen : nat -> list instate) :=
  create_all (apply_activation w s t) gen (nthl (w_creates w) t).

(** [get_trashable_events] for the preceding handler's tagger [t]. *)
Fixpoint trash_all (s : astate) (xs : list nat) : astate * list nat :=
  match xs with
  | [] => (s, [])
  | x :: rest =>
      let run := nthl (a_running s) x in
      let s1 := {| a_running := set_nth (a_running s) x [];
                   a_notrun := set_nth (a_notrun s) x (nthl (a_notrun s) x ++ map fst run);
                   a_active := a_active s |} in
      let '(s2, l) := trash_all s1 rest in
      (s2, map fst run ++ l)
  end.

Definition act_trash (w : wiring) (s : astate) (t : nat) := trash_all s (nthl (w_trashes w) t).

(** Pending in-states of a tagger. *)
Definition pending (s : astate) (x : nat) : list instate := map snd (nthl (a_running s) x).

(** ** Replay of a recorded run.
    One recorded leg: the tagger of the preceding event handler ([None] for the very first leg), the
    raw generation of every tagger for the active state of this leg. *)
Record aleg := {
  l_gen : list (list instate);           (* per tagger: what its activated yield function generates now *)
  l_torun : list (nat * instate);        (* recorded answer of get_event_handlers_to_run *)
  l_active : list bool;                  (* recorded activation status after this call *)
  l_pick : nat;                          (* handler committed in this leg *)
  l_trash : list nat                     (* recorded answer of get_trashable_events *)
}.

Definition gen_of (l : aleg) (x : nat) : list instate := nthl (l_gen l) x.

Fixpoint ident_eqb (a b : ident) : bool :=
  match a, b with
  | [], [] => true
  | x :: a', y :: b' => Nat.eqb x y && ident_eqb a' b'
  | _, _ => false
  end.
Fixpoint idents_eqb (a b : list ident) : bool :=
  match a, b with
  | [], [] => true
  | x :: a', y :: b' => ident_eqb x y && idents_eqb a' b'
  | _, _ => false
  end.
Definition instate_eqb (a b : instate) : bool :=
  match a, b with
  | None, None => true
  | Some x, Some y => idents_eqb x y
  | _, _ => false
  end.
Fixpoint torun_eqb (a b : list (nat * instate)) : bool :=
  match a, b with
  | [], [] => true
  | (h, i) :: a', (k, j) :: b' => Nat.eqb h k && instate_eqb i j && torun_eqb a' b'
  | _, _ => false
  end.
Fixpoint nats_eqb (a b : list nat) : bool :=
  match a, b with
  | [], [] => true
  | x :: a', y :: b' => Nat.eqb x y && nats_eqb a' b'
  | _, _ => false
  end.
Fixpoint bools_eqb (a b : list bool) : bool :=
  match a, b with
  | [], [] => true
  | x :: a', y :: b' => Bool.eqb x y && bools_eqb a' b'
  | _, _ => false
  end.

(** The activator part of one leg conforms: same handlers started with the same in-states in the same
    order, same activation flags, same trash list.  [run_states] returns the activator states right
    after each call of [get_event_handlers_to_run] ([None] if the recorded run deviates from the model). *)
Definition tg (w : wiring) (h : nat) : nat := nth h (w_tagger_of w) 0.

Definition upd (w : wiring) (s : astate) (pre : option nat) (l : aleg) :=
  match pre with
  | None => act_first w s (gen_of l)
  | Some h => act_update w s (tg w h) (gen_of l)
  end.

Fixpoint run_states (w : wiring) (s : astate) (pre : option nat) (ls : list aleg) : option (list astate) :=
  match ls with
  | [] => Some []
  | l :: rest =>
      match upd w s pre l with
      | None => None
      | Some (s1, tr) =>
          if torun_eqb tr (l_torun l) && bools_eqb (a_active s1) (l_active l) then
            if nats_eqb (snd (act_trash w s1 (tg w (l_pick l)))) (l_trash l) then
              match run_states w (fst (act_trash w s1 (tg w (l_pick l)))) (Some (l_pick l)) rest with
              | Some us => Some (s1 :: us)
              | None => None
              end
            else None
          else None
      end
  end.

Definition run_conf (w : wiring) (s : astate) (pre : option nat) (ls : list aleg) : bool :=
  match run_states w s pre ls with Some _ => true | None => false end.

(** ** The frame condition checked on consecutive legs (C09).
    Tagger kinds: identity-sensitive (multiset of in-states matters), count-only, one-shot. *)
Inductive tkind := TIdentity | TCount | TOneShot.

(** Multiset equality of in-state lists: equal multiplicity of every element. *)
Definition count (i : instate) (l : list instate) : nat := length (filter (instate_eqb i) l).
Definition mset_eqb (a b : list instate) : bool :=
  forallb (fun i => Nat.eqb (count i a) (count i b)) (a ++ b).

Definition rel_kind (k : tkind) (a b : list instate) : bool :=
  match k with
  | TIdentity => mset_eqb a b
  | TCount => Nat.eqb (length a) (length b)
  | TOneShot => true
  end.

Definition mem (x : nat) (l : list nat) : bool := existsb (Nat.eqb x) l.

(** Local condition between the effective generations before ([e0]) and after ([e1]) an event of
    tagger [t], for tagger [x] of kind [k]:
    regenerated (created and trashed), or untouched with unchanged generation, or created only while
    nothing was pending, or trashed only while nothing is generated any more. *)
Definition frame_ok_x (w : wiring) (t x : nat) (k : tkind) (e0 e1 : list instate) : bool :=
  let c := mem x (nthl (w_creates w) t) in
  let d := mem x (nthl (w_trashes w) t) in
  match k with
  | TOneShot => true
  | _ =>
    if c && d then true
    else if negb c && negb d then rel_kind k e0 e1
    else if c then match e0 with [] => true | _ => false end
    else match e1 with [] => true | _ => false end
  end.
