(** * Model/OccupancyCases.v — case types and checkers of the C10 correspondence.
    [check_occ_case]: the real SingleActiveCellOccupancy + cell taggers (+ cell-veto target lookup) against
    Model/Occupancy.v on the Z^d-modulo-counts cell system; [check_fm_case]: the real FactorTypeMaps parser,
    yield_factor_identifier and FactorTypeMapInStateTagger against Model/FactorMap.v.
    Lists whose order the property does not mention are compared as multisets. *)
From Coq Require Import List ZArith Bool.
Require Import JF.Model.Occupancy JF.Model.FactorMap.
Import ListNotations.

Definition lz := list Z.

Fixpoint remove_one {A} (eqb : A -> A -> bool) (x : A) (l : list A) : option (list A) :=
  match l with
  | [] => None
  | y :: r => if eqb x y then Some r
              else match remove_one eqb x r with Some r' => Some (y :: r') | None => None end
  end.

(** multiset equality up to [eqb] *)
Fixpoint perm_eqb {A} (eqb : A -> A -> bool) (a b : list A) : bool :=
  match a with
  | [] => match b with [] => true | _ => false end
  | x :: r => match remove_one eqb x b with Some b' => perm_eqb eqb r b' | None => false end
  end.

Fixpoint list_eqb {A} (eqb : A -> A -> bool) (a b : list A) : bool :=
  match a, b with
  | [], [] => true
  | x :: a', y :: b' => eqb x y && list_eqb eqb a' b'
  | _, _ => false
  end.

Fixpoint forall2b {A B} (f : A -> B -> bool) (a : list A) (b : list B) : bool :=
  match a, b with
  | [], [] => true
  | x :: a', y :: b' => f x y && forall2b f a' b'
  | _, _ => false
  end.

(** an in-state: the first identifier (the active unit) in place, the others as a multiset *)
Definition instate_eqb (a b : list lz) : bool :=
  match a, b with
  | [], [] => true
  | x :: a', y :: b' => list_Z_eqb x y && perm_eqb list_Z_eqb a' b'
  | _, _ => false
  end.
Definition instates_eqb (a b : list (list lz)) : bool := perm_eqb instate_eqb a b.

(** ** Occupancy cases *)
Record snapshot := mkSnap {
  sn_occ : list (list lz);          (* occupancy[cell] for every cell in yield_cells order *)
  sn_sur : list (lz * list lz);     (* the _surplus dict *)
  sn_active : list (lz * lz)        (* yield_active_cells *)
}.

Record step := mkStep {
  st_nid : lz; st_rel : bool; st_cell : lz;     (* what update() sees *)
  st_snap : snapshot;                           (* internals after update *)
  st_veto : list (list lz);
  st_bounding : list (list lz);
  st_nearby : list (list lz);
  st_surplus : list (list lz);
  st_boundary : list (list lz);
  st_vtargets : list (lz * lz * list lz)        (* walker item, translate(active_cell, item), mediator's targets *)
}.

Record occ_case := mkOccCase {
  oc_counts : list Z; oc_layers : Z; oc_max : Z;
  oc_cells : list lz;                           (* yield_cells *)
  oc_vdomain : list lz;                         (* walker items of the real cell-veto handler *)
  oc_vkeys : list lz;                           (* keys of its bound table *)
  oc_units : list (lz * lz * bool);
  oc_init : snapshot;
  oc_steps : list step
}.

Definition st := state lz lz.

Definition pair_eqb (a b : lz * lz) : bool := list_Z_eqb (fst a) (fst b) && list_Z_eqb (snd a) (snd b).

Definition check_snapshot (cs : cellsys lz) (s : st) (sn : snapshot) : bool :=
  list_eqb list_Z_eqb (map fst (occupants s)) (cs_cells cs)
  && list_eqb (perm_eqb list_Z_eqb) (map (occ_of list_Z_eqb s) (cs_cells cs)) (sn_occ sn)
  && Nat.eqb (length (surplus s)) (length (sn_sur sn))
  && forallb (fun cl => match aget list_Z_eqb (surplus s) (fst cl) with
                        | Some l => perm_eqb list_Z_eqb l (snd cl)
                        | None => false
                        end) (sn_sur sn)
  && list_eqb pair_eqb (yield_active_cells s) (sn_active sn).

Definition check_vtargets (cs : cellsys lz) (s : st) (vt : list (lz * lz * list lz)) : bool :=
  match yield_active_cells s with
  | [] => match vt with [] => true | _ => false end
  | (ac, _) :: _ =>
      perm_eqb list_Z_eqb (map (fun x => fst (fst x)) vt) (veto_domain list_Z_eqb cs)
      && forallb (fun x => let '(r, tc, ids) := x in
                           list_Z_eqb (cs_translate cs ac r) tc
                           && perm_eqb list_Z_eqb (veto_targets_of_cell list_Z_eqb cs s ac r) ids) vt
  end.

Definition check_step (cs : cellsys lz) (s : st) (sp : step) : option st :=
  match update list_Z_eqb list_Z_eqb s (st_nid sp) (st_rel sp) (st_cell sp) with
  | Err _ => None
  | Ok s' =>
      if check_snapshot cs s' (st_snap sp)
         (* without walker items the real CellVetoEventHandler cannot be built: the run has no cell-veto tagger *)
         && (match veto_domain list_Z_eqb cs with
             | [] => match st_veto sp with [] => true | _ => false end
             | _ => instates_eqb (cell_veto_tagger s') (st_veto sp)
             end)
         && instates_eqb (cell_bounding_tagger list_Z_eqb cs s') (st_bounding sp)
         && instates_eqb (excluded_cells_tagger list_Z_eqb cs s') (st_nearby sp)
         && instates_eqb (surplus_cells_tagger s') (st_surplus sp)
         && instates_eqb (cell_boundary_tagger s') (st_boundary sp)
         && check_vtargets cs s' (st_vtargets sp)
      then Some s' else None
  end.

Fixpoint check_steps (cs : cellsys lz) (s : st) (l : list step) : bool :=
  match l with
  | [] => true
  | sp :: r => match check_step cs s sp with Some s' => check_steps cs s' r | None => false end
  end.

Definition check_occ_case (c : occ_case) : bool :=
  let cs := torus_cs (oc_counts c) (oc_layers c) in
  list_eqb list_Z_eqb (cs_cells cs) (oc_cells c)
  && perm_eqb list_Z_eqb (veto_domain list_Z_eqb cs) (oc_vdomain c)
  && perm_eqb list_Z_eqb (veto_keys list_Z_eqb cs) (oc_vkeys c)
  && match initialize list_Z_eqb (cs_cells cs) (limit_of_max (oc_max c)) (oc_units c) with
     | Err _ => false
     | Ok s0 => check_snapshot cs s0 (oc_init c) && check_steps cs s0 (oc_steps c)
     end.

(** ** Factor-map cases *)
Inductive yres := YOk (l : list finstate) | YErr (e : ferr).

Record fm_query := mkQuery {
  q_name : fname;
  q_actives : list uid;
  q_yield : list yres;        (* yield_factor_identifier per active leaf *)
  q_tagger : yres             (* FactorTypeMapInStateTagger over all of them *)
}.

Inductive load_res := LOk (locals : list (fname * bool)) | LErr (e : ferr).

Record fm_case := mkFmCase {
  fc_lines : list (list Z); fc_n : Z; fc_nroot : Z;
  fc_load : load_res;
  fc_queries : list fm_query
}.

Definition ferr_eqb (a b : ferr) : bool :=
  match a, b with
  | FactorSetError, FactorSetError | AttributeErrorF, AttributeErrorF | AssertionErrorF, AssertionErrorF
  | KeyErrorF, KeyErrorF | NotImplementedErrorF, NotImplementedErrorF => true
  | _, _ => false
  end.

Definition yres_match (r : fres (list finstate)) (y : yres) : bool :=
  match r, y with
  | FOk l, YOk l' => perm_eqb llz_eqb l l'
  | FErr e, YErr e' => ferr_eqb e e'
  | _, _ => false
  end.

Definition check_query (n nroot : Z) (fs : fmaps) (q : fm_query) : bool :=
  forall2b (fun a y => yres_match (yield_for n nroot fs (q_name q) a) y) (q_actives q) (q_yield q)
  && yres_match (tagger_in_states n nroot fs (q_name q) (q_actives q)) (q_tagger q).

Definition local_eqb (a b : fname * bool) : bool := lz_eqb (fst a) (fst b) && Bool.eqb (snd a) (snd b).

Definition check_fm_case (c : fm_case) : bool :=
  match load_file (fc_n c) (fc_lines c), fc_load c with
  | FErr e, LErr e' => ferr_eqb e e'
  | FOk fs, LOk locals =>
      perm_eqb local_eqb
        (map (fun p => (fst p, match fm_local (snd p) with Some b => b | None => false end)) fs) locals
      && forallb (fun p => match fm_local (snd p) with Some _ => true | None => false end) fs
      && forallb (check_query (fc_n c) (fc_nroot c) fs) (fc_queries c)
  | _, _ => false
  end.
