(** * Model/SliceCases.v — handler-level correspondence for the handlers that only time-slice
    (sampling, end of run): every unit of every branch of the out-state is the bit-exact time-slice
    ([JF.Model.TimeSlice.time_slice_unit]) of the corresponding in-state unit at the event time; units
    without velocity are untouched. *)
From Coq Require Import ZArith List Bool.
Require Import JF.Base.F64 JF.Model.Time JF.Model.Periodic JF.Model.TimeSlice.
Import ListNotations.

Definition bunit := (list Z * option (list Z) * (Z * Z))%type.    (* position bits, velocity bits, time stamp bits *)

Definition to_sunit (u : bunit) : sunit :=
  let '(p, v, t) := u in
  mkSUnit (map of_bits p) (option_map (map of_bits) v) (mkTime (of_bits (fst t)) (of_bits (snd t))).

Fixpoint fl_eqb (a b : list f64) : bool :=
  match a, b with
  | [], [] => true
  | x :: a', y :: b' => feqb_bits x y && fl_eqb a' b'
  | _, _ => false
  end.

Definition sunit_eqb (a b : sunit) : bool :=
  fl_eqb (su_pos a) (su_pos b)
  && match su_vel a, su_vel b with
     | Some x, Some y => fl_eqb x y && feqb_bits (tq (su_ts a)) (tq (su_ts b)) && feqb_bits (tr (su_ts a)) (tr (su_ts b))
     | None, None => true
     | _, _ => false
     end.

Record slcase := {
  sl_L : list Z;
  sl_T : Z * Z;
  sl_in : list bunit;       (* all units of all branches handed to send_out_state, flattened *)
  sl_out : list bunit       (* the same units in the returned out-state *)
}.

Fixpoint all2 (f : bunit -> bunit -> bool) (a b : list bunit) : bool :=
  match a, b with
  | [], [] => true
  | x :: a', y :: b' => f x y && all2 f a' b'
  | _, _ => false
  end.

Definition check_slcase (c : slcase) : bool :=
  let Ls := map of_bits (sl_L c) in
  let T := mkTime (of_bits (fst (sl_T c))) (of_bits (snd (sl_T c))) in
  all2 (fun i o => match time_slice_unit (to_sunit i) T Ls with
                   | Some s => sunit_eqb s (to_sunit o)
                   | None => false
                   end) (sl_in c) (sl_out c).
