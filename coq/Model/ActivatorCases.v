(** * Model/ActivatorCases.v — replay of recorded activator histories (C09 correspondence). *)
From Coq Require Import List Arith Bool.
Require Import JF.Model.Activator.
Import ListNotations.

Record acase := {
  c_w : wiring;
  c_kinds : list tkind;
  c_legs : list aleg
}.

Definition kind_of (c : acase) (x : nat) : tkind := nth x (c_kinds c) TOneShot.

(** Effective generation of tagger [x] as recorded in leg [l]. *)
Definition eff_l (l : aleg) (x : nat) : list instate :=
  if nth x (l_active l) true then gen_of l x else [].

Definition ntag (c : acase) : nat := length (w_handlers (c_w c)).

(** Base: the first event (of tagger [t0], in practice the start-of-run event) creates everything
    that generates afterwards; the start-of-run tagger itself is one-shot. *)
Definition frame0_ok (c : acase) (l0 l1 : aleg) : bool :=
  let t0 := tg (c_w c) (l_pick l0) in
  match kind_of c (w_start (c_w c)) with TOneShot => true | _ => false end &&
  forallb (fun x =>
             match kind_of c x with
             | TOneShot => true
             | _ => mem x (nthl (w_creates (c_w c)) t0)
                    || match eff_l l1 x with [] => true | _ => false end
             end) (seq 0 (ntag c)).

(** The create list of every tagger has no duplicate (else a tagger would be started twice). *)
Fixpoint nodupb (l : list nat) : bool :=
  match l with [] => true | x :: r => negb (mem x r) && nodupb r end.
Definition creates_nodup (c : acase) : bool := forallb nodupb (w_creates (c_w c)).

Fixpoint frames_ok (c : acase) (ls : list aleg) : bool :=
  match ls with
  | l0 :: ((l1 :: _) as r) =>
      forallb (fun x => frame_ok_x (c_w c) (tg (c_w c) (l_pick l0)) x (kind_of c x)
                                   (eff_l l0 x) (eff_l l1 x)) (seq 0 (ntag c))
      && frames_ok c r
  | _ => true
  end.

Definition check_acase (c : acase) : bool :=
  run_conf (c_w c) (a_init (c_w c)) None (c_legs c)
  && creates_nodup c
  && Nat.leb (length (c_kinds c)) (ntag c)
  && match c_legs c with
     | l0 :: ((l1 :: _) as r) => frame0_ok c l0 l1 && frames_ok c r
     | _ => true
     end.
