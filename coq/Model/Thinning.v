(** * Model/Thinning.v — confirmation of a proposed event by thinning (C04), over Q.

    Transcribed from the event handlers that propose an event from a bounding potential:

    leaf family  ([EventHandlerWithBoundingPotential._calculate_out_state_of_two_leaf_unit_bounding_potential],
    used by TwoLeafUnitBoundingPotentialEventHandler, TwoLeafUnitCellBoundingPotentialEventHandler,
    LeafUnitCellVetoEventHandler):
<<
        real_derivative = potential.derivative(...)
        if real_derivative > 0:
            if random.uniform(0, bounding_event_rate) < real_derivative:  exchange velocity
>>
    composite family (TwoCompositeObjectSummedBoundingPotentialEventHandler,
    TwoCompositeObjectCellBoundingPotentialEventHandler, CompositeObjectCellVetoEventHandler):
<<
        event_rate = max(0.0, factor_derivative)
        if event_rate <= random.uniform(0.0, bounding_event_rate): return self._state    (unconfirmed)
>>
    where for the summed variant  bounding_event_rate = sum_i max(0.0, bounding derivative_i)  and
    factor_derivative = sum_i pairwise derivative_i.

    [random.uniform(0, b)] is [0 + (b - 0) * random()] with [random()] in [0, 1): the proposal value
    is [x = u * b].  The model is over Q; the correspondence (harness/c04.py) passes the float [x] the
    handler actually drew, as an exact rational, so the rounding of the product is not part of it.

    No proofs in this file (Proofs/ThinningProofs.v). *)
From Coq Require Import QArith List Bool.
Require Import JF.Base.QInterval.
Import ListNotations.
Open Scope Q_scope.

Definition qltb (a b : Q) : bool := negb (Qle_bool b a).

Inductive family := FLeaf | FComposite.

(** Decision on the drawn value [x] and the true rate (derivative) [r]. *)
Definition confirm_x (f : family) (x r : Q) : Prop :=
  match f with
  | FLeaf => 0 < r /\ x < r
  | FComposite => ~ (qmax 0 r <= x)
  end.

Definition confirmb (f : family) (x r : Q) : bool :=
  match f with
  | FLeaf => qltb 0 r && qltb x r
  | FComposite => negb (Qle_bool (qmax 0 r) x)
  end.

(** Decision as a function of the uniform number [u] in [0, 1) and the bounding rate [b]. *)
Definition confirm (f : family) (u b r : Q) : Prop := confirm_x f (u * b) r.

(** The summed bound and the event rate of the composite family. *)
Definition summed_bound (bs : list Q) : Q := qsum (map (qmax 0) bs).
Definition event_rate (rs : list Q) : Q := qmax 0 (qsum rs).

(** The set of uniform numbers that confirm: [0, max 0 r / b). *)
Definition unit_int : qint := mkI 0 1.
Definition accept_set (b r : Q) : qint := mkI 0 (qmax 0 r / b).
Definition accept_probability_of (b r : Q) : Q := len (inter (accept_set b r) unit_int).

(* ---------------------------------------------------------------------------------------- *)
(** ** Out-state *)

Record unit_ := mkUnit { uid : list nat; upos : list Q; uvel : option (list Q); uts : option Q }.

Section OutState.
  (** position of a moving unit at the event time (time slicing with periodic correction: C07, C15) *)
  Variable adv : Q -> unit_ -> list Q.
  (** velocity exchange / lifting of a confirmed event (C05, C12) *)
  Variable accepted_out : list unit_ -> list unit_.

  (** [BasicEventHandler._time_slice_unit]: units with a velocity are moved and stamped with the
      event time; velocities are not touched. *)
  Definition time_slice_unit (t : Q) (u : unit_) : unit_ :=
    match uvel u with
    | Some v => mkUnit (uid u) (adv t u) (Some v) (Some t)
    | None => u
    end.

  Definition time_slice (t : Q) (st : list unit_) : list unit_ := map (time_slice_unit t) st.

  (** [send_out_state]: the state was time-sliced in [send_event_time]; an unconfirmed event returns it. *)
  Definition out_state (f : family) (t x r : Q) (st : list unit_) : list unit_ :=
    if confirmb f x r then accepted_out (time_slice t st) else time_slice t st.
End OutState.
