(** * Model/Composite.v — composite objects and their point masses (C12).

    Part 1: exact-arithmetic (Q) model of the velocity bookkeeping of
    [LeavesEventHandler._register_velocity_change_leaf_cnode] /
    [_commit_non_leaf_velocity_changes] / [SingleActiveLeafUnitEventHandler._exchange_velocity] /
    [CompositeObjectsLifting._pass_composite_object_velocity] for two-level trees, one vector
    component at a time, and of the random node creators' geometry.
    Part 2: the consistency conditions evaluated on the states of a recorded run (Kinematics). *)
From Coq Require Import ZArith QArith Qabs Qround List Bool.
Require Import JF.Base.F64 JF.Model.Kinematics.
Import ListNotations.
Open Scope Q_scope.

(** ** Part 1 (one component). A composite object: weights, leaf velocities (None = not moving),
    root velocity. *)
Fixpoint wsum (ws : list Q) (vs : list (option Q)) : Q :=
  match ws, vs with
  | w :: ws', Some v :: vs' => w * v + wsum ws' vs'
  | _ :: ws', None :: vs' => wsum ws' vs'
  | _, _ => 0
  end.

Definition all_none (vs : list (option Q)) : bool :=
  forallb (fun v => match v with None => true | Some _ => false end) vs.

(** [_commit_sub_tree_non_leaf_velocity_change] for the root: add the registered change; a resulting
    velocity below the cut-off 1e-13 is dropped *)
Definition cutoff : Q := 1 # 10000000000000.
Definition apply_change (rv : option Q) (chg : Q) : option Q :=
  match rv with
  | None => Some chg
  | Some r => if Qle_bool cutoff (Qabs (r + chg)) then Some (r + chg) else None
  end.

Fixpoint set_leaf (vs : list (option Q)) (i : nat) (v : option Q) : list (option Q) :=
  match vs, i with
  | [], _ => []
  | _ :: r, O => v :: r
  | x :: r, S j => x :: set_leaf r j v
  end.

(** leaf [a] (moving with [v]) stops: the change registered for the root is [- v * w_a]
    (times the root's own weight, which is 1) *)
Definition take (ws : list Q) (vs : list (option Q)) (rv : option Q) (a : nat) (v : Q)
  : list (option Q) * option Q :=
  (set_leaf vs a None, apply_change rv (- v * nth a ws 0)).

(** leaf [b] (not moving) receives [v] *)
Definition give (ws : list Q) (vs : list (option Q)) (rv : option Q) (b : nat) (v : Q)
  : list (option Q) * option Q :=
  (set_leaf vs b (Some v), apply_change rv (v * nth b ws 0)).

(** ** Part 2: consistency of the recorded states. *)
Definition is_child_of (p : list nat) (u : unit) : bool :=
  Nat.eqb (length (u_id u)) (S (length p)) && id_eqb (firstn (length p) (u_id u)) p.

Definition weight_of (ws : list (list nat * f64)) (i : list nat) : Q :=
  match find (fun e => id_eqb (fst e) i) ws with Some e => f2q (snd e) | None => 0 end.

Definition Qsum (l : list Q) : Q := fold_right Qplus 0 l.

(** minimum image of a rational separation *)
Definition min_image (x L : Q) : Q := x - inject_Z (nearest_k x L) * L.

Definition composite_ok_root (Ls : list Q) (ws : list (list nat * f64)) (st : gstate) (T : Q) (n : nat)
           (r : unit) : bool :=
  let kids := filter (is_child_of (u_id r)) st in
  match kids with
  | [] => true
  | _ =>
    (* velocity: weighted sum; absent exactly when no point mass moves *)
    (if forallb (fun k => negb (moving k)) kids
     then negb (moving r)
     else match u_vel r with
          | None => false
          | Some rv =>
              forallb (fun d =>
                let s := Qsum (map (fun k => match u_vel k with
                                             | Some v => weight_of ws (u_id k) * f2q (nth d v fzero)
                                             | None => 0 end) kids) in
                Qle_bool (Qabs (s - f2q (nth d rv fzero)))
                         (inject_Z (Z.of_nat n + 8) * (1 # (2 ^ 44)%positive) * Qmax 1 (Qabs s)))
                (seq 0 (length Ls))
          end)
    (* position: the root advanced to T is the weighted barycentre of the point masses, taken as nearest
       images of each other (unwrapped around the first one), modulo the box *)
    && forallb (fun d =>
         match pos_at r T d, pos_at (hd r kids) T d with
         | Some rp, Some k0 =>
             let L := nth d Ls 1 in
             match fold_right (fun k acc =>
                       match acc, pos_at k T d with
                       | Some a, Some kp => Some (a + weight_of ws (u_id k) * min_image (kp - k0) L)
                       | _, _ => None
                       end) (Some 0) kids with
             | Some off => circ_le (k0 + off) rp L (inject_Z (Z.of_nat n + 16) * (1 # (2 ^ 40)%positive) * L)
             | None => false
             end
         | _, _ => false
         end) (seq 0 (length Ls))
  end.

Definition composite_ok (Ls : list Q) (ws : list (list nat * f64)) (st : gstate) (T : Q) (n : nat) : bool :=
  forallb (fun r => negb (Nat.eqb (length (u_id r)) 1) || composite_ok_root Ls ws st T n r) st.

Fixpoint composites_ok (Ls : list Q) (ws : list (list nat * f64)) (n : nat) (started : bool) (ss : list kstate) : bool :=
  match ss with
  | [] => true
  | s :: r => (negb (s_started s) || composite_ok Ls ws (s_units s) (s_now s) n)
              && composites_ok Ls ws (S n) started r
  end.

Record ccase := { cc_k : kcase; cc_w : list (list nat * f64) }.

Definition check_ccase (c : ccase) : bool :=
  let Ls := map f2q (kc_L (cc_k c)) in
  all_finite (kc_L (cc_k c)) && init_ok Ls (kc_init (cc_k c))
  && composite_ok Ls (cc_w c) (kc_init (cc_k c)) 0 0      (* the randomly generated initial molecules *)
  && match run_states_k Ls 0 (kinit (cc_k c)) (kc_legs (cc_k c)) with
     | Some ss => composites_ok Ls (cc_w c) 1 false ss
     | None => false
     end.
