(** * Model/EndOfChainCases.v — handler-level correspondence for the end-of-chain event handlers: the candidate event time
    returned by the real [send_event_time], the out-state returned by the real [send_out_state] (every unit of every
    branch: identifier, position, velocity, time stamp, bit for bit) and the handler's stored last committed event time
    afterwards are compared with [JF.Model.EndOfChain]; where the real handler raises, the model must return [None]. *)
From Coq Require Import ZArith List Bool Arith.
Require Import JF.Base.F64 JF.Model.Time JF.Model.Lifting JF.Model.Handlers JF.Model.SliceCases JF.Model.EndOfChain.
Import ListNotations.

Record ebunit := mkEB {
  eb_id : list Z; eb_pos : list Z; eb_vel : option (list Z); eb_ts : option (Z * Z); eb_parent : option nat; eb_w : Z
}.

Record eoccase := mkEC {
  ec_L : Z; ec_dim : nat;
  ec_kind : option (Z * Z);        (* None: periodic direction; Some (cos, sin): sequential direction *)
  ec_chain : Z;
  ec_last : Z * Z;                 (* the handler's last committed event time before send_event_time *)
  ec_old : list ebunit;            (* branch of the independent active unit (flat, pre-order) *)
  ec_new : list ebunit;            (* branch of the unit that becomes active *)
  ec_T : option (Z * Z);           (* event time returned by the real send_event_time; None: it raised *)
  ec_out : option (list ebunit);   (* units of the real out-state; None: send_out_state raised *)
  ec_last_after : Z * Z            (* the handler's last committed event time after send_out_state *)
}.

Definition bt (p : Z * Z) : time := mkTime (of_bits (fst p)) (of_bits (snd p)).
Definition to_hunit (u : ebunit) : hunit :=
  mkHU (eb_id u) (map of_bits (eb_pos u)) (option_map (map of_bits) (eb_vel u)) (option_map bt (eb_ts u)) fnan
       (eb_parent u) (of_bits (eb_w u)).

Definition time_bits_eqb (a b : time) : bool := feqb_bits (tq a) (tq b) && feqb_bits (tr a) (tr b).

Definition hunit_eqb (a b : hunit) : bool :=
  zl_eqb (hu_id a) (hu_id b) && fl_eqb (hu_pos a) (hu_pos b)
  && match hu_vel a, hu_vel b with Some x, Some y => fl_eqb x y | None, None => true | _, _ => false end
  && match hu_ts a, hu_ts b with Some x, Some y => time_bits_eqb x y | None, None => true | _, _ => false end.

Fixpoint hl_eqb (a b : list hunit) : bool :=
  match a, b with
  | [], [] => true
  | x :: a', y :: b' => hunit_eqb x y && hl_eqb a' b'
  | _, _ => false
  end.

Definition ec_env (c : eoccase) : henv :=
  mkEnv fone (ec_dim c) (of_bits (ec_L c)) false 0 false fzero fzero [] Ratio.
Definition ec_k (c : eoccase) : eoc_kind :=
  match ec_kind c with None => EPeriodic | Some (co, si) => ESequential (of_bits co) (of_bits si) end.

Definition check_eoccase (c : eoccase) : bool :=
  let old := map to_hunit (ec_old c) in
  let new := map to_hunit (ec_new c) in
  let mT := match old with
            | r :: _ => match hu_ts r with
                        | Some cur => eoc_event_time (bt (ec_last c)) cur (of_bits (ec_chain c))
                        | None => None end
            | [] => None end in
  match mT, ec_T c with
  | None, None => true
  | Some T, Some Tb =>
      time_bits_eqb T (bt Tb)
      && match eoc_out_state (ec_env c) (ec_k c) T old new, ec_out c with
         | None, None => true
         | Some o, Some ro => hl_eqb (eo_units o) (map to_hunit ro) && time_bits_eqb (eo_last o) (bt (ec_last_after c))
         | _, _ => false
         end
  | _, _ => false
  end.
