(** * Model/CellsCases.v — case type and checker for the C16 correspondence.

    Floats are bit patterns (Z), cells are flat indices into [_cells]. *)
From Coq Require Import ZArith Bool List.
Require Import JF.Base.F64 JF.Base.PyFloat JF.Model.Cells JF.Model.CellIndex.
Import ListNotations.
Local Open Scope Z_scope.

Inductive ccase :=
(** one direction of a real grid: length bits, number of cells, recorded cell_min / cell_max bits *)
| CExtent (L : Z) (n : Z) (mins maxs : list Z)
(** hypotheses [pre_ok] of the theorem grid_partition_partial, evaluated on one direction of a generated grid;
    the recorded cell_min are used as witnesses that no cell is empty *)
| CPre (L : Z) (n : Z) (mins : list Z)
(** position_to_cell: lengths, counts, list of (position vector bits, returned flat index) *)
| CPos (Ls : list Z) (ns : list Z) (ps : list (list Z * Z))
(** _next_float_up / _next_float_down *)
| CNext (x up down : Z)
(** index relations of one grid; cells are flat indices 0..N-1 in [_cells] order.
    idents: identifier of every cell; nbr: per cell [dir0+, dir0-, dir1+, ...] (-1 = None);
    nearby: per cell the set of nearby cells; rel / trans: per cell k, per cell j,
    relative_cell(cell_k, cell_j) and translate(cell_k, cell_j) (empty for the non-periodic class). *)
| CTorus (periodic : bool) (ns : list Z) (layers : Z) (zero_cell : Z) (idents : list (list Z))
         (nbr : list (list Z)) (nearby : list (list Z)) (rel trans : list (list Z)).

Definition opt_bits_eq (o : option f64) (b : Z) : bool :=
  match o with Some x => feqb_bits x (of_bits b) | None => false end.

Fixpoint check_extents (L : f64) (n : Z) (i : Z) (mins maxs : list Z) : bool :=
  match mins, maxs with
  | [], [] => i =? n
  | mn :: mins', mx :: maxs' =>
      opt_bits_eq (cell_min default_fuel L n i) mn && opt_bits_eq (cell_max default_fuel L n i) mx
      && check_extents L n (i + 1) mins' maxs'
  | _, _ => false
  end.

(** Boolean form of the hypotheses of Proofs/CellsProofs.grid_partition (sound by [pre_ok_sound]):
    the quotient of the largest position is finite; every cell index is taken by some float [w] of
    [0, pred L]; the starting points of the constructor's loops lie in [0, pred L] on the right side of
    their cell. *)
Definition in_dom (top x : f64) : bool := ffinite x && fle fzero x && fle x top.

Definition pre_item (s top : f64) (n i : Z) (w : f64) : bool :=
  in_dom top w && (idx s n w =? i)
  && (if 1 <=? i then
        let lo := lower_start s i in in_dom top lo && fgt lo fzero && (idx s n lo <=? i)
      else true)
  && (if i + 1 <? n then
        let up := upper_start s i in in_dom top up && (i <=? idx s n up)
      else true).

Fixpoint pre_from (s top : f64) (n i : Z) (ws : list f64) : bool :=
  match ws with
  | [] => i =? n
  | w :: r => pre_item s top n i w && pre_from s top n (i + 1) r
  end.

Definition pre_ok (L : f64) (n : Z) (ws : list f64) : bool :=
  let s := side L n in
  let top := fpred L in
  (1 <=? n) && ffinite s && fgt s fzero && ffinite top && ffinite (fdiv top s) && pre_from s top n 0 ws.

Fixpoint sides (Ls ns : list Z) : list f64 :=
  match Ls, ns with
  | L :: Ls', n :: ns' => side (of_bits L) n :: sides Ls' ns'
  | _, _ => []
  end.

Fixpoint idx_vec (ss : list f64) (ns xs : list Z) : list Z :=
  match ss, ns, xs with
  | s :: ss', n :: ns', x :: xs' => idx s n (of_bits x) :: idx_vec ss' ns' xs'
  | _, _, _ => []
  end.

Fixpoint list_Z_eqb (a b : list Z) : bool :=
  match a, b with
  | [], [] => true
  | x :: a', y :: b' => (x =? y) && list_Z_eqb a' b'
  | _, _ => false
  end.

Definition memZ (x : Z) (l : list Z) : bool := existsb (Z.eqb x) l.
Definition subsetZ (a b : list Z) : bool := forallb (fun x => memZ x b) a.
(** equality of a duplicate-free model list with an implementation set given as a list of distinct items *)
Definition same_set (model impl : list Z) : bool :=
  subsetZ model impl && subsetZ impl model && (Z.of_nat (length model) =? Z.of_nat (length impl)).

Fixpoint dirs (k : nat) (count : nat) : list nat :=
  match count with O => [] | S c => k :: dirs (S k) c end.

Definition opt_flat (ns : list Z) (o : option ident) : Z :=
  match o with Some id => flat ns id | None => -1 end.

Definition model_nbr (periodic : bool) (ns : list Z) (id : ident) : list Z :=
  flat_map (fun d =>
    if periodic then [flat ns (neighbor_p ns id d true); flat ns (neighbor_p ns id d false)]
    else [opt_flat ns (neighbor_np ns id d true); opt_flat ns (neighbor_np ns id d false)])
    (dirs 0 (length ns)).

Definition model_nearby (periodic : bool) (layers : Z) (ns : list Z) (id : ident) : list Z :=
  map (flat ns) (if periodic then nearby_p layers ns id else nearby_np layers ns id).

Fixpoint forallb2 {A B : Type} (f : A -> B -> bool) (a : list A) (b : list B) : bool :=
  match a, b with
  | [], [] => true
  | x :: a', y :: b' => f x y && forallb2 f a' b'
  | _, _ => false
  end.

Definition check_torus (periodic : bool) (ns : list Z) (layers : Z) (zero_cell : Z)
           (idents nbr nearby rel trans : list (list Z)) : bool :=
  let ids := all_idents ns in
  (* the cell list is in odometer order, flat index = position in the list, identifiers valid *)
  forallb2 list_Z_eqb ids idents
  && forallb2 (fun id k => (flat ns id =? k) && validb ns id && list_Z_eqb (unflat ns k) id)
              ids (range_from 0 (length ids))
  && (Z.of_nat (length ids) =? number_of_cells ns)
  && forallb2 (fun id row => list_Z_eqb (model_nbr periodic ns id) row) ids nbr
  && forallb2 (fun id row => same_set (model_nearby periodic layers ns id) row) ids nearby
  && (if periodic then
        (flat ns (zero ns) =? zero_cell)
        && forallb2 (fun c row => forallb2 (fun r x => flat ns (relative ns c r) =? x) ids row) ids rel
        && forallb2 (fun c row => forallb2 (fun r x => flat ns (translate ns c r) =? x) ids row) ids trans
      else true).

Definition check_ccase (c : ccase) : bool :=
  match c with
  | CExtent L n mins maxs => check_extents (of_bits L) n 0 mins maxs
  | CPre L n mins => pre_ok (of_bits L) n (map of_bits mins)
  | CPos Ls ns ps =>
      let ss := sides Ls ns in
      forallb (fun p => flat ns (idx_vec ss ns (fst p)) =? snd p) ps
  | CNext x up down =>
      feqb_bits (next_float_up (of_bits x)) (of_bits up)
      && feqb_bits (next_float_down (of_bits x)) (of_bits down)
  | CTorus periodic ns layers z idents nbr nearby rel trans =>
      check_torus periodic ns layers z idents nbr nearby rel trans
  end.
