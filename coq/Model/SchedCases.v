(** * Model/SchedCases.v — case type and checkers for the C06 correspondence.

    A case is one history: a list of operations, each with what the REAL HeapScheduler and the REAL
    ListScheduler did (observed by harness/drivers/c06_sched.py).  Floats are 64-bit patterns.

    [check_scase]        pass/fail: per operation the exception enum, "returned None", and for
                         get_succeeding_event the *time* of the returned handler's event compared with
                         float equality of quotient and remainder (what the property states).
    [check_scase_strict] diagnostic: additionally the returned handler, bit-identical times and the
                         heap array (read through lib.entry) at every dump point. *)
From Coq Require Import List Arith Bool NArith ZArith.
Require Import JF.Base.F64 JF.Model.Time JF.Model.Heap JF.Model.Sched.
Import ListNotations.

(** observation of one call on a real scheduler *)
Inductive obs :=
| BNone                              (* returned None *)
| BGot (hd : N) (q r : Z)            (* returned handler [hd]; (q, r) = bits of the time it was pushed with *)
| BExc (code : N)                    (* exception enum: see [exc_code] *)
| BSkip.                             (* operation not applied to this scheduler *)

Definition exc_code (e : exc) : N :=
  match e with
  | ExEmpty => 0 | ExDecreasing => 1 | ExNotPresent => 2 | ExMemory => 3 | ExRuntime => 4 | ExFault => 5
  end%N.

(** operations as they cross the boundary *)
Inductive fop :=
| FPush (q r : Z) (hd : N)
| FTrash (hd : N)
| FGet
| FPickle
| FBump (hd n : N)
| FDump (layout : list (Z * Z * N * N)).   (* heap array of the real HeapScheduler: (q, r, handler, counter) *)

Record scase := mkCase { sc_steps : list (fop * obs * obs) }.   (* op, HeapScheduler obs, ListScheduler obs *)

Definition fhs := hsched fkey.
Definition fls := lsched fkey.

Definition fhs_step : fhs -> op fkey -> option (fhs * outcome fkey) := hs_step fkey fkey_lt fkey_bot fkey_inf.
Definition fls_step : fls -> op fkey -> fls * outcome fkey := ls_step fkey fkey_lt.
Definition frs_step : rsched fkey -> op fkey -> rsched fkey * outcome fkey := rs_step fkey fkey_lt.

Definition to_op (f : fop) : option (op fkey) :=
  match f with
  | FPush q r hd => Some (OpPush (of_bits q, of_bits r) hd)
  | FTrash hd => Some (OpTrash hd)
  | FGet => Some OpGet
  | FPickle => Some OpPickle
  | FBump hd n => Some (OpBump hd n)
  | FDump _ => None
  end.

Definition key_eq_weak (k : fkey) (q r : Z) : bool :=
  feq (fst k) (of_bits q) && feq (snd k) (of_bits r).
Definition key_eq_bits (k : fkey) (q r : Z) : bool :=
  feqb_bits (fst k) (of_bits q) && feqb_bits (snd k) (of_bits r).

Definition match_obs (strict : bool) (o : outcome fkey) (b : obs) : bool :=
  match o, b with
  | _, BSkip => true
  | ONone, BNone => true
  | OGot hd k, BGot hd' q r =>
      if strict then N.eqb hd hd' && key_eq_bits k q r else key_eq_weak k q r
  | OExc e, BExc c => N.eqb (exc_code e) c
  | _, _ => false
  end.


Definition entry_matches (e : entry fkey) (x : Z * Z * N * N) : bool :=
  let '(q, r, hd, c) := x in
  key_eq_bits (ekey e) q r && hd_eqb (ehd e) (Some hd) && N.eqb (ectr e) c.

Fixpoint layout_matches (l : list (entry fkey)) (x : list (Z * Z * N * N)) : bool :=
  match l, x with
  | [], [] => true
  | e :: l', y :: x' => entry_matches e y && layout_matches l' x'
  | _, _ => false
  end.

Fixpoint check_steps (strict : bool) (hs : fhs) (ls : fls) (steps : list (fop * obs * obs)) : bool :=
  match steps with
  | [] => true
  | (f, bh, bl) :: rest =>
      match to_op f with
      | Some o =>
          (* HeapScheduler model; a model-level fault is reported as ExFault *)
          let '(hs', oh) :=
            match bh with
            | BSkip => (hs, ONone)
            | _ => match fhs_step hs o with
                   | Some r => r
                   | None => (hs, OExc ExFault)
                   end
            end in
          let '(ls', ol) :=
            match bl with
            | BSkip => (ls, ONone)
            | _ => fls_step ls o
            end in
          match_obs strict oh bh && match_obs strict ol bl && check_steps strict hs' ls' rest
      | None =>
          match f with
          | FDump layout =>
              (if strict then
                 match hs_getstate fkey fkey_bot hs with
                 | Some l => layout_matches l layout
                 | None => false
                 end
               else true) && check_steps strict hs ls rest
          | _ => false
          end
      end
  end.

Definition check_scase (c : scase) : bool :=
  check_steps false (hs_init fkey fkey_bot) (ls_init fkey fkey_bot) (sc_steps c).

Definition check_scase_strict (c : scase) : bool :=
  check_steps true (hs_init fkey fkey_bot) (ls_init fkey fkey_bot) (sc_steps c).
