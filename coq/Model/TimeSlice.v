(** * Model/TimeSlice.v — model of BasicEventHandler._time_slice_unit
    (jellyfysh/event_handler/abstracts/abstracts.py), on binary64:

      if unit.velocity is not None:
          for d in range(setting.dimension):
              unit.position[d] = setting.periodic_boundaries.correct_position_entry(
                  unit.position[d] + unit.velocity[d] * (self._event_time - unit.time_stamp), d)
          unit.time_stamp.update(self._event_time)

    [self._event_time - unit.time_stamp] is [Time.__sub__] ([JF.Model.Time.time_sub], a float),
    [correct_position_entry] is [JF.Model.Periodic.wrap] (hypercubic) resp. [cuboid_wrap_entry]. *)
From Coq Require Import ZArith Bool List.
Require Import JF.Base.F64 JF.Base.PyFloat JF.Model.Time JF.Model.Periodic.
Import ListNotations.

(** One entry: [wrap (x + v * (T - ts)) L]. *)
Definition time_slice_entry (x v : f64) (T ts : time) (L : f64) : option f64 :=
  wrap (fadd x (fmul v (time_sub T ts))) L.

(** The position vector, direction by direction ([for d in range(dimension)]); [Ls] are the system
    lengths per direction (all equal for the hypercubic setting), [dimension = length Ls]. *)
Definition time_slice_position (pos vel : list f64) (T ts : time) (Ls : list f64) : option (list f64) :=
  all_some (map (fun d => match nth_error Ls d with
                          | Some L => time_slice_entry (nth d pos fnan) (nth d vel fnan) T ts L
                          | None => None
                          end) (seq 0 (length Ls))).

(** The unit: position, optional velocity, time stamp.  A unit without velocity is left untouched
    (including its time stamp); otherwise the time stamp becomes the event time. *)
Record sunit := mkSUnit { su_pos : list f64; su_vel : option (list f64); su_ts : time }.

Definition time_slice_unit (u : sunit) (T : time) (Ls : list f64) : option sunit :=
  match su_vel u with
  | None => Some u
  | Some vel =>
      match time_slice_position (su_pos u) vel T (su_ts u) Ls with
      | Some p => Some (mkSUnit p (Some vel) T)
      | None => None
      end
  end.
