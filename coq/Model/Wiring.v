(** * Model/Wiring.v — static well-formedness of a configuration's tagger wiring (C08 / C09).

    A configuration's [create] / [trash] / [activate] / [deactivate] lists are TRANSLATED from the
    .ini files on every run (harness/wiring.py, fail-closed) into a [swiring]; [wiring_static_ok]
    is then decided by [vm_compute].  It says: for every reachable activation vector and every tagger
    [T] that can fire and every tagger [X]:
      - [X] activated before and after: if an event of [T] changes something [X]'s events depend on, then [X] is
        both trashed and created by [T]; otherwise it is created iff trashed;
      - [X] activated by [T] (or by the start of the run): [T] creates it;
      - [X] deactivated by [T]: [T] trashes it;
      - every tagger trashes itself.
    The footprints ([reads], [writes]) are a fixed table per tagger / event-handler class; they are
    validated dynamically by the frame condition on traced runs (Model/ActivatorCases.v). *)
From Coq Require Import List Arith Bool.
Require Import JF.Model.Kinematics JF.Model.Reach.
Import ListNotations.

Inductive comp := CIds | CTraj | CVel | CMode | CCell (l : nat) | COcc (l : nat).

Definition comp_eqb (a b : comp) : bool :=
  match a, b with
  | CIds, CIds | CTraj, CTraj | CVel, CVel | CMode, CMode => true
  | CCell x, CCell y | COcc x, COcc y => Nat.eqb x y
  | _, _ => false
  end.

Inductive tclass := TFactorMap | TCellVeto | TCellBounding | TExcluded | TSurplus | TCellBoundary
                  | TNoInState | TActiveGlobal | TActiveRoot.

Record stag := {
  g_class : tclass;
  g_hkind : ekind;              (* kind of its event handler *)
  g_label : option nat;         (* internal state (cell occupancy) it is connected to *)
  g_creates : list nat;
  g_trashes : list nat;
  g_activates : list nat;
  g_deactivates : list nat
}.
Definition swiring := list stag.

Definition with_label (o : option nat) (f : nat -> comp) : list comp :=
  match o with Some l => [f l] | None => [] end.

(** what the validity of a tagger's pending events depends on *)
Definition reads (x : stag) : list comp :=
  match g_class x with
  | TFactorMap => [CIds; CTraj]
  | TCellVeto => [CIds; CVel] ++ with_label (g_label x) CCell
  | TCellBounding | TExcluded => [CIds; CTraj] ++ with_label (g_label x) CCell ++ with_label (g_label x) COcc
  | TSurplus => [CIds; CTraj] ++ with_label (g_label x) COcc
  | TCellBoundary => [CIds; CTraj] ++ with_label (g_label x) CCell
  | TNoInState | TActiveGlobal | TActiveRoot => []
  end.

Definition labels (w : swiring) : list nat :=
  flat_map (fun x => match g_label x with Some l => [l] | None => [] end) w.

(** what an event of the tagger's handler kind changes *)
Definition writes (w : swiring) (t : stag) : list comp :=
  let all_cells := flat_map (fun l => [CCell l; COcc l]) (labels w) in
  match g_hkind t with
  | KStart => [CIds; CTraj; CVel; CMode] ++ all_cells
  | KEndOfRun | KSampling | KDumping => []
  | KEndOfChain | KInteraction | KCellVeto => [CIds; CTraj; CVel] ++ all_cells
  | KSwitcher => [CIds; CTraj; CVel; CMode] ++ all_cells
  | KCellBoundary => with_label (g_label t) CCell
  end.

Definition intersects (a b : list comp) : bool := existsb (fun x => existsb (comp_eqb x) b) a.

Definition memn (x : nat) (l : list nat) : bool := existsb (Nat.eqb x) l.

(** activation vectors *)
Definition avec := list bool.
Definition is_on (a : avec) (i : nat) : bool := nth i a false.

Definition apply_act (w : swiring) (a : avec) (t : nat) : avec :=
  match nth_error w t with
  | None => a
  | Some tg =>
      map (fun ib => let '(i, b) := ib in
                     if memn i (g_deactivates tg) then false
                     else if memn i (g_activates tg) then true else b)
          (combine (seq 0 (length a)) a)
  end.

Fixpoint avec_eqb (a b : avec) : bool :=
  match a, b with
  | [], [] => true
  | x :: a', y :: b' => Bool.eqb x y && avec_eqb a' b'
  | _, _ => false
  end.
Definition mem_avec (a : avec) (l : list avec) : bool := existsb (avec_eqb a) l.

Definition is_start (x : stag) : bool := match g_hkind x with KStart => true | _ => false end.
Definition is_terminal (x : stag) : bool := match g_hkind x with KEndOfRun => true | _ => false end.

Definition start_index (w : swiring) : option nat :=
  match filter (fun it => is_start (snd it)) (combine (seq 0 (length w)) w) with
  | [(i, _)] => Some i
  | _ => None
  end.

(** the taggers that can fire under activation [a]: activated, not the start-of-run tagger *)
Definition can_fire (w : swiring) (a : avec) : list nat :=
  filter (fun i => is_on a i && match nth_error w i with Some x => negb (is_start x) | None => false end)
         (seq 0 (length w)).

(** condition for one (activation, firing tagger) pair; [first] = the start-of-run event *)
Definition pair_ok (w : swiring) (a : avec) (t : nat) (first : bool) : bool :=
  match nth_error w t with
  | None => false
  | Some tg =>
      let a2 := apply_act w a t in
      let wr := writes w tg in
      memn t (g_trashes tg) &&
      (is_terminal tg ||
       forallb (fun ix => let '(i, x) := ix in
                  if is_start x then true else
                  let was := is_on a i in
                  let now := is_on a2 i in
                  let c := memn i (g_creates tg) in
                  let d := memn i (g_trashes tg) in
                  if now && was && negb first then
                    if intersects wr (reads x) then c && d else Bool.eqb c d
                  else if now then c || Nat.eqb i t
                  else if was then first || d
                  else true)
               (combine (seq 0 (length w)) w))
  end.

(** breadth-first closure of the activation vectors reachable after the start of the run *)
Fixpoint closure (w : swiring) (fuel : nat) (seen frontier : list avec) : option (list avec) :=
  match fuel with
  | O => match frontier with [] => Some seen | _ => None end
  | S f =>
      match frontier with
      | [] => Some seen
      | a :: rest =>
          let next := map (apply_act w a) (can_fire w a) in
          let new := fold_left (fun acc b => if mem_avec b (seen ++ acc) then acc else acc ++ [b]) next [] in
          closure w f (seen ++ new) (rest ++ new)
      end
  end.

Definition all_on (w : swiring) : avec := map (fun _ => true) w.

Definition wiring_static_ok (w : swiring) : bool :=
  match start_index w with
  | None => false
  | Some s =>
      let a1 := apply_act w (all_on w) s in
      pair_ok w (all_on w) s true &&
      match closure w 64 [a1] [a1] with
      | None => false
      | Some reach =>
          forallb (fun a => forallb (fun t => pair_ok w a t false) (can_fire w a)) reach
      end
  end.

(** ** The activation vector is a function of the mode of motion.

    [aims]: for every tagger, the mode its event switches to ([Some m] for the two
    RootLeafUnitActiveSwitcher taggers: 0 = a point mass moves, 1 = a composite object moves), [None]
    for all other taggers.  [m0] = the mode after the start of the run.  A tagger that a mode switch
    wrongly leaves deactivated (or activated) makes two different activation vectors reachable in the
    same mode. *)
Definition vsucc (w : swiring) (a : avec) : list avec := map (apply_act w a) (can_fire w a).

Definition mstate := (nat * avec)%type.
Definition mstate_eqb (x y : mstate) : bool := Nat.eqb (fst x) (fst y) && avec_eqb (snd x) (snd y).
Definition msucc (w : swiring) (aims : list (option nat)) (x : mstate) : list mstate :=
  map (fun t => (match nth t aims None with Some m => m | None => fst x end, apply_act w (snd x) t))
      (can_fire w (snd x)).
Definition mode_fun_on (l : list mstate) : bool :=
  forallb (fun x => forallb (fun y => negb (Nat.eqb (fst x) (fst y)) || avec_eqb (snd x) (snd y)) l) l.
Definition mode_fun_ok (w : swiring) (aims : list (option nat)) (m0 : nat) : bool :=
  match start_index w with
  | None => false
  | Some s =>
      let a1 := apply_act w (all_on w) s in
      match closureG mstate_eqb (msucc w aims) 128 [(m0, a1)] [(m0, a1)] with
      | None => false
      | Some r => mode_fun_on r
      end
  end.
