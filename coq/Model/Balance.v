(** * Model/Balance.v — C01: the algebraic core of global balance (definitions only).

    Real part (Coq Reals): the energy budget drawn by the event handlers,
    [random.expovariate(beta)] = [-ln(1 - u) / beta] for the uniform draw [u = random.random()] in [0, 1)
    (CPython: [return -_log(1.0 - self.random()) / lambd]), and the survival function [exp (- beta e)].

    Rational part (over the lifting model of C05, JF.Model.Lifting / JF.Proofs.LiftingProofs): the jump
    term of the stationarity condition of the lifted process at a fixed configuration, for one factor with
    derivative table [t] (list of (g_k, identifier)) and lifting scheme [s]:
      g_k - max 0 g_k + inflow_k,
    where [inflow_k] is DEFINED from the lifting model: the sum over the units [a] with g_a > 0 of
    g_a * (length of the set of deciding draws for which the scheme, run with [a] active, selects [k]) —
    this is [flow s t k'] of LiftingProofs with k' the position of unit k among the units of
    non-positive rate (the lifting never selects a unit of positive rate: its inflow is 0). *)
From Coq Require Import Reals QArith List.
Require Import JF.Base.QInterval JF.Model.Lifting JF.Proofs.LiftingProofs.
Import ListNotations.

(** ** Reals *)
Section RealPart.
  Local Open Scope R_scope.

  Definition budget (beta u : R) : R := - ln (1 - u) / beta.
  Definition survival (beta e : R) : R := exp (- beta * e).

  Definition rsum (l : list R) : R := fold_right Rplus 0 l.
  Definition rprod (l : list R) : R := fold_right Rmult 1 l.

  (** A factor as seen by the event-time sampling: the cumulative uphill energy along the ray
      [Eplus d] and the event distance [disp E] of the budget E (what [potential.displacement] returns,
      C02).  [galois]: the distance exceeds d exactly when the budget exceeds the uphill energy up to d
      (C02's inversion identity for a non-decreasing [Eplus]). *)
  Definition factor := ((R -> R) * (R -> R))%type.
  Definition Eplus (f : factor) : R -> R := fst f.
  Definition disp (f : factor) : R -> R := snd f.
  Definition galois (f : factor) : Prop := forall E d, d < disp f E <-> Eplus f d < E.

  (** candidate distances of the factors [fs] for the independent uniform draws [us] *)
  Fixpoint candidates (beta : R) (fs : list factor) (us : list R) : list R :=
    match fs, us with
    | f :: fs', u :: us' => disp f (budget beta u) :: candidates beta fs' us'
    | _, _ => []
    end.

  (** the earliest candidate is later than d  (for a non-empty list: d < minimum, [lmin_gt]) *)
  Definition earliest_exceeds (d : R) (cs : list R) : Prop := Forall (Rlt d) cs.

  (** the box of draws: u_i in (1 - exp(-beta Eplus_i d), 1) for every i *)
  Fixpoint in_box (beta d : R) (fs : list factor) (us : list R) : Prop :=
    match fs, us with
    | [], [] => True
    | f :: fs', u :: us' => 1 - survival beta (Eplus f d) < u /\ u < 1 /\ in_box beta d fs' us'
    | _, _ => False
    end.
End RealPart.

(** ** Rationals: jump part of the balance condition *)
Section JumpPart.
  Local Open Scope Q_scope.

  (** position of table entry [j] among the entries of non-positive rate *)
  Definition neg_index (t : utable) (j : nat) : nat := length (negs (firstn j t)).

  Definition inflow (s : scheme) (t : utable) (j : nat) : Q :=
    if Qlt_bool 0 (rate_at j t) then 0 else flow s t (neg_index t j).

  Definition jump_term (s : scheme) (t : utable) (j : nat) : Q :=
    rate_at j t - weight (rate_at j t) + inflow s t j.

  (** a pair factor: two units, g_2 = - g_1 *)
  Definition pair_table (g : Q) (i1 i2 : Z) : utable := [(g, i1); (- g, i2)].
End JumpPart.
