(** * Model/Handover.v — the LOCAL chain contract of one out-state (C07).

    Model/Kinematics.v recomputes the global predicate [chain_ok] on the whole model state after every
    commit.  Here the same fact is obtained from a contract that looks at ONE out-state only
    ([handover_ok], below) and a frame argument (Proofs/HandoverProofs.v, theorem
    [chain_from_handover]): units outside the out-state are unchanged by the commit and, by coverage,
    were not moving.

    Leaf-ness is decided on the global state [st] (a unit is a leaf iff no unit of [st] has its
    identifier as a proper prefix one level below); identifiers never change ([commit_ids]).

    No proofs in this file. *)
From Coq Require Import ZArith QArith List Bool.
Require Import JF.Base.F64 JF.Model.Kinematics.
Import ListNotations.

Definition leaf_moving (st : gstate) (u : unit) : bool := is_leaf st u && moving u.

(** some unit of [l] has the identifier [i] *)
Definition in_ids (i : list nat) (l : list unit) : bool := existsb (fun u => id_eqb (u_id u) i) l.

Definition same_vel (a b : unit) : bool :=
  match u_vel a, u_vel b with
  | Some x, Some y => vel_eqb x y
  | _, _ => false
  end.

(** The leaves of the out-state that move AFTER the commit. *)
Definition out_moving_leaves (st : gstate) (out : list unit) : list unit := filter (leaf_moving st) out.

(** Local contract of one out-state [out] against the global state [st] it is committed into:
    - every leaf that moves before the commit is in the out-state ([covers_moving]);
    - a leaf occurs at most once in the out-state (so that [commit], which takes the first unit with
      a given identifier, and the list of moving leaves below talk about the same units);
    - the leaves of the out-state that move after the commit are units of [st], are not empty, carry
      one common velocity (bit for bit), and are a single leaf or ALL leaves of one root node of [st]. *)
Definition handover_ok (st : gstate) (out : list unit) : bool :=
  covers_moving st out
  && ids_nodup (map u_id (filter (is_leaf st) out))
  && match out_moving_leaves st out with
     | [] => false
     | m :: rest =>
         forallb (fun u => in_ids (u_id u) st) (m :: rest)
         && forallb (fun u => same_vel u m) rest
         && (match rest with [] => true | _ => false end
             || (forallb (fun u => id_eqb (root_of u) (root_of m)) rest
                 && forallb (fun w => negb (is_leaf st w && id_eqb (root_of w) (root_of m))
                                      || in_ids (u_id w) (m :: rest)) st))
     end.

(** Whole run: from the start-of-run event on (that leg included) every out-state satisfies the local
    contract against the state it is committed into.  The states are the iterated commits; nothing of
    [leg_ok] is used. *)
Definition is_start (k : ekind) : bool := match k with KStart => true | _ => false end.

Fixpoint handover_run (st : gstate) (started : bool) (legs : list kleg) : bool :=
  match legs with
  | [] => true
  | l :: r =>
      let started' := started || is_start (k_kind l) in
      (negb started' || handover_ok st (k_out l))
      && handover_run (commit st (k_out l)) started' r
  end.

(** the states after each commit, with the started flag *)
Fixpoint commit_states (st : gstate) (started : bool) (legs : list kleg) : list (gstate * bool) :=
  match legs with
  | [] => []
  | l :: r =>
      let started' := started || is_start (k_kind l) in
      let st' := commit st (k_out l) in
      (st', started') :: commit_states st' started' r
  end.

(** squared entries: the squared speed is their sum *)
Definition sqf (x : f64) : Q := (f2q x * f2q x)%Q.
