(** * Model/EndOfChain.v — C07 glue: the end-of-chain event handlers (binary64, bit-exact).

    Mirrors
      jellyfysh/event_handler/abstracts/end_of_chain_event_handler.py                              (send_event_time, send_out_state)
      jellyfysh/event_handler/single_independent_active_periodic_direction_end_of_chain_event_handler.py
      jellyfysh/event_handler/single_independent_active_sequential_direction_end_of_chain_event_handler.py
      jellyfysh/event_handler/abstracts/abstracts.py  (_register_velocity_change_leaf_cnode, _commit_non_leaf_velocity_changes;
                                                       reused from JF.Model.Handlers: [slice_all], [commit_unit])
    for trees with at most two levels.  The in-state (branch of the independent active unit) and the branch of the unit that
    becomes active are flat pre-order lists of [hunit]s ([hu_parent] = index of the parent inside the same list).
    [cos(delta_phi)] and [sin(delta_phi)] of the sequential-direction handler are inputs (libm oracles); the random choice
    of the new active unit is an input too (the branch handed in).
    One fact of the implementation that the model makes explicit: [send_out_state] stores the root unit's time-stamp
    OBJECT, which the time slicing then updates in place, so that afterwards the stored "last committed event time" IS the
    event time ([eo_last]).  No proofs in this file. *)
From Coq Require Import ZArith QArith List Bool Arith.
Require Import JF.Base.F64 JF.Base.PyFloat JF.Model.Time JF.Model.Periodic JF.Model.TimeSlice JF.Model.Lifting
        JF.Model.Kinematics JF.Model.Handlers.
Import ListNotations.

Inductive eoc_kind := EPeriodic | ESequential (c s : f64).

(** ** _get_new_velocity *)
(** indices of the components with [component != 0.0] (true for NaN) *)
Definition nonzero_idxs (v : list f64) : list nat :=
  filter (fun k => fne (nth k v fnan) fzero) (seq 0 (length v)).

Definition unit_vec (dim j : nat) (x : f64) : list f64 :=
  map (fun k => if Nat.eqb k j then x else fzero) (seq 0 dim).

Definition new_velocity (k : eoc_kind) (dim : nat) (v : list f64) : option (list f64) :=
  match k with
  | EPeriodic =>
      match nonzero_idxs v with
      | [d] => if Nat.ltb 0 dim then Some (unit_vec dim ((d + 1) mod dim) (nth d v fnan)) else None
      | _ => None                                   (* assert len(direction_of_motions) == 1 *)
      end
  | ESequential c s =>
      match v with
      | [x; y] => Some [fsub (fmul x c) (fmul y s); fadd (fmul x s) (fmul y c)]
      | _ => None                                   (* assert len(old_velocity) == 2 *)
      end
  end.

(** ** _get_new_chain_time and send_event_time *)
Definition new_chain_time (last cur : time) (chain : f64) : option f64 :=
  let d := time_sub cur last in
  if fle fzero d && fle d chain then Some (fadd (time_sub last cur) chain) else None.

Definition eoc_event_time (last cur : time) (chain : f64) : option time :=
  option_map (time_add cur) (new_chain_time last cur chain).

(** ** send_out_state *)
Fixpoint zl_eqb (a b : list Z) : bool :=
  match a, b with
  | [], [] => true
  | x :: a', y :: b' => Z.eqb x y && zl_eqb a' b'
  | _, _ => false
  end.

Definition vadd (a b : list f64) : list f64 := map (fun xy => fadd (fst xy) (snd xy)) (combine a b).
Definition small (v : list f64) : bool := forallb (fun x => flt (fabs x) c13) v.

(** velocity changes of non-leaf units, keyed by identifier, in insertion order *)
Definition idch := list (list Z * list f64).
Definition add_idch (ch : idch) (id : list Z) (vc : list f64) : idch :=
  if existsb (fun e => zl_eqb (fst e) id) ch
  then map (fun e => if zl_eqb (fst e) id then (fst e, vadd (snd e) vc) else e) ch
  else ch ++ [(id, vc)].
Definition lookup_idch (ch : idch) (id : list Z) : option (list f64) :=
  match filter (fun e => zl_eqb (fst e) id) ch with e :: _ => Some (snd e) | [] => None end.

(** _register_velocity_change_leaf_cnode for the leaf [i] of the flat list [st] (one level of parents) *)
Definition register (st : list hunit) (ch : idch) (i : nat) (change : list f64) : idch :=
  let u := getu st i in
  match hu_parent u with
  | None => ch
  | Some p => add_idch ch (hu_id (getu st p)) (map (fun c => fmul c (hu_weight u)) change)
  end.

Definition cutoff (u : hunit) : hunit :=
  match hu_vel u with
  | Some v => if small v then mkHU (hu_id u) (hu_pos u) None None (hu_charge u) (hu_parent u) (hu_weight u) else u
  | None => u
  end.

Definition with_vel (u : hunit) (v : list f64) (ts : option time) : hunit :=
  mkHU (hu_id u) (hu_pos u) (Some v) ts (hu_charge u) (hu_parent u) (hu_weight u).

Record eoc_out := mkEO {
  eo_units : list hunit;       (* every unit of every branch of the out-state, flattened *)
  eo_last : time               (* the handler's last committed event time afterwards *)
}.

Definition eoc_out_state (env : henv) (k : eoc_kind) (T : time) (old new : list hunit) : option eoc_out :=
  match old with
  | [] => None
  | root :: _ =>
    match hu_ts root with
    | None => None                                               (* assert time_stamp is not None *)
    | Some _ =>
      st1 <- slice_all env T old ;;
      let leaves := leaf_idxs st1 in
      v0 <- hu_vel (getu st1 (nth 0 leaves 0%nat)) ;;
      if negb (forallb (fun i => match hu_vel (getu st1 i) with Some w => vec_eqb w v0 | None => false end) leaves)
      then None
      else
        nv <- new_velocity k (e_dim env) v0 ;;
        let old_ids := map (fun i => hu_id (getu st1 i)) leaves in
        let nleaves := leaf_idxs new in
        let react (id : list Z) := existsb (fun i => zl_eqb (hu_id (getu new i)) id) nleaves in
        let is_old (id : list Z) := existsb (zl_eqb id) old_ids in
        let new_only := filter (fun i => negb (is_old (hu_id (getu new i)))) nleaves in
        if negb (forallb (fun i => match hu_vel (getu new i), hu_ts (getu new i) with
                                   | None, None => true | _, _ => false end) new_only)
        then None                                                (* assert unit.velocity is None / time_stamp is None *)
        else
          let zeros := repeat fzero (e_dim env) in
          (* leaves of the old branch *)
          let st2 := map (fun i =>
                            let u := getu st1 i in
                            if existsb (Nat.eqb i) leaves
                            then cutoff (with_vel u (if react (hu_id u) then nv else zeros) (hu_ts u))
                            else u) (seq 0 (length st1)) in
          let new2 := map (fun i =>
                             let u := getu new i in
                             if existsb (Nat.eqb i) new_only then cutoff (with_vel u nv (Some T)) else u)
                          (seq 0 (length new)) in
          let ch1 := fold_left (fun ch i =>
                                  let u := getu st1 i in
                                  register st1 ch i (if react (hu_id u) then vadd (map fopp v0) nv else map fopp v0))
                               leaves [] in
          let ch2 := fold_left (fun ch i => register new ch i nv) new_only ch1 in
          let all := st2 ++ (match new_only with [] => [] | _ => new2 end) in
          let chn := flat_map (fun i => match lookup_idch ch2 (hu_id (getu all i)) with
                                        | Some c => [(i, c)] | None => [] end) (seq 0 (length all)) in
          out <- all_some (map (fun i => commit_unit env T chn i (getu all i)) (seq 0 (length all))) ;;
          Some (mkEO out T)
    end
  end.
