(** * Model/PeriodicCases.v — case type and checker for the C15 correspondence. *)
From Coq Require Import ZArith Bool List.
Require Import JF.Base.F64 JF.Base.PyFloat JF.Model.Periodic.
Import ListNotations.

(** The setting under test: floats are given as 64-bit patterns. *)
Inductive psetting :=
| SCubic (dim : nat) (L : Z)
| SCuboid (Ls : list Z).

(** Expected results: [None] = the implementation raised ZeroDivisionError / IndexError. *)
Inductive pcase :=
| PPosEntry (s : psetting) (x : Z) (i : nat) (e : option Z)          (* correct_position_entry *)
| PSepEntry (s : psetting) (x : Z) (i : nat) (e : option Z)          (* correct_separation_entry *)
| PNext (s : psetting) (x : Z) (i : nat) (e : option Z)              (* next_image *)
| PPos (s : psetting) (pos : list Z) (e : option (list Z))           (* correct_position *)
| PSep (s : psetting) (v : list Z) (e : option (list Z))             (* correct_separation *)
| PSepVec (s : psetting) (ref tgt : list Z) (e : option (list Z)).   (* separation_vector *)

Definition fl (l : list Z) : list f64 := map of_bits l.

Definition opt_f_eqb (a : option f64) (e : option Z) : bool :=
  match a, e with
  | Some x, Some z => feqb_bits x (of_bits z)
  | None, None => true
  | _, _ => false
  end.

Fixpoint list_f_eqb (a : list f64) (e : list Z) : bool :=
  match a, e with
  | [], [] => true
  | x :: a', z :: e' => feqb_bits x (of_bits z) && list_f_eqb a' e'
  | _, _ => false
  end.

Definition opt_l_eqb (a : option (list f64)) (e : option (list Z)) : bool :=
  match a, e with
  | Some x, Some z => list_f_eqb x z
  | None, None => true
  | _, _ => false
  end.

Definition m_pos_entry (s : psetting) (x : f64) (i : nat) : option f64 :=
  match s with
  | SCubic _ L => wrap x (of_bits L)
  | SCuboid Ls => cuboid_wrap_entry (fl Ls) x i
  end.

Definition m_sep_entry (s : psetting) (x : f64) (i : nat) : option f64 :=
  match s with
  | SCubic _ L => sep x (of_bits L)
  | SCuboid Ls => cuboid_sep_entry (fl Ls) x i
  end.

Definition m_next (s : psetting) (x : f64) (i : nat) : option f64 :=
  match s with
  | SCubic _ L => Some (cubic_next_image (of_bits L) x i)
  | SCuboid Ls => cuboid_next_image (fl Ls) x i
  end.

Definition m_pos (s : psetting) (p : list f64) : option (list f64) :=
  match s with
  | SCubic _ L => cubic_correct_position (of_bits L) p
  | SCuboid Ls => cuboid_correct_position (fl Ls) p
  end.

Definition m_sep (s : psetting) (p : list f64) : option (list f64) :=
  match s with
  | SCubic _ L => cubic_correct_separation (of_bits L) p
  | SCuboid Ls => cuboid_correct_separation (fl Ls) p
  end.

Definition m_sepvec (s : psetting) (r t : list f64) : option (list f64) :=
  match s with
  | SCubic dim L => cubic_separation_vector dim (of_bits L) r t
  | SCuboid Ls => cuboid_separation_vector (fl Ls) r t
  end.

Definition check_pcase (c : pcase) : bool :=
  match c with
  | PPosEntry s x i e => opt_f_eqb (m_pos_entry s (of_bits x) i) e
  | PSepEntry s x i e => opt_f_eqb (m_sep_entry s (of_bits x) i) e
  | PNext s x i e => opt_f_eqb (m_next s (of_bits x) i) e
  | PPos s p e => opt_l_eqb (m_pos s (fl p)) e
  | PSep s p e => opt_l_eqb (m_sep s (fl p)) e
  | PSepVec s r t e => opt_l_eqb (m_sepvec s (fl r) (fl t)) e
  end.
