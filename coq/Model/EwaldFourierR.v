(** * Model/EwaldFourierR.v — real-number model of the C function [derivative] of
    jellyfysh/potential/merged_image_coulomb_potential/merged_image_coulomb_potential.c
    (Ewald sum of the x-derivative of the merged-image Coulomb potential).

    Reals replace doubles (no rounding); the loops are modelled exactly as written:
    - the Fourier-space triple loop i = 1..N, j = 0..(int)sqrt(N^2 - i^2), k = 0..(int)sqrt(N^2 - i^2 - j^2)
      with the running values cos_x, sin_x, cos_y, sin_y, cos_z, sin_z updated by angle-addition
      recurrences and reset to (1, 0) when an inner loop is left,
    - the constructor's [fourier_array[i][j][k]] ([fourier_coef]),
    - the position-space triple loop k, j, i over a ball of radius [position_cutoff], with [erfc] an
      argument (no erfc is available in the installed real-analysis libraries).
    [(int) sqrt(n)] of a small non-negative int is the integer square root [Nat.sqrt n]. *)
From Coq Require Import Reals Arith ZArith List Lia.
Local Open Scope R_scope.

(** ** Loops *)

(** [for (t = start; t < start + n; t++) st = body t st] *)
Fixpoint iter_from {S : Type} (n start : nat) (body : nat -> S -> S) (st : S) : S :=
  match n with
  | O => st
  | S n' => iter_from n' (Datatypes.S start) body (body start st)
  end.

(** The finite sum  g start + g (start+1) + ... + g (start+n-1). *)
Fixpoint sum_from (n start : nat) (g : nat -> R) : R :=
  match n with
  | O => 0
  | S n' => g start + sum_from n' (Datatypes.S start) g
  end.

(** ** Fourier space *)

(** [cutoff_y = (int) sqrt(fourier_cutoff_sq - i * i)], [cutoff_x = (int) sqrt(fourier_cutoff_sq - i*i - j*j)]. *)
Definition cut_j (N i : nat) : nat := Nat.sqrt (N * N - i * i).
Definition cut_k (N i j : nat) : nat := Nat.sqrt (N * N - i * i - j * j).

(** Constructor: multiplicity of the mirror images in y and z, and the precomputed factor
      4.0 * i * coefficient / (norm_sq * L * L) * exp(- M_PI * M_PI * norm_sq / (alpha * alpha)). *)
Definition mult_coef (j k : nat) : R :=
  match j, k with
  | O, O => 1
  | O, _ => 2
  | _, O => 2
  | _, _ => 4
  end.

Definition norm_sq (i j k : nat) : R := INR (i * i + j * j + k * k).

Definition fourier_coef (alpha L : R) (i j k : nat) : R :=
  4 * INR i * mult_coef j k / (norm_sq i j k * L * L) * exp (- PI * PI * norm_sq i j k / (alpha * alpha)).

(** State of the Fourier loop: the accumulated derivative and the six running trigonometric values. *)
Record fstate := mkF { f_acc : R; f_cx : R; f_sx : R; f_cy : R; f_sy : R; f_cz : R; f_sz : R }.

(** The six constants delta_cos_x, delta_sin_x, ... *)
Record deltas := mkD { d_cx : R; d_sx : R; d_cy : R; d_sy : R; d_cz : R; d_sz : R }.

(** Body of the innermost loop. *)
Definition fbody (N : nat) (farr : nat -> nat -> nat -> R) (d : deltas) (i j k : nat) (st : fstate) : fstate :=
  let a := f_acc st + farr i j k * f_sx st * f_cy st * f_cz st in
  if negb (k =? cut_k N i j)%nat then
    mkF a (f_cx st) (f_sx st) (f_cy st) (f_sy st)
        (f_cz st * d_cz d - f_sz st * d_sz d) (f_sz st * d_cz d + f_cz st * d_sz d)
  else if negb (j =? cut_j N i)%nat then
    mkF a (f_cx st) (f_sx st)
        (f_cy st * d_cy d - f_sy st * d_sy d) (f_sy st * d_cy d + f_cy st * d_sy d) 1 0
  else if negb (i =? N)%nat then
    mkF a (f_cx st * d_cx d - f_sx st * d_sx d) (f_sx st * d_cx d + f_cx st * d_sx d) 1 0 1 0
  else
    mkF a (f_cx st) (f_sx st) (f_cy st) (f_sy st) (f_cz st) (f_sz st).

Definition floop_k (N : nat) farr d (i j : nat) (st : fstate) : fstate :=
  iter_from (cut_k N i j + 1) 0 (fbody N farr d i j) st.
Definition floop_j (N : nat) farr d (i : nat) (st : fstate) : fstate :=
  iter_from (cut_j N i + 1) 0 (floop_k N farr d i) st.
Definition floop_i (N : nat) farr d (st : fstate) : fstate :=
  iter_from N 1 (floop_j N farr d) st.

(** The Fourier loop for angles (tx, ty, tz), started with the already accumulated value [acc0]. *)
Definition fourier_loop (N : nat) (farr : nat -> nat -> nat -> R) (tx ty tz : R) (acc0 : R) : R :=
  let d := mkD (cos tx) (sin tx) (cos ty) (sin ty) (cos tz) (sin tz) in
  f_acc (floop_i N farr d (mkF acc0 (d_cx d) (d_sx d) 1 0 1 0)).

(** The explicit finite sum over the same index set. *)
Definition fourier_sum (N : nat) (farr : nat -> nat -> nat -> R) (tx ty tz : R) : R :=
  sum_from N 1 (fun i =>
    sum_from (cut_j N i + 1) 0 (fun j =>
      sum_from (cut_k N i j + 1) 0 (fun k =>
        farr i j k * sin (INR i * tx) * cos (INR j * ty) * cos (INR k * tz)))).

(** [two_pi_over_length * s] *)
Definition angle (L s : R) : R := 2 * PI / L * s.

(** Fourier part of [derivative] as the code computes it / as an explicit sum. *)
Definition fourier_part_loop (N : nat) (alpha L sx sy sz acc0 : R) : R :=
  fourier_loop N (fourier_coef alpha L) (angle L sx) (angle L sy) (angle L sz) acc0.
Definition fourier_part (N : nat) (alpha L sx sy sz : R) : R :=
  fourier_sum N (fourier_coef alpha L) (angle L sx) (angle L sy) (angle L sz).

(** ** Position space ([erfc] is an argument). *)

(** Index [-c + t] of the t-th iteration of [for (i = -c; i < c + 1; i++)]. *)
Definition zidx (c t : nat) : Z := (Z.of_nat t - Z.of_nat c)%Z.

Definition pcut_j (P k : Z) : nat := Z.to_nat (Z.sqrt (P * P - k * k)%Z).
Definition pcut_i (P j k : Z) : nat := Z.to_nat (Z.sqrt (P * P - j * j - k * k)%Z).

Definition pos_term (erfc : R -> R) (alpha L : R) (vx vy_sq vz_sq : R) : R :=
  let vsq := vx * vx + vy_sq + vz_sq in
  let vnorm := sqrt vsq in
  vx * (2 * alpha / (L * sqrt PI) * exp (- (alpha * alpha / (L * L)) * vsq)
        + erfc (alpha / L * vnorm) / vnorm) / vsq.

(** The position-space loop, accumulating into [acc]. *)
Definition position_loop (erfc : R -> R) (P : nat) (alpha L sx sy sz : R) (acc0 : R) : R :=
  iter_from (2 * P + 1) 0 (fun tk acc =>
    let k := zidx P tk in
    let vz_sq := (sz + IZR k * L) * (sz + IZR k * L) in
    let cy := pcut_j (Z.of_nat P) k in
    iter_from (2 * cy + 1) 0 (fun tj acc =>
      let j := zidx cy tj in
      let vy_sq := (sy + IZR j * L) * (sy + IZR j * L) in
      let cx := pcut_i (Z.of_nat P) j k in
      iter_from (2 * cx + 1) 0 (fun ti acc =>
        let i := zidx cx ti in
        acc + pos_term erfc alpha L (sx + IZR i * L) vy_sq vz_sq) acc) acc) acc0.

(** The same as an explicit sum. *)
Definition position_sum (erfc : R -> R) (P : nat) (alpha L sx sy sz : R) : R :=
  sum_from (2 * P + 1) 0 (fun tk =>
    let k := zidx P tk in
    let cy := pcut_j (Z.of_nat P) k in
    sum_from (2 * cy + 1) 0 (fun tj =>
      let j := zidx cy tj in
      let cx := pcut_i (Z.of_nat P) j k in
      sum_from (2 * cx + 1) 0 (fun ti =>
        let i := zidx cx ti in
        pos_term erfc alpha L (sx + IZR i * L)
                 ((sy + IZR j * L) * (sy + IZR j * L)) ((sz + IZR k * L) * (sz + IZR k * L))))).

(** ** The whole C function and the Python wrapper. *)
Definition derivative_c (erfc : R -> R) (N P : nat) (alpha L sx sy sz : R) : R :=
  fourier_part_loop N alpha L sx sy sz (position_loop erfc P alpha L sx sy sz 0).

(** [MergedImageCoulombPotential.standard_velocity_derivative] after the permutation of the separation:
    prefactor * charge_one * charge_two * derivative(sx, sy, sz). *)
Definition standard_velocity_derivative (erfc : R -> R) (N P : nat) (alpha L prefactor c1 c2 sx sy sz : R) : R :=
  prefactor * c1 * c2 * derivative_c erfc N P alpha L sx sy sz.
