(** * Model/MultiMediatorCases.v — case types and checkers for the C20 correspondence.

    A case is one recorded run of the real mediator.  The oracles of Model/MultiMediator.v are
    instantiated by lookup tables indexed by the leg number (= number of commits so far): the activator's
    answers, the candidate times, the out-state identifiers and the trash lists are the recorded ones; the
    arrival schedule (batches returned by connection.wait) is the recorded one.  The model then has to
    reproduce the complete recorded sequence of mediator-side events (stage changes, scheduler pushes,
    picks, _out_states updates, commits, trashes) without skipping any schedule choice. *)
From Coq Require Import List ZArith Bool Arith.
Require Import JF.Model.MultiMediator.
Import ListNotations.

Record legrec := mkLeg {
  lg_run : list nat;             (* handlers to run, dictionary order *)
  lg_times : list Z;             (* their candidate times (order-preserving integer keys) *)
  lg_outs : list (nat * Z);      (* out-state ids of out-states computed from this leg's in-states *)
  lg_trash : list nat;           (* get_trashable_events after this leg's commit *)
  lg_batches : list (list nat)   (* connection.wait results (multi-process only) *)
}.

Definition leg_dflt : legrec := mkLeg [] [] [] [] [].

Fixpoint assoc {A : Type} (d : A) (k : nat) (l : list (nat * A)) : A :=
  match l with
  | [] => d
  | (k', v) :: r => if Nat.eqb k k' then v else assoc d k r
  end.

Section Tables.
  Variable args : list bool.
  Variable legs : list legrec.

  Definition t_leg (i : nat) : legrec := nth i legs leg_dflt.
  Definition t_has_args (h : H) : bool := nth h args false.
  Definition t_to_run (hs : hist Z) : list H := lg_run (t_leg (length hs)).
  Definition t_ev_time (h : H) (hs : hist Z) : Z :=
    let lg := t_leg (length hs) in assoc 0%Z h (combine (lg_run lg) (lg_times lg)).
  Definition t_out_state (h : H) (he _ : hist Z) : Z := assoc 0%Z h (lg_outs (t_leg (length he))).
  Definition t_trash_of (hs : hist Z) : list H := lg_trash (t_leg (pred (length hs))).
End Tables.

Definition stage_eqb (a b : stage) : bool :=
  match a, b with Idle, Idle | ETS, ETS | Susp, Susp | OSS, OSS => true | _, _ => false end.

Definition ev_eqb (a b : ev Z) : bool :=
  match a, b with
  | EStage _ h s, EStage _ h' s' => Nat.eqb h h' && stage_eqb s s'
  | EPush _ h t, EPush _ h' t' => Nat.eqb h h' && Z.eqb t t'
  | EPick _ h, EPick _ h' => Nat.eqb h h'
  | EOsSet _ h o, EOsSet _ h' o' => Nat.eqb h h' && Z.eqb o o'
  | EOsDel _ h, EOsDel _ h' => Nat.eqb h h'
  | ECommit _ h t o, ECommit _ h' t' o' => Nat.eqb h h' && Z.eqb t t' && Z.eqb o o'
  | ETrash _ h, ETrash _ h' => Nat.eqb h h'
  | EEt _ h, EEt _ h' => Nat.eqb h h'
  | _, _ => false
  end.

Fixpoint evs_eqb (a b : list (ev Z)) : bool :=
  match a, b with
  | [], [] => true
  | x :: a', y :: b' => ev_eqb x y && evs_eqb a' b'
  | _, _ => false
  end.

(** First index at which two logs differ (diagnostics; [None] = equal). *)
Fixpoint evs_diff (i : nat) (a b : list (ev Z)) : option nat :=
  match a, b with
  | [], [] => None
  | x :: a', y :: b' => if ev_eqb x y then evs_diff (S i) a' b' else Some i
  | _, _ => Some i
  end.

Inductive mcase :=
| MCase (cores : nat) (args : list bool) (legs : list legrec) (log : list (ev Z))   (* multi-process run *)
| SCase (args : list bool) (legs : list legrec) (log : list (ev Z)).                (* single-process run *)

Definition run_mcase (cores : nat) (args : list bool) (legs : list legrec) :=
  mp_run Z cores (t_has_args args) (t_to_run legs) (t_ev_time legs) (t_out_state legs) (t_trash_of legs)
         (length legs) (map lg_batches legs) (m_init Z).

Definition run_scase (args : list bool) (legs : list legrec) :=
  sp_run Z (t_has_args args) (t_to_run legs) (t_ev_time legs) (t_out_state legs) (t_trash_of legs)
         (length legs) (s_init Z).

Definition check_mcase (c : mcase) : bool :=
  match c with
  | MCase cores args legs log =>
      match run_mcase cores args legs with
      | inl m => evs_eqb (rev (m_log Z m)) log && Nat.eqb (m_skip Z m) 0
      | inr _ => false
      end
  | SCase args legs log =>
      match run_scase args legs with
      | inl s => evs_eqb (rev (s_log Z s)) log
      | inr _ => false
      end
  end.

(** Diagnostics for a failing case: (first differing log index, skipped choices). *)
Definition diag_mcase (c : mcase) : option nat * nat :=
  match c with
  | MCase cores args legs log =>
      match run_mcase cores args legs with
      | inl m => (evs_diff 0 (rev (m_log Z m)) log, m_skip Z m)
      | inr _ => (Some 0, 999)
      end
  | SCase args legs log =>
      match run_scase args legs with
      | inl s => (evs_diff 0 (rev (s_log Z s)) log, 0)
      | inr _ => (Some 0, 999)
      end
  end.
