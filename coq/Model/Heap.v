(** * Model/Heap.v — line-by-line functional transliteration of
    jellyfysh/scheduler/heap_scheduler/heap.c  (binary min heap with a sentinel at index 0
    and a spare slot, lazy deletion through a validity callback).

    No proofs in this file (it must stay runnable); see Proofs/HeapProofs.v.

    Memory model.  [heap_entries] is a list of cells of length [hsize]; a cell is [None] while it
    is uninitialised memory (fresh from [realloc]) and [Some e] once written.  [cget] / [cset] are
    bounds-checked and return [None] for an index outside the allocation, and [cget] also returns
    [None] for an uninitialised cell.  Every function below is in the option monad: the result
    [None] means that the C code would have performed an invalid memory access (or, for the loops
    that carry fuel, that the loop did not terminate within the fuel).

    Keys are abstract ([K], strict comparison [ltb], bottom element [bot] = (-inf, -inf)); the
    instance used for the correspondence with the real code is (f64 * f64) with
    [JF.Model.Time.c_time_lt] (see Model/Sched.v).

    C [uint] fields: [length], [size] and positions are modelled by [nat] (wrap-around of these
    at 2^32 entries is excluded by hypothesis, DESIGN.md C06 "Limits"); the lazy-deletion counter is
    an [N] that carries its 2^32 bound explicitly in Model/Sched.v. *)
From Coq Require Import List Arith Bool NArith.
Import ListNotations.

(** Option monad. *)
Definition obind {A B} (o : option A) (f : A -> option B) : option B :=
  match o with Some a => f a | None => None end.
Notation "x <- e ;; k" := (obind e (fun x => k)) (at level 61, e at next level, right associativity).
Notation "' p <- e ;; k" := (obind e (fun p => k))
  (at level 61, p pattern, e at next level, right associativity).

Section HeapModel.
  Variable K : Type.
  Variable ltb : K -> K -> bool.      (* time_quotient / time_remainder comparison of heap.c *)
  Variable bot : K.                   (* (-1.0/0.0, -1.0/0.0) *)

  (** struct HeapEntry: (time_quotient, time_remainder) = [ekey]; [ehd = None] is the NULL pointer. *)
  Record entry := mkE { ekey : K; ehd : option N; ectr : N }.

  (** The entry written at index 0 and returned for "nothing there": {-inf, -inf, NULL, (uint)-1}. *)
  Definition sentinel : entry := mkE bot None 4294967295%N.

  Definition cells := list (option entry).

  (** struct Heap *)
  Record heap := mkHeap { entries : cells; hlen : nat; hsize : nat }.

  (** construct_heap: calloc'ed struct (NULL array, length 0, size 0). *)
  Definition empty_heap : heap := mkHeap [] 0 0.

  (** sizeof(struct HeapEntry) on the LP64 target (8 + 8 + 8 + 4, padded to 32). *)
  Definition entry_bytes : N := 32%N.

  Definition cget (es : cells) (i : nat) : option entry :=
    match nth_error es i with Some (Some e) => Some e | _ => None end.

  Fixpoint upd (es : cells) (i : nat) (c : option entry) : cells :=
    match es, i with
    | [], _ => []
    | _ :: r, O => c :: r
    | x :: r, S j => x :: upd r j c
    end.

  Definition cset (es : cells) (i : nat) (e : entry) : option cells :=
    if i <? List.length es then Some (upd es i (Some e)) else None.

  Definition entry_lt (a b : entry) : bool := ltb (ekey a) (ekey b).

  (** The while loop of [insert]: move parents down while the new key is smaller. *)
  Fixpoint bubble_up (fuel : nat) (es : cells) (pos : nat) (k : K) : option (cells * nat) :=
    match fuel with
    | O => None
    | S f =>
        let parent := pos / 2 in
        pe <- cget es parent ;;
        if ltb k (ekey pe) then
          es' <- cset es pos pe ;;
          bubble_up f es' parent k
        else Some (es, pos)
    end.

  (** insert(heap, time_quotient, time_remainder, event_handler, counter) *)
  Definition insert (h : heap) (k : K) (hd : N) (c : N) : option heap :=
    let position := hlen h in                   (* uint position = (heap->length)++; *)
    let len1 := S (hlen h) in
    ' (es, len, size, position) <-
      (if hsize h <? len1 + 1 then              (* if (heap->length + 1 > heap->size) *)
         let old_size := hsize h in
         let new_size := if old_size =? 0 then 64 else old_size * 2 in
         let es := entries h ++ repeat None (new_size - old_size) in   (* realloc *)
         if old_size =? 0 then
           es0 <- cset es 0 sentinel ;;          (* heap_entries[0] = {-inf,-inf,NULL,-1} *)
           Some (es0, S len1, new_size, S position)   (* heap->length++; position++; *)
         else Some (es, len1, new_size, position)
       else Some (entries h, len1, hsize h, position)) ;;
    ' (es2, pos2) <- bubble_up (S position) es position k ;;
    es3 <- cset es2 pos2 (mkE k (Some hd) c) ;;
    Some (mkHeap es3 len size).

  (** return value of [insert]: heap->size * sizeof(struct HeapEntry) *)
  Definition heap_bytes (h : heap) : N := (N.of_nat (hsize h) * entry_bytes)%N.

  (** bubble_down(heap, position); [len] = heap->length (constant during the call).  The entry that
      is bubbled down sits in cell [len]. *)
  Fixpoint bubble_down (fuel : nat) (es : cells) (len pos : nat) : option cells :=
    if pos <? len then
      match fuel with
      | O => None
      | S f =>
          let child := 2 * pos in
          cmp1 <- (if child <? len then
                     ec <- cget es child ;;
                     ex <- cget es len ;;
                     Some (if entry_lt ec ex then child else len)
                   else Some len) ;;
          cmp2 <- (if child + 1 <? len then
                     ec <- cget es (child + 1) ;;
                     ex <- cget es cmp1 ;;
                     Some (if entry_lt ec ex then child + 1 else cmp1)
                   else Some cmp1) ;;
          e <- cget es cmp2 ;;
          es' <- cset es pos e ;;
          bubble_down f es' len cmp2
      end
    else Some es.

  (** root(heap, scheduler, event_valid_callback): [cb e = true] means "delete this entry". *)
  Fixpoint root_loop (fuel : nat) (cb : entry -> bool) (h : heap) : option (heap * entry) :=
    if 1 <? hlen h then
      e1 <- cget (entries h) 1 ;;
      if cb e1 then
        match fuel with
        | O => None
        | S f =>
            let len' := hlen h - 1 in                         (* --(heap->length) *)
            el <- cget (entries h) len' ;;
            es1 <- cset (entries h) 1 el ;;
            es2 <- bubble_down len' es1 len' 1 ;;
            root_loop f cb (mkHeap es2 len' (hsize h))
        end
      else Some (h, e1)
    else Some (h, sentinel).

  Definition root (cb : entry -> bool) (h : heap) : option (heap * entry) :=
    root_loop (hlen h) cb h.

  Definition hd_eqb (a b : option N) : bool :=
    match a, b with
    | Some x, Some y => N.eqb x y
    | None, None => true
    | _, _ => false
    end.

  (** first loop of delete_events *)
  Fixpoint del_loop (fuel : nat) (es : cells) (len ci : nat) (hd : N) : option (cells * nat) :=
    if ci <? len then
      match fuel with
      | O => None
      | S f =>
          e <- cget es ci ;;
          if hd_eqb (ehd e) (Some hd) then
            el <- cget es (len - 1) ;;
            es' <- cset es ci el ;;
            del_loop f es' (len - 1) ci hd
          else del_loop f es len (S ci) hd
      end
    else Some (es, len).

  (** second loop of delete_events: for (index = length/2; index >= 1; index--) *)
  Fixpoint heapify (idx : nat) (es : cells) (len : nat) : option cells :=
    match idx with
    | O => Some es
    | S i =>
        e <- cget es idx ;;
        es1 <- cset es len e ;;
        es2 <- bubble_down len es1 len idx ;;
        heapify i es2 len
    end.

  Definition delete_events (h : heap) (hd : N) : option heap :=
    ' (es, len) <- del_loop (hlen h) (entries h) (hlen h) 1 hd ;;
    es' <- heapify (len / 2) es len ;;
    Some (mkHeap es' len (hsize h)).

  (** entry(heap, index) *)
  Definition entry_at (h : heap) (index : nat) : option entry :=
    if index + 1 <? hlen h then cget (entries h) (index + 1) else Some sentinel.

End HeapModel.

Arguments mkE {K}.
Arguments ekey {K}.
Arguments ehd {K}.
Arguments ectr {K}.
Arguments mkHeap {K}.
Arguments entries {K}.
Arguments hlen {K}.
Arguments hsize {K}.
Arguments empty_heap {K}.
Arguments cget {K}.
Arguments cset {K}.
Arguments upd {K}.
Arguments sentinel {K}.
Arguments heap_bytes {K}.
Arguments entry_at {K}.
Arguments hd_eqb : simpl nomatch.
