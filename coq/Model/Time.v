(** * Model/Time.v — model of jellyfysh/base/time.py (class Time), on binary64. *)
From Coq Require Import ZArith Bool List.
Require Import JF.Base.F64 JF.Base.PyFloat.

Record time := mkTime { tq : f64; tr : f64 }.

Definition time_inf : time := mkTime finf finf.

(** [Time.from_float]: divmod(t, 1.0) unpacked into Time, unless isinf(t): then Time(t, t). *)
Definition from_float (x : f64) : time :=
  if fisinf x then mkTime x x else let '(q, r) := py_divmod1 x in mkTime q r.

(** [Time.__add__(self, other: float)] *)
Definition time_add (t : time) (d : f64) : time :=
  if fisinf d then mkTime d d
  else let '(aq, nr) := py_divmod1 (fadd (tr t) d) in mkTime (fadd (tq t) aq) nr.

(** [Time.__sub__]: [q - q' + r - r'] evaluated left to right. *)
Definition time_sub (a b : time) : f64 :=
  fsub (fadd (fsub (tq a) (tq b)) (tr a)) (tr b).

Definition time_eq (a b : time) : bool := feq (tq a) (tq b) && feq (tr a) (tr b).
Definition time_lt (a b : time) : bool :=
  flt (tq a) (tq b) || (feq (tq a) (tq b) && flt (tr a) (tr b)).
(** Python's default [__ne__] is [not __eq__]. *)
Definition time_ne (a b : time) : bool := negb (time_eq a b).
Definition time_gt (a b : time) : bool := negb (time_lt a b) && time_ne a b.
Definition time_le (a b : time) : bool := time_lt a b || time_eq a b.
Definition time_ge (a b : time) : bool := negb (time_lt a b).

(** heap.c: [compare_times] / [time_lt]-style comparison used by the C heap
    (quotient first, then remainder) — same function, shared with C06. *)
Definition c_time_lt (q1 r1 q2 r2 : f64) : bool :=
  flt q1 q2 || (feq q1 q2 && flt r1 r2).
