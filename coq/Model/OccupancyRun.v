(** * Model/OccupancyRun.v — replay of a recorded run through the occupancy model (C11, run-time part).

    A case is one SingleActiveCellOccupancy of one traced real run: the box, the cell grid, the occupant limit, the
    units on the cell level of the initial global state (extraction order, position bits, charge filter verdict), the
    internals recorded after [initialize], and per leg (= per call of TagActivator._get_event_handlers_to_run_update,
    which calls [update] once) what [update] received, the positions of all relevant cell-level units in the global
    state at that moment, the internals recorded after the update and whether the event committed in the previous
    leg was a cell-boundary event.

    [step_leg] replays [update] of Model/Occupancy.v with cells computed from the position bits by Model/Cells.v
    ([idx] = CuboidCells._cell_index on binary64) and checks
      (a) model state == recorded internals (occupant and surplus list of every cell as multisets, active cell,
          active id);
      (b) the hypotheses of [update_inv] for this leg, as booleans;
      (c) same active identifier in another cell => the previous event was a cell-boundary event and the new cell is
          the neighbour (+-1 modulo the count in exactly one direction).
    No proofs here (Proofs/OccupancyRunProofs.v). *)
From Coq Require Import List ZArith Bool.
Require Import JF.Base.F64 JF.Base.PyFloat JF.Model.Cells JF.Model.Occupancy.
Import ListNotations.
Open Scope Z_scope.

Definition lz := list Z.
Definition ost := state lz lz.
(** unit identifier -> cell (or position bits): association list; [aget list_Z_eqb] is the lookup *)
Definition cmap := list (lz * lz).

(** ** cells from positions *)
Fixpoint sides_of (Ls : list Z) (counts : list Z) : list f64 :=
  match Ls, counts with
  | Lb :: Lr, n :: nr => side (of_bits Lb) n :: sides_of Lr nr
  | _, _ => []
  end.

(** CuboidCells.position_to_cell: the index tuple of the cell *)
Fixpoint cell_of (sides : list f64) (counts : list Z) (pos : list Z) : lz :=
  match sides, counts, pos with
  | s :: sr, n :: nr, xb :: xr => idx s n (of_bits xb) :: cell_of sr nr xr
  | _, _, _ => []
  end.

Definition cells_of_positions (sides : list f64) (counts : list Z) (ps : list (lz * list Z)) : cmap :=
  map (fun up => (fst up, cell_of sides counts (snd up))) ps.

Definition cellof_of (cl : cmap) (u : lz) : lz := get_or_nil (aget list_Z_eqb cl u).

(** ** recorded internals *)
Record osnap := mkOSnap {
  os_occ : list (lz * list lz);     (* non-empty entries of _occupants *)
  os_sur : list (lz * list lz);     (* _surplus *)
  os_acell : option lz;
  os_aid : option lz
}.

Fixpoint llist_eqb (a b : list lz) : bool :=
  match a, b with
  | [], [] => true
  | x :: a', y :: b' => list_Z_eqb x y && llist_eqb a' b'
  | _, _ => false
  end.

Definition opt_lz_eqb (a b : option lz) : bool :=
  match a, b with
  | Some x, Some y => list_Z_eqb x y
  | None, None => true
  | _, _ => false
  end.

Definition nonempty_entries (m : list (lz * list lz)) : list (lz * list lz) :=
  filter (fun cl => negb (is_nil (snd cl))) m.

Fixpoint remove_one_lz (x : lz) (l : list lz) : option (list lz) :=
  match l with
  | [] => None
  | y :: r => if list_Z_eqb x y then Some r
              else match remove_one_lz x r with Some r' => Some (y :: r') | None => None end
  end.
(** same identifiers with the same multiplicities (the order inside a list is a representation detail) *)
Fixpoint same_members (a b : list lz) : bool :=
  match a with
  | [] => match b with [] => true | _ => false end
  | x :: r => match remove_one_lz x b with Some b' => same_members r b' | None => false end
  end.

Definition same_map (m rec : list (lz * list lz)) : bool :=
  Nat.eqb (length m) (length rec)
  && forallb (fun cl => match aget list_Z_eqb m (fst cl) with
                        | Some l => same_members l (snd cl)
                        | None => false
                        end) rec.

(** (a) *)
Definition snap_eqb (s : ost) (sn : osnap) : bool :=
  same_map (nonempty_entries (occupants s)) (os_occ sn)
  && same_map (surplus s) (os_sur sn)
  && opt_lz_eqb (active_cell s) (os_acell sn)
  && opt_lz_eqb (active_id s) (os_aid sn).

(** ** legs *)
Record oleg := mkOLeg {
  ol_prev_boundary : bool;            (* the event committed in the previous leg was a CellBoundaryEventHandler's *)
  ol_nid : lz;                        (* the active unit on the cell level as update() receives it *)
  ol_pos : list Z;
  ol_rel : bool;
  ol_units : list (lz * list Z);      (* current positions of all relevant cell-level units *)
  ol_snap : osnap                     (* internals after update *)
}.

Record ocase := mkOCase {
  oc_L : list Z;                      (* system lengths (bits) *)
  oc_counts : list Z;                 (* cells per side *)
  oc_max : Z;                         (* maximum_number_occupants (<= 0: not bounded) *)
  oc_init : list (lz * list Z * bool);    (* cell-level units of the initial state: id, position, relevant *)
  oc_init_snap : osnap;               (* internals after initialize *)
  oc_legs : list oleg
}.

(** static data of a case *)
Record rcfg := mkRcfg {
  rc_sides : list f64;
  rc_counts : list Z;
  rc_cells : list lz;
  rc_units : list lz                  (* the relevant units *)
}.

Definition mem_lz (x : lz) (l : list lz) : bool := mem_cell list_Z_eqb x l.

(** +-1 modulo the count in exactly one direction, 0 in the others *)
Fixpoint step_codes (counts a b : list Z) : list Z :=
  match counts, a, b with
  | n :: nr, x :: ar, y :: br =>
      (let d := (y - x) mod n in
       if d =? 0 then 0 else if (d =? 1) || (d =? n - 1) then 1 else 2) :: step_codes nr ar br
  | _, _, _ => []
  end.
Definition neighbour (counts a b : list Z) : bool :=
  Nat.eqb (length a) (length counts) && Nat.eqb (length b) (length counts)
  && (fold_right Z.add 0 (step_codes counts a b) =? 1).

(** (c) *)
Definition crossing_ok (cfg : rcfg) (s : ost) (l : oleg) (c : lz) : bool :=
  match active_id s, active_cell s with
  | Some a, Some ac =>
      if list_Z_eqb a (ol_nid l) then
        if list_Z_eqb ac c then true
        else ol_prev_boundary l && neighbour (rc_counts cfg) ac c
      else true
  | _, _ => true
  end.

(** (b): the hypotheses of update_inv *)
Definition hyps_ok (cfg : rcfg) (s : ost) (cl cl' : cmap) (l : oleg) (c : lz) : bool :=
  llist_eqb (map fst cl') (rc_units cfg)
  && forallb (fun u => mem_lz (cellof_of cl' u) (rc_cells cfg)) (rc_units cfg)
  && Bool.eqb (ol_rel l) (mem_lz (ol_nid l) (rc_units cfg))
  && (if ol_rel l then list_Z_eqb c (cellof_of cl' (ol_nid l)) else true)
  && forallb (fun u => if opt_id_eqb list_Z_eqb (active_id s) u then true
                       else list_Z_eqb (cellof_of cl' u) (cellof_of cl u)) (rc_units cfg)
  && match active_id s with
     | Some a => if list_Z_eqb a (ol_nid l) then true else list_Z_eqb (cellof_of cl' a) (cellof_of cl a)
     | None => true
     end.

Definition step_leg (cfg : rcfg) (s : ost) (cl : cmap) (l : oleg) : option (ost * cmap) :=
  let cl' := cells_of_positions (rc_sides cfg) (rc_counts cfg) (ol_units l) in
  let c := cell_of (rc_sides cfg) (rc_counts cfg) (ol_pos l) in
  if hyps_ok cfg s cl cl' l c && crossing_ok cfg s l c then
    match update list_Z_eqb list_Z_eqb s (ol_nid l) (ol_rel l) c with
    | Ok s' => if snap_eqb s' (ol_snap l) then Some (s', cl') else None
    | Err _ => None
    end
  else None.

Fixpoint run_legs (cfg : rcfg) (s : ost) (cl : cmap) (legs : list oleg) : option (list (ost * cmap)) :=
  match legs with
  | [] => Some []
  | l :: r =>
      match step_leg cfg s cl l with
      | Some (s', cl') =>
          match run_legs cfg s' cl' r with
          | Some rest => Some ((s', cl') :: rest)
          | None => None
          end
      | None => None
      end
  end.

(** ** the initial state *)
Definition case_sides (c : ocase) : list f64 := sides_of (oc_L c) (oc_counts c).
Definition case_us (c : ocase) : list (lz * lz * bool) :=
  map (fun x => (fst (fst x), cell_of (case_sides c) (oc_counts c) (snd (fst x)), snd x)) (oc_init c).
Definition case_units (c : ocase) : list lz :=
  map (fun x => fst (fst x)) (filter (fun x => snd x) (case_us c)).
Definition case_cfg (c : ocase) : rcfg :=
  mkRcfg (case_sides c) (oc_counts c) (torus_cells (oc_counts c)) (case_units c).
(** cells of ALL cell-level units of the initial state *)
Definition case_cl0 (c : ocase) : cmap := map (fun x => (fst (fst x), snd (fst x))) (case_us c).

Fixpoint nodup_lz (l : list lz) : bool :=
  match l with [] => true | x :: r => negb (mem_lz x r) && nodup_lz r end.

Definition init_case (c : ocase) : option (ost * cmap) :=
  let cfg := case_cfg c in
  if nodup_lz (rc_cells cfg)
     && nodup_lz (map fst (case_cl0 c))
     && forallb (fun uc => mem_lz (snd uc) (rc_cells cfg)) (case_cl0 c)
  then
    match initialize list_Z_eqb (rc_cells cfg) (limit_of_max (oc_max c)) (case_us c) with
    | Ok s0 => if snap_eqb s0 (oc_init_snap c) then Some (s0, case_cl0 c) else None
    | Err _ => None
    end
  else None.

(** all model states of the run: after initialize, then after every leg's update *)
Definition run_case (c : ocase) : option (list (ost * cmap)) :=
  match init_case c with
  | Some (s0, cl0) =>
      match run_legs (case_cfg c) s0 cl0 (oc_legs c) with
      | Some rest => Some ((s0, cl0) :: rest)
      | None => None
      end
  | None => None
  end.

Definition check_ocase (c : ocase) : bool :=
  match run_case c with Some _ => true | None => false end.

(** ** The cell taggers on real runs (C10 on recorded runs).
    At every leg the tracer calls each tagger's real [yield_identifiers_send_event_time] on the current active state
    ([fresh]) and records whether the tagger is activated.  [check_tcase_run] replays the occupancy as above and
    requires, for every cell-based tagger connected to this occupancy, that the recorded generation equals the
    model's tagger function applied to the replayed state (as a multiset of in-state tuples; inside a tuple the active
    identifier in place and the targets as a multiset); deactivated taggers generate nothing. *)
Inductive tkind := TVeto | TBounding | TNearby | TSurplus | TBoundary.

Definition model_gen (cs : cellsys lz) (k : tkind) (s : ost) : list (list lz) :=
  match k with
  | TVeto => cell_veto_tagger s
  | TBounding => cell_bounding_tagger list_Z_eqb cs s
  | TNearby => excluded_cells_tagger list_Z_eqb cs s
  | TSurplus => surplus_cells_tagger s
  | TBoundary => cell_boundary_tagger s
  end.

Definition tuple_eqb (a b : list lz) : bool :=
  match a, b with
  | [], [] => true
  | x :: a', y :: b' => list_Z_eqb x y && same_members a' b'
  | _, _ => false
  end.

Fixpoint remove_tuple (x : list lz) (l : list (list lz)) : option (list (list lz)) :=
  match l with
  | [] => None
  | y :: r => if tuple_eqb x y then Some r
              else match remove_tuple x r with Some r' => Some (y :: r') | None => None end
  end.

Fixpoint same_tuples (a b : list (list lz)) : bool :=
  match a with
  | [] => match b with [] => true | _ => false end
  | x :: r => match remove_tuple x b with Some b' => same_tuples r b' | None => false end
  end.

Record tgen := mkTGen {
  tg_kind : tkind;
  tg_active : bool;               (* the tagger is activated at this leg *)
  tg_rec : list (list lz)         (* what the real tagger generates at this leg *)
}.

Definition gen_ok (cs : cellsys lz) (s : ost) (g : tgen) : bool :=
  same_tuples (if tg_active g then model_gen cs (tg_kind g) s else []) (tg_rec g).

Record tcase := mkTCase {
  tc_o : ocase;
  tc_layers : Z;                  (* neighbor_layers of the cell system *)
  tc_gens : list (list tgen);     (* per recorded state (after initialize, after every update): its taggers *)
  tc_vetos : list (list (list lz))  (* per recorded state: the cell-level targets handed to send_out_state by every
                                       cell-veto event of this occupancy committed in that leg (non-empty ones) *)
}.

Definition case_cs (c : tcase) : cellsys lz := torus_cs (oc_counts (tc_o c)) (tc_layers c).

Fixpoint gens_ok (cs : cellsys lz) (states : list (ost * cmap)) (gens : list (list tgen)) : bool :=
  match states, gens with
  | [], [] => true
  | sc :: sr, g :: gr => forallb (gen_ok cs (fst sc)) g && gens_ok cs sr gr
  | _, _ => false
  end.

(** the mediator hands the occupants of [translate(active_cell, sampled walker item)] to the committed cell-veto
    event: the recorded targets are all occupants of one cell reached from a walker item *)
Definition veto_ok (cs : cellsys lz) (s : ost) (tg : list lz) : bool :=
  match yield_active_cells s with
  | (ac, _) :: _ =>
      existsb (fun r => same_members (veto_targets_of_cell list_Z_eqb cs s ac r) tg) (veto_domain list_Z_eqb cs)
  | [] => false
  end.

Fixpoint vetos_ok (cs : cellsys lz) (states : list (ost * cmap)) (vs : list (list (list lz))) : bool :=
  match states, vs with
  | [], [] => true
  | sc :: sr, v :: vr => forallb (veto_ok cs (fst sc)) v && vetos_ok cs sr vr
  | _, _ => false
  end.

Definition check_tcase_run (c : tcase) : bool :=
  forallb (fun n => 0 <? n) (oc_counts (tc_o c)) && (0 <=? tc_layers c)
  && match run_case (tc_o c) with
     | Some states => gens_ok (case_cs c) states (tc_gens c) && vetos_ok (case_cs c) states (tc_vetos c)
     | None => false
     end.
