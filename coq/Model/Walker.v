(** * Model/Walker.v — model of jellyfysh/event_handler/walker.py (class Walker) over Q.

    Items are identified by their position in the input sequence.  The two Python lists
    [small_list]/[large_list] are used as stacks ([append]/[pop]); here a stack is a Coq list
    whose head is the top.  The table is accumulated in reverse and reversed at the end.
    Draws are explicit: [row] is the index picked by [random.choice(self._table)] and [u] the
    number behind [random.uniform(0.0, self._mean_rate)] = 0.0 + (mean - 0.0) * u.
    No proofs in this file. *)
From Coq Require Import QArith List Bool ZArith.
Require Import JF.Model.Lifting.   (* Qlt_bool, uniform, py_sum *)
Import ListNotations.
Open Scope Q_scope.

Record witem := mkW { w_id : nat; w_rate : Q }.

Inductive wrow :=
| RPair (small large : witem)     (* (small_item, WalkerItem(large_item.item, mean - small_item.rate)) *)
| RSingle (it : witem).           (* (WalkerItem(item, mean),) *)

Inductive wres :=
| WOk (table : list wrow)
| WZeroDivision      (* empty input, or all rates zero (rate / mean in the final asserts) *)
| WAssertionError    (* negative rate, or a left-over item whose rate is not mean within 1e-6 *)
| WFuel.             (* model artefact: never returned (theorem build_terminates) *)

Definition qlen {A} (l : list A) : Q := inject_Z (Z.of_nat (length l)).

(** [self._total_rate = sum(rates)], [self._mean_rate = total / len(items)] *)
Definition total_rate (rates : list Q) : Q := py_sum rates.
(** [Qred] only normalises the representation (Qred q == q); without it the denominators of the
    intermediate rates grow with every iteration *)
Definition mean_rate (rates : list Q) : Q := Qred (total_rate rates / qlen rates).

Fixpoint items_from (i : nat) (rates : list Q) : list witem :=
  match rates with
  | [] => []
  | r :: rs => mkW i r :: items_from (S i) rs
  end.

(** first loop of [_build_table]: [if rate > mean: large.append(item) else: small.append(item)] *)
Fixpoint partition_items (mean : Q) (items small large : list witem) : list witem * list witem :=
  match items with
  | [] => (small, large)
  | it :: rest =>
      if Qlt_bool mean (w_rate it) then partition_items mean rest small (it :: large)
      else partition_items mean rest (it :: small) large
  end.

(** the floats [1-1e-6] and [1+1e-6] as exact rationals *)
Definition assert_lo : Q := 9007190247541737 # 9007199254740992.
Definition assert_hi : Q := 4503604130970123 # 4503599627370496.

(** [while len(list): assert 1-1e-6 < list[-1].rate / mean < 1+1e-6; table.append((WalkerItem(pop().item, mean),))]
    returns the error of the first failing assert, if any *)
Fixpoint leftover_check (mean : Q) (items : list witem) : option wres :=
  match items with
  | [] => None
  | it :: rest =>
      if Qeq_bool mean 0 then Some WZeroDivision
      else if Qlt_bool assert_lo (w_rate it / mean) && Qlt_bool (w_rate it / mean) assert_hi
           then leftover_check mean rest
           else Some WAssertionError
  end.

Definition single (mean : Q) (it : witem) : wrow := RSingle (mkW (w_id it) mean).

Definition build_finish (mean : Q) (small large : list witem) (acc : list wrow) : wres :=
  match leftover_check mean small with
  | Some e => e
  | None =>
      match leftover_check mean large with
      | Some e => e
      | None => WOk (rev acc ++ map (single mean) small ++ map (single mean) large)
      end
  end.

(** main loop of [_build_table]:
    [while len(small) and len(large): s = small.pop(); l = large.pop();
       table.append((s, WalkerItem(l.item, mean - s.rate))); l.rate -= mean - s.rate;
       if l.rate < mean: small.append(l) else: large.append(l)] *)
Fixpoint build_loop (fuel : nat) (mean : Q) (small large : list witem) (acc : list wrow) : wres :=
  match fuel with
  | O => WFuel
  | S f =>
      match small, large with
      | s :: small', l :: large' =>
          let row := RPair s (mkW (w_id l) (Qred (mean - w_rate s))) in
          let l2 := mkW (w_id l) (Qred (w_rate l - (mean - w_rate s))) in
          if Qlt_bool (w_rate l2) mean then build_loop f mean (l2 :: small') large' (row :: acc)
          else build_loop f mean small' (l2 :: large') (row :: acc)
      | _, _ => build_finish mean small large acc
      end
  end.

(** [Walker.__init__] *)
Definition build (rates : list Q) : wres :=
  match rates with
  | [] => WZeroDivision                      (* total / 0 *)
  | _ =>
      let mean := mean_rate rates in
      if existsb (fun r => Qlt_bool r 0) rates then WAssertionError   (* assert rate >= 0.0 *)
      else
        let '(small, large) := partition_items mean (items_from 0 rates) [] [] in
        build_loop (S (length rates)) mean small large []
  end.

Inductive sres := SOk (id : nat) | SIndexError.

(** [Walker.sample_cell]: [row = random.choice(table)]; [if uniform(0.0, mean) <= row[0].rate: row[0].item
    else row[1].item] *)
Definition sample (table : list wrow) (mean : Q) (row : nat) (u : Q) : sres :=
  match nth_error table row with
  | None => SIndexError
  | Some (RPair s l) => if Qle_bool (uniform u 0 mean) (w_rate s) then SOk (w_id s) else SOk (w_id l)
  | Some (RSingle it) => if Qle_bool (uniform u 0 mean) (w_rate it) then SOk (w_id it) else SIndexError
  end.
