(** * Model/Kinematics.v — the mediator loop seen from the global state (C07, C13 run part, C17).

    A recorded run is a list of legs.  Each leg pushes candidate events, the scheduler's pick is
    committed: the out-state overrides the corresponding units of the global state.  The model keeps
    the global state (all units, exact values obtained from the recorded bit patterns), the pending
    candidate times and the current time, and checks LOCAL facts on every leg ([leg_ok]); the
    theorems in Proofs/KinematicsProofs.v derive the global properties for runs of any length. *)
From Coq Require Import ZArith QArith Qabs Qround List Bool Lia.
From Flocq Require Import Core.Core IEEE754.BinarySingleNaN.
Require Import JF.Base.F64.
Import ListNotations.
Open Scope Q_scope.

(** ** Exact value of a finite binary64. *)
Definition pow2Q (e : Z) : Q :=
  match e with
  | Z0 => 1
  | Zpos p => inject_Z (2 ^ Zpos p)
  | Zneg p => 1 # (2 ^ p)%positive
  end.

Definition f2q (x : f64) : Q :=
  match x with
  | B754_finite s m e _ => inject_Z (if s then Zneg m else Zpos m) * pow2Q e
  | _ => 0
  end.

Definition ftime := (f64 * f64)%type.
(** Value of a Time; [None] when not finite. *)
Definition tvalue (t : ftime) : option Q :=
  if ffinite (fst t) && ffinite (snd t) then Some (f2q (fst t) + f2q (snd t)) else None.

(** ** Units and states. *)
Record unit := {
  u_id : list nat;
  u_pos : list f64;
  u_vel : option (list f64);
  u_ts : option ftime;
  u_charge : list Z          (* bit patterns of the charges, in a fixed order *)
}.

Definition gstate := list unit.

Fixpoint id_eqb (a b : list nat) : bool :=
  match a, b with
  | [], [] => true
  | x :: a', y :: b' => Nat.eqb x y && id_eqb a' b'
  | _, _ => false
  end.

Fixpoint lookup (st : gstate) (i : list nat) : option unit :=
  match st with
  | [] => None
  | u :: r => if id_eqb (u_id u) i then Some u else lookup r i
  end.

(** [insert_into_global_state]: the units of the out-state replace the units with the same identifier. *)
Definition override (out : list unit) (u : unit) : unit :=
  match lookup out (u_id u) with Some u' => u' | None => u end.
Definition commit (st : gstate) (out : list unit) : gstate := map (override out) st.

(** ** Trajectories (exact). *)
Definition all_finite (l : list f64) : bool := forallb ffinite l.

(** position component [d] of unit [u] advanced to time [T]; [None] if something is not finite *)
Definition pos_at (u : unit) (T : Q) (d : nat) : option Q :=
  let p := nth d (u_pos u) fnan in
  if negb (ffinite p) then None else
  match u_vel u, u_ts u with
  | None, _ => Some (f2q p)
  | Some v, Some ts =>
      let vd := nth d v fnan in
      match tvalue ts with
      | Some t0 => if ffinite vd then Some (f2q p + f2q vd * (T - t0)) else None
      | None => None
      end
  | Some _, None => None
  end.

(** distance on the circle of circumference [L] between two rationals: we only need to DECIDE
    [dist <= tol], i.e. existence of an integer k with |a - b - k L| <= tol; the nearest k suffices. *)
Definition nearest_k (x L : Q) : Z := Qfloor (x / L + (1 # 2)).
Definition circ_le (a b L tol : Q) : bool :=
  let x := a - b in
  let k := nearest_k x L in
  Qle_bool (Qabs (x - inject_Z k * L)) tol.

(** Rounding bound of one time-slice [pos + vel * (T - ts) % L] in binary64 (cf. Proofs): relative
    2^-50 of (|v| * max(1,|dt|) + max(|pos + v dt|, L)). *)
Definition Qmax (a b : Q) : Q := if Qle_bool a b then b else a.
Definition eps50 : Q := 1 # (2 ^ 50)%positive.
Definition slice_tol (u : unit) (T : Q) (d : nat) (L : Q) : Q :=
  match u_vel u, u_ts u with
  | Some v, Some ts =>
      match tvalue ts with
      | Some t0 =>
          let vd := f2q (nth d v fzero) in
          let dt := T - t0 in
          (Qabs vd * Qmax 1 (Qabs dt) + Qmax (Qabs (f2q (nth d (u_pos u) fzero) + vd * dt)) L) * eps50
      | None => 0
      end
  | _, _ => 0
  end.

(** ** Event kinds. *)
Inductive ekind := KStart | KEndOfRun | KSampling | KDumping | KEndOfChain | KSwitcher | KCellBoundary
                 | KCellVeto | KInteraction.

(** ** One recorded leg. *)
Record kleg := {
  k_kind : ekind;
  k_cands : list (nat * ftime);     (* candidate events pushed in this leg (handler, time) *)
  k_pick : nat;                     (* handler returned by the scheduler *)
  k_time : ftime;                   (* its candidate time = the commit time *)
  k_out : list unit;                (* out-state committed (all units of the branches, flattened) *)
  k_trash : list nat;               (* handlers trashed after the commit *)
  k_after : list unit               (* units of the REAL global state that differ after the commit (tracer) *)
}.

Record kstate := {
  s_units : gstate;
  s_now : Q;
  s_pending : list (nat * Q);       (* live candidate events with a finite time *)
  s_started : bool;                 (* start-of-run event committed *)
  s_speed2 : option Q               (* squared speed of the chain fixed at the start-of-run event *)
}.

(** scheduler bookkeeping *)
Definition drop_handler (h : nat) (p : list (nat * Q)) : list (nat * Q) :=
  filter (fun e => negb (Nat.eqb (fst e) h)) p.

Fixpoint push_all (p : list (nat * Q)) (cs : list (nat * ftime)) : list (nat * Q) :=
  match cs with
  | [] => p
  | (h, t) :: r =>
      match tvalue t with
      | Some q => push_all ((h, q) :: drop_handler h p) r
      | None => push_all (drop_handler h p) r      (* infinite candidate: never returned before a finite one *)
      end
  end.

Definition trash_all_k (p : list (nat * Q)) (hs : list nat) : list (nat * Q) :=
  fold_left (fun acc h => drop_handler h acc) hs p.

Definition is_min (p : list (nat * Q)) (h : nat) (t : Q) : bool :=
  existsb (fun e => Nat.eqb (fst e) h && Qeq_bool (snd e) t) p
  && forallb (fun e => Qle_bool t (snd e)) p.

(** ** Leaves, chain. *)
Definition is_leaf (st : gstate) (u : unit) : bool :=
  negb (existsb (fun w => Nat.eqb (length (u_id w)) (S (length (u_id u)))
                          && id_eqb (firstn (length (u_id u)) (u_id w)) (u_id u)) st).

Definition moving (u : unit) : bool := match u_vel u with Some _ => true | None => false end.

Definition moving_leaves (st : gstate) : list unit := filter (fun u => is_leaf st u && moving u) st.

Fixpoint vel_eqb (a b : list f64) : bool :=
  match a, b with
  | [], [] => true
  | x :: a', y :: b' => feqb_bits x y && vel_eqb a' b'
  | _, _ => false
  end.

Definition root_of (u : unit) : list nat := firstn 1 (u_id u).

(** the moving leaves are one leaf, or all leaves of one root node; one common velocity *)
Definition chain_ok (st : gstate) : bool :=
  match moving_leaves st with
  | [] => false
  | m :: rest =>
      forallb (fun u => match u_vel u, u_vel m with
                        | Some a, Some b => vel_eqb a b
                        | _, _ => false end) rest
      && (match rest with [] => true | _ => false end
          || (forallb (fun u => id_eqb (root_of u) (root_of m)) rest
              && forallb (fun u => negb (is_leaf st u && id_eqb (root_of u) (root_of m)) || moving u) st))
  end.

Definition speed2 (v : list f64) : Q := fold_right (fun x acc => f2q x * f2q x + acc) 0 v.

Definition chain_speed2 (st : gstate) : option Q :=
  match moving_leaves st with
  | m :: _ => match u_vel m with Some v => Some (speed2 v) | None => None end
  | [] => None
  end.

(** ** The local checks of one leg. *)
Definition ftime_eqb (a b : ftime) : bool := feqb_bits (fst a) (fst b) && feqb_bits (snd a) (snd b).

Fixpoint zs_eqb (a b : list Z) : bool :=
  match a, b with
  | [], [] => true
  | x :: a', y :: b' => Z.eqb x y && zs_eqb a' b'
  | _, _ => false
  end.

Definition in_box (Ls : list Q) (u : unit) : bool :=
  forallb (fun dp => let '(d, p) := dp in
                     ffinite p && Qle_bool 0 (f2q p) && negb (Qle_bool (nth d Ls 0) (f2q p)))
          (combine (seq 0 (length (u_pos u))) (u_pos u)).

(** contract of one out-state unit [u'] against the unit [u] it replaces, at commit time [T] *)
Definition unit_ok (Ls : list Q) (k : ekind) (T : Q) (tT : ftime) (u u' : unit) : bool :=
  zs_eqb (u_charge u) (u_charge u')
  && Nat.eqb (length (u_pos u)) (length (u_pos u')) && Nat.eqb (length (u_pos u')) (length Ls)
  && in_box Ls u'
  && match u_vel u', u_ts u' with        (* moving units are stamped with the commit time *)
     | Some v', Some ts' => ftime_eqb ts' tT && Nat.eqb (length v') (length Ls) && all_finite v'
     | None, None => true
     | _, _ => false
     end
  && (moving u || match k with KCellBoundary => true | _ => vel_eqb (u_pos u) (u_pos u') end)
         (* a unit that was not moving is not displaced *)
  && forallb (fun d =>
       match pos_at u T d, pos_at u' T d with
       | Some a, Some b =>
           let L := nth d Ls 1 in
           circ_le a b L (slice_tol u T d L + slice_tol u' T d L
                          + match k with KCellBoundary => 4 * L * eps50 | _ => 0 end)
       | _, _ => false
       end) (seq 0 (length Ls)).

Definition out_ok (Ls : list Q) (st : gstate) (k : ekind) (T : Q) (tT : ftime) (out : list unit) : bool :=
  forallb (fun u' => match lookup st (u_id u') with
                     | Some u => unit_ok Ls k T tT u u'
                     | None => false
                     end) out.

(** every leaf that moves before the commit is part of the out-state (so that the chain after the
    commit can be read off the out-state: frame argument) *)
Definition covers_moving (st : gstate) (out : list unit) : bool :=
  forallb (fun u => match lookup out (u_id u) with Some _ => true | None => false end) (moving_leaves st).

Definition units_eqb_one (a b : unit) : bool :=
  id_eqb (u_id a) (u_id b) && vel_eqb (u_pos a) (u_pos b)
  && match u_vel a, u_vel b with Some x, Some y => vel_eqb x y | None, None => true | _, _ => false end
  && match u_ts a, u_ts b with Some x, Some y => ftime_eqb x y | None, None => true | _, _ => false end
  && zs_eqb (u_charge a) (u_charge b).

(** the real global state after the commit equals the model's: every unit the tracer saw changing has
    the model's value, and every unit the model changed was seen changing *)
Definition after_ok (st st' : gstate) (after : list unit) : bool :=
  forallb (fun a => match lookup st' (u_id a) with Some m => units_eqb_one a m | None => false end) after
  && forallb (fun m => match lookup st (u_id m) with
                       | Some o => units_eqb_one o m
                                   || match lookup after (u_id m) with Some _ => true | None => false end
                       | None => false end) st'.

Definition speed_ok (s0 : option Q) (n : nat) (st : gstate) : bool :=
  match s0, chain_speed2 st with
  | Some a, Some b => Qle_bool (Qabs (b - a)) (a * inject_Z (Z.of_nat n + 4) * (1 # (2 ^ 48)%positive))
  | None, _ => true
  | Some _, None => false
  end.

Definition leg_ok (Ls : list Q) (n : nat) (s : kstate) (l : kleg) : option kstate :=
  match tvalue (k_time l) with
  | None => None
  | Some T =>
      let pend := push_all (s_pending s) (k_cands l) in
      (* local: every new candidate lies in the future; the pick is a minimum of the pending events *)
      if forallb (fun c => match tvalue (snd c) with Some q => Qle_bool (s_now s) q | None => true end) (k_cands l)
         && is_min pend (k_pick l) T
         && out_ok Ls (s_units s) (k_kind l) T (k_time l) (k_out l)
         && (negb (s_started s) || covers_moving (s_units s) (k_out l))
      then
        let st' := commit (s_units s) (k_out l) in
        let started := s_started s || match k_kind l with KStart => true | _ => false end in
        let sp := match s_speed2 s with Some x => Some x | None => if started then chain_speed2 st' else None end in
        if after_ok (s_units s) st' (k_after l)
           && (negb started || (chain_ok st' && speed_ok sp n st'))
        then Some {| s_units := st'; s_now := T; s_pending := trash_all_k pend (k_trash l);
                     s_started := started; s_speed2 := sp |}
        else None
      else None
  end.

(** states after each commit; [None] if some leg is rejected *)
Fixpoint run_states_k (Ls : list Q) (n : nat) (s : kstate) (ls : list kleg) : option (list kstate) :=
  match ls with
  | [] => Some []
  | l :: rest =>
      match leg_ok Ls n s l with
      | Some s' => match run_states_k Ls (S n) s' rest with Some r => Some (s' :: r) | None => None end
      | None => None
      end
  end.

Definition run_ok (Ls : list Q) (n : nat) (s : kstate) (ls : list kleg) : bool :=
  match run_states_k Ls n s ls with Some _ => true | None => false end.

Record kcase := { kc_L : list f64; kc_init : gstate; kc_legs : list kleg }.

Fixpoint ids_nodup (l : list (list nat)) : bool :=
  match l with
  | [] => true
  | i :: r => negb (existsb (id_eqb i) r) && ids_nodup r
  end.

Definition init_ok (Ls : list Q) (st : gstate) : bool :=
  ids_nodup (map u_id st) &&
  forallb (fun u => in_box Ls u && Nat.eqb (length (u_pos u)) (length Ls) && negb (moving u)
                    && match u_ts u with None => true | _ => false end) st
  && forallb (fun L => Qle_bool (1 # (2 ^ 1000)%positive) L) Ls.

Definition kinit (c : kcase) : kstate :=
  {| s_units := kc_init c; s_now := 0; s_pending := []; s_started := false; s_speed2 := None |}.

Definition check_kcase (c : kcase) : bool :=
  let Ls := map f2q (kc_L c) in
  all_finite (kc_L c) && init_ok Ls (kc_init c)
  && run_ok Ls 0 (kinit c) (kc_legs c).
