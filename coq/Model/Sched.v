(** * Model/Sched.v — models of
      jellyfysh/scheduler/heap_scheduler/heap_scheduler.py  (HeapScheduler),
      jellyfysh/scheduler/list_scheduler.py                 (ListScheduler),
    and the plain reference scheduler [RefSched] (list of live (time, handler) pairs).

    No proofs here.  Generic in the key type; the float instance (times as pairs of binary64 with
    [JF.Model.Time.c_time_lt], which is also [Time.__lt__]) is at the end of the file.

    Handlers are small integers ([N]).  A Python dictionary handler -> counter that is only read
    through [.get(h, 0)] / [.setdefault(h, 0)] is a total function with default 0. *)
From Coq Require Import List Arith Bool NArith ZArith.
Require Import JF.Base.F64 JF.Model.Time JF.Model.Heap.
Import ListNotations.

(** Exceptions that cross the boundary (enum).  [ExEmpty], [ExDecreasing] and [ExNotPresent] are all
    [SchedulerError] in Python (distinguished by their message); [ExFault] does not exist in Python:
    it is the model-level "invalid memory access / fuel exhausted" of Model/Heap.v. *)
Inductive exc := ExEmpty | ExDecreasing | ExNotPresent | ExMemory | ExRuntime | ExFault.

(** What one operation returns. *)
Inductive outcome (K : Type) :=
| ONone                       (* the method returned None *)
| OGot (hd : N) (k : K)       (* get_succeeding_event returned handler [hd]; [k] = time of its event *)
| OExc (e : exc).
Arguments ONone {K}.
Arguments OGot {K}.
Arguments OExc {K}.

(** Operations of a history.  [OpBump hd n] is the white-box operation of the harness
    ("_minimal_valid_counter[hd] = _minimal_valid_counter.get(hd, 0) + n"), i.e. the effect of [n]
    consecutive trashes on the heap scheduler's counter; it is a no-op on the list scheduler. *)
Inductive op (K : Type) :=
| OpPush (t : K) (hd : N)
| OpTrash (hd : N)
| OpGet
| OpPickle
| OpBump (hd : N) (n : N).
Arguments OpPush {K}.
Arguments OpTrash {K}.
Arguments OpGet {K}.
Arguments OpPickle {K}.
Arguments OpBump {K}.

Section SchedModel.
  Variable K : Type.
  Variable ltb : K -> K -> bool.     (* Time.__lt__  =  comparison of heap.c *)
  Variable bot : K.                  (* Time(-inf, -inf) *)
  Variable kinf : K.                 (* jellyfysh.base.time.inf = Time(inf, inf) *)

  Notation entry := (entry K).
  Notation heap := (heap K).

  Definition two32 : N := 4294967296%N.

  (** ** HeapScheduler *)
  Record hsched := mkHS {
    hs_heap : heap;                  (* self._heap *)
    hs_mvc : N -> N;                 (* self._minimal_valid_counter (default 0) *)
    hs_last : K;                     (* self._last_returned_event[0] *)
    hs_alloc : N                     (* self._allocated_memory_bytes *)
  }.

  Definition hs_init : hsched := mkHS empty_heap (fun _ => 0%N) bot 0%N.

  Definition mvc_set (m : N -> N) (hd v : N) : N -> N := fun x => if N.eqb x hd then v else m x.

  (** HeapScheduler.event_valid_callback: returns True if the entry is to be deleted:
      self._minimal_valid_counter[handler] > counter.  (A NULL handler cannot be looked up; the
      cffi callback then returns 0.) *)
  Definition hs_cb (m : N -> N) (e : entry) : bool :=
    match ehd e with
    | Some hd => N.ltb (ectr e) (m hd)
    | None => false
    end.

  (** push_event *)
  Definition hs_push (s : hsched) (t : K) (hd : N) : option (hsched * outcome K) :=
    if ltb t kinf then
      let c := hs_mvc s hd in                       (* .setdefault(event_handler, 0) *)
      ' (h', mvc') <-
        (if N.ltb c two32 then                       (* the uint argument is convertible *)
           h' <- insert K ltb bot (hs_heap s) t hd c ;;
           Some (h', hs_mvc s)
         else                                        (* except OverflowError: *)
           h1 <- delete_events K ltb (hs_heap s) hd ;;
           h2 <- insert K ltb bot h1 t hd 0%N ;;
           Some (h2, mvc_set (hs_mvc s) hd 0%N)) ;;
      let new_size := heap_bytes h' in
      if N.eqb new_size (hs_alloc s) then Some (mkHS h' mvc' (hs_last s) (hs_alloc s), ONone)
      else if N.ltb (hs_alloc s) new_size then Some (mkHS h' mvc' (hs_last s) new_size, ONone)
      else Some (mkHS h' mvc' (hs_last s) (hs_alloc s), OExc ExMemory)
    else Some (s, ONone).

  (** trash_event *)
  Definition hs_trash (s : hsched) (hd : N) : hsched :=
    mkHS (hs_heap s) (mvc_set (hs_mvc s) hd (hs_mvc s hd + 1)%N) (hs_last s) (hs_alloc s).

  Definition hs_bump (s : hsched) (hd n : N) : hsched :=
    mkHS (hs_heap s) (mvc_set (hs_mvc s) hd (hs_mvc s hd + n)%N) (hs_last s) (hs_alloc s).

  (** get_succeeding_event (with _event_time_increasing) *)
  Definition hs_get (s : hsched) : option (hsched * outcome K) :=
    ' (h', top) <- root K ltb bot (hs_cb (hs_mvc s)) (hs_heap s) ;;
    match ehd top with
    | None => Some (mkHS h' (hs_mvc s) (hs_last s) (hs_alloc s), OExc ExEmpty)
    | Some hd =>
        if ltb (ekey top) (hs_last s)
        then Some (mkHS h' (hs_mvc s) (hs_last s) (hs_alloc s), OExc ExDecreasing)
        else Some (mkHS h' (hs_mvc s) (ekey top) (hs_alloc s), OGot hd (ekey top))
    end.

  (** __getstate__: read the entries through lib.entry until the NULL handler shows up. *)
  Fixpoint getstate_loop (fuel : nat) (h : heap) (index : nat) : option (list entry) :=
    match fuel with
    | O => None
    | S f =>
        e <- entry_at bot h index ;;
        match ehd e with
        | None => Some []
        | Some _ => rest <- getstate_loop f h (S index) ;; Some (e :: rest)
        end
    end.

  Definition hs_getstate (s : hsched) : option (list entry) :=
    getstate_loop (S (hlen (hs_heap s))) (hs_heap s) 0.

  (** __setstate__: fresh heap, re-insert the stored entries in order. *)
  Fixpoint rebuild (h : heap) (l : list entry) : option heap :=
    match l with
    | [] => Some h
    | e :: r =>
        match ehd e with
        | None => None
        | Some hd => h' <- insert K ltb bot h (ekey e) hd (ectr e) ;; rebuild h' r
        end
    end.

  Definition hs_pickle (s : hsched) : option hsched :=
    l <- hs_getstate s ;;
    h' <- rebuild empty_heap l ;;
    Some (mkHS h' (hs_mvc s) (hs_last s) (heap_bytes h')).

  Definition hs_step (s : hsched) (o : op K) : option (hsched * outcome K) :=
    match o with
    | OpPush t hd => hs_push s t hd
    | OpTrash hd => Some (hs_trash s hd, ONone)
    | OpGet => hs_get s
    | OpPickle => s' <- hs_pickle s ;; Some (s', ONone)
    | OpBump hd n => Some (hs_bump s hd n, ONone)
    end.

  (** ** ListScheduler *)
  Record lsched := mkLS { ls_times : list (K * N); ls_last : K }.

  Definition ls_init : lsched := mkLS [] bot.

  (** Python [min(iterable, key=...)]: the first minimal element ([<] replaces). *)
  Fixpoint list_min (best : K * N) (l : list (K * N)) : K * N :=
    match l with
    | [] => best
    | x :: r => if ltb (fst x) (fst best) then list_min x r else list_min best r
    end.

  (** list.remove(handler) with _Element.__eq__ = identity of the handler. *)
  Fixpoint remove_first (hd : N) (l : list (K * N)) : option (list (K * N)) :=
    match l with
    | [] => None
    | x :: r => if N.eqb (snd x) hd then Some r
                else match remove_first hd r with Some r' => Some (x :: r') | None => None end
    end.

  Definition guard (last t : K) : bool := ltb t last.     (* event_time < self._last_returned_event[0] *)

  Definition ls_get (s : lsched) : lsched * outcome K :=
    match ls_times s with
    | [] => (s, OExc ExEmpty)
    | x :: r =>
        let m := list_min x r in
        if guard (ls_last s) (fst m) then (s, OExc ExDecreasing)
        else (mkLS (ls_times s) (fst m), OGot (snd m) (fst m))
    end.

  Definition ls_step (s : lsched) (o : op K) : lsched * outcome K :=
    match o with
    | OpPush t hd => (mkLS (ls_times s ++ [(t, hd)]) (ls_last s), ONone)
    | OpTrash hd =>
        match remove_first hd (ls_times s) with
        | Some l => (mkLS l (ls_last s), ONone)
        | None => (s, OExc ExNotPresent)
        end
    | OpGet => ls_get s
    | OpPickle => (s, ONone)
    | OpBump _ _ => (s, ONone)
    end.

  (** ** RefSched: the plain reference model.  State: the live events, in order of arrival, and the
      time returned last (for the monotonicity guard shared by both real schedulers). *)
  Record rsched := mkRS { rs_live : list (K * N); rs_last : K }.
  Definition rs_init : rsched := mkRS [] bot.

  Definition rs_trash (hd : N) (l : list (K * N)) : list (K * N) :=
    filter (fun x => negb (N.eqb (snd x) hd)) l.

  (** minimal time among the live events *)
  Definition rs_min (l : list (K * N)) : option K :=
    match l with
    | [] => None
    | x :: r => Some (fst (list_min x r))
    end.

  Definition rs_step (s : rsched) (o : op K) : rsched * outcome K :=
    match o with
    | OpPush t hd => (mkRS (rs_live s ++ [(t, hd)]) (rs_last s), ONone)
    | OpTrash hd => (mkRS (rs_trash hd (rs_live s)) (rs_last s), ONone)
    | OpGet =>
        match rs_live s with
        | [] => (s, OExc ExEmpty)
        | x :: r =>
            let m := list_min x r in
            if guard (rs_last s) (fst m) then (s, OExc ExDecreasing)
            else (mkRS (rs_live s) (fst m), OGot (snd m) (fst m))
        end
    | OpPickle => (s, ONone)
    | OpBump hd n => (mkRS (if N.eqb n 0 then rs_live s else rs_trash hd (rs_live s)) (rs_last s), ONone)
    end.

  (** ** Runs: fold over an operation list, collecting the outcomes. *)
  Fixpoint hs_run (s : hsched) (ops : list (op K)) : option (hsched * list (outcome K)) :=
    match ops with
    | [] => Some (s, [])
    | o :: r =>
        ' (s', out) <- hs_step s o ;;
        ' (s'', outs) <- hs_run s' r ;;
        Some (s'', out :: outs)
    end.

  Fixpoint ls_run (s : lsched) (ops : list (op K)) : lsched * list (outcome K) :=
    match ops with
    | [] => (s, [])
    | o :: r =>
        let '(s', out) := ls_step s o in
        let '(s'', outs) := ls_run s' r in
        (s'', out :: outs)
    end.

  Fixpoint rs_run (s : rsched) (ops : list (op K)) : rsched * list (outcome K) :=
    match ops with
    | [] => (s, [])
    | o :: r =>
        let '(s', out) := rs_step s o in
        let '(s'', outs) := rs_run s' r in
        (s'', out :: outs)
    end.

End SchedModel.

Arguments mkHS {K}.
Arguments hs_heap {K}.
Arguments hs_mvc {K}.
Arguments hs_last {K}.
Arguments hs_alloc {K}.
Arguments mkLS {K}.
Arguments ls_times {K}.
Arguments ls_last {K}.
Arguments mkRS {K}.
Arguments rs_live {K}.
Arguments rs_last {K}.

(** ** The float instance: keys are (quotient, remainder) pairs of binary64. *)
Definition fkey : Type := (f64 * f64)%type.
Definition fkey_lt (a b : fkey) : bool := c_time_lt (fst a) (snd a) (fst b) (snd b).
Definition fkey_bot : fkey := (fninf, fninf).
Definition fkey_inf : fkey := (finf, finf).
