(** * Model/WalkerCases.v — case type and checkers for the C18 correspondence. *)
From Coq Require Import QArith List Bool ZArith.
Require Import JF.Model.Lifting JF.Model.Walker.
Import ListNotations.
Open Scope Q_scope.

Definition witem_eqb (a b : witem) : bool := Nat.eqb (w_id a) (w_id b) && Qeq_bool (w_rate a) (w_rate b).

Definition qabs_le (x y tol : Q) : bool := Qle_bool (x - y) tol && Qle_bool (y - x) tol.

Definition witem_close (tol : Q) (a b : witem) : bool :=
  Nat.eqb (w_id a) (w_id b) && qabs_le (w_rate a) (w_rate b) tol.

Definition wrow_rel (rel : witem -> witem -> bool) (a b : wrow) : bool :=
  match a, b with
  | RPair s l, RPair s' l' => rel s s' && rel l l'
  | RSingle x, RSingle y => rel x y
  | _, _ => false
  end.

Fixpoint table_rel (rel : witem -> witem -> bool) (a b : list wrow) : bool :=
  match a, b with
  | [], [] => true
  | x :: a', y :: b' => wrow_rel rel x y && table_rel rel a' b'
  | _, _ => false
  end.

(** expected outcome of the constructor *)
Inductive wexp :=
| XTable (total mean : Q) (table : list wrow)
| XZeroDivision
| XAssertionError.

Definition sres_eqb (a b : sres) : bool :=
  match a, b with
  | SOk i, SOk j => Nat.eqb i j
  | SIndexError, SIndexError => true
  | _, _ => false
  end.

(** Is some comparison made by the exact-arithmetic run within [tol] of a tie?  (Then a float run
    may legitimately take the other branch and produce another, equally valid, table.)  The very
    last iteration (both stacks empty afterwards) is exempt: there the remaining item has rate
    = mean exactly and both branches append the same single row. *)
Definition near (x m tol : Q) : bool := qabs_le x m tol.

Fixpoint loop_unstable (fuel : nat) (mean tol : Q) (small large : list witem) : bool :=
  match fuel with
  | O => true
  | S f =>
      match small, large with
      | s :: small', l :: large' =>
          let l2 := mkW (w_id l) (Qred (w_rate l - (mean - w_rate s))) in
          let last := match small', large' with [], [] => true | _, _ => false end in
          (negb last && near (w_rate l2) mean tol)
          || (if Qlt_bool (w_rate l2) mean then loop_unstable f mean tol (l2 :: small') large'
              else loop_unstable f mean tol small' (l2 :: large'))
      | _, _ => false
      end
  end.

Definition build_unstable (rates : list Q) (tol : Q) : bool :=
  let mean := mean_rate rates in
  existsb (fun r => near r mean tol) rates
  || (let '(small, large) := partition_items mean (items_from 0 rates) [] [] in
      loop_unstable (S (length rates)) mean tol small large).

Inductive wcase :=
(** constructor on exact inputs: table (order included), total and mean compared exactly *)
| WBuild (rates : list Q) (e : wexp)
(** constructor on generic doubles: rows compared in order, identifiers exactly, rates within [tol];
    passes vacuously when the exact run has a near tie (see [wcase_stable]) *)
| WBuildApprox (rates : list Q) (tol : Q) (total mean : Q) (table : list wrow)
(** sample_cell on a given table *)
| WSample (table : list wrow) (mean : Q) (row : nat) (u : Q) (e : sres)
(** many draws (row, u, expected) on one table *)
| WSamples (table : list wrow) (mean : Q) (draws : list (nat * Q * sres)).

Definition check_wcase (c : wcase) : bool :=
  match c with
  | WBuild rates e =>
      match build rates, e with
      | WOk t, XTable total mean t' =>
          Qeq_bool (total_rate rates) total && Qeq_bool (mean_rate rates) mean && table_rel witem_eqb t t'
      | WZeroDivision, XZeroDivision => true
      | WAssertionError, XAssertionError => true
      | _, _ => false
      end
  | WBuildApprox rates tol total mean t' =>
      build_unstable rates tol
      || match build rates with
         | WOk t => qabs_le (total_rate rates) total tol && qabs_le (mean_rate rates) mean tol
                    && table_rel (witem_close tol) t t'
         | _ => false
         end
  | WSample t mean row u e => sres_eqb (sample t mean row u) e
  | WSamples t mean draws =>
      forallb (fun d => let '(row, u, e) := d in sres_eqb (sample t mean row u) e) draws
  end.

(** [false] = the case was decided vacuously (near tie); counted by the harness *)
Definition wcase_stable (c : wcase) : bool :=
  match c with
  | WBuildApprox rates tol _ _ _ => negb (build_unstable rates tol)
  | _ => true
  end.
