(** * Model/CellBoundaryCases.v — handler-level correspondence for the cell-boundary event handler: the candidate event
    time of the real [send_event_time], the chosen boundary value and direction, and every unit of the real out-state are
    compared bit for bit with [JF.Model.CellBoundary]; where the real handler raises the model must return [None]. *)
From Coq Require Import ZArith List Bool Arith.
Require Import JF.Base.F64 JF.Model.Time JF.Model.Lifting JF.Model.Handlers JF.Model.SliceCases JF.Model.EndOfChain
        JF.Model.EndOfChainCases JF.Model.CellBoundary.
Import ListNotations.

Record cbcase := mkCB {
  cc_Ls : list Z;
  cc_st : list ebunit;             (* the in-state, flat pre-order *)
  cc_rel : nat;                    (* index of the relevant unit (the unit on the cell level) *)
  cc_bmins : list Z;               (* per direction: cell_min of the neighbour cell in positive direction *)
  cc_bmaxs : list Z;               (* per direction: cell_max of the neighbour cell in negative direction *)
  cc_T : option (Z * Z);           (* real event time; None: send_event_time raised *)
  cc_bound : Z; cc_dir : nat;      (* the handler's stored boundary and direction *)
  cc_out : option (list ebunit)
}.

Definition check_cbcase (c : cbcase) : bool :=
  let st := map to_hunit (cc_st c) in
  let Ls := map of_bits (cc_Ls c) in
  match cb_event st (cc_rel c) Ls (map of_bits (cc_bmins c)) (map of_bits (cc_bmaxs c)), cc_T c with
  | None, None => true
  | Some (T, cand), Some Tb =>
      time_bits_eqb T (bt Tb) && feqb_bits (cb_bound cand) (of_bits (cc_bound c)) && Nat.eqb (cb_dir cand) (cc_dir c)
      && match cb_out_state Ls T cand st (cc_rel c), cc_out c with
         | Some o, Some ro => hl_eqb o (map to_hunit ro)
         | None, None => true
         | _, _ => false
         end
  | _, _ => false
  end.
