(** * Model/MultiMediator.v — C20: multi-process mediator vs single-process mediator.

    Mirrors jellyfysh/mediator/multi_process_mediator/multi_process_mediator.py (MultiProcessMediator.run,
    run_in_process) and jellyfysh/mediator/single_process_mediator.py (SingleProcessMediator.run).

    Level A (mediator level).  The global state is abstracted to the list of commits made so far
    ([hist], newest first): in-states, activator answers and out-state arguments are functions of it.
    Oracles (Section variables): [to_run] (activator.get_event_handlers_to_run, in dictionary order),
    [ev_time h hist] (the worker's send_event_time on the in-state extracted at [hist]),
    [out_state h hist_et hist_arg] (send_out_state of the worker that stored the in-state of [hist_et];
    [hist_arg] is the history at which the mediator built the out-state arguments and is only looked at
    for handlers with out-state arguments), [trash_of] (activator.get_trashable_events), [has_args]
    (number_send_out_state_arguments <> 0), [ncores].
    Nondeterminism = arrival schedule: per leg a list of batches (the lists returned by
    connection.wait); a choice that names a pipe without an outstanding request is skipped and counted
    (Level B proves such a pipe holds no message, so connection.wait cannot return it); when the list is
    exhausted the remaining event times are received in pipe order.

    Level B (one pipe): mediator-side stage + start/continue events + worker program counter + pipe
    contents, with the mediator's guarded actions and the worker's steps (run_in_process).

    No proofs in this file. *)
From Coq Require Import List ZArith Bool Arith.
Import ListNotations.

Definition H := nat.

(** EventHandlerState *)
Inductive stage := Idle | ETS | Susp | OSS.   (* idle, event_time_started, suspended, out_state_started *)

Definition is_idle (s : stage) := match s with Idle => true | _ => false end.
Definition is_ets (s : stage) := match s with ETS => true | _ => false end.
Definition is_susp (s : stage) := match s with Susp => true | _ => false end.
Definition is_oss (s : stage) := match s with OSS => true | _ => false end.

Definition upd {A : Type} (f : H -> A) (h : H) (v : A) : H -> A :=
  fun x => if Nat.eqb x h then v else f x.

(** ** Scheduler: pending events in push order; smallest time, earliest pushed wins ties
    (ListScheduler's [min]; the heap's tie rule is unspecified — see tie_sensitivity). *)
Fixpoint sched_min (p : list (H * Z)) : option (H * Z) :=
  match p with
  | [] => None
  | (h, t) :: r =>
      match sched_min r with
      | None => Some (h, t)
      | Some (h', t') => if (t <=? t')%Z then Some (h, t) else Some (h', t')
      end
  end.

Definition sched_trash (h : H) (p : list (H * Z)) : list (H * Z) :=
  filter (fun e => negb (Nat.eqb (fst e) h)) p.

Definition memb (h : H) (l : list H) : bool := existsb (Nat.eqb h) l.

Section Model.
  Variable OS : Type.

  Record commit := mkCommit { c_h : H; c_t : Z; c_os : OS }.
  Definition hist := list commit.

  Variable ncores : nat.
  Variable has_args : H -> bool.
  Variable to_run : hist -> list H.
  Variable ev_time : H -> hist -> Z.
  Variable out_state : H -> hist -> hist -> OS.
  Variable trash_of : hist -> list H.

  Definition out_of (h : H) (he hnow : hist) : OS :=
    out_state h he (if has_args h then hnow else he).

  (** Observable mediator-side events (what the tracer records on the real mediators). *)
  Inductive ev :=
  | EStage (h : H) (s : stage)     (* _event_handlers_state[pipe] = s *)
  | EPush (h : H) (t : Z)          (* scheduler.push_event *)
  | EPick (h : H)                  (* scheduler.get_succeeding_event *)
  | EOsSet (h : H) (o : OS)        (* _out_states[h] = o *)
  | EOsDel (h : H)                 (* del _out_states[h] *)
  | ECommit (h : H) (t : Z) (o : OS)   (* state_handler.insert_into_global_state *)
  | ETrash (h : H)                 (* scheduler.trash_event *)
  | EEt (h : H).                   (* single process: send_event_time called *)

  Inductive err :=
  | ErrNotReady (h : H)        (* MediatorError "Event Process not ready!" *)
  | ErrEmptyScheduler          (* SchedulerError *)
  | ErrNoOutState (h : H)      (* KeyError on _out_states *)
  | ErrAssertIdle (h : H).     (* assert ... == EventHandlerState.idle *)

  (** ** Single-process reference *)
  Record sstate := mkS { s_hist : hist; s_pend : list (H * Z); s_het : H -> hist; s_log : list ev }.

  Definition s_init : sstate := mkS [] [] (fun _ => []) [].

  Definition s_request (hist0 : hist) (s : sstate) (h : H) : sstate :=
    let t := ev_time h hist0 in
    mkS (s_hist s) (s_pend s ++ [(h, t)]) (upd (s_het s) h hist0) (EPush h t :: EEt h :: s_log s).

  Definition s_trash_one (s : sstate) (e : H) : sstate :=
    mkS (s_hist s) (sched_trash e (s_pend s)) (s_het s) (ETrash e :: s_log s).

  Definition sp_leg (s : sstate) : sstate + err :=
    let hist0 := s_hist s in
    let s1 := fold_left (s_request hist0) (to_run hist0) s in
    match sched_min (s_pend s1) with
    | None => inr ErrEmptyScheduler
    | Some (h, t) =>
        let os := out_of h (s_het s1 h) hist0 in
        let hist1 := mkCommit h t os :: hist0 in
        let s2 := mkS hist1 (s_pend s1) (s_het s1) (ECommit h t os :: EPick h :: s_log s1) in
        inl (fold_left s_trash_one (trash_of hist1) s2)
    end.

  Fixpoint sp_run (n : nat) (s : sstate) : sstate + err :=
    match n with
    | 0 => inl s
    | S n' => match sp_leg s with inl s' => sp_run n' s' | inr e => inr e end
    end.

  (** Well-formedness of one reference leg (hypotheses of commit_equivalence, decidable):
      the activator names each handler once and only handlers without a pending event (TagActivator pops
      them from its not-running lists), the minimum of the scheduler is strict, and the committing
      handler is among its own trashable events (TagActivator asserts this). *)
  Fixpoint nodupb (l : list H) : bool :=
    match l with [] => true | x :: r => negb (memb x r) && nodupb r end.

  Definition sp_leg_wf (s : sstate) : bool :=
    let hist0 := s_hist s in
    let run := to_run hist0 in
    let s1 := fold_left (s_request hist0) run s in
    nodupb run && forallb (fun h => negb (memb h (map fst (s_pend s)))) run &&
    match sched_min (s_pend s1) with
    | None => false
    | Some (h, t) =>
        forallb (fun e => (Nat.eqb (fst e) h && Z.eqb (snd e) t) || (t <? snd e)%Z) (s_pend s1) &&
        memb h (trash_of (mkCommit h t (out_of h (s_het s1 h) hist0) :: hist0))
    end.

  Fixpoint sp_run_wf (n : nat) (s : sstate) : bool :=
    match n with
    | 0 => true
    | S n' => sp_leg_wf s && match sp_leg s with inl s' => sp_run_wf n' s' | inr _ => false end
    end.

  (** ** Multi-process mediator *)
  Record mstate := mkM {
    m_hist : hist;
    m_pend : list (H * Z);
    m_stg : H -> stage;              (* _event_handlers_state *)
    m_het : H -> hist;               (* in-state stored in the worker = history at its last request *)
    m_ost : H -> option OS;          (* _out_states *)
    m_log : list ev;
    m_skip : nat                     (* schedule choices that named a pipe without outstanding request *)
  }.

  Definition m_init : mstate := mkM [] [] (fun _ => Idle) (fun _ => []) (fun _ => None) [] 0.

  Definition set_stg (m : mstate) (h : H) (v : stage) : mstate :=
    mkM (m_hist m) (m_pend m) (upd (m_stg m) h v) (m_het m) (m_ost m) (EStage h v :: m_log m) (m_skip m).
  Definition set_ost (m : mstate) (h : H) (o : OS) : mstate :=
    mkM (m_hist m) (m_pend m) (m_stg m) (m_het m) (upd (m_ost m) h (Some o)) (EOsSet h o :: m_log m) (m_skip m).
  Definition del_ost (m : mstate) (h : H) : mstate :=
    mkM (m_hist m) (m_pend m) (m_stg m) (m_het m) (upd (m_ost m) h None) (EOsDel h :: m_log m) (m_skip m).
  Definition push (m : mstate) (h : H) (t : Z) : mstate :=
    mkM (m_hist m) (m_pend m ++ [(h, t)]) (m_stg m) (m_het m) (m_ost m) (EPush h t :: m_log m) (m_skip m).
  Definition skip (m : mstate) : mstate :=
    mkM (m_hist m) (m_pend m) (m_stg m) (m_het m) (m_ost m) (m_log m) (S (m_skip m)).

  (** "Send in-states": start event set, stage idle -> event_time_started; the worker stores the in-state. *)
  Definition m_start (hist0 : hist) (acc : mstate + err) (h : H) : mstate + err :=
    match acc with
    | inr e => inr e
    | inl m =>
        if is_idle (m_stg m h)
        then inl (mkM (m_hist m) (m_pend m) (upd (m_stg m) h ETS) (upd (m_het m) h hist0) (m_ost m)
                      (EStage h ETS :: m_log m) (m_skip m))
        else inr (ErrNotReady h)
    end.

  (** State of the receive loop: mediator state, deque pipes_time_received, event_times_received. *)
  Record lstate := mkL { l_m : mstate; l_dq : list H; l_rec : nat }.

  (** popleft + continue event: the next pre-computable out-state is started. *)
  Definition start_ahead (l : lstate) : lstate :=
    match l_dq l with
    | [] => l
    | q :: dq' => mkL (set_stg (l_m l) q OSS) dq' (l_rec l)
    end.

  (** One pipe returned by connection.wait(pipes). *)
  Definition process_one (hist0 : hist) (pipes : list H) (n : nat) (l : lstate) (p : H) : lstate :=
    if negb (memb p pipes) then mkL (skip (l_m l)) (l_dq l) (l_rec l) else
    match m_stg (l_m l) p with
    | ETS =>
        let m1 := set_stg (l_m l) p Susp in
        let dq1 := if has_args p then l_dq l else l_dq l ++ [p] in
        let r1 := S (l_rec l) in
        let l1 := mkL m1 dq1 r1 in
        let l2 := if (0 <? n - r1) && (n - r1 <? ncores - 1) then start_ahead l1 else l1 in
        mkL (push (l_m l2) p (ev_time p hist0)) (l_dq l2) (l_rec l2)
    | OSS =>
        let l1 := mkL (set_stg (l_m l) p Idle) (l_dq l) (l_rec l) in
        let l2 := start_ahead l1 in
        mkL (set_ost (l_m l2) p (out_of p (m_het (l_m l2) p) hist0)) (l_dq l2) (l_rec l2)
    | _ => mkL (skip (l_m l)) (l_dq l) (l_rec l)
    end.

  Definition process_batch (hist0 : hist) (pipes : list H) (n : nat) (b : list H) (l : lstate) : lstate :=
    fold_left (process_one hist0 pipes n) b l.

  Definition ets_pipes (pipes : list H) (m : mstate) : list H :=
    filter (fun p => is_ets (m_stg m p)) pipes.

  (** while event_times_received < len(dict): for pipe in connection.wait(pipes): ... *)
  Fixpoint wait_loop (hist0 : hist) (pipes : list H) (n : nat) (bs : list (list H)) (l : lstate) : lstate :=
    if n <=? l_rec l then l else
    match bs with
    | [] => process_batch hist0 pipes n (ets_pipes pipes (l_m l)) l
    | b :: bs' => wait_loop hist0 pipes n bs' (process_batch hist0 pipes n b l)
    end.

  Definition m_trash_one (m : mstate) (e : H) : mstate :=
    let m1 := mkM (m_hist m) (sched_trash e (m_pend m)) (m_stg m) (m_het m) (m_ost m) (ETrash e :: m_log m)
                  (m_skip m) in
    let m2 := match m_ost m1 e with Some _ => del_ost m1 e | None => m1 end in
    match m_stg m2 e with
    | Susp => set_stg m2 e Idle
    | OSS => set_stg m2 e Idle          (* pipe.recv(): the pre-computed out-state is discarded *)
    | _ => m2
    end.

  (** From get_succeeding_event to the end of the trash loop. *)
  Definition finish_leg (m : mstate) : mstate + err :=
    match sched_min (m_pend m) with
    | None => inr ErrEmptyScheduler
    | Some (h, t) =>
        let m0 := mkM (m_hist m) (m_pend m) (m_stg m) (m_het m) (m_ost m) (EPick h :: m_log m) (m_skip m) in
        let m1 := if is_susp (m_stg m0 h) then set_stg m0 h OSS else m0 in
        let m2 := if is_oss (m_stg m1 h)
                  then set_ost (set_stg m1 h Idle) h (out_of h (m_het m1 h) (m_hist m1))
                  else m1 in
        match m_ost m2 h with
        | None => inr (ErrNoOutState h)
        | Some os =>
            if is_idle (m_stg m2 h) then
              let hist1 := mkCommit h t os :: m_hist m2 in
              let m3 := mkM hist1 (m_pend m2) (m_stg m2) (m_het m2) (m_ost m2) (ECommit h t os :: m_log m2)
                            (m_skip m2) in
              inl (fold_left m_trash_one (trash_of hist1) m3)
            else inr (ErrAssertIdle h)
        end
    end.

  Definition mp_leg (bs : list (list H)) (m : mstate) : mstate + err :=
    let hist0 := m_hist m in
    let pipes := to_run hist0 in
    match fold_left (m_start hist0) pipes (inl m) with
    | inr e => inr e
    | inl m1 =>
        let l := wait_loop hist0 pipes (length pipes) bs (mkL m1 [] 0) in
        finish_leg (l_m l)
    end.

  (** [sched]: one list of batches per leg. *)
  Fixpoint mp_run (n : nat) (sched : list (list (list H))) (m : mstate) : mstate + err :=
    match n with
    | 0 => inl m
    | S n' => match mp_leg (hd [] sched) m with
              | inl m' => mp_run n' (tl sched) m'
              | inr e => inr e
              end
    end.

  Definition commits_of_m (r : mstate + err) : option hist :=
    match r with inl m => Some (m_hist m) | inr _ => None end.
  Definition commits_of_s (r : sstate + err) : option hist :=
    match r with inl s => Some (s_hist s) | inr _ => None end.

  (** Samples: mediate_* methods write the global state right after the trash loop of a commit of a
      handler with an output handler; the global state is a function of the commits so far. *)
  Variable writes_output : H -> bool.
  Fixpoint writes_of (hs : hist) : list (H * hist) :=
    match hs with
    | [] => []
    | c :: r => if writes_output (c_h c) then (c_h c, hs) :: writes_of r else writes_of r
    end.

End Model.

Arguments mkCommit {OS}.
Arguments c_h {OS}. Arguments c_t {OS}. Arguments c_os {OS}.

(** ** Level B: one handler's pipe, events and worker (run_in_process) *)
Inductive wpc := W0 | WT | W1 | WO.   (* first wait, in send_event_time, second wait, in send_out_state *)
Inductive msg := MTime | MOut.

Record chan := mkC {
  k_stage : stage;
  k_start : bool;          (* start event *)
  k_cont : bool;           (* continue (send out state) event *)
  k_pc : wpc;
  k_args : nat;            (* objects in the pipe, mediator -> worker *)
  k_out : list msg;        (* objects in the pipe, worker -> mediator *)
  k_werr : bool;           (* worker reached a raise MediatorError / failed assert *)
  k_merr : bool            (* mediator found a ready pipe in stage idle/suspended *)
}.

Definition chan_init : chan := mkC Idle false false W0 0 [] false false.

Section Channel.
  Variable ne : bool.   (* number_send_event_time_arguments <> 0 *)
  Variable no : bool.   (* number_send_out_state_arguments <> 0 *)

  Definition b2n (b : bool) : nat := if b then 1 else 0.

  Inductive mact := AStart | ARecv | ACont | ABlockRecv | ATrashSusp.

  (** Mediator actions with the guards of the code; [None] = action not enabled. *)
  Definition mstep (a : mact) (c : chan) : option chan :=
    match a with
    | AStart =>
        if is_idle (k_stage c)
        then Some (mkC ETS true (k_cont c) (k_pc c) (k_args c + b2n ne) (k_out c) (k_werr c) (k_merr c))
        else None
    | ARecv =>   (* the pipe was returned by connection.wait: it holds an object *)
        match k_out c with
        | [] => None
        | _ :: rest =>
            match k_stage c with
            | ETS => Some (mkC Susp (k_start c) (k_cont c) (k_pc c) (k_args c) rest (k_werr c) (k_merr c))
            | OSS => Some (mkC Idle (k_start c) (k_cont c) (k_pc c) (k_args c) rest (k_werr c) (k_merr c))
            | _ => Some (mkC (k_stage c) (k_start c) (k_cont c) (k_pc c) (k_args c) (k_out c) (k_werr c) true)
            end
        end
    | ACont =>
        if is_susp (k_stage c)
        then Some (mkC OSS (k_start c) true (k_pc c) (k_args c + b2n no) (k_out c) (k_werr c) (k_merr c))
        else None
    | ABlockRecv =>   (* blocking pipe.recv() in stage out_state_started; completes when an object is there *)
        if is_oss (k_stage c) then
          match k_out c with
          | [] => None
          | _ :: rest => Some (mkC Idle (k_start c) (k_cont c) (k_pc c) (k_args c) rest (k_werr c) (k_merr c))
          end
        else None
    | ATrashSusp =>
        if is_susp (k_stage c)
        then Some (mkC Idle (k_start c) (k_cont c) (k_pc c) (k_args c) (k_out c) (k_werr c) (k_merr c))
        else None
    end.

  (** One worker step; [None] = blocked (waiting on the or-event or on pipe.recv()). *)
  Definition wstep (c : chan) : option chan :=
    let fail := Some (mkC (k_stage c) (k_start c) (k_cont c) (k_pc c) (k_args c) (k_out c) true (k_merr c)) in
    match k_pc c with
    | W0 =>
        if k_start c || k_cont c then
          if k_start c && k_cont c then fail                       (* assert sum(...) == 1 *)
          else if k_start c
               then Some (mkC (k_stage c) false (k_cont c) WT (k_args c) (k_out c) (k_werr c) (k_merr c))
               else fail                                            (* "Continue event is not allowed in idle state!" *)
        else None
    | WT =>
        if ne then
          match k_args c with
          | 0 => None
          | S a => Some (mkC (k_stage c) (k_start c) (k_cont c) W1 a (k_out c ++ [MTime]) (k_werr c) (k_merr c))
          end
        else Some (mkC (k_stage c) (k_start c) (k_cont c) W1 (k_args c) (k_out c ++ [MTime]) (k_werr c) (k_merr c))
    | W1 =>
        if k_start c || k_cont c then
          if k_start c && k_cont c then fail
          else if k_start c
               then Some (mkC (k_stage c) (k_start c) (k_cont c) W0 (k_args c) (k_out c) (k_werr c) (k_merr c))
               else Some (mkC (k_stage c) (k_start c) false WO (k_args c) (k_out c) (k_werr c) (k_merr c))
        else None
    | WO =>
        if no then
          match k_args c with
          | 0 => None
          | S a => Some (mkC (k_stage c) (k_start c) (k_cont c) W0 a (k_out c ++ [MOut]) (k_werr c) (k_merr c))
          end
        else Some (mkC (k_stage c) (k_start c) (k_cont c) W0 (k_args c) (k_out c ++ [MOut]) (k_werr c) (k_merr c))
    end.

  Inductive act := AM (a : mact) | AW.

  Definition cstep (a : act) (c : chan) : option chan :=
    match a with AM m => mstep m c | AW => wstep c end.

  (** Run a list of actions; actions that are not enabled are dropped (they cannot happen). *)
  Fixpoint crun (l : list act) (c : chan) : chan :=
    match l with
    | [] => c
    | a :: r => crun r (match cstep a c with Some c' => c' | None => c end)
    end.

  Fixpoint wsteps (k : nat) (c : chan) : chan :=
    match k with
    | 0 => c
    | S k' => match wstep c with Some c' => wsteps k' c' | None => c end
    end.
End Channel.
