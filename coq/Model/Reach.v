(** * Model/Reach.v — breadth-first closure of a finite successor relation, with fuel.

    [closureG eqb succ fuel seen frontier]: [seen] are the states found so far, [frontier] those of
    them whose successors have not been added yet.  [None] = out of fuel with work left.  Used for the
    activation vectors of a tagger wiring (Model/Wiring.v). *)
From Coq Require Import List Bool.
Import ListNotations.

Section Closure.
  Variable S : Type.
  Variable eqb : S -> S -> bool.
  Variable succ : S -> list S.

  Definition memG (a : S) (l : list S) : bool := existsb (eqb a) l.

  Definition add_new (seen : list S) (next : list S) : list S :=
    fold_left (fun acc b => if memG b (seen ++ acc) then acc else acc ++ [b]) next [].

  Fixpoint closureG (fuel : nat) (seen frontier : list S) : option (list S) :=
    match fuel with
    | O => match frontier with [] => Some seen | _ => None end
    | Datatypes.S f =>
        match frontier with
        | [] => Some seen
        | a :: rest =>
            let new := add_new seen (succ a) in
            closureG f (seen ++ new) (rest ++ new)
        end
    end.
End Closure.
Arguments memG {S}.
Arguments add_new {S}.
Arguments closureG {S}.
