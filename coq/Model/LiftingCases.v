(** * Model/LiftingCases.v — case type and checker for the C05 correspondence. *)
From Coq Require Import QArith List Bool ZArith.
Require Import JF.Model.Lifting.
Import ListNotations.
Open Scope Q_scope.

Definition lres_eqb (a b : lres) : bool :=
  match a, b with
  | LOk i x, LOk j y => Nat.eqb i j && Z.eqb x y
  | LAssertionError, LAssertionError => true
  | LNotRecorded, LNotRecorded => true
  | LIndexError, LIndexError => true
  | _, _ => false
  end.

(** only the identifier (and the error class) — used for the generic-double stream *)
Definition lres_same_id (a b : lres) : bool :=
  match a, b with
  | LOk _ x, LOk _ y => Z.eqb x y
  | LAssertionError, LAssertionError => true
  | LNotRecorded, LNotRecorded => true
  | LIndexError, LIndexError => true
  | _, _ => false
  end.

Fixpoint qlist_eqb (a b : list Q) : bool :=
  match a, b with
  | [], [] => true
  | x :: a', y :: b' => Qeq_bool x y && qlist_eqb a' b'
  | _, _ => false
  end.

Fixpoint zlist_eqb (a b : list Z) : bool :=
  match a, b with
  | [], [] => true
  | x :: a', y :: b' => Z.eqb x y && zlist_eqb a' b'
  | _, _ => false
  end.

Inductive lcase :=
(** result of reset / inserts / get_active_identifier: exact (index and identifier) *)
| LSel (s : scheme) (t : list entry) (u1 u2 : Q) (expected : lres)
(** the same, identifier only *)
| LSelId (s : scheme) (t : list entry) (u1 u2 : Q) (expected : lres)
(** attributes of the Lifting object after the inserts, compared exactly *)
| LState (t : list entry) (u1 : Q) (neg : list Q) (ids : list Z) (rp sp : Q) (arec : bool)
(** two calls of get_active_identifier without reset *)
| LTwice (s : scheme) (t : list entry) (u1 u2 u2' : Q) (e1 e2 : lres)
(** one table, many (scheme, active index, u1, u2, expected) draws; [idonly]: compare identifiers only *)
| LTable (idonly : bool) (t : utable) (draws : list (scheme * nat * Q * Q * lres)).

Definition check_lcase (c : lcase) : bool :=
  match c with
  | LSel s t u1 u2 e => lres_eqb (l_run s u1 u2 t) e
  | LSelId s t u1 u2 e => lres_same_id (l_run s u1 u2 t) e
  | LState t u1 neg ids rp sp arec =>
      match l_fill u1 (l_reset l_init) t with
      | None => false
      | Some st =>
          qlist_eqb (neg_rates st) neg && zlist_eqb (assoc_ids st) ids && Qeq_bool (rand_pos st) rp
          && Qeq_bool (sum_pos st) sp && Bool.eqb (active_rec st) arec
      end
  | LTwice s t u1 u2 u2' e1 e2 =>
      let '(r1, r2) := l_run_twice s u1 u2 u2' t in lres_eqb r1 e1 && lres_eqb r2 e2
  | LTable idonly t draws =>
      forallb (fun d => let '(s, a, u1, u2, e) := d in
                        (if idonly then lres_same_id else lres_eqb) (l_run s u1 u2 (activate a t)) e) draws
  end.
