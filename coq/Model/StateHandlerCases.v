(** * Model/StateHandlerCases.v — case type and checker for the C13 correspondence.

    A case is a tree (initial positions), an operation list, and what the real
    TreeStateHandler produced after every operation: the branches it returned (identifiers and
    values), the full global state read back with [extract_global_state()] (stored as the list of
    entries that differ from the previous read), and how many attribute slots of all branches handed out so
    far hold an object that IS (Python [id()]) an object of the global state. *)
From Coq Require Import ZArith List Bool Arith PArith Uint63.
Require Import JF.Base.Store JF.Model.StateHandler.
Import ListNotations.

(** A 64-bit pattern given as two 32-bit halves.  Only a fast literal syntax for the generated case
    files (Coq parses primitive-integer literals natively; a 19-digit [Z] literal costs ~2 ms). *)
Definition zb (hi lo : int) : Z := (Uint63.to_Z hi * 4294967296 + Uint63.to_Z lo)%Z.

Fixpoint list_eqb {A} (eqb : A -> A -> bool) (a b : list A) : bool :=
  match a, b with
  | [], [] => true
  | x :: a', y :: b' => eqb x y && list_eqb eqb a' b'
  | _, _ => false
  end.

Definition val_eqb : val -> val -> bool := list_eqb Z.eqb.

Definition opt_eqb {A} (eqb : A -> A -> bool) (a b : option A) : bool :=
  match a, b with
  | Some x, Some y => eqb x y
  | None, None => true
  | _, _ => false
  end.

Definition uv_eqb (a b : uv) : bool :=
  let '(p, v, t) := a in let '(p', v', t') := b in
  val_eqb p p' && opt_eqb val_eqb v v' && opt_eqb val_eqb t t'.

Definition iduv_eqb (a b : ident * uv) : bool := ident_eqb (fst a) (fst b) && uv_eqb (snd a) (snd b).

(** All identifiers of the tree: root 0, its children, root 1, ... *)
Definition all_ids (g : gstate) : list ident :=
  flat_map (fun ip => Root (fst ip) :: map (Leaf (fst ip)) (seq 0 (length (snd (snd ip)))))
           (combine (seq 0 (length (g_phys g))) (g_phys g)).

Definition abs_list (g : gstate) : list (ident * option uv) := map (fun id => (id, abs g id)) (all_ids g).

Definition abs_same (a b : list (ident * option uv)) : bool :=
  list_eqb (fun x y => ident_eqb (fst x) (fst y) && opt_eqb uv_eqb (snd x) (snd y)) a b.

Definition snap_eqb (a : list (ident * option uv)) (b : list (ident * uv)) : bool :=
  abs_same a (map (fun y => (fst y, Some (snd y))) b).

(** Every object reachable from the global state. *)
Definition global_addr_list (g : gstate) : list addr :=
  flat_map (fun n : pnode => fst n :: snd n) (g_phys g)
  ++ flat_map (fun kx : ident * (addr * addr) => [fst (snd kx); snd (snd kx)]) (l_dict (g_lift g)).

Definition alias_count (c : cstate) : nat :=
  let gl := global_addr_list (c_g c) in
  length (filter (fun a => inb a gl) (flat_map branch_addrs (c_held c))).

Definition branch_view (s : store) (b : branch) : list (ident * uv) :=
  map (fun u => (u_id u, uvals s u)) (units b).

Record sexp := mkExp {
  e_ret : list (list (ident * uv));   (* branches returned by this operation *)
  e_glob : list (ident * uv);         (* the entries of the global state read back after the operation that
                                         differ from the previous read ([] = nothing changed) *)
  e_alias : nat
}.

Fixpoint lookup_exp (id : ident) (l : list (ident * uv)) : option uv :=
  match l with
  | [] => None
  | (k, v) :: r => if ident_eqb id k then Some v else lookup_exp id r
  end.

(** [now] = [prev] overridden by exactly the entries [e] (every listed identifier exists). *)
Definition glob_ok (prev now : list (ident * option uv)) (e : list (ident * uv)) : bool :=
  list_eqb (fun x y => ident_eqb (fst x) (fst y) &&
                       opt_eqb uv_eqb (snd y) (match lookup_exp (fst y) e with Some v => Some v | None => snd x end))
           prev now
  && forallb (fun kv : ident * uv => existsb (fun y : ident * option uv => ident_eqb (fst kv) (fst y)) now) e.

Record scase := mkCase {
  sc_levels : nat;
  sc_npr : nat;
  sc_tree : list (val * list val);
  sc_disc : bool;                     (* the generator kept the client discipline *)
  sc_init : list (ident * uv);
  sc_steps : list (op * sexp)
}.

Definition check_step (disc : bool) (c : cstate) (o : op) (e : sexp) : cstate * bool :=
  let c' := step c o in
  let s' := g_store (c_g c') in
  let ret := map (branch_view s') (skipn (length (c_held c)) (c_held c')) in
  let ok :=
    (if disc then op_okb c o else true)
    && list_eqb (list_eqb iduv_eqb) ret (e_ret e)
    && glob_ok (abs_list (c_g c)) (abs_list (c_g c')) (e_glob e)
    && Nat.eqb (alias_count c') (e_alias e) in
  (c', ok).

Fixpoint check_steps (disc : bool) (c : cstate) (steps : list (op * sexp)) : bool :=
  match steps with
  | [] => true
  | (o, e) :: r => let (c', ok) := check_step disc c o e in ok && check_steps disc c' r
  end.

Definition check_scase (sc : scase) : bool :=
  let c0 := mkC (init (sc_levels sc) (sc_npr sc) (sc_tree sc)) [] [] in
  snap_eqb (abs_list (c_g c0)) (sc_init sc) && check_steps (sc_disc sc) c0 (sc_steps sc).
