(** * Model/ThinningCases.v — case type and checker for the C04 correspondence.

    One case = one [send_event_time] / [send_out_state] pair of a real handler under a patched
    [random.uniform]: the value [x] the handler drew, the true rate [r] it compared with (exact
    rationals of the floats), whether the real handler confirmed (velocity moved), and the velocities
    (bit patterns) of the leaf units before and after. *)
From Coq Require Import QArith ZArith List Bool.
Require Import JF.Base.QInterval JF.Model.Thinning.
Import ListNotations.

Fixpoint zlist_eqb (a b : list Z) : bool :=
  match a, b with
  | [], [] => true
  | x :: a', y :: b' => Z.eqb x y && zlist_eqb a' b'
  | _, _ => false
  end.

Definition ovel_eqb (a b : option (list Z)) : bool :=
  match a, b with
  | Some x, Some y => zlist_eqb x y
  | None, None => true
  | _, _ => false
  end.

Fixpoint vels_eqb (a b : list (option (list Z))) : bool :=
  match a, b with
  | [], [] => true
  | x :: a', y :: b' => ovel_eqb x y && vels_eqb a' b'
  | _, _ => false
  end.

Definition somes (l : list (option (list Z))) : list (option (list Z)) :=
  filter (fun o => match o with Some _ => true | None => false end) l.

Record tcase := mkT {
  tc_fam : family;
  tc_x : Q;            (* value returned by random.uniform(0, bounding_event_rate) *)
  tc_r : Q;            (* true derivative (leaf family) / factor derivative (composite family) *)
  tc_conf : bool;      (* the implementation confirmed the event *)
  tc_vin : list (option (list Z));    (* velocities of the leaf units, time-sliced in-state *)
  tc_vout : list (option (list Z))    (* ... out-state *)
}.

Definition check_tcase (c : tcase) : bool :=
  Bool.eqb (confirmb (tc_fam c) (tc_x c) (tc_r c)) (tc_conf c) &&
  (if confirmb (tc_fam c) (tc_x c) (tc_r c) then
     match tc_fam c with
     | FLeaf => vels_eqb (tc_vout c) (rev (tc_vin c))          (* two leaf units: velocity handed over *)
     | FComposite => vels_eqb (somes (tc_vout c)) (somes (tc_vin c)) &&
                     Nat.eqb (length (tc_vout c)) (length (tc_vin c))
     end
   else vels_eqb (tc_vout c) (tc_vin c)).
