(** * Proofs/CellBoundaryProofs.v — facts about Model/CellBoundary.v. *)
From Coq Require Import ZArith List Bool Arith Lia Reals Lra.
From Flocq Require Import Core.Core IEEE754.BinarySingleNaN.
Require Import JF.Base.F64 JF.Base.PyFloat JF.Model.Time JF.Model.Periodic JF.Model.Handlers JF.Model.CellBoundary JF.Proofs.F64Facts.
Import ListNotations.

(** ** the chosen candidate is the earliest one *)
Definition cand_finite (c : option cbcand) : Prop :=
  match c with Some c' => ffinite (cb_t c') = true | None => True end.

Lemma flt_finite_inf : forall x : f64, ffinite x = true -> flt x finf = true.
Proof. intros [s|s| |s m e H] F; try discriminate; destruct s; reflexivity. Qed.

Lemma flt_trans_finite : forall a b c : f64,
  ffinite a = true -> ffinite b = true -> ffinite c = true ->
  flt a b = true -> flt b c = true -> flt a c = true.
Proof.
  intros a b c Fa Fb Fc H1 H2.
  apply (flt_true_iff a b Fa Fb) in H1. apply (flt_true_iff b c Fb Fc) in H2.
  apply (flt_true_iff a c Fa Fc). lra.
Qed.

Lemma flt_false_le : forall a b : f64, ffinite a = true -> ffinite b = true -> flt a b = false -> (B2R b <= B2R a)%R.
Proof.
  intros a b Fa Fb H. destruct (Rle_or_lt (B2R b) (B2R a)) as [L|L]; [exact L|].
  apply (flt_true_iff a b Fa Fb) in L. congruence.
Qed.

Definition inv (seen : list (option cbcand)) (cur : cbcand) : Prop :=
  ((cur = cb_start /\ forall c, In (Some c) seen -> False) \/ ffinite (cb_t cur) = true) /\
  (forall c, In (Some c) seen -> flt (cb_t c) (cb_t cur) = false) /\
  (cur = cb_start \/ In (Some cur) seen).

Lemma better_inv : forall seen cur c, Forall cand_finite seen -> cand_finite c ->
  inv seen cur -> inv (seen ++ [c]) (cb_better cur c).
Proof.
  intros seen cur c Fs Fc (A & B & M). destruct c as [c'|]; cbn [cb_better].
  2:{ split; [|split].
      - destruct A as [[E N]|F]; [left; split; [exact E|]|right; exact F].
        intros x Hx. apply in_app_or in Hx. destruct Hx as [Hx|[Hx|[]]]; [eauto|discriminate].
      - intros x Hx. apply in_app_or in Hx. destruct Hx as [Hx|[Hx|[]]]; [eauto|discriminate].
      - destruct M as [M|M]; [left; exact M|right; apply in_or_app; left; exact M]. }
  cbn in Fc. destruct (flt (cb_t c') (cb_t cur)) eqn:L.
  - split; [right; exact Fc|]. split; [|right; apply in_or_app; right; left; reflexivity].
    intros x Hx. apply in_app_or in Hx. destruct Hx as [Hx|[Hx|[]]].
    + destruct A as [[E N]|F]; [exfalso; eauto|].
      assert (Fx : ffinite (cb_t x) = true).
      { rewrite Forall_forall in Fs. exact (Fs (Some x) Hx). }
      destruct (flt (cb_t x) (cb_t c')) eqn:Lx; [|reflexivity].
      specialize (B x Hx). rewrite (flt_trans_finite _ _ _ Fx Fc F Lx L) in B. discriminate.
    + inversion Hx; subst x.
      destruct (flt (cb_t c') (cb_t c')) eqn:R; [|reflexivity].
      apply (flt_true_iff _ _ Fc Fc) in R. lra.
  - split; [|split].
    + destruct A as [[E N]|F]; [|right; exact F].
      subst cur. cbn [cb_t cb_start] in L. rewrite (flt_finite_inf _ Fc) in L. discriminate.
    + intros x Hx. apply in_app_or in Hx. destruct Hx as [Hx|[Hx|[]]]; [eauto|]. inversion Hx; subst x. exact L.
    + destruct M as [M|M]; [left; exact M|right; apply in_or_app; left; exact M].
Qed.

Lemma fold_inv : forall cs seen cur, Forall cand_finite seen -> Forall cand_finite cs ->
  inv seen cur -> inv (seen ++ cs) (fold_left cb_better cs cur).
Proof.
  induction cs as [|c cs IH]; intros seen cur Fs Fcs I; cbn [fold_left].
  - rewrite app_nil_r. exact I.
  - inversion Fcs as [|? ? Fc Fr]; subst.
    replace (seen ++ c :: cs) with ((seen ++ [c]) ++ cs) by (rewrite <- app_assoc; reflexivity).
    apply IH; [apply Forall_app; split; [exact Fs|constructor; [exact Fc|constructor]]|exact Fr|].
    apply better_inv; assumption.
Qed.

Lemma inv_start : inv [] cb_start.
Proof. split; [left; split; [reflexivity|intros c []]|]. split; [intros c []|left; reflexivity]. Qed.

(** the chosen candidate is one of the candidates and none is strictly earlier *)
Lemma choose_earliest : forall cs best,
  Forall cand_finite cs -> fold_left cb_better cs cb_start = best -> flt (cb_t best) finf = true ->
  In (Some best) cs /\ forall c, In (Some c) cs -> (B2R (cb_t best) <= B2R (cb_t c))%R.
Proof.
  intros cs best Fcs E Lt.
  destruct (fold_inv cs [] cb_start (Forall_nil _) Fcs inv_start) as (A & B & M). cbn [app] in *. rewrite E in *.
  assert (NS : best <> cb_start).
  { intros ->. cbn in Lt. discriminate. }
  destruct M as [M|M]; [contradiction|]. split; [exact M|].
  intros c Hc. destruct A as [[E' _]|F]; [contradiction|].
  assert (Fc : ffinite (cb_t c) = true). { rewrite Forall_forall in Fcs. exact (Fcs (Some c) Hc). }
  apply flt_false_le; [exact Fc|exact F|]. exact (B c Hc).
Qed.

(** ** the out-state: the relevant unit sits on the boundary in the direction of the event, everything else is the
       time-sliced in-state *)
Lemma set_nth_length : forall l k x, length (set_nth l k x) = length l.
Proof. induction l as [|y l IH]; intros [|k] x; cbn; try reflexivity. rewrite IH. reflexivity. Qed.

Lemma set_nth_same : forall l k x d, (k < length l)%nat -> nth k (set_nth l k x) d = x.
Proof. induction l as [|y l IH]; intros [|k] x d H; cbn in *; try lia; [reflexivity|]. apply IH. lia. Qed.

Lemma set_nth_other : forall l k j x d, j <> k -> nth j (set_nth l k x) d = nth j l d.
Proof.
  induction l as [|y l IH]; intros [|k] [|j] x d H; cbn; try reflexivity; try congruence. apply IH. congruence.
Qed.

Lemma nth_map_seq' : forall (A : Type) (f : nat -> A) (d : A) n s k, (k < n)%nat ->
  nth k (map f (seq s n)) d = f (s + k)%nat.
Proof.
  intros A f d. induction n as [|n IH]; intros s k H; [lia|].
  cbn [seq map]. destruct k as [|k]; cbn [nth].
  - f_equal. lia.
  - rewrite IH by lia. f_equal. lia.
Qed.

Lemma out_state_shape : forall Ls T c st r out,
  cb_out_state Ls T c st r = Some out ->
  exists st1, all_some (map (slice_unit_Ls Ls T) st) = Some st1 /\ length out = length st1 /\
    (forall i, (i < length st1)%nat -> i <> r -> getu out i = getu st1 i) /\
    ((r < length st1)%nat ->
       hu_pos (getu out r) = set_nth (hu_pos (getu st1 r)) (cb_dir c) (cb_bound c) /\
       hu_vel (getu out r) = hu_vel (getu st1 r) /\ hu_ts (getu out r) = hu_ts (getu st1 r) /\
       hu_id (getu out r) = hu_id (getu st1 r)).
Proof.
  intros Ls T c st r out H. unfold cb_out_state in H.
  destruct (all_some (map (slice_unit_Ls Ls T) st)) as [st1|] eqn:E; [|discriminate].
  inversion H; subst out; clear H. exists st1. split; [reflexivity|].
  split; [rewrite map_length, seq_length; reflexivity|]. split.
  - intros i Hi Hr. unfold getu at 1. rewrite nth_map_seq' by exact Hi. cbn [plus].
    destruct (Nat.eqb_spec i r); [contradiction|reflexivity].
  - intros Hr.
    match goal with |- context [getu ?m r] =>
      match m with map _ _ =>
        assert (G : getu m r = mkHU (hu_id (getu st1 r)) (set_nth (hu_pos (getu st1 r)) (cb_dir c) (cb_bound c))
                                     (hu_vel (getu st1 r)) (hu_ts (getu st1 r)) (hu_charge (getu st1 r))
                                     (hu_parent (getu st1 r)) (hu_weight (getu st1 r)))
      end end.
    { unfold getu. rewrite nth_map_seq' by exact Hr. cbn [plus]. rewrite Nat.eqb_refl. reflexivity. }
    rewrite G. cbn. repeat split; reflexivity.
Qed.

(** the stored boundary value is one of the two values the cell system supplied for the stored direction *)
Lemma candidate_bound : forall pos vel Ls bmins bmaxs c,
  In (Some c) (cb_candidates pos vel Ls bmins bmaxs) ->
  (cb_dir c < length vel)%nat /\
  (cb_bound c = nth (cb_dir c) bmins fnan \/ cb_bound c = nth (cb_dir c) bmaxs fnan).
Proof.
  intros pos vel Ls bmins bmaxs c H. unfold cb_candidates in H.
  apply in_map_iff in H. destruct H as (d & E & Hd). apply in_seq in Hd.
  unfold cb_candidate in E.
  destruct (fne (nth d vel fnan) fzero); [|discriminate].
  destruct (fgt (nth d vel fnan) fzero); inversion E; subst c; cbn [cb_dir cb_bound]; split; try lia; auto.
Qed.

Lemma chosen_bound : forall pos vel Ls bmins bmaxs c,
  Forall cand_finite (cb_candidates pos vel Ls bmins bmaxs) ->
  cb_choose pos vel Ls bmins bmaxs = Some c ->
  (cb_dir c < length vel)%nat /\
  (cb_bound c = nth (cb_dir c) bmins fnan \/ cb_bound c = nth (cb_dir c) bmaxs fnan) /\
  forall c', In (Some c') (cb_candidates pos vel Ls bmins bmaxs) -> (B2R (cb_t c) <= B2R (cb_t c'))%R.
Proof.
  intros pos vel Ls bmins bmaxs c F H. unfold cb_choose in H.
  destruct (flt (cb_t (fold_left cb_better (cb_candidates pos vel Ls bmins bmaxs) cb_start)) finf) eqn:L; [|discriminate].
  inversion H; subst c; clear H.
  destruct (choose_earliest _ _ F eq_refl L) as [I M].
  destruct (candidate_bound _ _ _ _ _ _ I) as [A B]. split; [exact A|]. split; [exact B|exact M].
Qed.
