(** * Proofs/TimeProofs.v — proofs about Model/Time.v (property C14). *)
From Coq Require Import ZArith Bool List Reals Lia Lra Psatz.
From Flocq Require Import Core.Core IEEE754.BinarySingleNaN.
Require Import JF.Base.F64 JF.Base.PyFloat JF.Model.Time JF.Proofs.F64Facts.
Local Open Scope R_scope.

(** The exact (real) value of a time stamp. *)
Definition value (t : time) : R := B2R (tq t) + B2R (tr t).

(** A normalised time: the quotient is a finite integer-valued float, the remainder a finite float
    in [0, 1). *)
Record normalised (t : time) : Prop := mkNormalised {
  n_qfin : ffinite (tq t) = true;
  n_qint : exists n : Z, B2R (tq t) = IZR n;
  n_rfin : ffinite (tr t) = true;
  n_rrange : 0 <= B2R (tr t) < 1 }.

(** ** 1. Comparisons are exact. *)

Lemma int_trichotomy : forall a b : time, normalised a -> normalised b ->
  B2R (tq a) + 1 <= B2R (tq b) \/ B2R (tq a) = B2R (tq b) \/ B2R (tq b) + 1 <= B2R (tq a).
Proof.
  intros a b [_ [na Ha] _ _] [_ [nb Hb] _ _]. rewrite Ha, Hb.
  destruct (Z.lt_trichotomy na nb) as [H|[H|H]].
  - left. rewrite <- (plus_IZR na 1). apply IZR_le. lia.
  - right; left. f_equal. exact H.
  - right; right. rewrite <- (plus_IZR nb 1). apply IZR_le. lia.
Qed.

Ltac cmp_cases :=
  repeat match goal with
  | |- context [Rlt_bool ?x ?y] => destruct (Rlt_bool_spec x y)
  | |- context [Req_bool ?x ?y] => destruct (Req_bool_spec x y)
  | |- context [Rle_bool ?x ?y] => destruct (Rle_bool_spec x y)
  end; simpl; try reflexivity; exfalso; lra.

Lemma time_lt_exact : forall a b, normalised a -> normalised b ->
  time_lt a b = Rlt_bool (value a) (value b).
Proof.
  intros a b Na Nb. generalize (int_trichotomy a b Na Nb).
  destruct Na as [Fqa _ Fra Ra], Nb as [Fqb _ Frb Rb]. intros T.
  unfold time_lt, value. rewrite !flt_spec, feq_spec by assumption.
  destruct T as [T|[T|T]]; cmp_cases.
Qed.

Lemma time_eq_exact : forall a b, normalised a -> normalised b ->
  time_eq a b = Req_bool (value a) (value b).
Proof.
  intros a b Na Nb. generalize (int_trichotomy a b Na Nb).
  destruct Na as [Fqa _ Fra Ra], Nb as [Fqb _ Frb Rb]. intros T.
  unfold time_eq, value. rewrite !feq_spec by assumption.
  destruct T as [T|[T|T]]; cmp_cases.
Qed.

Lemma time_ne_exact : forall a b, normalised a -> normalised b ->
  time_ne a b = negb (Req_bool (value a) (value b)).
Proof. intros. unfold time_ne. rewrite time_eq_exact by assumption. reflexivity. Qed.

Lemma time_gt_exact : forall a b, normalised a -> normalised b ->
  time_gt a b = Rlt_bool (value b) (value a).
Proof.
  intros a b Na Nb. unfold time_gt. rewrite time_ne_exact, time_lt_exact by assumption.
  cmp_cases.
Qed.

Lemma time_le_exact : forall a b, normalised a -> normalised b ->
  time_le a b = Rle_bool (value a) (value b).
Proof.
  intros a b Na Nb. unfold time_le. rewrite time_eq_exact, time_lt_exact by assumption.
  cmp_cases.
Qed.

Lemma time_ge_exact : forall a b, normalised a -> normalised b ->
  time_ge a b = Rle_bool (value b) (value a).
Proof.
  intros a b Na Nb. unfold time_ge. rewrite time_lt_exact by assumption.
  cmp_cases.
Qed.

(** All six at once. *)
Lemma cmp_exact : forall a b, normalised a -> normalised b ->
  time_eq a b = Req_bool (value a) (value b) /\
  time_ne a b = negb (Req_bool (value a) (value b)) /\
  time_lt a b = Rlt_bool (value a) (value b) /\
  time_gt a b = Rlt_bool (value b) (value a) /\
  time_le a b = Rle_bool (value a) (value b) /\
  time_ge a b = Rle_bool (value b) (value a).
Proof.
  intros a b Na Nb.
  repeat split; [apply time_eq_exact|apply time_ne_exact|apply time_lt_exact|apply time_gt_exact
                |apply time_le_exact|apply time_ge_exact]; assumption.
Qed.

(** The C heap's comparison is the same function. *)
Lemma c_time_lt_is_time_lt : forall q1 r1 q2 r2,
  c_time_lt q1 r1 q2 r2 = time_lt (mkTime q1 r1) (mkTime q2 r2).
Proof. reflexivity. Qed.

Lemma c_time_lt_exact : forall q1 r1 q2 r2,
  normalised (mkTime q1 r1) -> normalised (mkTime q2 r2) ->
  c_time_lt q1 r1 q2 r2 = Rlt_bool (B2R q1 + B2R r1) (B2R q2 + B2R r2).
Proof. intros. rewrite c_time_lt_is_time_lt. apply (time_lt_exact _ _ H H0). Qed.

(** Order-theoretic corollaries. *)
Lemma cmp_total : forall a b, normalised a -> normalised b ->
  (time_lt a b = true /\ time_eq a b = false /\ time_gt a b = false) \/
  (time_lt a b = false /\ time_eq a b = true /\ time_gt a b = false) \/
  (time_lt a b = false /\ time_eq a b = false /\ time_gt a b = true).
Proof.
  intros a b Na Nb.
  rewrite time_lt_exact, time_eq_exact, time_gt_exact by assumption.
  destruct (Rtotal_order (value a) (value b)) as [H|[H|H]].
  - left. rewrite Rlt_bool_true, Req_bool_false, Rlt_bool_false by lra. auto.
  - right; left. rewrite Rlt_bool_false, Req_bool_true, Rlt_bool_false by lra. auto.
  - right; right. rewrite Rlt_bool_false, Req_bool_false, Rlt_bool_true by lra. auto.
Qed.

Lemma Rlt_bool_true_inv : forall x y, Rlt_bool x y = true -> x < y.
Proof. intros x y H. destruct (Rlt_bool_spec x y); [assumption|discriminate]. Qed.
Lemma Rle_bool_true_inv : forall x y, Rle_bool x y = true -> x <= y.
Proof. intros x y H. destruct (Rle_bool_spec x y); [assumption|discriminate]. Qed.

Lemma time_lt_trans : forall a b c, normalised a -> normalised b -> normalised c ->
  time_lt a b = true -> time_lt b c = true -> time_lt a c = true.
Proof.
  intros a b c Na Nb Nc. rewrite !time_lt_exact by assumption. intros H1 H2.
  apply Rlt_bool_true_inv in H1, H2. apply Rlt_bool_true. lra.
Qed.

Lemma time_le_trans : forall a b c, normalised a -> normalised b -> normalised c ->
  time_le a b = true -> time_le b c = true -> time_le a c = true.
Proof.
  intros a b c Na Nb Nc. rewrite !time_le_exact by assumption. intros H1 H2.
  apply Rle_bool_true_inv in H1, H2. apply Rle_bool_true. lra.
Qed.

Lemma time_le_antisym : forall a b, normalised a -> normalised b ->
  time_le a b = true -> time_le b a = true -> time_eq a b = true.
Proof.
  intros a b Na Nb. rewrite !time_le_exact, time_eq_exact by assumption. intros H1 H2.
  apply Rle_bool_true_inv in H1, H2. apply Req_bool_true. lra.
Qed.

Lemma time_lt_irrefl : forall a, normalised a -> time_lt a a = false.
Proof. intros a Na. rewrite time_lt_exact by assumption. apply Rlt_bool_false. lra. Qed.

(** Infinity is larger than every finite (normalised) time and equal only to itself. *)
Lemma flt_finite_inf : forall x : f64, ffinite x = true -> flt x finf = true /\ flt finf x = false /\ feq x finf = false /\ feq finf x = false.
Proof. intros [s|s| |s m e H] F; try discriminate; destruct s; repeat split; reflexivity. Qed.

Lemma inf_greatest : forall t, normalised t ->
  time_lt t time_inf = true /\ time_le t time_inf = true /\
  time_gt time_inf t = true /\ time_ge time_inf t = true /\
  time_eq t time_inf = false /\ time_ne t time_inf = true /\
  time_gt t time_inf = false /\ time_ge t time_inf = false /\
  time_lt time_inf t = false /\ time_le time_inf t = false /\
  time_eq time_inf t = false.
Proof.
  intros t [Fq _ Fr _].
  destruct (flt_finite_inf _ Fq) as (A & B & C & D).
  unfold time_lt, time_le, time_gt, time_ge, time_ne, time_eq, time_lt, time_inf; simpl.
  rewrite A, B, C, D. simpl. repeat split; reflexivity.
Qed.

Lemma inf_self : time_eq time_inf time_inf = true /\ time_lt time_inf time_inf = false /\
  time_le time_inf time_inf = true /\ time_ge time_inf time_inf = true /\
  time_gt time_inf time_inf = false /\ time_ne time_inf time_inf = false.
Proof. repeat split; reflexivity. Qed.

(** ** 2. Conversion from a non-negative float is exact. *)
Lemma from_float_exact : forall x : f64, ffinite x = true -> 0 <= B2R x ->
  value (from_float x) = B2R x /\ normalised (from_float x).
Proof.
  intros x Fx Px. unfold from_float. rewrite (fisinf_finite x Fx).
  destruct (py_divmod1_nonneg x Fx Px) as (Fq & Fr & Vq & Vr).
  destruct (py_divmod1 x) as [q r]. simpl in *.
  generalize (Zfloor_bounds (B2R x)). intros Hb.
  split.
  - unfold value; simpl. lra.
  - constructor; simpl; try assumption.
    + eexists; exact Vq.
    + lra.
Qed.

(** ** 3. Addition of a non-negative displacement. *)
Lemma add_value : forall (t : time) (d : f64),
  normalised t -> ffinite d = true -> 0 <= B2R d -> 0 <= B2R (tq t) ->
  B2R (tq t) + IZR (Zfloor (RN (B2R (tr t) + B2R d))) <= bpow radix2 53 ->
  value (time_add t d) = B2R (tq t) + RN (B2R (tr t) + B2R d) /\ normalised (time_add t d).
Proof.
  intros t d Nt Fd Pd Pq Hq.
  destruct Nt as [Fq [n Hn] Fr Rr].
  set (s := RN (B2R (tr t) + B2R d)) in *.
  assert (Ps : 0 <= s).
  { unfold s. rewrite <- RN_0. apply RN_le. lra. }
  generalize (Zfloor_bounds s). intros Hb.
  assert (Pf : 0 <= IZR (Zfloor s)).
  { apply IZR_le. apply Zfloor_lub. simpl. exact Ps. }
  assert (B53 : bpow radix2 53 + 1 < bpow radix2 1024).
  { apply Rlt_le_trans with (bpow radix2 54).
    - change (bpow radix2 54) with (bpow radix2 (53 + 1)). rewrite bpow_plus.
      change (bpow radix2 1) with 2. generalize (bpow_ge_0 radix2 53).
      assert (1 < bpow radix2 53) by (change 1 with (bpow radix2 0); apply bpow_lt; lia). lra.
    - apply bpow_le. lia. }
  assert (NO : Rabs (RN (B2R (tr t) + B2R d)) < bpow radix2 1024).
  { fold s. rewrite Rabs_pos_eq by exact Ps. lra. }
  destruct (fadd_spec (tr t) d Fr Fd NO) as [Vs Fs]. fold s in Vs.
  assert (Ps' : 0 <= B2R (fadd (tr t) d)) by (rewrite Vs; exact Ps).
  destruct (py_divmod1_nonneg _ Fs Ps') as (Fa & Fn & Va & Vn).
  rewrite Vs in Va, Vn.
  unfold time_add. rewrite (fisinf_finite d Fd).
  destruct (py_divmod1 (fadd (tr t) d)) as [aq nr]. simpl in Fa, Fn, Va, Vn.
  assert (Fsum : fmt64 (B2R (tq t) + B2R aq)).
  { rewrite Hn, Va, <- plus_IZR. apply fmt_IZR.
    assert (0 <= IZR (n + Zfloor s) <= IZR (2 ^ 53)).
    { rewrite plus_IZR, <- Hn. change (IZR (2 ^ 53)) with (bpow radix2 53). lra. }
    destruct H as [H1 H2]. apply le_IZR in H1, H2. lia. }
  destruct (fadd_spec (tq t) aq Fq Fa) as [Vq' Fq'].
  { rewrite RN_id by exact Fsum. rewrite Va. rewrite Rabs_pos_eq by lra. lra. }
  rewrite RN_id in Vq' by exact Fsum.
  split.
  - unfold value; simpl. rewrite Vq', Va, Vn. ring.
  - constructor; simpl.
    + exact Fq'.
    + exists (n + Zfloor s)%Z. rewrite Vq', Va, Hn, plus_IZR. reflexivity.
    + exact Fn.
    + rewrite Vn. lra.
Qed.

(** The error of an addition is one rounding of the remainder sum, independent of the quotient. *)
Lemma add_error_one_rounding : forall (t : time) (d : f64),
  normalised t -> ffinite d = true -> 0 <= B2R d -> 0 <= B2R (tq t) ->
  B2R (tq t) + IZR (Zfloor (RN (B2R (tr t) + B2R d))) <= bpow radix2 53 ->
  Rabs (value (time_add t d) - (value t + B2R d)) <= / 2 * ulp64 (B2R (tr t) + B2R d).
Proof.
  intros t d Nt Fd Pd Pq Hq.
  destruct (add_value t d Nt Fd Pd Pq Hq) as [V _]. rewrite V. unfold value.
  replace (B2R (tq t) + RN (B2R (tr t) + B2R d) - (B2R (tq t) + B2R (tr t) + B2R d))
    with (RN (B2R (tr t) + B2R d) - (B2R (tr t) + B2R d)) by ring.
  apply RN_err.
Qed.

Lemma add_never_decreases : forall (t : time) (d : f64),
  normalised t -> ffinite d = true -> 0 <= B2R d -> 0 <= B2R (tq t) ->
  B2R (tq t) + IZR (Zfloor (RN (B2R (tr t) + B2R d))) <= bpow radix2 53 ->
  value t <= value (time_add t d).
Proof.
  intros t d Nt Fd Pd Pq Hq.
  destruct (add_value t d Nt Fd Pd Pq Hq) as [V _]. rewrite V. unfold value.
  assert (B2R (tr t) <= RN (B2R (tr t) + B2R d)).
  { rewrite <- (RN_B2R (tr t)) at 1. apply RN_le. lra. }
  lra.
Qed.

Lemma add_monotone : forall (t : time) (d1 d2 : f64),
  normalised t -> 0 <= B2R (tq t) ->
  ffinite d1 = true -> ffinite d2 = true -> 0 <= B2R d1 -> B2R d1 <= B2R d2 ->
  B2R (tq t) + IZR (Zfloor (RN (B2R (tr t) + B2R d2))) <= bpow radix2 53 ->
  value (time_add t d1) <= value (time_add t d2).
Proof.
  intros t d1 d2 Nt Pq F1 F2 P1 L H2.
  assert (M : RN (B2R (tr t) + B2R d1) <= RN (B2R (tr t) + B2R d2)) by (apply RN_le; lra).
  assert (H1 : B2R (tq t) + IZR (Zfloor (RN (B2R (tr t) + B2R d1))) <= bpow radix2 53).
  { apply Rle_trans with (2 := H2). apply Rplus_le_compat_l, IZR_le, Zfloor_le, M. }
  destruct (add_value t d1 Nt F1 P1 Pq H1) as [V1 _].
  destruct (add_value t d2 Nt F2 (Rle_trans _ _ _ P1 L) Pq H2) as [V2 _].
  rewrite V1, V2. lra.
Qed.

(** Infinity is absorbing. *)
Lemma inf_absorbing : forall t, time_add t finf = time_inf.
Proof. reflexivity. Qed.

Lemma from_float_inf : from_float finf = time_inf.
Proof. reflexivity. Qed.

(** ** 5. Negative input to [from_float] is outside the domain (documentation). *)
Definition neg_tiny : f64 := of_bits 0xBC30000000000000.   (* -2^-60 *)

Lemma from_float_negative_refuted :
  exists x : f64, ffinite x = true /\ B2R x < 0 /\
    feqb_bits (tr (from_float x)) fone = true /\ ~ normalised (from_float x).
Proof.
  exists neg_tiny. split; [vm_compute; reflexivity|]. split.
  { unfold neg_tiny. b2r (of_bits 0xBC30000000000000).
    apply F2R_lt_0. simpl. lia. }
  assert (E : feqb_bits (tr (from_float neg_tiny)) fone = true) by (vm_compute; reflexivity).
  split; [exact E|].
  intros [_ _ _ [_ R]]. apply feqb_bits_B2R in E. rewrite E, fone_R in R. lra.
Qed.

(** ** Concrete samples used by the non-vacuity examples of Props/C14.v. *)
Definition f_3 : f64 := of_bits 0x4008000000000000.      (* 3.0 *)
Definition f_025 : f64 := of_bits 0x3FD0000000000000.    (* 0.25 *)
Definition f_05 : f64 := of_bits 0x3FE0000000000000.     (* 0.5 *)
Definition f_075 : f64 := of_bits 0x3FE8000000000000.    (* 0.75 *)
Definition f_125 : f64 := of_bits 0x3FF4000000000000.    (* 1.25 *)
Definition f_35 : f64 := of_bits 0x400C000000000000.     (* 3.5 *)

Lemma f_3_R : B2R f_3 = 3. Proof. unfold f_3. b2r (of_bits 0x4008000000000000). unfold F2R; simpl; lra. Qed.
Lemma f_025_R : B2R f_025 = / 4. Proof. unfold f_025. b2r (of_bits 0x3FD0000000000000). unfold F2R; simpl; lra. Qed.
Lemma f_05_R : B2R f_05 = / 2. Proof. unfold f_05. b2r (of_bits 0x3FE0000000000000). unfold F2R; simpl; lra. Qed.
Lemma f_075_R : B2R f_075 = 3 / 4. Proof. unfold f_075. b2r (of_bits 0x3FE8000000000000). unfold F2R; simpl; lra. Qed.
Lemma f_125_R : B2R f_125 = 5 / 4. Proof. unfold f_125. b2r (of_bits 0x3FF4000000000000). unfold F2R; simpl; lra. Qed.
Lemma f_35_R : B2R f_35 = 7 / 2. Proof. unfold f_35. b2r (of_bits 0x400C000000000000). unfold F2R; simpl; lra. Qed.

Definition sample_a : time := mkTime f_3 f_025.   (* 3.25 *)
Definition sample_b : time := mkTime f_3 f_075.   (* 3.75 *)

Lemma sample_a_normalised : normalised sample_a.
Proof.
  constructor; unfold sample_a; cbn [tq tr].
  - vm_compute; reflexivity.
  - exists 3%Z. apply f_3_R.
  - vm_compute; reflexivity.
  - rewrite f_025_R. lra.
Qed.

Lemma sample_b_normalised : normalised sample_b.
Proof.
  constructor; unfold sample_b; cbn [tq tr].
  - vm_compute; reflexivity.
  - exists 3%Z. apply f_3_R.
  - vm_compute; reflexivity.
  - rewrite f_075_R. lra.
Qed.

(** The hypotheses of [add_value] hold for 3.75 + 0.5 (which carries into the quotient). *)
Lemma sample_add_hyps :
  normalised sample_b /\ ffinite f_05 = true /\ 0 <= B2R f_05 /\ 0 <= B2R (tq sample_b) /\
  B2R (tq sample_b) + IZR (Zfloor (RN (B2R (tr sample_b) + B2R f_05))) <= bpow radix2 53.
Proof.
  split; [exact sample_b_normalised|]. split; [vm_compute; reflexivity|].
  unfold sample_b; cbn [tq tr]. rewrite f_05_R, f_3_R, f_075_R.
  split; [lra|]. split; [lra|].
  replace (3 / 4 + / 2) with (B2R f_125) by (rewrite f_125_R; lra).
  rewrite RN_B2R, f_125_R.
  rewrite (Zfloor_imp 1) by (simpl; lra).
  apply Rle_trans with (bpow radix2 3); [simpl; lra|apply bpow_le; lia].
Qed.

(** ** 4. Subtraction: [fl(fl(fl(qa - qb) + ra) - rb)] is within three units in the last place of
    max(1, |exact difference|). *)
Lemma ulp64_small : forall x e, (-1022 <= e)%Z ->
  Rabs x < bpow radix2 (e + 1) -> ulp64 x <= bpow radix2 (e - 52).
Proof.
  intros x e He H. destruct (Req_dec x 0) as [Z|NZ].
  - rewrite Z, ulp_FLT_0 by (unfold Prec_gt_0; lia). apply bpow_le. lia.
  - rewrite ulp_neq_0 by exact NZ. apply bpow_le. unfold cexp, FLT_exp.
    generalize (mag_le_bpow radix2 x (e + 1) NZ H). lia.
Qed.

Lemma RN_abs_le_bpow : forall x e, (-1074 <= e)%Z ->
  Rabs x <= bpow radix2 e -> Rabs (RN x) <= bpow radix2 e.
Proof.
  intros x e He H. apply abs_round_le_generic; auto with typeclass_instances.
  apply generic_format_bpow. unfold FLT_exp. lia.
Qed.

Lemma sub_error : forall a b : time,
  normalised a -> normalised b ->
  Rabs (B2R (tq a)) <= bpow radix2 1020 -> Rabs (B2R (tq b)) <= bpow radix2 1020 ->
  Rabs (B2R (time_sub a b) - (value a - value b)) <=
    3 * ulp64 (Rmax 1 (Rabs (value a - value b))).
Proof.
  intros a b [Fqa [na Hna] Fra Rra] [Fqb [nb Hnb] Frb Rrb] Ba Bb.
  set (v := value a - value b).
  set (M := Rmax 1 (Rabs v)).
  assert (M1 : 1 <= M) by apply Rmax_l.
  assert (Mv : Rabs v <= M) by apply Rmax_r.
  assert (Mne : M <> 0) by lra.
  assert (MA : Rabs M = M) by (apply Rabs_pos_eq; lra).
  set (e := (mag radix2 M : Z)).
  generalize (bpow_mag_gt radix2 M) (bpow_mag_le radix2 M Mne). fold e. rewrite MA. intros Mlt Mge.
  set (D := B2R (tq a) - B2R (tq b)).
  assert (Dv : D = v - (B2R (tr a) - B2R (tr b))) by (unfold D, v, value; ring).
  assert (DM : Rabs D < M + 1).
  { rewrite Dv. apply Rle_lt_trans with (1 := Rabs_triang _ _). rewrite Rabs_Ropp.
    assert (Rabs (B2R (tr a) - B2R (tr b)) < 1) by (apply Rabs_lt; lra). lra. }
  assert (E1 : (1 <= e)%Z).
  { assert (bpow radix2 0 < bpow radix2 e) by (simpl; lra). apply lt_bpow in H. lia. }
  assert (D1020 : Rabs D <= bpow radix2 1021).
  { unfold D. apply Rle_trans with (1 := Rabs_triang _ _). rewrite Rabs_Ropp.
    change (bpow radix2 1021) with (bpow radix2 (1020 + 1)). rewrite bpow_plus.
    change (bpow radix2 1) with 2. lra. }
  assert (E2 : (e <= 1022)%Z).
  { assert (Mb : M < bpow radix2 1022).
    { assert (B1 : 1 < bpow radix2 1021) by (change 1 with (bpow radix2 0); apply bpow_lt; lia).
      assert (B2' : bpow radix2 1022 = 2 * bpow radix2 1021).
      { change (bpow radix2 1022) with (bpow radix2 (1021 + 1)). rewrite bpow_plus.
        change (bpow radix2 1) with 2. ring. }
      assert (Rabs v < bpow radix2 1022).
      { replace v with (D + (B2R (tr a) - B2R (tr b))) by (rewrite Dv; ring).
        apply Rle_lt_trans with (1 := Rabs_triang _ _).
        assert (Rabs (B2R (tr a) - B2R (tr b)) < 1) by (apply Rabs_lt; lra). lra. }
      unfold M. apply Rmax_lub_lt; lra. }
    assert (bpow radix2 (e - 1) < bpow radix2 1022) by lra. apply lt_bpow in H. lia. }
  set (P := bpow radix2 e) in *.
  assert (P2 : 2 <= P).
  { unfold P. change 2 with (bpow radix2 1). apply bpow_le. lia. }
  assert (PP : bpow radix2 (e + 1) = 2 * P).
  { rewrite bpow_plus. change (bpow radix2 1) with 2. unfold P. ring. }
  (* D is an integer of magnitude < P + 1, hence <= P *)
  assert (DP : Rabs D <= P).
  { unfold D. rewrite Hna, Hnb, <- minus_IZR, <- abs_IZR.
    unfold P. rewrite <- IZR_Zpower by lia. apply IZR_le.
    assert (IZR (Z.abs (na - nb)) < IZR (radix2 ^ e + 1)).
    { rewrite plus_IZR, IZR_Zpower by lia. fold P. rewrite abs_IZR, minus_IZR, <- Hna, <- Hnb.
      fold D. simpl (IZR 1). lra. }
    apply lt_IZR in H. lia. }
  (* first operation *)
  set (D1 := RN D).
  assert (D1P : Rabs D1 <= P) by (apply RN_abs_le_bpow; [lia|exact DP]).
  assert (Pmax : 2 * P < bpow radix2 1024).
  { rewrite <- PP. apply bpow_lt. lia. }
  destruct (fsub_spec (tq a) (tq b) Fqa Fqb) as [V1 F1]; [fold D; fold D1; lra|].
  fold D in V1. fold D1 in V1.
  (* second operation *)
  set (x2 := D1 + B2R (tr a)).
  apply Rabs_le_inv in D1P.
  assert (X2 : - P <= x2 < P + 1) by (unfold x2; lra).
  assert (X2abs : Rabs x2 < bpow radix2 (e + 1)) by (rewrite PP; apply Rabs_lt; lra).
  set (D2 := RN x2).
  assert (F15 : fmt64 (3 * bpow radix2 (e - 1))).
  { apply generic_format_FLT. exists (Float radix2 3 (e - 1)).
    - unfold F2R; simpl. reflexivity.
    - simpl. lia.
    - simpl. lia. }
  assert (P15 : 3 * bpow radix2 (e - 1) = 3 / 2 * P).
  { unfold P. replace e with (e - 1 + 1)%Z at 2 by ring. rewrite bpow_plus.
    change (bpow radix2 1) with 2. field. }
  assert (FP : fmt64 P) by (apply generic_format_bpow; unfold FLT_exp; lia).
  assert (D2b : - P <= D2 <= 3 / 2 * P).
  { unfold D2. split.
    - rewrite <- (RN_id (- P)) by (apply generic_format_opp; exact FP). apply RN_le. lra.
    - rewrite <- P15. rewrite <- (RN_id _ F15). apply RN_le. rewrite P15. lra. }
  destruct (fadd_spec _ _ F1 Fra) as [V2 F2].
  { rewrite V1. fold x2. fold D2. apply Rle_lt_trans with (2 := Pmax). apply Rabs_le. lra. }
  rewrite V1 in V2. fold x2 in V2. fold D2 in V2.
  (* third operation *)
  set (x3 := D2 - B2R (tr b)).
  assert (X3 : - P - 1 < x3 <= 3 / 2 * P) by (unfold x3; lra).
  assert (X3abs : Rabs x3 < bpow radix2 (e + 1)) by (rewrite PP; apply Rabs_lt; lra).
  destruct (fsub_spec _ _ F2 Frb) as [V3 F3].
  { rewrite V2. fold x3. apply Rle_lt_trans with (bpow radix2 (e + 1)).
    - apply RN_abs_le_bpow; [lia|lra].
    - apply bpow_lt. lia. }
  rewrite V2 in V3. fold x3 in V3.
  (* error terms *)
  assert (UM : ulp64 M = bpow radix2 (e - 53)).
  { rewrite ulp_neq_0 by exact Mne. unfold cexp, FLT_exp. fold e. f_equal. lia. }
  assert (U2 : bpow radix2 (e - 52) = 2 * ulp64 M).
  { rewrite UM. replace (e - 52)%Z with (e - 53 + 1)%Z by ring. rewrite bpow_plus.
    change (bpow radix2 1) with 2. ring. }
  assert (Dabs : Rabs D < bpow radix2 (e + 1)) by (rewrite PP; lra).
  assert (Er1 : Rabs (D1 - D) <= ulp64 M).
  { apply Rle_trans with (1 := RN_err D).
    generalize (ulp64_small D e ltac:(lia) Dabs). lra. }
  assert (Er2 : Rabs (D2 - x2) <= ulp64 M).
  { apply Rle_trans with (1 := RN_err x2).
    generalize (ulp64_small x2 e ltac:(lia) X2abs). lra. }
  assert (Er3 : Rabs (RN x3 - x3) <= ulp64 M).
  { apply Rle_trans with (1 := RN_err x3).
    generalize (ulp64_small x3 e ltac:(lia) X3abs). lra. }
  unfold time_sub. rewrite V3. fold v.
  replace (RN x3 - v) with ((RN x3 - x3) + (D2 - x2) + (D1 - D))
    by (unfold x3, x2; rewrite Dv; ring).
  apply Rle_trans with (1 := Rabs_triang _ _).
  apply Rle_trans with (Rabs (RN x3 - x3) + Rabs (D2 - x2) + Rabs (D1 - D)).
  { apply Rplus_le_compat_r. apply Rabs_triang. }
  fold M. lra.
Qed.

Lemma sample_sub_hyps :
  normalised sample_a /\ normalised sample_b /\
  Rabs (B2R (tq sample_a)) <= bpow radix2 1020 /\ Rabs (B2R (tq sample_b)) <= bpow radix2 1020.
Proof.
  split; [exact sample_a_normalised|]. split; [exact sample_b_normalised|].
  assert (3 <= bpow radix2 1020).
  { apply Rle_trans with (bpow radix2 2); [simpl; lra|apply bpow_le; lia]. }
  unfold sample_a, sample_b; cbn [tq]. rewrite f_3_R, Rabs_pos_eq by lra. split; assumption.
Qed.
