(** * Proofs/TimeSliceProofs.v — rounding bound of one time-slice (used by C07's validator). *)
From Coq Require Import ZArith Bool List Reals Lia Lra Psatz.
From Flocq Require Import Core.Core IEEE754.BinarySingleNaN Relative.
Require Import JF.Base.F64 JF.Base.PyFloat JF.Model.Time JF.Model.Periodic JF.Model.TimeSlice.
Require Import JF.Proofs.F64Facts JF.Proofs.TimeProofs JF.Proofs.PeriodicProofs.
Local Open Scope R_scope.

(** ** Generic error bounds of one rounding. *)

(** Relative error 2^-53 plus the absolute error 2^-1075 of the underflow range. *)
Lemma RN_err_rel_abs : forall z, Rabs (RN z - z) <= bpow radix2 (-53) * Rabs z + bpow radix2 (-1075).
Proof.
  intros z. destruct (Rle_or_lt (bpow radix2 (-1022)) (Rabs z)) as [H|H].
  - generalize (relative_error_N_FLT radix2 (-1074) 53 ltac:(reflexivity) (fun x => negb (Z.even x)) z H).
    change (- (53) + 1)%Z with (-53 + 1)%Z. rewrite bpow_plus. change (bpow radix2 1) with 2.
    generalize (bpow_gt_0 radix2 (-1075)). lra.
  - apply Rle_trans with (1 := RN_err z).
    rewrite ulp_FLT_small.
    + replace (/ 2 * bpow radix2 (-1074)) with (bpow radix2 (-1075)).
      * generalize (Rabs_pos z) (bpow_gt_0 radix2 (-53)). nra.
      * change (-1074)%Z with (-1075 + 1)%Z. rewrite bpow_plus. change (bpow radix2 1) with 2. field.
    + unfold Prec_gt_0; lia.
    + apply Rlt_trans with (1 := H). apply bpow_lt. lia.
Qed.

Lemma ulp64_rel : forall z, bpow radix2 (-1022) <= Rabs z -> ulp64 z <= Rabs z * bpow radix2 (-52).
Proof. intros z H. apply ulp_FLT_le; auto with typeclass_instances. Qed.

Lemma bpow_S : forall e, bpow radix2 (e + 1) = 2 * bpow radix2 e.
Proof. intros e. rewrite bpow_plus. change (bpow radix2 1) with 2. ring. Qed.

Lemma one_le_bpow : forall e, (0 <= e)%Z -> 1 <= bpow radix2 e.
Proof. intros e H. change 1 with (bpow radix2 0). apply bpow_le. exact H. Qed.

(** ** [Time.__sub__] returns a finite float (no overflow for |quotients| <= 2^1020). *)
Lemma time_sub_finite : forall a b : time,
  normalised a -> normalised b ->
  Rabs (B2R (tq a)) <= bpow radix2 1020 -> Rabs (B2R (tq b)) <= bpow radix2 1020 ->
  ffinite (time_sub a b) = true.
Proof.
  intros a b [Fqa _ Fra Rra] [Fqb _ Frb Rrb] Ba Bb.
  assert (B1 : Rabs (B2R (tq a) - B2R (tq b)) <= bpow radix2 1021).
  { apply Rle_trans with (1 := Rabs_triang _ _). rewrite Rabs_Ropp.
    change 1021%Z with (1020 + 1)%Z. rewrite bpow_S. lra. }
  generalize (RN_abs_le_bpow _ 1021 ltac:(lia) B1). intros R1.
  destruct (fsub_spec (tq a) (tq b) Fqa Fqb) as [V1 F1].
  { apply Rle_lt_trans with (1 := R1). apply bpow_lt. lia. }
  assert (B2 : Rabs (B2R (fsub (tq a) (tq b)) + B2R (tr a)) <= bpow radix2 1022).
  { apply Rle_trans with (1 := Rabs_triang _ _). rewrite V1.
    rewrite (Rabs_pos_eq (B2R (tr a))) by lra.
    change 1022%Z with (1021 + 1)%Z. rewrite bpow_S. generalize (one_le_bpow 1021 ltac:(lia)). lra. }
  generalize (RN_abs_le_bpow _ 1022 ltac:(lia) B2). intros R2.
  destruct (fadd_spec _ (tr a) F1 Fra) as [V2 F2].
  { apply Rle_lt_trans with (1 := R2). apply bpow_lt. lia. }
  assert (B3 : Rabs (B2R (fadd (fsub (tq a) (tq b)) (tr a)) - B2R (tr b)) <= bpow radix2 1023).
  { apply Rle_trans with (1 := Rabs_triang _ _). rewrite V2, Rabs_Ropp.
    rewrite (Rabs_pos_eq (B2R (tr b))) by lra.
    change 1023%Z with (1022 + 1)%Z. rewrite bpow_S. generalize (one_le_bpow 1022 ltac:(lia)). lra. }
  generalize (RN_abs_le_bpow _ 1023 ltac:(lia) B3). intros R3.
  destruct (fsub_spec _ (tr b) F2 Frb) as [_ F3].
  { apply Rle_lt_trans with (1 := R3). apply bpow_lt. lia. }
  exact F3.
Qed.

(** ** Pure real arithmetic: composition of the four error terms. *)
Lemma slice_error_arith : forall u eta a M absD e0 delta p v D x y s w kL L,
  0 < u <= / 16 -> 0 <= eta <= u * L -> 0 < L ->
  a = Rabs v -> 1 <= M -> absD <= M -> absD = Rabs D ->
  Rabs e0 <= 6 * u * M -> delta = D + e0 ->
  Rabs (p - v * delta) <= u * Rabs (v * delta) + eta ->
  y = x + v * D ->
  Rabs (s - (x + p)) <= u * Rabs (x + p) + eta ->
  Rabs (w - (s - kL)) <= u * L ->
  Rabs (w - (y - kL)) <= (a * M + Rmax (Rabs y) L) * (8 * u).
Proof.
  intros u eta a M absD e0 delta p v D x y s w kL L Hu Heta PL Ha M1 HD HD' He0 Hdelta Hp Hy Hs Hw.
  assert (Pa : 0 <= a) by (rewrite Ha; apply Rabs_pos).
  set (B := a * M).
  assert (PB : 0 <= B) by (unfold B; nra).
  (* |delta| <= M (1 + 6u) *)
  assert (Hd : Rabs delta <= M + 6 * u * M).
  { rewrite Hdelta. apply Rle_trans with (1 := Rabs_triang _ _). lra. }
  (* e1 = p - v D *)
  assert (Hvd : Rabs (v * delta) <= B + 6 * u * B).
  { rewrite Rabs_mult, <- Ha. unfold B. generalize (Rabs_pos delta). nra. }
  assert (Hve0 : Rabs (v * e0) <= 6 * u * B).
  { rewrite Rabs_mult, <- Ha. unfold B. generalize (Rabs_pos e0). nra. }
  assert (He1 : Rabs (p - v * D) <= 15 / 2 * u * B + eta).
  { replace (p - v * D) with ((p - v * delta) + v * e0) by (rewrite Hdelta; ring).
    apply Rle_trans with (1 := Rabs_triang _ _).
    assert (UB : 0 <= u * B) by nra.
    assert (UUB : u * (u * B) <= / 16 * (u * B)) by nra.
    assert (u * (B + 6 * u * B) <= 3 / 2 * u * B) by lra.
    assert (u * Rabs (v * delta) <= u * (B + 6 * u * B)) by nra.
    lra. }
  set (e1 := p - v * D) in *.
  assert (Hxp : x + p = y + e1) by (unfold e1; rewrite Hy; ring).
  assert (He2 : Rabs (s - (x + p)) <= u * Rabs y + u * Rabs e1 + eta).
  { apply Rle_trans with (1 := Hs). rewrite Hxp.
    generalize (Rabs_triang y e1). nra. }
  replace (w - (y - kL)) with ((w - (s - kL)) + (s - (x + p)) + e1) by (rewrite Hxp; ring).
  apply Rle_trans with (1 := Rabs_triang _ _).
  apply Rle_trans with (Rabs (w - (s - kL)) + Rabs (s - (x + p)) + Rabs e1).
  { apply Rplus_le_compat_r. apply Rabs_triang. }
  assert (Hmax1 : Rabs y <= Rmax (Rabs y) L) by apply Rmax_l.
  assert (Hmax2 : L <= Rmax (Rabs y) L) by apply Rmax_r.
  set (X := Rmax (Rabs y) L) in *.
  generalize (Rabs_pos e1) (Rabs_pos y). intros.
  assert (UB : 0 <= u * B) by nra.
  assert (UUB : u * (u * B) <= / 16 * (u * B)) by nra.
  assert (u * Rabs e1 <= u * (15 / 2 * u * B + eta)) by nra.
  assert (u * (15 / 2 * u * B) <= / 2 * u * B) by lra.
  assert (u * eta <= eta) by nra.
  assert (u * Rabs y <= u * X) by nra.
  assert (u * L <= u * X) by nra.
  fold B. lra.
Qed.

(** ** The rounding bound of one time-slice entry.

    [y = x + v * D] is the exact position after the exact time difference [D = value T - value ts];
    the float result is congruent to [y] modulo L to within
    [(|v| * max(1,|D|) + max(|y|, L)) * 2^-50] — the validator's [slice_tol]. *)
Lemma time_slice_error : forall (x v L : f64) (T ts : time),
  ffinite x = true -> ffinite v = true -> ffinite L = true ->
  normalised T -> normalised ts ->
  Rabs (B2R (tq T)) <= bpow radix2 1020 -> Rabs (B2R (tq ts)) <= bpow radix2 1020 ->
  bpow radix2 (-1000) <= B2R L ->
  let D := value T - value ts in
  let y := B2R x + B2R v * D in
  Rabs (B2R v) * Rmax 1 (Rabs D) + Rabs (B2R x) + B2R L <= bpow radix2 1000 ->
  exists (w : f64) (k : Z),
    time_slice_entry x v T ts L = Some w /\ ffinite w = true /\ 0 <= B2R w < B2R L /\
    Rabs (B2R w - (y - IZR k * B2R L)) <=
      (Rabs (B2R v) * Rmax 1 (Rabs D) + Rmax (Rabs y) (B2R L)) * bpow radix2 (-50).
Proof.
  intros x v L T ts Fx Fv FL NT Nts BT Bts HL D y NO.
  set (M := Rmax 1 (Rabs D)) in *.
  assert (M1 : 1 <= M) by apply Rmax_l.
  assert (MD : Rabs D <= M) by apply Rmax_r.
  assert (PL : 0 < B2R L) by (generalize (bpow_gt_0 radix2 (-1000)); lra).
  set (u := bpow radix2 (-53)).
  set (eta := bpow radix2 (-1075)).
  assert (Hu : 0 < u <= / 16).
  { split; [apply bpow_gt_0|]. replace (/ 16) with (bpow radix2 (-4)) by (simpl; lra).
    apply bpow_le. lia. }
  assert (Heta : 0 <= eta <= u * B2R L).
  { split; [apply bpow_ge_0|]. unfold eta, u.
    replace (-1075)%Z with (-53 + -1022)%Z by lia. rewrite bpow_plus.
    apply Rmult_le_compat_l; [apply bpow_ge_0|].
    apply Rle_trans with (2 := HL). apply bpow_le. lia. }
  (* the time difference *)
  generalize (sub_error T ts NT Nts BT Bts) (time_sub_finite T ts NT Nts BT Bts).
  fold D. fold M. set (dl := time_sub T ts). intros Esub Fsub.
  set (e0 := B2R dl - D).
  assert (He0 : Rabs e0 <= 6 * u * M).
  { unfold e0. apply Rle_trans with (1 := Esub).
    assert (ulp64 M <= M * bpow radix2 (-52)).
    { rewrite <- (Rabs_pos_eq M) at 2 by lra. apply ulp64_rel. rewrite Rabs_pos_eq by lra.
      apply Rle_trans with (2 := M1). change 1 with (bpow radix2 0). apply bpow_le. lia. }
    assert (bpow radix2 (-52) = 2 * u) by (unfold u; change (-52)%Z with (-53 + 1)%Z; apply bpow_S).
    rewrite H0 in H. lra. }
  assert (Hdl : B2R dl = D + e0) by (unfold e0; ring).
  set (a := Rabs (B2R v)) in *.
  assert (Pa : 0 <= a) by apply Rabs_pos.
  assert (B1000 : a * M <= bpow radix2 1000) by (generalize (Rabs_pos (B2R x)); lra).
  (* the product *)
  assert (Hvd : Rabs (B2R v * B2R dl) <= bpow radix2 1001).
  { rewrite Rabs_mult. fold a. rewrite Hdl.
    assert (Rabs (D + e0) <= 2 * M).
    { apply Rle_trans with (1 := Rabs_triang _ _).
      assert (6 * u * M <= M) by nra. lra. }
    change 1001%Z with (1000 + 1)%Z. rewrite bpow_S. generalize (Rabs_pos (D + e0)). nra. }
  destruct (fmul_spec v dl Fv Fsub) as [Vp Fp].
  { apply Rle_lt_trans with (bpow radix2 1001); [|apply bpow_lt; lia].
    apply RN_abs_le_bpow; [lia|exact Hvd]. }
  set (p := fmul v dl) in *.
  assert (Hp : Rabs (B2R p - B2R v * B2R dl) <= u * Rabs (B2R v * B2R dl) + eta).
  { rewrite Vp. apply RN_err_rel_abs. }
  assert (Pb : Rabs (B2R p) <= bpow radix2 1001).
  { rewrite Vp. apply RN_abs_le_bpow; [lia|exact Hvd]. }
  (* the sum *)
  assert (Hxp : Rabs (B2R x + B2R p) <= bpow radix2 1002).
  { apply Rle_trans with (1 := Rabs_triang _ _).
    change 1002%Z with (1001 + 1)%Z. rewrite bpow_S.
    assert (bpow radix2 1000 <= bpow radix2 1001) by (apply bpow_le; lia).
    generalize (Rabs_pos (B2R v)). nra. }
  destruct (fadd_spec x p Fx Fp) as [Vs Fs].
  { apply Rle_lt_trans with (bpow radix2 1002); [|apply bpow_lt; lia].
    apply RN_abs_le_bpow; [lia|exact Hxp]. }
  set (s := fadd x p) in *.
  assert (Hs : Rabs (B2R s - (B2R x + B2R p)) <= u * Rabs (B2R x + B2R p) + eta).
  { rewrite Vs. apply RN_err_rel_abs. }
  (* the periodic correction *)
  destruct (wrap_spec s L Fs FL PL) as (w & k & Ew & Fw & _ & Rw & Cw & _).
  assert (Hw : Rabs (B2R w - (B2R s - IZR k * B2R L)) <= u * B2R L).
  { apply Rle_trans with (1 := Cw).
    assert (ulp64 (B2R L) <= B2R L * bpow radix2 (-52)).
    { rewrite <- (Rabs_pos_eq (B2R L)) at 2 by lra. apply ulp64_rel. rewrite Rabs_pos_eq by lra.
      apply Rle_trans with (2 := HL). apply bpow_le. lia. }
    assert (bpow radix2 (-52) = 2 * u) by (unfold u; change (-52)%Z with (-53 + 1)%Z; apply bpow_S).
    rewrite H0 in H. lra. }
  exists w, k.
  split; [exact Ew|]. split; [exact Fw|]. split; [exact Rw|].
  replace (bpow radix2 (-50)) with (8 * u).
  2:{ unfold u. change (-50)%Z with (-53 + 1 + 1 + 1)%Z. rewrite !bpow_S. ring. }
  apply (slice_error_arith u eta a M (Rabs D) e0 (B2R dl) (B2R p) (B2R v) D (B2R x) y (B2R s) (B2R w)
           (IZR k * B2R L) (B2R L)); try assumption; try reflexivity.
Qed.

(** ** Concrete sample for the non-vacuity example of Props/C07slice.v:
    x = 0.25, v = 0.5, T = 3.75, ts = 3.25, L = 1.0 (result 0.5). *)
Lemma sample_slice_hyps :
  ffinite f_025 = true /\ ffinite f_05 = true /\ ffinite fone = true /\
  normalised sample_b /\ normalised sample_a /\
  Rabs (B2R (tq sample_b)) <= bpow radix2 1020 /\ Rabs (B2R (tq sample_a)) <= bpow radix2 1020 /\
  bpow radix2 (-1000) <= B2R fone /\
  Rabs (B2R f_05) * Rmax 1 (Rabs (value sample_b - value sample_a)) + Rabs (B2R f_025) + B2R fone
    <= bpow radix2 1000.
Proof.
  destruct sample_sub_hyps as (Na & Nb & Ba & Bb).
  split; [vm_compute; reflexivity|]. split; [vm_compute; reflexivity|]. split; [apply fone_finite|].
  split; [exact Nb|]. split; [exact Na|]. split; [exact Bb|]. split; [exact Ba|].
  split.
  - rewrite fone_R. change 1 with (bpow radix2 0). apply bpow_le. lia.
  - assert (V : value sample_b - value sample_a = / 2).
    { unfold value, sample_a, sample_b; cbn [tq tr]. rewrite f_3_R, f_075_R, f_025_R. lra. }
    rewrite V, f_05_R, f_025_R, fone_R. rewrite !Rabs_pos_eq by lra. rewrite Rmax_left by lra.
    apply Rle_trans with (bpow radix2 1); [simpl; lra|apply bpow_le; lia].
Qed.
