(** * Proofs/ThinningProofs.v — lemmas about Model/Thinning.v (C04), axiom-free over Q. *)
From Coq Require Import QArith Lqa List Bool.
Require Import JF.Base.QInterval JF.Model.Thinning.
Import ListNotations.
Open Scope Q_scope.

Lemma qltb_iff a b : qltb a b = true <-> a < b.
Proof.
  unfold qltb. rewrite negb_true_iff. split.
  - intro H. apply Qnot_le_lt. intro L. apply Qle_bool_iff in L. congruence.
  - intro H. destruct (Qle_bool b a) eqn:E; [|reflexivity]. apply Qle_bool_iff in E. lra.
Qed.

Lemma confirmb_spec f x r : confirmb f x r = true <-> confirm_x f x r.
Proof.
  destruct f; simpl.
  - rewrite andb_true_iff, !qltb_iff. tauto.
  - rewrite negb_true_iff. split.
    + intros H L. apply Qle_bool_iff in L. congruence.
    + intro H. destruct (Qle_bool (qmax 0 r) x) eqn:E; [|reflexivity]. apply Qle_bool_iff in E. contradiction.
Qed.

Lemma confirmb_false f x r : confirmb f x r = false <-> ~ confirm_x f x r.
Proof.
  rewrite <- confirmb_spec. destruct (confirmb f x r); split; congruence.
Qed.

(** On non-negative proposal values the two transcriptions decide alike. *)
Lemma families_agree x r : 0 <= x -> (confirm_x FLeaf x r <-> confirm_x FComposite x r).
Proof.
  intro Hx. simpl. split.
  - intros [Hr Hl] L. qmm.
  - intro H. assert (x < qmax 0 r) by (apply Qnot_le_lt; exact H). qmm.
Qed.

Lemma confirm_leaf_iff u b r : 0 < b -> 0 <= u -> (confirm FLeaf u b r <-> mem_co u (accept_set b r)).
Proof.
  intros Hb Hu. unfold confirm, confirm_x, mem_co, accept_set. simpl.
  destruct (qmax_spec 0 r) as [[H E] | [H E]]; rewrite E; clear E.
  - rewrite (lt_div_iff r b u Hb). split; [intros [? ?]; split; assumption | intros [_ L]; split; [|exact L]].
    assert (0 <= u * b) by (apply Qmult_le_0_compat; lra). lra.
  - assert (Z : 0 / b == 0) by (field; lra). rewrite Z. split; [intros [? ?]; lra | intros [? ?]; lra].
Qed.

Lemma confirm_iff f u b r : 0 < b -> 0 <= u -> (confirm f u b r <-> mem_co u (accept_set b r)).
Proof.
  intros Hb Hu. rewrite <- (confirm_leaf_iff u b r Hb Hu). destruct f; [tauto|].
  unfold confirm. symmetry. apply families_agree. apply Qmult_le_0_compat; lra.
Qed.

Lemma accept_set_bounds b r : 0 < b -> 0 <= qmax 0 r / b.
Proof.
  intro Hb. apply (le_div_iff (qmax 0 r) b 0 Hb). qmm.
Qed.

Theorem accept_probability_lemma b r : 0 < b -> r <= b ->
  accept_probability_of b r == qmax 0 r / b /\
  forall f u, mem_co u unit_int -> (confirm f u b r <-> mem_co u (accept_set b r)).
Proof.
  intros Hb Hr. split.
  - unfold accept_probability_of, accept_set, unit_int.
    pose proof (accept_set_bounds b r Hb) as H0.
    assert (H1 : qmax 0 r / b <= 1).
    { apply (div_le_iff (qmax 0 r) b 1 Hb). qmm. }
    set (m := qmax 0 r / b) in *. unfold len, inter. simpl. qmm.
  - intros f u [Hu _]. simpl in Hu. apply confirm_iff; assumption.
Qed.

(** What actually happens when the bound fails: every proposed event is confirmed. *)
Theorem accept_when_exceeded_lemma b r : 0 < b -> b < r ->
  accept_probability_of b r == 1 /\ forall f u, mem_co u unit_int -> confirm f u b r.
Proof.
  intros Hb Hr.
  assert (H1 : 1 < qmax 0 r / b).
  { apply (lt_div_iff (qmax 0 r) b 1 Hb). qmm. }
  split.
  - unfold accept_probability_of, accept_set, unit_int. set (m := qmax 0 r / b) in *.
    unfold len, inter. simpl. qmm.
  - intros f u [Hu Hl]. simpl in Hu, Hl. apply confirm_iff; [assumption | assumption |].
    unfold mem_co, accept_set. simpl. split; lra.
Qed.

(** The realised event rate falls short of the true rate when the bound fails. *)
Theorem deficit_when_exceeded_lemma b r : 0 < b -> b < r ->
  b * accept_probability_of b r == b /\ b < qmax 0 r.
Proof.
  intros Hb Hr. destruct (accept_when_exceeded_lemma b r Hb Hr) as [E _]. rewrite E. split; [lra | qmm].
Qed.

(* ---------------------------------------------------------------------------------------- *)
(** ** Conditional exactness of thinning *)

Section Exact.
  Variable S : Type.
  Variables rate_true rate_bound : S -> Q.
  Hypothesis Dominates : forall s, rate_true s <= rate_bound s.

  Theorem thinning_exact_section : forall s,
    (0 < rate_bound s ->
       rate_bound s * accept_probability_of (rate_bound s) (rate_true s) == qmax 0 (rate_true s)) /\
    (rate_bound s <= 0 -> qmax 0 (rate_true s) == 0).
  Proof.
    intro s. pose proof (Dominates s) as D. split.
    - intro Hb. destruct (accept_probability_lemma (rate_bound s) (rate_true s) Hb D) as [E _].
      rewrite E. field. lra.
    - intro Hb. qmm.
  Qed.
End Exact.

(* ---------------------------------------------------------------------------------------- *)
(** ** The summed bound *)

Lemma summed_bound_nonneg bs : 0 <= summed_bound bs.
Proof.
  unfold summed_bound. apply qsum_nonneg. intros x Hx. apply in_map_iff in Hx.
  destruct Hx as [y [<- _]]. qmm.
Qed.

Lemma qsum_le_summed rs bs : Forall2 Qle rs bs -> qsum rs <= summed_bound bs.
Proof.
  unfold summed_bound. induction 1 as [|r b rs bs H F IH]; simpl; [lra|].
  assert (b <= qmax 0 b) by qmm. lra.
Qed.

Theorem summed_bound_dominates_lemma rs bs : Forall2 Qle rs bs ->
  event_rate rs <= summed_bound bs /\ (0 < event_rate rs -> 0 < summed_bound bs).
Proof.
  intro F. pose proof (qsum_le_summed rs bs F) as H. pose proof (summed_bound_nonneg bs) as N.
  assert (E : event_rate rs <= summed_bound bs) by (unfold event_rate; qmm).
  split; [exact E | intro P; lra].
Qed.

(* ---------------------------------------------------------------------------------------- *)
(** ** An unconfirmed event leaves every velocity (and identity) unchanged *)

Lemma time_slice_unit_vel adv t u : uvel (time_slice_unit adv t u) = uvel u /\ uid (time_slice_unit adv t u) = uid u.
Proof. unfold time_slice_unit. destruct (uvel u) eqn:E; simpl; auto. Qed.

Lemma time_slice_vels adv t st :
  map uvel (time_slice adv t st) = map uvel st /\ map uid (time_slice adv t st) = map uid st.
Proof.
  unfold time_slice. rewrite !map_map. split; apply map_ext; intro u; apply time_slice_unit_vel.
Qed.

Theorem unconfirmed_unchanged_lemma adv accepted_out f t x r st :
  ~ confirm_x f x r ->
  out_state adv accepted_out f t x r st = time_slice adv t st /\
  map uvel (out_state adv accepted_out f t x r st) = map uvel st /\
  map uid (out_state adv accepted_out f t x r st) = map uid st.
Proof.
  intro N. apply confirmb_false in N. unfold out_state. rewrite N.
  split; [reflexivity | apply time_slice_vels].
Qed.
