(** * Proofs/SamplingProofs.v — C17: sample times and fully time-sliced samples. *)
From Coq Require Import ZArith QArith Bool List Reals Lia Lra.
From Flocq Require Import Core.Core IEEE754.BinarySingleNaN.
Require Import JF.Base.F64 JF.Base.PyFloat JF.Model.Time JF.Model.Kinematics JF.Model.Sampling
               JF.Proofs.F64Facts JF.Proofs.TimeProofs JF.Proofs.KinematicsProofs.
Import ListNotations.

(** ** Sample times: one rounding per step, no growth with the size of the time. *)
Local Open Scope R_scope.

(** side condition of [add_value] (no overflow of the quotient beyond 2^53) *)
Definition side (t : time) (d : f64) : Prop :=
  0 <= B2R (tq t) /\ B2R (tq t) + IZR (Zfloor (RN (B2R (tr t) + B2R d))) <= bpow radix2 53.

Lemma ulp64_le_pos x y : 0 <= x -> x <= y -> ulp64 x <= ulp64 y.
Proof. intros H0 H1. apply (ulp_le_pos radix2 fexp64 (Hm := FLT_exp_monotone (-1074) 53)); auto. Qed.

Theorem nth_time_error (t0 : time) (dt : f64) (k : nat) :
  normalised t0 -> ffinite dt = true -> 0 <= B2R dt ->
  (forall j, (j < k)%nat -> side (nth_time t0 dt j) dt) ->
  normalised (nth_time t0 dt k) /\
  Rabs (value (nth_time t0 dt k) - (value t0 + INR k * B2R dt)) <= INR k * (/ 2 * ulp64 (1 + B2R dt)).
Proof.
  intros Hn Hf Hd. induction k as [|k IH]; intro Hside.
  - simpl. split; [exact Hn|]. replace (value t0 - (value t0 + 0 * B2R dt)) with 0 by ring.
    rewrite Rabs_R0. lra.
  - assert (Hs' : forall j, (j < k)%nat -> side (nth_time t0 dt j) dt) by (intros j Hj; apply Hside; lia).
    destruct (IH Hs') as [Hnk Hek].
    destruct (Hside k ltac:(lia)) as [Hq Hov].
    cbn [nth_time].
    destruct (add_value (nth_time t0 dt k) dt Hnk Hf Hd Hq Hov) as [_ Hn'].
    split; [exact Hn'|].
    pose proof (add_error_one_rounding (nth_time t0 dt k) dt Hnk Hf Hd Hq Hov) as He.
    assert (Hu : ulp64 (B2R (tr (nth_time t0 dt k)) + B2R dt) <= ulp64 (1 + B2R dt)).
    { destruct Hnk as [_ _ _ [Hr0 Hr1]]. apply ulp64_le_pos; lra. }
    rewrite S_INR.
    replace (value (time_add (nth_time t0 dt k) dt) - (value t0 + (INR k + 1) * B2R dt))
      with ((value (time_add (nth_time t0 dt k) dt) - (value (nth_time t0 dt k) + B2R dt))
            + (value (nth_time t0 dt k) - (value t0 + INR k * B2R dt))) by ring.
    eapply Rle_trans; [apply Rabs_triang|]. lra.
Qed.

Local Close Scope R_scope.

(** ** A unit stamped with the sample time is written at exactly its current position. *)
Lemma tvalue_eqb a b : ftime_eqb a b = true -> tvalue a = tvalue b.
Proof.
  unfold ftime_eqb, tvalue. intro H. apply andb_true_iff in H as [H1 H2].
  assert (E : forall x y : f64, feqb_bits x y = true -> ffinite x = ffinite y /\ f2q x = f2q y).
  { intros x y. unfold feqb_bits. destruct x as [s|s| |s m e Hb], y as [t|t| |t n f Hc]; simpl; try discriminate; auto.
    intro H. apply andb_true_iff in H as [H Hef]. apply andb_true_iff in H as [Hs Hm].
    apply Bool.eqb_prop in Hs. apply Pos.eqb_eq in Hm. apply Z.eqb_eq in Hef. subst. auto. }
  destruct (E _ _ H1) as [-> ->]. destruct (E _ _ H2) as [-> ->]. reflexivity.
Qed.

Open Scope Q_scope.
Theorem sliced_position_is_current (u : unit) (T : ftime) (Tq : Q) (d : nat) :
  stamped_with T u = true -> moving u = true -> tvalue T = Some Tq ->
  ffinite (nth d (u_pos u) fnan) = true ->
  match u_vel u with Some v => ffinite (nth d v fnan) = true | None => False end ->
  exists p, pos_at u Tq d = Some p /\ p == f2q (nth d (u_pos u) fnan).
Proof.
  unfold stamped_with, moving, pos_at. intros Hs Hm HT Hp Hv.
  destruct (u_vel u) as [v|]; [|discriminate]. destruct (u_ts u) as [ts|]; [|discriminate].
  rewrite Hp. simpl. rewrite (tvalue_eqb _ _ Hs), HT, Hv.
  eexists. split; [reflexivity|]. ring.
Qed.

(** ** Accepted runs: every sampling / end-of-run state is fully time-sliced, for any run length. *)
Lemma samples_sliced_spec ls : forall ss,
  samples_sliced ls ss = true ->
  forall i l s, nth_error ls i = Some l -> nth_error ss i = Some s ->
  is_output_kind (k_kind l) = true ->
  forall u, In u (s_units s) -> stamped_with (k_time l) u = true.
Proof.
  induction ls as [|l0 ls IH]; intros [|s0 ss] H i l s Hl Hs Hk u Hin; destruct i; simpl in *; try discriminate.
  - inversion Hl; inversion Hs; subst. apply andb_true_iff in H as [H _]. rewrite Hk in H. simpl in H.
    rewrite forallb_forall in H. apply H. exact Hin.
  - apply andb_true_iff in H as [_ H]. eapply IH; eauto.
Qed.

Theorem accepted_samples_sliced (c : scase) :
  check_scase c = true ->
  check_kcase (sc_k c) = true /\
  exists ss, run_states_k (map f2q (kc_L (sc_k c))) 0 (kinit (sc_k c)) (kc_legs (sc_k c)) = Some ss /\
    forall i l s, nth_error (kc_legs (sc_k c)) i = Some l -> nth_error ss i = Some s ->
      is_output_kind (k_kind l) = true ->
      forall u, In u (s_units s) -> stamped_with (k_time l) u = true.
Proof.
  unfold check_scase. intro H.
  apply andb_true_iff in H as [H _]. apply andb_true_iff in H as [H _].
  apply andb_true_iff in H as [H Hrun]. apply andb_true_iff in H as [Hfin Hinit].
  destruct (run_states_k _ 0 (kinit (sc_k c)) (kc_legs (sc_k c))) as [ss|] eqn:E; [|discriminate].
  split.
  - unfold check_kcase, run_ok. rewrite E, Hfin, Hinit. reflexivity.
  - exists ss. split; [reflexivity|]. apply samples_sliced_spec. exact Hrun.
Qed.

(** the recorded candidate times of a conforming periodic handler ARE the model's [nth_time] *)
Lemma nth_time_shift dt n : forall t, nth_time t dt (S n) = nth_time (time_add t dt) dt n.
Proof. induction n as [|n IH]; intro t; [reflexivity|]. change (nth_time t dt (S (S n))) with (time_add (nth_time t dt (S n)) dt). rewrite IH. reflexivity. Qed.

Lemma times_conform_nth dt ts : forall t,
  times_conform t dt ts = true ->
  forall k r, nth_error ts k = Some r -> time_bits_eqb (nth_time t dt (S k)) r = true.
Proof.
  induction ts as [|r0 ts IH]; intros t H k r Hk; destruct k; simpl in Hk; try discriminate.
  - inversion Hk; subst. simpl in H. apply andb_true_iff in H as [H _]. exact H.
  - simpl in H. apply andb_true_iff in H as [_ H]. rewrite nth_time_shift. apply (IH _ H k r Hk).
Qed.
