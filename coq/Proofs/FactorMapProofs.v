(** * Proofs/FactorMapProofs.v — the factor-file part of C10: for a well-formed file the in-states generated for an
    active point mass are exactly the index sets that contain it, instantiated once per other composite object
    (inter-object sets) or once (intra-object sets); the tagger's de-duplication is sound. *)
From Coq Require Import List ZArith Bool Lia Permutation.
Require Import JF.Model.FactorMap.
Import ListNotations.
Open Scope Z_scope.

(** ** equality tests *)
Lemma lz_eqb_spec a b : lz_eqb a b = true <-> a = b.
Proof.
  revert b. induction a as [|x a IH]; destruct b as [|y b]; simpl; split; intros H; try discriminate; auto.
  - apply andb_true_iff in H. destruct H as [H1 H2]. apply Z.eqb_eq in H1. apply IH in H2. subst; auto.
  - inversion H; subst. rewrite Z.eqb_refl. simpl. apply IH; auto.
Qed.

Lemma lz_eqb_refl a : lz_eqb a a = true.
Proof. apply lz_eqb_spec; auto. Qed.

Lemma lz_eqb_neq a b : a <> b -> lz_eqb a b = false.
Proof. intros H. destruct (lz_eqb a b) eqn:E; auto. apply lz_eqb_spec in E. contradiction. Qed.

Lemma llz_eqb_spec a b : llz_eqb a b = true <-> a = b.
Proof.
  revert b. induction a as [|x a IH]; destruct b as [|y b]; simpl; split; intros H; try discriminate; auto.
  - apply andb_true_iff in H. destruct H as [H1 H2]. apply lz_eqb_spec in H1. apply IH in H2. subst; auto.
  - inversion H; subst. rewrite lz_eqb_refl. simpl. apply IH; auto.
Qed.

Definition memz (a : Z) (S : iset) : bool := existsb (Z.eqb a) S.

Lemma memz_spec a S : memz a S = true <-> In a S.
Proof.
  unfold memz. rewrite existsb_exists. split.
  - intros (x & Hx & E). apply Z.eqb_eq in E. subst; auto.
  - intros H. exists a. split; auto. apply Z.eqb_refl.
Qed.

(** ** the tagger's set(...) *)
Theorem dedup_sound (l : list finstate) :
  NoDup (dedup l) /\ (forall x, In x (dedup l) <-> In x l).
Proof.
  induction l as [|x r [IH1 IH2]]; simpl.
  - split; [constructor|tauto].
  - destruct (existsb (llz_eqb x) r) eqn:E.
    + split; auto. intros y. rewrite IH2. split; auto. intros [->|H]; auto.
      apply existsb_exists in E. destruct E as (z & Hz & Ez). apply llz_eqb_spec in Ez. subst; auto.
    + split.
      * constructor; auto. rewrite IH2. intros H.
        assert (existsb (llz_eqb x) r = true); [|congruence].
        apply existsb_exists. exists x. split; auto. apply llz_eqb_spec; auto.
      * intros y. simpl. rewrite IH2. tauto.
Qed.

(** ** small maps *)
Lemma mget_mset_eq m k v : mget (mset m k v) k = Some v.
Proof.
  induction m as [|[k' w] r IH]; simpl.
  - rewrite Z.eqb_refl; auto.
  - destruct (Z.eqb k' k) eqn:E; simpl; rewrite E; auto.
Qed.

Lemma mget_mset_neq m k k' v : k' <> k -> mget (mset m k v) k' = mget m k'.
Proof.
  intros Hne. induction m as [|[k0 w] r IH]; simpl.
  - destruct (Z.eqb k k') eqn:E; auto. apply Z.eqb_eq in E. congruence.
  - destruct (Z.eqb k0 k) eqn:E; simpl.
    + apply Z.eqb_eq in E; subst. destruct (Z.eqb k k') eqn:E'; auto. apply Z.eqb_eq in E'. congruence.
    + destruct (Z.eqb k0 k'); auto.
Qed.

Lemma fget_fset_eq fs nm v : fget (fset fs nm v) nm = Some v.
Proof.
  induction fs as [|[k w] r IH]; simpl.
  - rewrite lz_eqb_refl; auto.
  - destruct (lz_eqb k nm) eqn:E; simpl; rewrite E; auto.
Qed.

Lemma fget_fset_neq fs nm nm' v : nm' <> nm -> fget (fset fs nm v) nm' = fget fs nm'.
Proof.
  intros Hne. induction fs as [|[k w] r IH]; simpl.
  - rewrite lz_eqb_neq; auto.
  - destruct (lz_eqb k nm) eqn:E; simpl.
    + apply lz_eqb_spec in E; subst. rewrite lz_eqb_neq; auto.
    + destruct (lz_eqb k nm'); auto.
Qed.

Definition msets (mp : list (Z * list iset)) (a : Z) : list iset :=
  match mget mp a with Some l => l | None => [] end.

(** append_to_map with a duplicate-free index set adds the set exactly once under each of its low indices *)
Lemma append_loop_sets n St : forall todo mp a,
  NoDup todo ->
  msets (append_loop n mp todo St) a = msets mp a ++ (if (a <? n) && memz a todo then [St] else []).
Proof.
  induction todo as [|i r IH]; intros mp a ND; simpl.
  - rewrite andb_false_r, app_nil_r. auto.
  - inversion ND as [|? ? Hnot ND']; subst.
    destruct (n <=? i) eqn:E.
    + rewrite IH by auto. f_equal.
      destruct (a <? n) eqn:Ea; simpl; auto.
      destruct (Z.eqb a i) eqn:Eai; simpl; auto.
      apply Z.eqb_eq in Eai. apply Z.leb_le in E. apply Z.ltb_lt in Ea. lia.
    + rewrite IH by auto.
      destruct (Z.eq_dec a i) as [->|Hne].
      * unfold msets at 1. rewrite mget_mset_eq. fold (msets mp i).
        assert (memz i r = false) as ->.
        { destruct (memz i r) eqn:M; auto. apply memz_spec in M. contradiction. }
        rewrite Z.eqb_refl. simpl. rewrite andb_false_r, app_nil_r.
        apply Z.leb_gt in E. apply Z.ltb_lt in E. rewrite E. simpl. auto.
      * unfold msets at 1. rewrite mget_mset_neq by auto. fold (msets mp a). f_equal.
        assert (Z.eqb a i = false) as -> by (apply Z.eqb_neq; auto). simpl. auto.
Qed.

(** ** views of the loaded maps *)
Definition sets_in (fs : fmaps) (nm : fname) (a : Z) : list iset :=
  match fget fs nm with Some m => sets_for m a | None => [] end.
Definition local_in (fs : fmaps) (nm : fname) : option bool :=
  match fget fs nm with Some m => fm_local m | None => None end.

Lemma wf_set_facts n St : wf_set n St = true ->
  St <> [] /\ (forall i, In i St -> 0 <= i < 2 * n) /\ NoDup St /\ (exists i, In i St /\ i < n).
Proof.
  unfold wf_set. intros H.
  repeat (apply andb_true_iff in H; let H' := fresh "H" in destruct H as [H H']).
  split; [|split; [|split]].
  - destruct St; [discriminate|congruence].
  - intros i Hi. rewrite forallb_forall in H2. specialize (H2 i Hi).
    apply andb_true_iff in H2. destruct H2 as [A B]. apply Z.leb_le in A. apply Z.ltb_lt in B. lia.
  - clear - H1. induction St as [|x r IH]; simpl in *; [constructor|].
    apply andb_true_iff in H1. destruct H1 as [A B]. constructor; auto.
    apply negb_true_iff in A. intros Hin.
    assert (existsb (Z.eqb x) r = true); [|congruence].
    apply existsb_exists. exists x. split; auto. apply Z.eqb_refl.
  - apply existsb_exists in H0. destruct H0 as (i & Hi & E). exists i. split; auto. apply Z.ltb_lt; auto.
Qed.

Lemma add_line_ok n fs St nm :
  wf_set n St = true ->
  (forall b, local_in fs nm = Some b -> b = is_local_set n St) ->
  exists fs', add_line n fs St nm = FOk fs'
    /\ (forall nm' a, sets_in fs' nm' a =
                      sets_in fs nm' a ++ (if lz_eqb nm nm' && ((a <? n) && memz a St) then [St] else []))
    /\ local_in fs' nm = Some (is_local_set n St)
    /\ (forall nm', nm' <> nm -> local_in fs' nm' = local_in fs nm').
Proof.
  intros W Hloc. destruct (wf_set_facts n St W) as (Hne & Hrange & ND & _).
  unfold add_line.
  assert (existsb (fun i => 2 * n <=? i) St = false) as ->.
  { destruct (existsb (fun i => 2 * n <=? i) St) eqn:E; auto.
    apply existsb_exists in E. destruct E as (i & Hi & E). apply Z.leb_le in E. specialize (Hrange i Hi). lia. }
  set (m := match fget fs nm with Some m => m | None => empty_fmap end).
  assert (Hm : exists m', set_local m (forallb (fun i => i <? n) St) = Some m'
                          /\ fm_map m' = fm_map m /\ fm_local m' = Some (is_local_set n St)).
  { unfold set_local. destruct (fm_local m) as [b|] eqn:El.
    - assert (b = is_local_set n St).
      { apply Hloc. unfold local_in, m in *. destruct (fget fs nm); auto; simpl in El; discriminate. }
      subst b. unfold is_local_set. rewrite Bool.eqb_reflx. exists m. auto.
    - eexists; split; [reflexivity|]. simpl. auto. }
  destruct Hm as (m' & -> & Hmap & Hl).
  eexists; split; [reflexivity|]. split; [|split].
  - intros nm' a. unfold sets_in.
    destruct (lz_eqb nm nm') eqn:E.
    + apply lz_eqb_spec in E; subst nm'. rewrite fget_fset_eq.
      unfold sets_for, append_to_map; simpl. fold (msets (append_loop n (fm_map m') St St) a).
      rewrite append_loop_sets by auto. rewrite Hmap. simpl. f_equal.
      unfold m. destruct (fget fs nm); auto.
    + rewrite fget_fset_neq by (intros ->; rewrite lz_eqb_refl in E; discriminate).
      simpl. rewrite app_nil_r. auto.
  - unfold local_in. rewrite fget_fset_eq. simpl. auto.
  - intros nm' Hne'. unfold local_in. rewrite fget_fset_neq by auto. auto.
Qed.

Lemma sets_of_cons St nm nm' r :
  sets_of nm' ((St, nm) :: r) = (if lz_eqb nm nm' then [St] else []) ++ sets_of nm' r.
Proof. unfold sets_of. simpl. destruct (lz_eqb nm nm'); auto. Qed.

Lemma wf_rest_facts n St nm r St' :
  wf_rest n St nm r = true -> In St' (sets_of nm r) ->
  is_local_set n St = is_local_set n St' /\ perm_lz St St' = false.
Proof.
  induction r as [|[S0 nm0] r IH]; simpl; intros H Hin; [simpl in Hin; contradiction|].
  apply andb_true_iff in H. destruct H as [H1 H2].
  rewrite sets_of_cons in Hin.
  destruct (lz_eqb nm0 nm) eqn:E.
  - apply lz_eqb_spec in E; subst nm0. rewrite lz_eqb_refl in H1.
    destruct Hin as [<-|Hin]; auto.
    apply andb_true_iff in H1. destruct H1 as [A B]. apply Bool.eqb_prop in A. apply negb_true_iff in B. auto.
  - simpl in Hin. auto.
Qed.

(** loading a well-formed file succeeds; the map of every factor type lists, under each low index, exactly the
    sets of that type that contain it, in file order; the locality of a type is the locality of its sets *)
Lemma load_parsed_ok n : forall f acc,
  wf_file n f = true ->
  (forall St nm b, In St (sets_of nm f) -> local_in acc nm = Some b -> b = is_local_set n St) ->
  exists fs, load_parsed n f acc = FOk fs
    /\ (forall nm a, 0 <= a < n -> sets_in fs nm a = sets_in acc nm a ++ filter (memz a) (sets_of nm f))
    /\ (forall nm St, In St (sets_of nm f) -> local_in fs nm = Some (is_local_set n St))
    /\ (forall nm, sets_of nm f = [] -> local_in fs nm = local_in acc nm).
Proof.
  induction f as [|[St nm] r IH]; intros acc W Hacc.
  - exists acc. simpl. split; auto. split; [|split]; auto.
    + intros. rewrite app_nil_r. auto.
    + intros ? ? [].
  - simpl in W. apply andb_true_iff in W. destruct W as [W Wr]. apply andb_true_iff in W. destruct W as [Ws Wrest].
    destruct (add_line_ok n acc St nm Ws) as (acc' & E & Hsets & Hl & Hlo).
    { intros b Hb. apply (Hacc St nm b); auto. rewrite sets_of_cons, lz_eqb_refl. left; auto. }
    simpl. rewrite E. simpl.
    destruct (IH acc' Wr) as (fs & E' & Hs' & Hl' & Hn').
    { intros St' nm' b Hin Hb.
      destruct (lz_eqb nm nm') eqn:Enm.
      - apply lz_eqb_spec in Enm; subst nm'. rewrite Hl in Hb. inversion Hb; subst.
        apply (wf_rest_facts n St nm r St'); auto.
      - assert (nm' <> nm) by (intros ->; rewrite lz_eqb_refl in Enm; discriminate).
        rewrite Hlo in Hb by auto. apply (Hacc St' nm' b); auto.
        rewrite sets_of_cons, Enm. auto. }
    exists fs. split; auto. split; [|split].
    + intros nm' a Ha. rewrite Hs' by auto. rewrite Hsets. rewrite <- app_assoc. f_equal.
      rewrite sets_of_cons.
      assert (a <? n = true) as -> by (apply Z.ltb_lt; lia). simpl.
      destruct (lz_eqb nm nm'); simpl; auto. destruct (memz a St); auto.
    + intros nm' St' Hin. rewrite sets_of_cons in Hin.
      destruct (lz_eqb nm nm') eqn:Enm.
      * apply lz_eqb_spec in Enm; subst nm'.
        destruct Hin as [<-|Hin].
        -- destruct (sets_of nm r) as [|S1 rest] eqn:Er.
           ++ rewrite Hn' by auto. auto.
           ++ rewrite (Hl' nm S1) by (rewrite Er; left; auto).
              f_equal. symmetry. apply (wf_rest_facts n St nm r S1); auto. rewrite Er; left; auto.
        -- apply Hl'; auto.
      * simpl in Hin. apply Hl'; auto.
    + intros nm' Hnil. rewrite sets_of_cons in Hnil.
      destruct (lz_eqb nm nm') eqn:Enm; [discriminate|]. simpl in Hnil.
      rewrite Hn' by auto. apply Hlo. intros ->. rewrite lz_eqb_refl in Enm; discriminate.
Qed.

(** the raw file and its parsed lines load to the same maps *)
Lemma load_file_parsed n : forall lines f acc,
  parse_file lines = Some f -> load_lines n lines acc = load_parsed n f acc.
Proof.
  induction lines as [|l r IH]; intros f acc H; simpl in *.
  - inversion H; subst. reflexivity.
  - destruct (is_comment l); auto.
    destruct (parse_line l) as [[indices nm]|]; [|discriminate].
    destruct (parse_file r) as [ps|] eqn:E; [|discriminate]. inversion H; subst. simpl.
    destruct (add_line n acc indices nm); simpl; auto.
Qed.

(** ** duplicate-freeness *)
Lemma perm_lz_refl a : perm_lz a a = true.
Proof. induction a as [|x r IH]; simpl; auto. rewrite Z.eqb_refl. auto. Qed.

Lemma wf_sets_nodup n f nm : wf_file n f = true -> NoDup (sets_of nm f).
Proof.
  induction f as [|[St nm0] r IH]; simpl; intros W; [constructor|].
  apply andb_true_iff in W. destruct W as [W Wr]. apply andb_true_iff in W. destruct W as [Ws Wrest].
  rewrite sets_of_cons. destruct (lz_eqb nm0 nm) eqn:E; simpl; auto.
  apply lz_eqb_spec in E; subst nm0. constructor; auto.
  intros Hin. destruct (wf_rest_facts n St nm r St Wrest Hin) as [_ P]. rewrite perm_lz_refl in P. discriminate.
Qed.

Lemma nodup_app {A} (a b : list A) :
  NoDup a -> NoDup b -> (forall x, In x a -> ~ In x b) -> NoDup (a ++ b).
Proof.
  induction a as [|x r IH]; simpl; intros Ha Hb Hd; auto.
  inversion Ha; subst. constructor.
  - rewrite in_app_iff. intros [H|H]; auto. apply (Hd x); auto.
  - apply IH; auto.
Qed.

Lemma nodup_flat_map {A B} (f : A -> list B) (l : list A) :
  NoDup l -> (forall x, In x l -> NoDup (f x)) ->
  (forall x y z, In x l -> In y l -> x <> y -> In z (f x) -> ~ In z (f y)) ->
  NoDup (flat_map f l).
Proof.
  induction l as [|a r IH]; simpl; intros ND Hf Hd; [constructor|].
  inversion ND; subst. apply nodup_app.
  - apply Hf; auto.
  - apply IH; auto. intros x y z Hx Hy. apply Hd; auto.
  - intros z Hz Hz'. apply in_flat_map in Hz'. destruct Hz' as (y & Hy & Hzy).
    apply (Hd a y z); auto. intros ->. contradiction.
Qed.

Lemma nodup_map_inj {A B} (f : A -> B) (l : list A) :
  (forall x y, In x l -> In y l -> f x = f y -> x = y) -> NoDup l -> NoDup (map f l).
Proof.
  induction l as [|a r IH]; simpl; intros Hinj ND; [constructor|].
  inversion ND; subst. constructor.
  - intros H. apply in_map_iff in H. destruct H as (y & E & Hy).
    assert (y = a) by (apply Hinj; auto). subst. contradiction.
  - apply IH; auto.
Qed.

Lemma fzrange_from_spec k : forall a x, In x (fzrange_from a k) <-> a <= x < a + Z.of_nat k.
Proof.
  induction k as [|k IH]; intros a x; simpl fzrange_from.
  - simpl. lia.
  - simpl In. rewrite IH. lia.
Qed.

Lemma fzrange_from_nodup k : forall a, NoDup (fzrange_from a k).
Proof.
  induction k as [|k IH]; intros a; simpl; constructor; auto.
  rewrite fzrange_from_spec. lia.
Qed.

Lemma fzrange_spec n x : In x (fzrange n) <-> 0 <= x < n.
Proof. unfold fzrange. rewrite fzrange_from_spec. lia. Qed.

Lemma inst_local_inj r S1 S2 : inst_local r S1 = inst_local r S2 -> S1 = S2.
Proof.
  revert S2. induction S1 as [|x a IH]; destruct S2 as [|y b]; simpl; intros H; try discriminate; auto.
  inversion H; subst. f_equal; auto.
Qed.

(** position-wise comparison of two instantiations *)
Lemma inst_eq n r o o' : o <> r -> o' <> r -> forall S1 S2,
  inst n r o S1 = inst n r o' S2 ->
  S1 = S2 /\ ((exists t, In t S1 /\ ~ t < n) -> o = o').
Proof.
  intros Ho Ho'. induction S1 as [|x a IH]; destruct S2 as [|y b]; simpl; intros H; try discriminate.
  - split; auto. intros (t & [] & _).
  - inversion H as [[H1 H2]]. destruct (IH _ H2) as [-> Hoo].
    destruct (x <? n) eqn:Ex; destruct (y <? n) eqn:Ey; inversion H1; subst; try congruence.
    + split; auto. intros (t & [->|Ht] & Hn); [apply Z.ltb_lt in Ex; contradiction|]. apply Hoo; eauto.
    + split; [f_equal; lia|]. auto.
Qed.

(** ** the generated in-states *)
Section Exact.
  Variables (n nroot : Z) (f : pfile) (fs : fmaps).
  Hypothesis f_wf : wf_file n f = true.
  Hypothesis f_loaded : load_parsed n f [] = FOk fs.

  Lemma loaded_facts :
    (forall nm a, 0 <= a < n -> sets_in fs nm a = filter (memz a) (sets_of nm f))
    /\ (forall nm St, In St (sets_of nm f) -> local_in fs nm = Some (is_local_set n St)).
  Proof.
    destruct (load_parsed_ok n f [] f_wf) as (fs' & E & Hs & Hl & _).
    { intros ? ? ? _ H. discriminate. }
    rewrite f_loaded in E. inversion E; subst fs'. split; auto.
  Qed.

  (** the index sets of type [nm] that contain the leaf index [a] *)
  Definition sets_with (nm : fname) (a : Z) : list iset := filter (memz a) (sets_of nm f).

  Lemma sets_with_nodup nm a : NoDup (sets_with nm a).
  Proof. apply NoDup_filter. apply (wf_sets_nodup n); auto. Qed.

  (** intra-object factor type: one in-state per index set that contains the active leaf *)
  Theorem factor_map_exact_intra nm m r a :
    fget fs nm = Some m -> fm_local m = Some true ->
    0 <= r < nroot -> 0 <= a < n ->
    yield_factor_identifier n nroot m [r; a] = FOk (map (inst_local r) (sets_with nm a))
    /\ NoDup (map (inst_local r) (sets_with nm a)).
  Proof.
    intros Hm Hl Hr Ha. destruct loaded_facts as [Hs _]. split.
    - unfold yield_factor_identifier. rewrite Hl. unfold yield_local.
      assert (r <? nroot = true) as -> by (apply Z.ltb_lt; lia).
      specialize (Hs nm a Ha). unfold sets_in in Hs. rewrite Hm in Hs. rewrite Hs. reflexivity.
    - apply nodup_map_inj; [|apply sets_with_nodup]. intros; apply (inst_local_inj r); auto.
  Qed.

  Definition other_roots (r : Z) : list Z := filter (fun o => negb (Z.eqb o r)) (fzrange nroot).

  Lemma flat_map_if_filter {A} (g : Z -> list A) r l :
    flat_map (fun o => if Z.eqb o r then [] else g o) l = flat_map g (filter (fun o => negb (Z.eqb o r)) l).
  Proof.
    induction l as [|o t IH]; simpl; auto. destruct (Z.eqb o r); simpl; rewrite IH; auto.
  Qed.

  (** inter-object factor type: one in-state per index set that contains the active leaf and per other composite
      object *)
  Theorem factor_map_exact_inter nm m r a :
    fget fs nm = Some m -> fm_local m = Some false -> 1 < n ->
    0 <= r < nroot -> 0 <= a < n ->
    let spec := flat_map (fun o => map (inst n r o) (sets_with nm a)) (other_roots r) in
    yield_factor_identifier n nroot m [r; a] = FOk spec /\ NoDup spec.
  Proof.
    intros Hm Hl Hn Hr Ha spec. destruct loaded_facts as [Hs Hloc]. split.
    - unfold yield_factor_identifier. rewrite Hl.
      assert (n =? 1 = false) as -> by (apply Z.eqb_neq; lia).
      unfold yield_non_local.
      assert ((r <? nroot) && (a <? n) = true) as ->.
      { apply andb_true_iff. split; apply Z.ltb_lt; lia. }
      specialize (Hs nm a Ha). unfold sets_in in Hs. rewrite Hm in Hs. rewrite Hs.
      rewrite flat_map_if_filter. reflexivity.
    - unfold spec, other_roots.
      assert (Hhigh : forall St, In St (sets_with nm a) -> exists t, In t St /\ ~ t < n).
      { intros St Hin. unfold sets_with in Hin. apply filter_In in Hin. destruct Hin as [Hin _].
        specialize (Hloc nm St Hin). unfold local_in in Hloc. rewrite Hm, Hl in Hloc.
        inversion Hloc as [Hf]. symmetry in Hf. unfold is_local_set in Hf.
        assert (Hex : ~ (forall x, In x St -> (x <? n) = true)).
        { intros Hall. apply forallb_forall in Hall. congruence. }
        clear - Hex. induction St as [|x t IH].
        - exfalso. apply Hex. intros ? [].
        - destruct (x <? n) eqn:E.
          + destruct IH as (t0 & Ht & Hn).
            * intros Hall. apply Hex. intros y [<-|Hy]; auto.
            * exists t0. split; auto. right; auto.
          + exists x. split; [left; auto|]. apply Z.ltb_ge in E. lia. }
      apply nodup_flat_map.
      + apply NoDup_filter. apply fzrange_from_nodup.
      + intros o Ho. apply filter_In in Ho. destruct Ho as [_ Ho]. apply negb_true_iff, Z.eqb_neq in Ho.
        apply nodup_map_inj; [|apply sets_with_nodup].
        intros x y _ _ E. apply (inst_eq n r o o Ho Ho x y E).
      + intros o o' z Ho Ho' Hne Hz Hz'.
        apply filter_In in Ho. destruct Ho as [_ Ho]. apply negb_true_iff, Z.eqb_neq in Ho.
        apply filter_In in Ho'. destruct Ho' as [_ Ho']. apply negb_true_iff, Z.eqb_neq in Ho'.
        apply in_map_iff in Hz. destruct Hz as (S1 & <- & HS1).
        apply in_map_iff in Hz'. destruct Hz' as (S2 & E & HS2). symmetry in E.
        destruct (inst_eq n r o o' Ho Ho' S1 S2 E) as [_ Hoo]. apply Hne. apply Hoo. apply Hhigh; auto.
  Qed.

  (** element-wise reading *)
  Corollary factor_map_inter_members nm a r x :
    In x (flat_map (fun o => map (inst n r o) (sets_with nm a)) (other_roots r)) <->
    exists St o, In St (sets_of nm f) /\ In a St /\ 0 <= o < nroot /\ o <> r /\ x = inst n r o St.
  Proof.
    rewrite in_flat_map. split.
    - intros (o & Ho & Hx). unfold other_roots in Ho. apply filter_In in Ho. destruct Ho as [Ho Hne].
      apply fzrange_spec in Ho. apply negb_true_iff, Z.eqb_neq in Hne.
      apply in_map_iff in Hx. destruct Hx as (St & <- & HS). unfold sets_with in HS. apply filter_In in HS.
      destruct HS as [HS Hm]. apply memz_spec in Hm. exists St, o. auto.
    - intros (St & o & HS & Ha & Ho & Hne & ->). exists o. split.
      + unfold other_roots. apply filter_In. split; [apply fzrange_spec; auto|].
        apply negb_true_iff, Z.eqb_neq; auto.
      + apply in_map. unfold sets_with. apply filter_In. split; auto. apply memz_spec; auto.
  Qed.

  Corollary factor_map_intra_members nm a r x :
    In x (map (inst_local r) (sets_with nm a)) <->
    exists St, In St (sets_of nm f) /\ In a St /\ x = inst_local r St.
  Proof.
    rewrite in_map_iff. split.
    - intros (St & <- & HS). unfold sets_with in HS. apply filter_In in HS. destruct HS as [HS Hm].
      apply memz_spec in Hm. eauto.
    - intros (St & HS & Ha & ->). exists St. split; auto. unfold sets_with. apply filter_In. split; auto.
      apply memz_spec; auto.
  Qed.
End Exact.

(** a well-formed file always loads *)
Theorem wf_file_loads n lines f :
  parse_file lines = Some f -> wf_file n f = true ->
  exists fs, load_file n lines = FOk fs /\ load_parsed n f [] = FOk fs.
Proof.
  intros Hp W. destruct (load_parsed_ok n f [] W) as (fs & E & _).
  { intros ? ? ? _ H. discriminate. }
  exists fs. split; auto. unfold load_file. rewrite (load_file_parsed n lines f [] Hp). auto.
Qed.

(** the tagger: duplicate-free, and exactly the in-states generated for some active leaf *)
Theorem tagger_dedup n nroot fs nm acts d :
  tagger_in_states n nroot fs nm acts = FOk d ->
  exists l, yield_all n nroot fs nm acts = FOk l /\ NoDup d /\ (forall x, In x d <-> In x l).
Proof.
  unfold tagger_in_states. destruct (yield_all n nroot fs nm acts) as [l|e]; simpl; intros H; [|discriminate].
  inversion H; subst. exists l. split; auto. apply dedup_sound.
Qed.

Lemma yield_all_members n nroot fs nm : forall acts l,
  yield_all n nroot fs nm acts = FOk l ->
  forall x, In x l <-> exists a la, In a acts /\ yield_for n nroot fs nm a = FOk la /\ In x la.
Proof.
  induction acts as [|a r IH]; simpl; intros l H x.
  - inversion H; subst. split; [intros []|intros (? & ? & [] & _)].
  - destruct (yield_for n nroot fs nm a) as [la|] eqn:E; [|discriminate]. simpl in H.
    destruct (yield_all n nroot fs nm r) as [lr|] eqn:Er; [|discriminate]. simpl in H. inversion H; subst.
    rewrite in_app_iff, (IH lr eq_refl). split.
    + intros [Hx|(a' & la' & Ha' & E' & Hx)].
      * exists a, la. auto.
      * exists a', la'. auto.
    + intros (a' & la' & [<-|Ha'] & E' & Hx).
      * left. congruence.
      * right. eauto.
Qed.

(** without composite objects (one point mass per root node) the factor type maps ignore the index sets and pair
    the active unit with every other root node, each once *)
Theorem no_composite_exact nroot r :
  0 <= r < nroot ->
  let spec := map (fun o => [[r]; [o]]) (other_roots nroot r) in
  yield_no_composite nroot [r] = FOk spec /\ NoDup spec
  /\ (forall m, fm_local m = Some false -> yield_factor_identifier 1 nroot m [r] = FOk spec)
  /\ yield_default 1 nroot [r] = FOk spec.
Proof.
  intros Hr spec.
  assert (E : yield_no_composite nroot [r] = FOk spec).
  { unfold yield_no_composite. assert (r <? nroot = true) as -> by (apply Z.ltb_lt; lia).
    rewrite flat_map_if_filter. unfold spec, other_roots. apply f_equal.
    generalize (filter (fun o : Z => negb (o =? r)) (fzrange nroot)) as l.
    induction l as [|x l IHl]; [reflexivity|]. simpl. rewrite IHl. reflexivity. }
  split; auto. split; [|split].
  - unfold spec. apply nodup_map_inj.
    + intros x y _ _ H. inversion H; auto.
    + unfold other_roots. apply NoDup_filter. apply fzrange_from_nodup.
  - intros m Hm. unfold yield_factor_identifier. rewrite Hm. simpl. exact E.
  - unfold yield_default. simpl. exact E.
Qed.
