(** * Proofs/MultiMediatorProofs.v — proofs about Model/MultiMediator.v (C20). *)
From Coq Require Import List ZArith Bool Arith Lia.
Require Import JF.Model.MultiMediator.
Import ListNotations.

(* ------------------------------------------------------------------------------------------- *)
(** ** Level B: one pipe + events + worker *)
Section ChannelProofs.
  Variable ne no : bool.

  (** Reachable states of one handler's channel, by mediator stage. *)
  Definition chan_inv (c : chan) : Prop :=
    k_werr c = false /\ k_merr c = false /\
    match k_stage c with
    | Idle => k_start c = false /\ k_cont c = false /\ k_out c = [] /\ k_args c = 0 /\
              (k_pc c = W0 \/ k_pc c = W1)
    | ETS => k_cont c = false /\
             ((k_start c = true /\ (k_pc c = W0 \/ k_pc c = W1) /\ k_out c = [] /\ k_args c = b2n ne)
              \/ (k_start c = false /\ k_pc c = WT /\ k_out c = [] /\ k_args c = b2n ne)
              \/ (k_start c = false /\ k_pc c = W1 /\ k_out c = [MTime] /\ k_args c = 0))
    | Susp => k_start c = false /\ k_cont c = false /\ k_pc c = W1 /\ k_out c = [] /\ k_args c = 0
    | OSS => k_start c = false /\
             ((k_cont c = true /\ k_pc c = W1 /\ k_out c = [] /\ k_args c = b2n no)
              \/ (k_cont c = false /\ k_pc c = WO /\ k_out c = [] /\ k_args c = b2n no)
              \/ (k_cont c = false /\ k_pc c = W0 /\ k_out c = [MOut] /\ k_args c = 0))
    end.

  Lemma chan_inv_init : chan_inv chan_init.
  Proof. unfold chan_inv, chan_init; simpl; intuition. Qed.

  Ltac crush_chan :=
    repeat match goal with
           | H : _ /\ _ |- _ => destruct H
           | H : _ \/ _ |- _ => destruct H
           end; subst; simpl in *; try discriminate;
    repeat match goal with
           | H : Some _ = Some _ |- _ => inversion H; clear H; subst
           end; simpl in *; try discriminate.

  Lemma chan_inv_mstep : forall a c c', chan_inv c -> mstep ne no a c = Some c' -> chan_inv c'.
  Proof.
    intros a [stg st ct pc ar ou we me] c' Hinv Hs.
    unfold chan_inv in *; simpl in *.
    destruct Hinv as (Hwe & Hme & Hinv); subst we me.
    destruct a; destruct stg; simpl in Hs; crush_chan; simpl;
      try (destruct ne; simpl; intuition; fail);
      try (destruct no; simpl; intuition; fail);
      intuition.
  Qed.

  Lemma chan_inv_wstep : forall c c', chan_inv c -> wstep ne no c = Some c' -> chan_inv c'.
  Proof.
    intros [stg st ct pc ar ou we me] c' Hinv Hs.
    unfold chan_inv in *; simpl in *.
    destruct Hinv as (Hwe & Hme & Hinv); subst we me.
    destruct stg; crush_chan; unfold wstep in Hs; simpl in Hs;
      try (destruct ne; simpl in Hs; crush_chan; simpl; intuition; fail);
      try (destruct no; simpl in Hs; crush_chan; simpl; intuition; fail);
      crush_chan; simpl; intuition.
  Qed.

  (** Every interleaving of (enabled) mediator actions and worker steps stays inside the invariant. *)
  Theorem chan_inv_run : forall l c, chan_inv c -> chan_inv (crun ne no l c).
  Proof.
    induction l as [|a l IH]; intros c Hc; simpl; auto.
    apply IH. destruct (cstep ne no a c) eqn:E; auto.
    destruct a; simpl in E; eauto using chan_inv_mstep, chan_inv_wstep.
  Qed.

  (** Consequences of the invariant. *)
  Lemma inv_no_error : forall c, chan_inv c -> k_werr c = false /\ k_merr c = false.
  Proof. unfold chan_inv; intuition. Qed.

  (** A pipe holds an object only if the mediator's stage says a request is outstanding, and the object is of
      the kind the stage announces: the "already finished" MediatorError branch is unreachable and a
      candidate time is never mistaken for an out-state. *)
  Lemma inv_ready_only_if_requested :
    forall c, chan_inv c -> k_out c <> [] ->
              (k_stage c = ETS /\ k_out c = [MTime]) \/ (k_stage c = OSS /\ k_out c = [MOut]).
  Proof.
    intros [stg st ct pc ar ou we me] (_ & _ & Hinv) Hne; simpl in *.
    destruct stg; crush_chan; try congruence; auto.
  Qed.

  (** The two events are never set together (the worker's assert). *)
  Lemma inv_events_exclusive : forall c, chan_inv c -> k_start c && k_cont c = false.
  Proof.
    intros [stg st ct pc ar ou we me] (_ & _ & Hinv); simpl in *.
    destruct stg; crush_chan; auto.
  Qed.

  (** The worker answers: with a request outstanding, at most three worker steps put the answer into the
      pipe, and none of them blocks. *)
  Theorem worker_answers :
    forall c, chan_inv c -> (k_stage c = ETS \/ k_stage c = OSS) ->
              exists k, k <= 3 /\ k_out (wsteps ne no k c) <> [].
  Proof.
    intros [stg st ct pc ar ou we me] (Hwe & Hme & Hinv) Hst; simpl in *.
    destruct Hst; subst stg; crush_chan.
    - exists 2. split; [lia|]. destruct ne; simpl; discriminate.
    - exists 3. split; [lia|]. destruct ne; simpl; discriminate.
    - exists 1. split; [lia|]. destruct ne; simpl; discriminate.
    - exists 0. split; [lia|]. simpl; discriminate.
    - exists 2. split; [lia|]. destruct no; simpl; discriminate.
    - exists 1. split; [lia|]. destruct no; simpl; discriminate.
    - exists 0. split; [lia|]. simpl; discriminate.
  Qed.

  (** An idle or suspended worker is blocked on the or-event: it neither computes nor sends. *)
  Lemma inv_blocked_when_not_requested :
    forall c, chan_inv c -> (k_stage c = Idle \/ k_stage c = Susp) -> k_out c = [] /\ wstep ne no c = None.
  Proof.
    intros [stg st ct pc ar ou we me] (_ & _ & Hinv) Hst; simpl in *.
    destruct Hst; subst stg; crush_chan; auto.
  Qed.
End ChannelProofs.

(* ------------------------------------------------------------------------------------------- *)
(** ** Scheduler *)
Lemma sched_min_in : forall p e, sched_min p = Some e -> In e p.
Proof.
  induction p as [|[h t] r IH]; simpl; intros e He; [discriminate|].
  destruct (sched_min r) as [[h' t']|] eqn:E.
  - destruct (t <=? t')%Z; inversion He; subst; auto.
  - inversion He; auto.
Qed.

Lemma sched_min_none : forall p, sched_min p = None -> p = [].
Proof.
  destruct p as [|[h t] r]; simpl; auto. destruct (sched_min r) as [[h' t']|]; [destruct (t <=? t')%Z|]; discriminate.
Qed.

(** With a strict minimum the scheduler's answer depends on the set of pending events only,
    not on the order in which they were pushed. *)
Lemma sched_min_unique :
  forall p h t, In (h, t) p -> (forall e, In e p -> e = (h, t) \/ (t < snd e)%Z) -> sched_min p = Some (h, t).
Proof.
  induction p as [|[h0 t0] r IH]; simpl; intros h t Hin Hmin; [contradiction|].
  destruct (sched_min r) as [[h' t']|] eqn:E.
  - assert (Hr : In (h', t') r) by (apply sched_min_in; auto).
    destruct (Hmin (h0, t0) (or_introl eq_refl)) as [Heq | Hlt].
    + inversion Heq; subst.
      destruct (Hmin (h', t') (or_intror Hr)) as [Heq' | Hlt'].
      * inversion Heq'; subst. rewrite Z.leb_refl. reflexivity.
      * simpl in Hlt'. assert (Hle : (t <=? t')%Z = true) by (apply Z.leb_le; lia). rewrite Hle. reflexivity.
    + simpl in Hlt. destruct Hin as [Hin | Hin]; [inversion Hin; subst; lia|].
      assert (Hs : Some (h', t') = Some (h, t)).
      { apply IH; auto. }
      inversion Hs; subst.
      assert (Hle : (t0 <=? t)%Z = false) by (apply Z.leb_gt; lia). rewrite Hle. reflexivity.
  - apply sched_min_none in E. subst r. destruct Hin as [Hin | []]. rewrite Hin. reflexivity.
Qed.

Lemma sched_trash_in : forall e h p, In e (sched_trash h p) <-> In e p /\ fst e <> h.
Proof.
  intros e h p. unfold sched_trash. rewrite filter_In. rewrite negb_true_iff, Nat.eqb_neq. tauto.
Qed.

Lemma memb_In : forall h l, memb h l = true <-> In h l.
Proof.
  intros h l. unfold memb. rewrite existsb_exists. split.
  - intros (x & Hx & He). apply Nat.eqb_eq in He. subst; auto.
  - intros Hin. exists h. split; auto. apply Nat.eqb_refl.
Qed.

Lemma memb_false : forall h l, memb h l = false <-> ~ In h l.
Proof.
  intros h l. rewrite <- memb_In. destruct (memb h l); split; congruence.
Qed.

Lemma nodupb_NoDup : forall l, nodupb l = true -> NoDup l.
Proof.
  induction l as [|x r IH]; simpl; intros Hn; [constructor|].
  apply andb_true_iff in Hn. destruct Hn as [Hx Hr]. apply negb_true_iff, memb_false in Hx.
  constructor; auto.
Qed.

Lemma upd_same : forall A (f : H -> A) h v, upd f h v h = v.
Proof. intros. unfold upd. rewrite Nat.eqb_refl. reflexivity. Qed.

Lemma upd_other : forall A (f : H -> A) h v x, x <> h -> upd f h v x = f x.
Proof. intros A f h v x Hx. unfold upd. apply Nat.eqb_neq in Hx. rewrite Hx. reflexivity. Qed.

(* ------------------------------------------------------------------------------------------- *)
(** ** Level A: mediators *)
Section MediatorProofs.
  Variable OS : Type.
  Variable ncores : nat.
  Variable has_args : H -> bool.
  Variable to_run : hist OS -> list H.
  Variable ev_time : H -> hist OS -> Z.
  Variable out_state : H -> hist OS -> hist OS -> OS.
  Variable trash_of : hist OS -> list H.

  Notation sstate := (sstate OS).
  Notation mstate := (mstate OS).
  Notation lstate := (lstate OS).
  Notation s_request := (s_request OS ev_time).
  Notation s_trash_one := (s_trash_one OS).
  Notation sp_leg := (sp_leg OS has_args to_run ev_time out_state trash_of).
  Notation sp_run := (sp_run OS has_args to_run ev_time out_state trash_of).
  Notation sp_leg_wf := (sp_leg_wf OS has_args to_run ev_time out_state trash_of).
  Notation sp_run_wf := (sp_run_wf OS has_args to_run ev_time out_state trash_of).
  Notation out_of := (out_of OS has_args out_state).
  Notation m_start := (m_start OS).
  Notation start_ahead := (start_ahead OS).
  Notation process_one := (process_one OS ncores has_args ev_time out_state).
  Notation process_batch := (process_batch OS ncores has_args ev_time out_state).
  Notation wait_loop := (wait_loop OS ncores has_args ev_time out_state).
  Notation m_trash_one := (m_trash_one OS).
  Notation finish_leg := (finish_leg OS has_args out_state trash_of).
  Notation mp_leg := (mp_leg OS ncores has_args to_run ev_time out_state trash_of).
  Notation mp_run := (mp_run OS ncores has_args to_run ev_time out_state trash_of).
  Notation mk hist0 := (fun h : H => (h, ev_time h hist0)).

  (** *** Single-process folds *)
  Lemma s_request_fold : forall hist0 run s,
      let s1 := fold_left (s_request hist0) run s in
      s_hist OS s1 = s_hist OS s /\
      s_pend OS s1 = s_pend OS s ++ map (mk hist0) run /\
      (forall h, s_het OS s1 h = if memb h run then hist0 else s_het OS s h).
  Proof.
    intros hist0 run. induction run as [|x r IH]; intros s; simpl.
    - rewrite app_nil_r. auto.
    - destruct (IH (s_request hist0 s x)) as (Hh & Hp & Ht). simpl in *.
      split; [exact Hh|]. split.
      + rewrite Hp. rewrite <- app_assoc. reflexivity.
      + intros h. rewrite Ht. unfold upd.
        destruct (Nat.eqb h x); simpl; destruct (memb h r); reflexivity.
  Qed.

  Lemma s_trash_fold : forall T s,
      let s1 := fold_left s_trash_one T s in
      s_hist OS s1 = s_hist OS s /\ s_het OS s1 = s_het OS s /\
      (forall e, In e (s_pend OS s1) <-> In e (s_pend OS s) /\ ~ In (fst e) T).
  Proof.
    induction T as [|x r IH]; intros s; simpl.
    - intuition.
    - destruct (IH (s_trash_one s x)) as (Hh & Ht & Hp). simpl in *.
      split; [exact Hh|]. split; [exact Ht|].
      intros e. rewrite Hp. rewrite sched_trash_in. intuition.
  Qed.

  (** *** Multi-process: start phase *)
  Lemma m_start_fold : forall hist0 run m,
      NoDup run -> (forall h, In h run -> m_stg OS m h = Idle) ->
      exists m1, fold_left (m_start hist0) run (inl m) = inl m1 /\
                 m_hist OS m1 = m_hist OS m /\ m_pend OS m1 = m_pend OS m /\ m_ost OS m1 = m_ost OS m /\
                 (forall h, m_stg OS m1 h = if memb h run then ETS else m_stg OS m h) /\
                 (forall h, m_het OS m1 h = if memb h run then hist0 else m_het OS m h).
  Proof.
    intros hist0 run. induction run as [|x r IH]; intros m Hnd Hidle; simpl.
    - exists m. intuition.
    - inversion Hnd as [|? ? Hx Hr]; subst.
      rewrite (Hidle x (or_introl eq_refl)). simpl.
      match goal with |- context [fold_left _ r (inl ?mm)] =>
        assert (Hpre : forall h, In h r -> m_stg OS mm h = Idle);
          [| destruct (IH mm Hr Hpre) as (m1 & Hf & Hh & Hp & Ho & Hs & Ht)] end.
      { intros h Hin. simpl. rewrite upd_other; [apply Hidle; right; assumption|]. intro; subst; contradiction. }
      exists m1. simpl in *. repeat split; auto.
      + intros h. rewrite Hs. unfold upd.
        destruct (Nat.eqb h x) eqn:E; simpl; destruct (memb h r) eqn:E2; auto.
      + intros h. rewrite Ht. unfold upd.
        destruct (Nat.eqb h x) eqn:E; simpl; destruct (memb h r) eqn:E2; auto.
  Qed.

  (** *** Multi-process: trash loop *)
  Lemma m_trash_one_spec : forall m e,
      let m1 := m_trash_one m e in
      m_hist OS m1 = m_hist OS m /\ m_het OS m1 = m_het OS m /\
      m_pend OS m1 = sched_trash e (m_pend OS m) /\
      (forall h, h <> e -> m_stg OS m1 h = m_stg OS m h /\ m_ost OS m1 h = m_ost OS m h) /\
      m_ost OS m1 e = None /\
      (m_stg OS m e <> ETS -> m_stg OS m1 e = Idle) /\
      (forall h, m_stg OS m1 h = ETS -> m_stg OS m h = ETS).
  Proof.
    intros m e. unfold m_trash_one. simpl.
    destruct (m_ost OS m e) eqn:Eo; simpl; destruct (m_stg OS m e) eqn:Es; simpl;
      repeat split; auto; intros;
        try (rewrite upd_other by auto; reflexivity);
        try (rewrite upd_same; reflexivity); try congruence;
          try (unfold upd in *; destruct (Nat.eqb h e) eqn:E; [discriminate | assumption]).
    all: try (unfold upd in *; destruct (Nat.eqb h e) eqn:E; [apply Nat.eqb_eq in E; subst; congruence | assumption]).
  Qed.

  Lemma m_trash_fold : forall T m,
      (forall h, m_stg OS m h <> ETS) ->
      let m1 := fold_left m_trash_one T m in
      m_hist OS m1 = m_hist OS m /\ m_het OS m1 = m_het OS m /\
      (forall e, In e (m_pend OS m1) <-> In e (m_pend OS m) /\ ~ In (fst e) T) /\
      (forall h, In h T -> m_stg OS m1 h = Idle /\ m_ost OS m1 h = None) /\
      (forall h, ~ In h T -> m_stg OS m1 h = m_stg OS m h /\ m_ost OS m1 h = m_ost OS m h).
  Proof.
    induction T as [|x r IH]; intros m Hne; simpl.
    - intuition.
    - destruct (m_trash_one_spec m x) as (Hh & Ht & Hp & Hoth & Hox & Hsx & Hnew).
      assert (Hne' : forall h, m_stg OS (m_trash_one m x) h <> ETS) by (intros h Hc; apply (Hne h); auto).
      destruct (IH (m_trash_one m x) Hne') as (Hh2 & Ht2 & Hp2 & Hin2 & Hout2).
      split; [congruence|]. split; [congruence|]. split; [|split].
      + intros e. rewrite Hp2, Hp, sched_trash_in. intuition.
      + intros h Hin. destruct (in_dec Nat.eq_dec h r) as [Hr | Hr]; [apply Hin2; auto|].
        destruct Hin as [Hx | Hr']; [subst h | contradiction].
        destruct (Hout2 x Hr) as (Hs3 & Ho3). rewrite Hs3, Ho3. split; auto.
      + intros h Hnin. assert (Hhx : h <> x) by (intro; subst; apply Hnin; auto).
        assert (Hhr : ~ In h r) by (intro; apply Hnin; auto).
        destruct (Hout2 h Hhr) as (Hs3 & Ho3). destruct (Hoth h Hhx) as (Hs4 & Ho4). split; congruence.
  Qed.

  (** *** Multi-process: the receive loop *)
  Definition count_ets (stg : H -> stage) (l : list H) : nat :=
    length (filter (fun p => is_ets (stg p)) l).

  Lemma count_upd_notin : forall stg h v l, ~ In h l -> count_ets (upd stg h v) l = count_ets stg l.
  Proof.
    intros stg h v l. unfold count_ets. induction l as [|x r IH]; simpl; intros Hn; auto.
    rewrite upd_other by (intro; subst; apply Hn; auto).
    destruct (is_ets (stg x)); simpl; rewrite IH; auto.
  Qed.

  Lemma count_upd_nonets : forall stg h v l,
      stg h <> ETS -> v <> ETS -> count_ets (upd stg h v) l = count_ets stg l.
  Proof.
    intros stg h v l Hs Hv. unfold count_ets. induction l as [|x r IH]; simpl; auto.
    unfold upd at 1. destruct (Nat.eqb x h) eqn:E.
    - apply Nat.eqb_eq in E. subst x.
      destruct v; try congruence; destruct (stg h); try congruence; simpl; auto.
    - destruct (is_ets (stg x)); simpl; rewrite IH; auto.
  Qed.

  Lemma count_upd_ets : forall stg h v l,
      NoDup l -> In h l -> stg h = ETS -> v <> ETS -> S (count_ets (upd stg h v) l) = count_ets stg l.
  Proof.
    intros stg h v l Hnd. induction Hnd as [|x r Hx Hr IH]; simpl; intros Hin Hs Hv; [contradiction|].
    unfold count_ets in *. simpl. unfold upd at 1. destruct (Nat.eqb x h) eqn:E.
    - apply Nat.eqb_eq in E. subst x. rewrite Hs. simpl.
      assert (Hv' : is_ets v = false) by (destruct v; auto; congruence). rewrite Hv'.
      f_equal. apply (count_upd_notin stg h v r Hx).
    - apply Nat.eqb_neq in E. destruct Hin as [Hin | Hin]; [congruence|].
      destruct (is_ets (stg x)); simpl; rewrite <- IH; auto.
  Qed.

  Lemma count_all_ets : forall stg l, (forall x, In x l -> stg x = ETS) -> count_ets stg l = length l.
  Proof.
    intros stg l. unfold count_ets. induction l as [|x r IH]; simpl; intros Ha; auto.
    rewrite (Ha x (or_introl eq_refl)). simpl. rewrite IH; auto.
  Qed.

  Lemma count_zero : forall stg l, count_ets stg l = 0 -> forall x, In x l -> stg x <> ETS.
  Proof.
    intros stg l. unfold count_ets. induction l as [|x r IH]; simpl; intros Hc y Hy; [contradiction|].
    destruct (is_ets (stg x)) eqn:E; simpl in Hc; [discriminate|].
    destruct Hy as [Hy | Hy]; [subst; intro Hc'; rewrite Hc' in E; discriminate | apply IH; auto].
  Qed.

  Lemma count_pos : forall stg l, 0 < count_ets stg l -> exists x, In x l /\ stg x = ETS.
  Proof.
    intros stg l. unfold count_ets. induction l as [|x r IH]; simpl; intros Hc; [lia|].
    destruct (is_ets (stg x)) eqn:E.
    - exists x. split; auto. destruct (stg x); simpl in E; try discriminate; auto.
    - destruct (IH Hc) as (y & Hy & Hs). exists y. auto.
  Qed.

  Section Loop.
    Variable hist0 : hist OS.
    Variable pipes : list H.
    Variable m0 : mstate.          (* mediator state when the receive loop is entered *)
    Hypothesis pipes_nodup : NoDup pipes.
    Hypothesis m0_het : forall h, In h pipes -> m_het OS m0 h = hist0.
    Let n := length pipes.

    Definition good (m : mstate) (h : H) : Prop :=
      (m_stg OS m h = ETS /\ m_ost OS m h = None) \/
      (m_stg OS m h = Susp /\ m_ost OS m h = None) \/
      (m_stg OS m h = OSS /\ m_ost OS m h = None /\ has_args h = false) \/
      (m_stg OS m h = Idle /\ has_args h = false /\ m_ost OS m h = Some (out_state h hist0 hist0)).

    Record Linv (l : lstate) : Prop := {
      li_hist : m_hist OS (l_m OS l) = hist0;
      li_pend : forall e, In e (m_pend OS (l_m OS l)) <->
                          In e (m_pend OS m0) \/
                          (In (fst e) pipes /\ m_stg OS (l_m OS l) (fst e) <> ETS /\ snd e = ev_time (fst e) hist0);
      li_frame : forall h, ~ In h pipes ->
                           m_stg OS (l_m OS l) h = m_stg OS m0 h /\ m_ost OS (l_m OS l) h = m_ost OS m0 h;
      li_het : forall h, m_het OS (l_m OS l) h = m_het OS m0 h;
      li_good : forall h, In h pipes -> good (l_m OS l) h;
      li_dq : forall q, In q (l_dq OS l) -> In q pipes /\ m_stg OS (l_m OS l) q = Susp /\ has_args q = false;
      li_dqnd : NoDup (l_dq OS l);
      li_cnt : l_rec OS l + count_ets (m_stg OS (l_m OS l)) pipes = n
    }.

    (** Linv only looks at these components (not at the log or the skip counter). *)
    Definition core_eq (l l' : lstate) : Prop :=
      m_hist OS (l_m OS l) = m_hist OS (l_m OS l') /\ m_pend OS (l_m OS l) = m_pend OS (l_m OS l') /\
      m_stg OS (l_m OS l) = m_stg OS (l_m OS l') /\ m_het OS (l_m OS l) = m_het OS (l_m OS l') /\
      m_ost OS (l_m OS l) = m_ost OS (l_m OS l') /\ l_dq OS l = l_dq OS l' /\ l_rec OS l = l_rec OS l'.

    Lemma Linv_ext : forall l l', core_eq l l' -> Linv l -> Linv l'.
    Proof.
      intros l l' (E1 & E2 & E3 & E4 & E5 & E6 & E7) [I1 I2 I3 I4 I5 I6 I7 I8].
      constructor; unfold good in *; rewrite <- ?E1, <- ?E2, <- ?E3, <- ?E4, <- ?E5, <- ?E6, <- ?E7; auto.
    Qed.

    Lemma start_ahead_inv : forall l, Linv l -> Linv (start_ahead l).
    Proof.
      intros l I. unfold MultiMediator.start_ahead. destruct (l_dq OS l) as [|q dq'] eqn:Edq; auto.
      destruct I as [I1 I2 I3 I4 I5 I6 I7 I8]. rewrite Edq in *.
      destruct (I6 q (or_introl eq_refl)) as (Hqp & Hqs & Hqa).
      inversion I7 as [|? ? Hqn Hnd']; subst.
      constructor; simpl; auto.
      - intros e. rewrite I2. unfold upd. destruct (Nat.eqb (fst e) q) eqn:E.
        + apply Nat.eqb_eq in E. rewrite E, Hqs.
          assert (Susp <> ETS) by discriminate. assert (OSS <> ETS) by discriminate. tauto.
        + tauto.
      - intros h Hh. rewrite upd_other by (intro; subst; contradiction). auto.
      - intros h Hh. unfold good; simpl. unfold upd. destruct (Nat.eqb h q) eqn:E.
        + apply Nat.eqb_eq in E. subst h. right; right; left.
          destruct (I5 q Hqp) as [(Hs & _) | [(_ & Ho) | [(Hs & _) | (Hs & _)]]]; try congruence. auto.
        + apply I5; auto.
      - intros x Hx. destruct (I6 x (or_intror Hx)) as (Hxp & Hxs & Hxa).
        rewrite upd_other by (intro; subst; contradiction). auto.
      - rewrite count_upd_nonets; auto; congruence.
    Qed.

    Lemma nodup_snoc : forall (l : list H) x, NoDup l -> ~ In x l -> NoDup (l ++ [x]).
    Proof.
      induction l as [|y r IH]; simpl; intros x Hnd Hx.
      - constructor; auto.
      - inversion Hnd; subst. constructor.
        + rewrite in_app_iff. simpl. intuition.
        + apply IH; auto.
    Qed.

    (** An event time arrives on pipe p (stage event_time_started). *)
    Lemma recv_time_inv : forall l p,
        Linv l -> In p pipes -> m_stg OS (l_m OS l) p = ETS ->
        Linv (mkL OS (push OS (set_stg OS (l_m OS l) p Susp) p (ev_time p hist0))
                  (if has_args p then l_dq OS l else l_dq OS l ++ [p]) (S (l_rec OS l))).
    Proof.
      intros l p [I1 I2 I3 I4 I5 I6 I7 I8] Hp Hs.
      assert (Hdqp : ~ In p (l_dq OS l)).
      { intro Hc. destruct (I6 p Hc) as (_ & Hc' & _). congruence. }
      constructor; simpl; auto.
      - intros e. rewrite in_app_iff, I2. simpl. split.
        + intros [[Ha | (Hb1 & Hb2 & Hb3)] | [He | []]].
          * auto.
          * right. split; auto. split; auto. rewrite upd_other; auto. intro Hc; rewrite Hc in Hb2; contradiction.
          * subst e. simpl. right. rewrite upd_same. repeat split; auto. discriminate.
        + intros [Ha | (Hb1 & Hb2 & Hb3)]; [auto|].
          destruct (Nat.eq_dec (fst e) p) as [Hep | Hep].
          * right. left. destruct e as [eh et]. simpl in *. subst. reflexivity.
          * left. right. rewrite upd_other in Hb2; auto.
      - intros h Hh. rewrite upd_other by (intro; subst; contradiction). auto.
      - intros h Hh. unfold good; simpl. unfold upd. destruct (Nat.eqb h p) eqn:E.
        + apply Nat.eqb_eq in E. subst h. right; left. split; auto.
          destruct (I5 p Hp) as [(_ & Ho) | [(Hc & _) | [(Hc & _) | (Hc & _)]]]; congruence.
        + apply I5; auto.
      - intros q Hq.
        assert (Hcase : In q (l_dq OS l) \/ (q = p /\ has_args p = false)).
        { destruct (has_args p) eqn:Ea; auto. apply in_app_iff in Hq. simpl in Hq. intuition. }
        destruct Hcase as [Hq' | (Hq' & Ha)].
        + destruct (I6 q Hq') as (Hq1 & Hq2 & Hq3). rewrite upd_other by (intro; subst; contradiction). auto.
        + subst q. rewrite upd_same. auto.
      - destruct (has_args p); auto. apply nodup_snoc; auto.
      - assert (Hne : Susp <> ETS) by discriminate.
        pose proof (count_upd_ets (m_stg OS (l_m OS l)) p Susp pipes pipes_nodup Hp Hs Hne) as Hc. lia.
    Qed.

    (** A pre-computed out-state arrives on pipe p (stage out_state_started). *)
    Lemma recv_out_inv : forall l p,
        Linv l -> In p pipes -> m_stg OS (l_m OS l) p = OSS ->
        Linv (mkL OS (set_ost OS (set_stg OS (l_m OS l) p Idle) p (out_of p (m_het OS (l_m OS l) p) hist0))
                  (l_dq OS l) (l_rec OS l)).
    Proof.
      intros l p [I1 I2 I3 I4 I5 I6 I7 I8] Hp Hs.
      assert (Hg : m_ost OS (l_m OS l) p = None /\ has_args p = false).
      { destruct (I5 p Hp) as [(Hc & _) | [(Hc & _) | [(_ & Ho & Ha) | (Hc & _)]]]; try congruence. auto. }
      destruct Hg as (Ho & Ha).
      constructor; simpl; auto.
      - intros e. rewrite I2. unfold upd. destruct (Nat.eqb (fst e) p) eqn:E.
        + apply Nat.eqb_eq in E. rewrite E, Hs.
          assert (Idle <> ETS) by discriminate. assert (OSS <> ETS) by discriminate. tauto.
        + tauto.
      - intros h Hh. rewrite !upd_other by (intro; subst; contradiction). auto.
      - intros h Hh. unfold good; simpl. unfold upd. destruct (Nat.eqb h p) eqn:E.
        + apply Nat.eqb_eq in E. subst h. right; right; right. repeat split; auto.
          unfold MultiMediator.out_of. rewrite Ha, I4, (m0_het p Hp). reflexivity.
        + apply I5; auto.
      - intros q Hq. destruct (I6 q Hq) as (Hq1 & Hq2 & Hq3).
        rewrite upd_other by (intro; subst; congruence). auto.
      - rewrite count_upd_nonets; auto; congruence.
    Qed.

    Lemma process_one_inv : forall l p, Linv l -> Linv (process_one hist0 pipes n l p).
    Proof.
      intros l p I. unfold MultiMediator.process_one.
      destruct (memb p pipes) eqn:Hm; simpl.
      2:{ eapply Linv_ext; [|exact I]. unfold core_eq; simpl; repeat split; reflexivity. }
      apply memb_In in Hm.
      destruct (m_stg OS (l_m OS l) p) eqn:Hs.
      - eapply Linv_ext; [|exact I]. unfold core_eq; simpl; repeat split; reflexivity.
      - pose proof (recv_time_inv l p I Hm Hs) as I1.
        destruct ((0 <? n - S (l_rec OS l)) && (n - S (l_rec OS l) <? ncores - 1)).
        + apply start_ahead_inv in I1. eapply Linv_ext; [|exact I1].
          unfold core_eq, MultiMediator.start_ahead; simpl.
          destruct (if has_args p then l_dq OS l else l_dq OS l ++ [p]); simpl; repeat split; reflexivity.
        + eapply Linv_ext; [|exact I1]. unfold core_eq; simpl; repeat split; reflexivity.
      - eapply Linv_ext; [|exact I]. unfold core_eq; simpl; repeat split; reflexivity.
      - pose proof (recv_out_inv l p I Hm Hs) as I1.
        apply start_ahead_inv in I1. eapply Linv_ext; [|exact I1].
        unfold core_eq, MultiMediator.start_ahead; simpl.
        destruct (l_dq OS l) as [|q dq'] eqn:Edq; simpl; repeat split; try reflexivity.
    Qed.

    Lemma process_batch_inv : forall b l, Linv l -> Linv (process_batch hist0 pipes n b l).
    Proof.
      unfold MultiMediator.process_batch.
      induction b as [|p r IH]; intros l I; simpl; auto. apply IH. apply process_one_inv; auto.
    Qed.

    (** The receive loop never moves a pipe (back) to event_time_started. *)
    Lemma start_ahead_no_new_ets : forall l x,
        m_stg OS (l_m OS (start_ahead l)) x = ETS -> m_stg OS (l_m OS l) x = ETS.
    Proof.
      intros l x. unfold MultiMediator.start_ahead. destruct (l_dq OS l); simpl; auto.
      unfold upd. destruct (Nat.eqb x h); [discriminate | auto].
    Qed.

    Lemma process_one_no_new_ets : forall l p x,
        m_stg OS (l_m OS (process_one hist0 pipes n l p)) x = ETS -> m_stg OS (l_m OS l) x = ETS.
    Proof.
      intros l p x. unfold MultiMediator.process_one.
      destruct (memb p pipes); simpl; auto.
      destruct (m_stg OS (l_m OS l) p) eqn:Hs; simpl; auto.
      - destruct ((0 <? n - S (l_rec OS l)) && (n - S (l_rec OS l) <? ncores - 1)); simpl.
        + intros Hx. apply start_ahead_no_new_ets in Hx. simpl in Hx.
          unfold upd in Hx. destruct (Nat.eqb x p); [discriminate | auto].
        + unfold upd. destruct (Nat.eqb x p); [discriminate | auto].
      - intros Hx. apply start_ahead_no_new_ets in Hx. simpl in Hx.
        unfold upd in Hx. destruct (Nat.eqb x p); [discriminate | auto].
    Qed.

    Lemma process_batch_no_new_ets : forall b l x,
        m_stg OS (l_m OS (process_batch hist0 pipes n b l)) x = ETS -> m_stg OS (l_m OS l) x = ETS.
    Proof.
      unfold MultiMediator.process_batch.
      induction b as [|p r IH]; intros l x; simpl; auto.
      intros Hx. apply IH in Hx. apply process_one_no_new_ets in Hx. auto.
    Qed.

    Lemma process_one_clears : forall l p,
        In p pipes -> m_stg OS (l_m OS (process_one hist0 pipes n l p)) p <> ETS.
    Proof.
      intros l p Hp. destruct (m_stg OS (l_m OS l) p) eqn:Hs;
        try (intro Hc; apply process_one_no_new_ets in Hc; congruence).
      unfold MultiMediator.process_one. apply memb_In in Hp. rewrite Hp, Hs. simpl.
      destruct ((0 <? n - S (l_rec OS l)) && (n - S (l_rec OS l) <? ncores - 1)); simpl.
      - intro Hc. apply start_ahead_no_new_ets in Hc. simpl in Hc. rewrite upd_same in Hc. discriminate.
      - rewrite upd_same. discriminate.
    Qed.

    Lemma process_batch_clears : forall b l p,
        (forall x, In x b -> In x pipes) -> In p b ->
        m_stg OS (l_m OS (process_batch hist0 pipes n b l)) p <> ETS.
    Proof.
      induction b as [|y r IH]; intros l p Hsub Hp; [contradiction|].
      change (process_batch hist0 pipes n (y :: r) l) with (process_batch hist0 pipes n r (process_one hist0 pipes n l y)).
      destruct (in_dec Nat.eq_dec p r) as [Hr | Hr].
      - apply IH; auto. intros x Hx. apply Hsub. right; auto.
      - destruct Hp as [Hp | Hp]; [subst y | contradiction].
        intro Hc. apply process_batch_no_new_ets in Hc. revert Hc. apply process_one_clears. apply Hsub. left; auto.
    Qed.

    (** When the loop is left, every event time has been received — for every schedule. *)
    Lemma wait_loop_inv : forall bs l,
        Linv l ->
        Linv (wait_loop hist0 pipes n bs l) /\
        (forall x, In x pipes -> m_stg OS (l_m OS (wait_loop hist0 pipes n bs l)) x <> ETS).
    Proof.
      induction bs as [|b bs IH]; intros l I; simpl.
      - destruct (n <=? l_rec OS l) eqn:E.
        + split; auto. apply Nat.leb_le in E. apply count_zero.
          pose proof (li_cnt l I). lia.
        + split; [apply process_batch_inv; auto|].
          intros x Hx.
          destruct (m_stg OS (l_m OS l) x) eqn:Hs;
            try (intro Hc; apply process_batch_no_new_ets in Hc; congruence).
          apply process_batch_clears.
          * intros y Hy. unfold ets_pipes in Hy. apply filter_In in Hy. tauto.
          * unfold ets_pipes. apply filter_In. split; auto. rewrite Hs. reflexivity.
      - destruct (n <=? l_rec OS l) eqn:E.
        + split; auto. apply Nat.leb_le in E. apply count_zero.
          pose proof (li_cnt l I). lia.
        + apply IH. apply process_batch_inv; auto.
    Qed.

    (** While the loop is still waiting, some pipe has an outstanding event-time request
        (so connection.wait returns, given that workers answer — Level B). *)
    Lemma wait_has_outstanding_request : forall l,
        Linv l -> l_rec OS l < n -> exists p, In p pipes /\ m_stg OS (l_m OS l) p = ETS.
    Proof.
      intros l I Hlt. apply count_pos. pose proof (li_cnt l I). lia.
    Qed.
  End Loop.

  (** *** Simulation between the two mediators *)
  Lemma sp_leg_wf_spec : forall s,
      sp_leg_wf s = true ->
      let hist0 := s_hist OS s in
      let run := to_run hist0 in
      let s1 := fold_left (s_request hist0) run s in
      NoDup run /\ (forall h, In h run -> ~ In h (map fst (s_pend OS s))) /\
      exists h t, sched_min (s_pend OS s1) = Some (h, t) /\
                  (forall e, In e (s_pend OS s1) -> e = (h, t) \/ (t < snd e)%Z) /\
                  In h (trash_of (mkCommit h t (out_of h (s_het OS s1 h) hist0) :: hist0)).
  Proof.
    intros s Hwf. unfold MultiMediator.sp_leg_wf in Hwf.
    apply andb_true_iff in Hwf. destruct Hwf as (Hwf & Hmin).
    apply andb_true_iff in Hwf. destruct Hwf as (Hnd & Hdisj).
    simpl. split; [apply nodupb_NoDup; auto|]. split.
    - intros h Hh. rewrite forallb_forall in Hdisj. specialize (Hdisj h Hh).
      apply negb_true_iff, memb_false in Hdisj. auto.
    - destruct (sched_min (s_pend OS (fold_left (s_request (s_hist OS s)) (to_run (s_hist OS s)) s)))
        as [[h t]|] eqn:E; [|discriminate].
      exists h, t. split; auto.
      apply andb_true_iff in Hmin. destruct Hmin as (Hall & Htr). split.
      + intros [eh et] He. rewrite forallb_forall in Hall. specialize (Hall _ He). simpl in *.
        apply orb_true_iff in Hall. destruct Hall as [Hall | Hall].
        * apply andb_true_iff in Hall. destruct Hall as (H1 & H2).
          apply Nat.eqb_eq in H1. apply Z.eqb_eq in H2. subst. auto.
        * apply Z.ltb_lt in Hall. auto.
      + apply memb_In. auto.
  Qed.

  Definition pend_ok (m : mstate) (h : H) : Prop :=
    (m_stg OS m h = Susp /\ m_ost OS m h = None) \/
    (m_stg OS m h = OSS /\ m_ost OS m h = None /\ has_args h = false) \/
    (m_stg OS m h = Idle /\ has_args h = false /\
     m_ost OS m h = Some (out_state h (m_het OS m h) (m_het OS m h))).

  (** The relation that holds between the two mediators at every leg boundary, whatever the schedule. *)
  Record R (m : mstate) (s : sstate) : Prop := {
    r_hist : m_hist OS m = s_hist OS s;
    r_pend : forall e, In e (m_pend OS m) <-> In e (s_pend OS s);
    r_het : forall h, m_het OS m h = s_het OS s h;
    r_idle : forall h, ~ In h (map fst (s_pend OS s)) -> m_stg OS m h = Idle /\ m_ost OS m h = None;
    r_pending : forall h, In h (map fst (s_pend OS s)) -> pend_ok m h
  }.

  Lemma R_init : R (m_init OS) (s_init OS).
  Proof.
    constructor; simpl.
    - reflexivity.
    - intros e. split; intro Hc; exact Hc.
    - intros h. reflexivity.
    - intros h _. split; reflexivity.
    - intros h [].
  Qed.

  Lemma map_fst_mk : forall hist0 (run : list H), map fst (map (mk hist0) run) = run.
  Proof. intros hist0 run. induction run; simpl; congruence. Qed.

  Lemma R_no_ets : forall m s, R m s -> forall x, m_stg OS m x <> ETS.
  Proof.
    intros m s HR x. destruct (in_dec Nat.eq_dec x (map fst (s_pend OS s))) as [Hi | Hi].
    - destruct (r_pending m s HR x Hi) as [(Hs & _) | [(Hs & _) | (Hs & _)]]; congruence.
    - destruct (r_idle m s HR x Hi) as (Hs & _). congruence.
  Qed.

  (** Requests + receive loop, for an arbitrary list of batches. *)
  Lemma requests_sim : forall m s bs,
      R m s ->
      let hist0 := s_hist OS s in
      let run := to_run hist0 in
      NoDup run -> (forall h, In h run -> ~ In h (map fst (s_pend OS s))) ->
      exists m1, fold_left (m_start hist0) run (inl m) = inl m1 /\
                 R (l_m OS (wait_loop hist0 run (length run) bs (mkL OS m1 [] 0)))
                   (fold_left (s_request hist0) run s).
  Proof.
    intros m s bs HR hist0 run Hnd Hdisj.
    destruct (m_start_fold hist0 run m Hnd) as (m1 & Hf & Hh1 & Hp1 & Ho1 & Hs1 & Ht1).
    { intros h Hh. apply (r_idle m s HR). auto. }
    exists m1. split; auto.
    assert (Hhet0 : forall h, In h run -> m_het OS m1 h = hist0).
    { intros h Hh. rewrite Ht1. apply memb_In in Hh. rewrite Hh. reflexivity. }
    assert (I0 : Linv hist0 run m1 (mkL OS m1 [] 0)).
    { constructor; simpl; auto.
      - rewrite Hh1. apply (r_hist m s HR).
      - intros e. split; auto. intros [Ha | (Hb1 & Hb2 & _)]; auto.
        exfalso. apply Hb2. rewrite Hs1. apply memb_In in Hb1. rewrite Hb1. reflexivity.
      - intros h Hh. left. split.
        + rewrite Hs1. apply memb_In in Hh. rewrite Hh. reflexivity.
        + rewrite Ho1. apply (r_idle m s HR). auto.
      - intros q [].
      - constructor.
      - apply count_all_ets. intros x Hx. rewrite Hs1. apply memb_In in Hx. rewrite Hx. reflexivity. }
    destruct (wait_loop_inv hist0 run m1 Hnd Hhet0 bs _ I0) as (I & Hnoets).
    set (l' := wait_loop hist0 run (length run) bs (mkL OS m1 [] 0)) in *.
    destruct (s_request_fold hist0 run s) as (Sh & Sp & St).
    destruct I as [I1 I2 I3 I4 I5 I6 I7 I8].
    constructor.
    - rewrite I1, Sh. reflexivity.
    - intros e. rewrite I2, Sp, in_app_iff, Hp1, (r_pend m s HR). split.
      + intros [Ha | (Hb1 & Hb2 & Hb3)]; auto. right. apply in_map_iff. exists (fst e).
        split; auto. destruct e; simpl in *; congruence.
      + intros [Ha | Hb]; auto. right. apply in_map_iff in Hb. destruct Hb as (h & He & Hh). subst e. simpl.
        repeat split; auto.
    - intros h. rewrite I4, Ht1, St, (r_het m s HR). reflexivity.
    - intros h Hh. rewrite Sp, map_app, map_fst_mk, in_app_iff in Hh.
      assert (Hr : ~ In h run) by tauto.
      destruct (I3 h Hr) as (E1 & E2). rewrite E1, E2, Hs1, Ho1.
      apply memb_false in Hr. rewrite Hr. apply (r_idle m s HR). tauto.
    - intros h Hh. rewrite Sp, map_app, map_fst_mk, in_app_iff in Hh.
      destruct (in_dec Nat.eq_dec h run) as [Hr | Hr].
      + unfold pend_ok. rewrite I4, (Hhet0 h Hr).
        destruct (I5 h Hr) as [(Hc & _) | [G | [G | G]]]; [exfalso; apply (Hnoets h Hr); auto | | |]; tauto.
      + assert (Hps : In h (map fst (s_pend OS s))) by tauto.
        destruct (I3 h Hr) as (E1 & E2). unfold pend_ok. rewrite E1, E2, I4, Hs1, Ho1, Ht1.
        apply memb_false in Hr. rewrite Hr. apply (r_pending m s HR). auto.
  Qed.

  (** get_succeeding_event .. end of the trash loop. *)
  Lemma finish_sim : forall m2 s1 h t,
      R m2 s1 ->
      sched_min (s_pend OS s1) = Some (h, t) ->
      (forall e, In e (s_pend OS s1) -> e = (h, t) \/ (t < snd e)%Z) ->
      let os := out_of h (s_het OS s1 h) (s_hist OS s1) in
      let hist1 := mkCommit h t os :: s_hist OS s1 in
      In h (trash_of hist1) ->
      exists m', finish_leg m2 = inl m' /\
                 R m' (fold_left s_trash_one (trash_of hist1)
                                 (mkS OS hist1 (s_pend OS s1) (s_het OS s1)
                                      (ECommit OS h t os :: EPick OS h :: s_log OS s1))).
  Proof.
    intros m2 s1 h t HR Hmin Huniq os hist1 Htr.
    assert (Hin : In (h, t) (s_pend OS s1)) by (apply sched_min_in; auto).
    assert (Hmin2 : sched_min (m_pend OS m2) = Some (h, t)).
    { apply sched_min_unique.
      - apply (r_pend m2 s1 HR). auto.
      - intros e He. apply Huniq. apply (r_pend m2 s1 HR). auto. }
    assert (Hhp : In h (map fst (s_pend OS s1))) by (apply in_map_iff; exists (h, t); auto).
    assert (Hos : os = out_of h (m_het OS m2 h) (m_hist OS m2)).
    { unfold os. rewrite (r_het m2 s1 HR), (r_hist m2 s1 HR). reflexivity. }
    (* state after the out-state of h is in _out_states *)
    assert (Hmid : exists m3,
               finish_leg m2 = inl (fold_left m_trash_one (trash_of hist1) m3) /\
               m_hist OS m3 = hist1 /\ m_pend OS m3 = m_pend OS m2 /\ m_het OS m3 = m_het OS m2 /\
               m_stg OS m3 h = Idle /\
               (forall x, x <> h -> m_stg OS m3 x = m_stg OS m2 x /\ m_ost OS m3 x = m_ost OS m2 x)).
    { unfold MultiMediator.finish_leg. rewrite Hmin2. simpl.
      destruct (r_pending m2 s1 HR h Hhp) as [(Hs & Ho) | [(Hs & Ho & Ha) | (Hs & Ha & Ho)]].
      - repeat (rewrite ?Hs, ?upd_same; simpl).
        rewrite <- Hos. rewrite (r_hist m2 s1 HR). fold hist1.
        eexists. split; [reflexivity|]. simpl.
        split; [reflexivity|]. split; [reflexivity|]. split; [reflexivity|].
        split; [rewrite upd_same; reflexivity|].
        intros x Hx. rewrite !upd_other by auto. auto.
      - repeat (rewrite ?Hs, ?upd_same; simpl).
        rewrite <- Hos. rewrite (r_hist m2 s1 HR). fold hist1.
        eexists. split; [reflexivity|]. simpl.
        split; [reflexivity|]. split; [reflexivity|]. split; [reflexivity|].
        split; [rewrite upd_same; reflexivity|].
        intros x Hx. rewrite !upd_other by auto. auto.
      - repeat (rewrite ?Hs, ?Ho; simpl).
        assert (Ho' : out_state h (m_het OS m2 h) (m_het OS m2 h) = os).
        { rewrite Hos. unfold MultiMediator.out_of. rewrite Ha. reflexivity. }
        rewrite Ho'. rewrite (r_hist m2 s1 HR). fold hist1.
        eexists. split; [reflexivity|]. simpl. repeat split; auto. }
    destruct Hmid as (m3 & Hfin & H3h & H3p & H3t & H3s & H3o).
    exists (fold_left m_trash_one (trash_of hist1) m3). split; auto.
    assert (Hne3 : forall x, m_stg OS m3 x <> ETS).
    { intros x. destruct (Nat.eq_dec x h) as [-> | Hx]; [congruence|].
      destruct (H3o x Hx) as (E & _). rewrite E. apply (R_no_ets m2 s1 HR). }
    destruct (m_trash_fold (trash_of hist1) m3 Hne3) as (Th & Tt & Tp & Tin & Tout).
    match goal with |- R _ (fold_left _ _ ?s2) =>
      destruct (s_trash_fold (trash_of hist1) s2) as (Sh & St & Sp) end.
    simpl in Sh, St, Sp.
    constructor.
    - rewrite Th, Sh. auto.
    - intros e. rewrite Tp, Sp, H3p, (r_pend m2 s1 HR). tauto.
    - intros x. rewrite Tt, St, H3t. apply (r_het m2 s1 HR).
    - intros x Hx. destruct (in_dec Nat.eq_dec x (trash_of hist1)) as [Hi | Hi]; [apply Tin; auto|].
      assert (Hx1 : ~ In x (map fst (s_pend OS s1))).
      { intro Hc. apply in_map_iff in Hc. destruct Hc as (e & He1 & He2). apply Hx.
        apply in_map_iff. exists e. split; auto. apply Sp. subst x. auto. }
      assert (Hxh : x <> h) by (intro; subst; contradiction).
      destruct (Tout x Hi) as (E1 & E2). destruct (H3o x Hxh) as (E3 & E4).
      rewrite E1, E2, E3, E4. apply (r_idle m2 s1 HR). auto.
    - intros x Hx. apply in_map_iff in Hx. destruct Hx as (e & He1 & He2). apply Sp in He2.
      destruct He2 as (He2 & He3). subst x.
      assert (Hxh : fst e <> h) by (intro Hc; rewrite Hc in He3; contradiction).
      destruct (Tout (fst e) He3) as (E1 & E2). destruct (H3o (fst e) Hxh) as (E3 & E4).
      unfold pend_ok. rewrite E1, E2, E3, E4, Tt, H3t.
      apply (r_pending m2 s1 HR). apply in_map_iff. exists e. auto.
  Qed.

  Lemma leg_sim : forall m s bs,
      R m s -> sp_leg_wf s = true ->
      exists m' s', mp_leg bs m = inl m' /\ sp_leg s = inl s' /\ R m' s'.
  Proof.
    intros m s bs HR Hwf.
    destruct (sp_leg_wf_spec s Hwf) as (Hnd & Hdisj & h & t & Hmin & Huniq & Htr).
    destruct (requests_sim m s bs HR Hnd Hdisj) as (m1 & Hstart & HR1).
    destruct (s_request_fold (s_hist OS s) (to_run (s_hist OS s)) s) as (Sh & _ & _).
    set (s1 := fold_left (s_request (s_hist OS s)) (to_run (s_hist OS s)) s) in *.
    rewrite <- Sh in Htr.
    destruct (finish_sim _ s1 h t HR1 Hmin Huniq Htr) as (m' & Hfin & HR').
    eexists m', _. split; [|split; [|exact HR']].
    - unfold MultiMediator.mp_leg. rewrite (r_hist m s HR). rewrite Hstart. exact Hfin.
    - unfold MultiMediator.sp_leg. fold s1. rewrite Hmin. rewrite Sh. reflexivity.
  Qed.

  Theorem run_sim : forall n sched m s,
      R m s -> sp_run_wf n s = true ->
      exists m' s', mp_run n sched m = inl m' /\ sp_run n s = inl s' /\ R m' s'.
  Proof.
    induction n as [|n IH]; intros sched m s HR Hwf; simpl in *.
    - exists m, s. auto.
    - apply andb_true_iff in Hwf. destruct Hwf as (Hwf1 & Hwf2).
      destruct (leg_sim m s (hd [] sched) HR Hwf1) as (m1 & s1 & Hm & Hs & HR1).
      rewrite Hm. rewrite Hs in *. apply IH; auto.
  Qed.

  (** **** Main results (stated from the initial states) *)
  Theorem commit_equivalence_thm : forall n sched,
      sp_run_wf n (s_init OS) = true ->
      exists m' s', mp_run n sched (m_init OS) = inl m' /\ sp_run n (s_init OS) = inl s' /\
                    m_hist OS m' = s_hist OS s'.
  Proof.
    intros n sched Hwf. destruct (run_sim n sched _ _ R_init Hwf) as (m' & s' & Hm & Hs & HR).
    exists m', s'. repeat split; auto. apply (r_hist m' s' HR).
  Qed.

  Theorem no_error_thm : forall n sched,
      sp_run_wf n (s_init OS) = true -> exists m', mp_run n sched (m_init OS) = inl m'.
  Proof.
    intros n sched Hwf. destruct (run_sim n sched _ _ R_init Hwf) as (m' & s' & Hm & _). eauto.
  Qed.

  (** An out-state sits in _out_states at a leg boundary only for a handler whose event is still pending in
      the scheduler (not trashed since its request), which has no out-state arguments, and it is the
      out-state of the handler's latest in-state; the stage of that handler is idle. *)
  Theorem precomputed_thm : forall n sched m',
      sp_run_wf n (s_init OS) = true -> mp_run n sched (m_init OS) = inl m' ->
      forall h os, m_ost OS m' h = Some os ->
                   In h (map fst (m_pend OS m')) /\ has_args h = false /\ m_stg OS m' h = Idle /\
                   os = out_state h (m_het OS m' h) (m_het OS m' h).
  Proof.
    intros n sched m' Hwf Hm h os Ho.
    destruct (run_sim n sched _ _ R_init Hwf) as (m'' & s' & Hm' & _ & HR).
    rewrite Hm in Hm'. inversion Hm'; subst m''. clear Hm'.
    destruct (in_dec Nat.eq_dec h (map fst (s_pend OS s'))) as [Hi | Hi].
    - split.
      + apply in_map_iff in Hi. destruct Hi as (e & He1 & He2). apply in_map_iff. exists e. split; auto.
        apply (r_pend m' s' HR). auto.
      + destruct (r_pending m' s' HR h Hi) as [(_ & Hc) | [(_ & Hc & _) | (Hs & Ha & Hv)]]; try congruence.
        repeat split; auto. congruence.
    - destruct (r_idle m' s' HR h Hi) as (_ & Hc). congruence.
  Qed.

  (** At every leg boundary no handler is in stage event_time_started, and a handler without pending event
      (never started, or trashed — in particular the one that just committed) is idle with no stored
      out-state. *)
  Theorem stages_at_leg_boundary_thm : forall n sched m',
      sp_run_wf n (s_init OS) = true -> mp_run n sched (m_init OS) = inl m' ->
      forall h, m_stg OS m' h <> ETS /\
                (~ In h (map fst (m_pend OS m')) -> m_stg OS m' h = Idle /\ m_ost OS m' h = None).
  Proof.
    intros n sched m' Hwf Hm h.
    destruct (run_sim n sched _ _ R_init Hwf) as (m'' & s' & Hm' & _ & HR).
    rewrite Hm in Hm'. inversion Hm'; subst m''. clear Hm'.
    split; [apply (R_no_ets m' s' HR)|].
    intros Hn. apply (r_idle m' s' HR). intro Hc. apply Hn.
    apply in_map_iff in Hc. destruct Hc as (e & He1 & He2). apply in_map_iff. exists e. split; auto.
    apply (r_pend m' s' HR). auto.
  Qed.

  (** Samples: same commits, same writes. *)
  Theorem writes_equal_thm : forall (writes_output : H -> bool) n sched,
      sp_run_wf n (s_init OS) = true ->
      exists m' s', mp_run n sched (m_init OS) = inl m' /\ sp_run n (s_init OS) = inl s' /\
                    writes_of OS writes_output (m_hist OS m') = writes_of OS writes_output (s_hist OS s').
  Proof.
    intros w n sched Hwf. destruct (commit_equivalence_thm n sched Hwf) as (m' & s' & Hm & Hs & He).
    exists m', s'. repeat split; auto. rewrite He. reflexivity.
  Qed.

  (** Receive-loop progress for an arbitrary prefix of arrivals: while an event time is missing, some pipe of
      this leg is in stage event_time_started (its worker answers by Level B), so connection.wait returns. *)
  Theorem wait_never_starves_thm : forall m s choices,
      R m s -> sp_leg_wf s = true ->
      let hist0 := m_hist OS m in
      let pipes := to_run hist0 in
      exists m1, fold_left (m_start hist0) pipes (inl m) = inl m1 /\
                 let l := process_batch hist0 pipes (length pipes) choices (mkL OS m1 [] 0) in
                 l_rec OS l < length pipes -> exists p, In p pipes /\ m_stg OS (l_m OS l) p = ETS.
  Proof.
    intros m s choices HR Hwf hist0 pipes.
    destruct (sp_leg_wf_spec s Hwf) as (Hnd & Hdisj & _).
    subst pipes hist0. rewrite (r_hist m s HR).
    destruct (m_start_fold (s_hist OS s) (to_run (s_hist OS s)) m Hnd) as (m1 & Hf & Hh1 & Hp1 & Ho1 & Hs1 & Ht1).
    { intros h Hh. apply (r_idle m s HR). auto. }
    exists m1. split; [exact Hf|]. cbv zeta.
    assert (Hhet0 : forall h, In h (to_run (s_hist OS s)) -> m_het OS m1 h = s_hist OS s).
    { intros h Hh. rewrite Ht1. apply memb_In in Hh. rewrite Hh. reflexivity. }
    apply (wait_has_outstanding_request (s_hist OS s) (to_run (s_hist OS s)) m1).
    apply process_batch_inv; auto.
    constructor; simpl; auto.
    - rewrite Hh1. apply (r_hist m s HR).
    - intros e. split; auto. intros [Ha | (Hb1 & Hb2 & _)]; auto.
      exfalso. apply Hb2. rewrite Hs1. apply memb_In in Hb1. rewrite Hb1. reflexivity.
    - intros h Hh. left. split.
      + rewrite Hs1. apply memb_In in Hh. rewrite Hh. reflexivity.
      + rewrite Ho1. apply (r_idle m s HR). auto.
    - intros q [].
    - constructor.
    - apply count_all_ets. intros x Hx. rewrite Hs1. apply memb_In in Hx. rewrite Hx. reflexivity.
  Qed.
End MediatorProofs.

(* ------------------------------------------------------------------------------------------- *)
(** ** Level B, packaged for all interleavings from the initial channel state *)
Theorem channel_safe_thm : forall ne no l,
    let c := crun ne no l chan_init in
    k_werr c = false /\ k_merr c = false /\ k_start c && k_cont c = false /\
    (k_out c <> [] -> (k_stage c = ETS /\ k_out c = [MTime]) \/ (k_stage c = OSS /\ k_out c = [MOut])) /\
    ((k_stage c = Idle \/ k_stage c = Susp) -> k_out c = [] /\ wstep ne no c = None).
Proof.
  intros ne no l c.
  assert (I : chan_inv ne no c) by (apply chan_inv_run, chan_inv_init).
  destruct (inv_no_error ne no c I) as (E1 & E2).
  repeat split; auto.
  - apply (inv_events_exclusive ne no c I).
  - apply (inv_ready_only_if_requested ne no c I).
  - apply (inv_blocked_when_not_requested ne no c I); auto.
  - apply (inv_blocked_when_not_requested ne no c I); auto.
Qed.

Theorem worker_answers_thm : forall ne no l,
    let c := crun ne no l chan_init in
    (k_stage c = ETS \/ k_stage c = OSS) -> exists k, k <= 3 /\ k_out (wsteps ne no k c) <> [].
Proof.
  intros ne no l c Hs. apply worker_answers; auto. apply chan_inv_run, chan_inv_init.
Qed.

(* ------------------------------------------------------------------------------------------- *)
(** ** Concrete instances (witnesses and non-vacuity) *)
Module Witness.
  Open Scope Z_scope.

  (** Four handlers; handler 3 has out-state arguments.  First leg runs all four, afterwards the handler that
      committed is run again; a commit trashes only the committing handler.  Candidate times are pairwise
      distinct. *)
  Definition w_has_args (h : H) : bool := Nat.eqb h 3.
  Definition w_to_run (hs : hist Z) : list H :=
    match hs with [] => [0; 1; 2; 3]%nat | c :: _ => [c_h c] end.
  Definition w_offset (h : H) : Z := nth h [1; 5; 9; 7] 0.
  Definition w_ev_time (h : H) (hs : hist Z) : Z := 10 * Z.of_nat (length hs) + w_offset h.
  Definition w_out_state (h : H) (he ha : hist Z) : Z :=
    1000 * Z.of_nat h + 10 * Z.of_nat (length he) + Z.of_nat (length ha).
  Definition w_trash_of (hs : hist Z) : list H := match hs with c :: _ => [c_h c] | [] => [] end.

  Definition w_sp (n : nat) := sp_run Z w_has_args w_to_run w_ev_time w_out_state w_trash_of n (s_init Z).
  Definition w_sp_wf (n : nat) := sp_run_wf Z w_has_args w_to_run w_ev_time w_out_state w_trash_of n (s_init Z).
  Definition w_mp (cores n : nat) (sched : list (list (list H))) :=
    mp_run Z cores w_has_args w_to_run w_ev_time w_out_state w_trash_of n sched (m_init Z).

  (** With 4 cores: 0 arrives (out-state of 0 started ahead), then 2 (out-state of 2 started ahead), then 1, 3. *)
  Definition w_sched : list (list (list H)) := [[[0]; [2]; [1; 3]]]%nat.

  Lemma w_wf : w_sp_wf 5 = true.
  Proof. vm_compute. reflexivity. Qed.

  (** The same oracles with two equal candidate times (handlers 0 and 1 both at time 5). *)
  Definition t_ev_time (h : H) (hs : hist Z) : Z := 10 * Z.of_nat (length hs) + nth h [5; 5; 9; 7] 0.
  Definition t_sp (n : nat) := sp_run Z w_has_args w_to_run t_ev_time w_out_state w_trash_of n (s_init Z).
  Definition t_mp (cores n : nat) (sched : list (list (list H))) :=
    mp_run Z cores w_has_args w_to_run t_ev_time w_out_state w_trash_of n sched (m_init Z).

  Lemma tie_witness :
    commits_of_m Z (t_mp 2 1 [[[0]; [1]; [2]; [3]]]%nat) = commits_of_s Z (t_sp 1) /\
    commits_of_m Z (t_mp 2 1 [[[1]; [0]; [2]; [3]]]%nat) <> commits_of_s Z (t_sp 1) /\
    commits_of_m Z (t_mp 2 1 [[[1]; [0]; [2]; [3]]]%nat) <> None.
  Proof. vm_compute. repeat split; intro Hc; discriminate Hc. Qed.

  (** At the first commit (of handler 0) the worker of handler 2 is in stage out_state_started. *)
  Lemma busy_witness :
    exists m', w_mp 4 1 w_sched = inl m' /\ m_stg Z m' 2%nat = OSS /\ m_stg Z m' 0%nat = Idle.
  Proof. eexists. vm_compute. repeat split. Qed.
End Witness.
