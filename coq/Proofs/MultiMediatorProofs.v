(** * Proofs/MultiMediatorProofs.v — proofs about Model/MultiMediator.v (C20). *)
From Coq Require Import List ZArith Bool Arith Lia.
Require Import JF.Model.MultiMediator.
Import ListNotations.

(* ------------------------------------------------------------------------------------------- *)
(** ** Level B: one pipe + events + worker *)
Section ChannelProofs.
  Variable ne no : bool.

  (** Reachable states of one handler's channel, by mediator stage. *)
  Definition chan_inv (c : chan) : Prop :=
    k_werr c = false /\ k_merr c = false /\
    match k_stage c with
    | Idle => k_start c = false /\ k_cont c = false /\ k_out c = [] /\ k_args c = 0 /\
              (k_pc c = W0 \/ k_pc c = W1)
    | ETS => k_cont c = false /\
             ((k_start c = true /\ (k_pc c = W0 \/ k_pc c = W1) /\ k_out c = [] /\ k_args c = b2n ne)
              \/ (k_start c = false /\ k_pc c = WT /\ k_out c = [] /\ k_args c = b2n ne)
              \/ (k_start c = false /\ k_pc c = W1 /\ k_out c = [MTime] /\ k_args c = 0))
    | Susp => k_start c = false /\ k_cont c = false /\ k_pc c = W1 /\ k_out c = [] /\ k_args c = 0
    | OSS => k_start c = false /\
             ((k_cont c = true /\ k_pc c = W1 /\ k_out c = [] /\ k_args c = b2n no)
              \/ (k_cont c = false /\ k_pc c = WO /\ k_out c = [] /\ k_args c = b2n no)
              \/ (k_cont c = false /\ k_pc c = W0 /\ k_out c = [MOut] /\ k_args c = 0))
    end.

  Lemma chan_inv_init : chan_inv chan_init.
  Proof. unfold chan_inv, chan_init; simpl; intuition. Qed.

  Ltac crush_chan :=
    repeat match goal with
           | H : _ /\ _ |- _ => destruct H
           | H : _ \/ _ |- _ => destruct H
           end; subst; simpl in *; try discriminate;
    repeat match goal with
           | H : Some _ = Some _ |- _ => inversion H; clear H; subst
           end; simpl in *; try discriminate.

  Lemma chan_inv_mstep : forall a c c', chan_inv c -> mstep ne no a c = Some c' -> chan_inv c'.
  Proof.
    intros a [stg st ct pc ar ou we me] c' Hinv Hs.
    unfold chan_inv in *; simpl in *.
    destruct Hinv as (Hwe & Hme & Hinv); subst we me.
    destruct a; destruct stg; simpl in Hs; crush_chan; simpl;
      try (destruct ne; simpl; intuition; fail);
      try (destruct no; simpl; intuition; fail);
      intuition.
  Qed.

  Lemma chan_inv_wstep : forall c c', chan_inv c -> wstep ne no c = Some c' -> chan_inv c'.
  Proof.
    intros [stg st ct pc ar ou we me] c' Hinv Hs.
    unfold chan_inv in *; simpl in *.
    destruct Hinv as (Hwe & Hme & Hinv); subst we me.
    destruct stg; crush_chan; unfold wstep in Hs; simpl in Hs;
      try (destruct ne; simpl in Hs; crush_chan; simpl; intuition; fail);
      try (destruct no; simpl in Hs; crush_chan; simpl; intuition; fail);
      crush_chan; simpl; intuition.
  Qed.

  (** Every interleaving of (enabled) mediator actions and worker steps stays inside the invariant. *)
  Theorem chan_inv_run : forall l c, chan_inv c -> chan_inv (crun ne no l c).
  Proof.
    induction l as [|a l IH]; intros c Hc; simpl; auto.
    apply IH. destruct (cstep ne no a c) eqn:E; auto.
    destruct a; simpl in E; eauto using chan_inv_mstep, chan_inv_wstep.
  Qed.

  (** Consequences of the invariant. *)
  Lemma inv_no_error : forall c, chan_inv c -> k_werr c = false /\ k_merr c = false.
  Proof. unfold chan_inv; intuition. Qed.

  (** A pipe holds an object only if the mediator's stage says a request is outstanding, and the object is of
      the kind the stage announces: the "already finished" MediatorError branch is unreachable and a
      candidate time is never mistaken for an out-state. *)
  Lemma inv_ready_only_if_requested :
    forall c, chan_inv c -> k_out c <> [] ->
              (k_stage c = ETS /\ k_out c = [MTime]) \/ (k_stage c = OSS /\ k_out c = [MOut]).
  Proof.
    intros [stg st ct pc ar ou we me] (_ & _ & Hinv) Hne; simpl in *.
    destruct stg; crush_chan; try congruence; auto.
  Qed.

  (** The two events are never set together (the worker's assert). *)
  Lemma inv_events_exclusive : forall c, chan_inv c -> k_start c && k_cont c = false.
  Proof.
    intros [stg st ct pc ar ou we me] (_ & _ & Hinv); simpl in *.
    destruct stg; crush_chan; auto.
  Qed.

  (** The worker answers: with a request outstanding, at most three worker steps put the answer into the
      pipe, and none of them blocks. *)
  Theorem worker_answers :
    forall c, chan_inv c -> (k_stage c = ETS \/ k_stage c = OSS) ->
              exists k, k <= 3 /\ k_out (wsteps ne no k c) <> [].
  Proof.
    intros [stg st ct pc ar ou we me] (Hwe & Hme & Hinv) Hst; simpl in *.
    destruct Hst; subst stg; crush_chan.
    - exists 2. split; [lia|]. destruct ne; simpl; discriminate.
    - exists 3. split; [lia|]. destruct ne; simpl; discriminate.
    - exists 1. split; [lia|]. destruct ne; simpl; discriminate.
    - exists 0. split; [lia|]. simpl; discriminate.
    - exists 2. split; [lia|]. destruct no; simpl; discriminate.
    - exists 1. split; [lia|]. destruct no; simpl; discriminate.
    - exists 0. split; [lia|]. simpl; discriminate.
  Qed.

  (** An idle or suspended worker is blocked on the or-event: it neither computes nor sends. *)
  Lemma inv_blocked_when_not_requested :
    forall c, chan_inv c -> (k_stage c = Idle \/ k_stage c = Susp) -> k_out c = [] /\ wstep ne no c = None.
  Proof.
    intros [stg st ct pc ar ou we me] (_ & _ & Hinv) Hst; simpl in *.
    destruct Hst; subst stg; crush_chan; auto.
  Qed.
End ChannelProofs.

(* ------------------------------------------------------------------------------------------- *)
(** ** Scheduler *)
Lemma sched_min_in : forall p e, sched_min p = Some e -> In e p.
Proof.
  induction p as [|[h t] r IH]; simpl; intros e He; [discriminate|].
  destruct (sched_min r) as [[h' t']|] eqn:E.
  - destruct (t <=? t')%Z; inversion He; subst; auto.
  - inversion He; auto.
Qed.

Lemma sched_min_none : forall p, sched_min p = None -> p = [].
Proof.
  destruct p as [|[h t] r]; simpl; auto. destruct (sched_min r) as [[h' t']|]; [destruct (t <=? t')%Z|]; discriminate.
Qed.

(** With a strict minimum the scheduler's answer depends on the set of pending events only,
    not on the order in which they were pushed. *)
Lemma sched_min_unique :
  forall p h t, In (h, t) p -> (forall e, In e p -> e = (h, t) \/ (t < snd e)%Z) -> sched_min p = Some (h, t).
Proof.
  induction p as [|[h0 t0] r IH]; simpl; intros h t Hin Hmin; [contradiction|].
  destruct (sched_min r) as [[h' t']|] eqn:E.
  - assert (Hr : In (h', t') r) by (apply sched_min_in; auto).
    destruct (Hmin (h0, t0) (or_introl eq_refl)) as [Heq | Hlt].
    + inversion Heq; subst.
      destruct (Hmin (h', t') (or_intror Hr)) as [Heq' | Hlt'].
      * inversion Heq'; subst. rewrite Z.leb_refl. reflexivity.
      * simpl in Hlt'. assert (Hle : (t <=? t')%Z = true) by (apply Z.leb_le; lia). rewrite Hle. reflexivity.
    + simpl in Hlt. destruct Hin as [Hin | Hin]; [inversion Hin; subst; lia|].
      assert (Hs : Some (h', t') = Some (h, t)).
      { apply IH; auto. }
      inversion Hs; subst.
      assert (Hle : (t0 <=? t)%Z = false) by (apply Z.leb_gt; lia). rewrite Hle. reflexivity.
  - apply sched_min_none in E. subst r. destruct Hin as [Hin | []]. rewrite Hin. reflexivity.
Qed.

Lemma sched_trash_in : forall e h p, In e (sched_trash h p) <-> In e p /\ fst e <> h.
Proof.
  intros e h p. unfold sched_trash. rewrite filter_In. rewrite negb_true_iff, Nat.eqb_neq. tauto.
Qed.

Lemma memb_In : forall h l, memb h l = true <-> In h l.
Proof.
  intros h l. unfold memb. rewrite existsb_exists. split.
  - intros (x & Hx & He). apply Nat.eqb_eq in He. subst; auto.
  - intros Hin. exists h. split; auto. apply Nat.eqb_refl.
Qed.

Lemma memb_false : forall h l, memb h l = false <-> ~ In h l.
Proof.
  intros h l. rewrite <- memb_In. destruct (memb h l); split; congruence.
Qed.

Lemma nodupb_NoDup : forall l, nodupb l = true -> NoDup l.
Proof.
  induction l as [|x r IH]; simpl; intros Hn; [constructor|].
  apply andb_true_iff in Hn. destruct Hn as [Hx Hr]. apply negb_true_iff, memb_false in Hx.
  constructor; auto.
Qed.

Lemma upd_same : forall A (f : H -> A) h v, upd f h v h = v.
Proof. intros. unfold upd. rewrite Nat.eqb_refl. reflexivity. Qed.

Lemma upd_other : forall A (f : H -> A) h v x, x <> h -> upd f h v x = f x.
Proof. intros A f h v x Hx. unfold upd. apply Nat.eqb_neq in Hx. rewrite Hx. reflexivity. Qed.

(* ------------------------------------------------------------------------------------------- *)
(** ** Level A: mediators *)
Section MediatorProofs.
  Variable OS : Type.
  Variable ncores : nat.
  Variable has_args : H -> bool.
  Variable to_run : hist OS -> list H.
  Variable ev_time : H -> hist OS -> Z.
  Variable out_state : H -> hist OS -> hist OS -> OS.
  Variable trash_of : hist OS -> list H.

  Notation sstate := (sstate OS).
  Notation mstate := (mstate OS).
  Notation lstate := (lstate OS).
  Notation s_request := (s_request OS ev_time).
  Notation s_trash_one := (s_trash_one OS).
  Notation sp_leg := (sp_leg OS has_args to_run ev_time out_state trash_of).
  Notation sp_run := (sp_run OS has_args to_run ev_time out_state trash_of).
  Notation sp_leg_wf := (sp_leg_wf OS has_args to_run ev_time out_state trash_of).
  Notation sp_run_wf := (sp_run_wf OS has_args to_run ev_time out_state trash_of).
  Notation out_of := (out_of OS has_args out_state).
  Notation m_start := (m_start OS).
  Notation start_ahead := (start_ahead OS).
  Notation process_one := (process_one OS ncores has_args ev_time out_state).
  Notation process_batch := (process_batch OS ncores has_args ev_time out_state).
  Notation wait_loop := (wait_loop OS ncores has_args ev_time out_state).
  Notation m_trash_one := (m_trash_one OS).
  Notation finish_leg := (finish_leg OS has_args out_state trash_of).
  Notation mp_leg := (mp_leg OS ncores has_args to_run ev_time out_state trash_of).
  Notation mp_run := (mp_run OS ncores has_args to_run ev_time out_state trash_of).
  Notation mk hist0 := (fun h : H => (h, ev_time h hist0)).

  (** *** Single-process folds *)
  Lemma s_request_fold : forall hist0 run s,
      let s1 := fold_left (s_request hist0) run s in
      s_hist OS s1 = s_hist OS s /\
      s_pend OS s1 = s_pend OS s ++ map (mk hist0) run /\
      (forall h, s_het OS s1 h = if memb h run then hist0 else s_het OS s h).
  Proof.
    intros hist0 run. induction run as [|x r IH]; intros s; simpl.
    - rewrite app_nil_r. auto.
    - destruct (IH (s_request hist0 s x)) as (Hh & Hp & Ht). simpl in *.
      split; [exact Hh|]. split.
      + rewrite Hp. rewrite <- app_assoc. reflexivity.
      + intros h. rewrite Ht. unfold upd.
        destruct (Nat.eqb h x); simpl; destruct (memb h r); reflexivity.
  Qed.

  Lemma s_trash_fold : forall T s,
      let s1 := fold_left s_trash_one T s in
      s_hist OS s1 = s_hist OS s /\ s_het OS s1 = s_het OS s /\
      (forall e, In e (s_pend OS s1) <-> In e (s_pend OS s) /\ ~ In (fst e) T).
  Proof.
    induction T as [|x r IH]; intros s; simpl.
    - intuition.
    - destruct (IH (s_trash_one s x)) as (Hh & Ht & Hp). simpl in *.
      split; [exact Hh|]. split; [exact Ht|].
      intros e. rewrite Hp. rewrite sched_trash_in. intuition.
  Qed.

  (** *** Multi-process: start phase *)
  Lemma m_start_fold : forall hist0 run m,
      NoDup run -> (forall h, In h run -> m_stg OS m h = Idle) ->
      exists m1, fold_left (m_start hist0) run (inl m) = inl m1 /\
                 m_hist OS m1 = m_hist OS m /\ m_pend OS m1 = m_pend OS m /\ m_ost OS m1 = m_ost OS m /\
                 (forall h, m_stg OS m1 h = if memb h run then ETS else m_stg OS m h) /\
                 (forall h, m_het OS m1 h = if memb h run then hist0 else m_het OS m h).
  Proof.
    intros hist0 run. induction run as [|x r IH]; intros m Hnd Hidle; simpl.
    - exists m. intuition.
    - inversion Hnd as [|? ? Hx Hr]; subst.
      rewrite (Hidle x (or_introl eq_refl)). simpl.
      match goal with |- context [fold_left _ r (inl ?mm)] =>
        assert (Hpre : forall h, In h r -> m_stg OS mm h = Idle);
          [| destruct (IH mm Hr Hpre) as (m1 & Hf & Hh & Hp & Ho & Hs & Ht)] end.
      { intros h Hin. simpl. rewrite upd_other; [apply Hidle; right; assumption|]. intro; subst; contradiction. }
      exists m1. simpl in *. repeat split; auto.
      + intros h. rewrite Hs. unfold upd.
        destruct (Nat.eqb h x) eqn:E; simpl; destruct (memb h r) eqn:E2; auto.
      + intros h. rewrite Ht. unfold upd.
        destruct (Nat.eqb h x) eqn:E; simpl; destruct (memb h r) eqn:E2; auto.
  Qed.

  (** *** Multi-process: trash loop *)
  Lemma m_trash_one_spec : forall m e,
      let m1 := m_trash_one m e in
      m_hist OS m1 = m_hist OS m /\ m_het OS m1 = m_het OS m /\
      m_pend OS m1 = sched_trash e (m_pend OS m) /\
      (forall h, h <> e -> m_stg OS m1 h = m_stg OS m h /\ m_ost OS m1 h = m_ost OS m h) /\
      m_ost OS m1 e = None /\
      (m_stg OS m e <> ETS -> m_stg OS m1 e = Idle) /\
      (forall h, m_stg OS m1 h = ETS -> m_stg OS m h = ETS).
  Proof.
    intros m e. unfold m_trash_one. simpl.
    destruct (m_ost OS m e) eqn:Eo; simpl; destruct (m_stg OS m e) eqn:Es; simpl;
      repeat split; auto; intros;
        try (rewrite upd_other by auto; reflexivity);
        try (rewrite upd_same; reflexivity); try congruence;
          try (unfold upd in *; destruct (Nat.eqb h e) eqn:E; [discriminate | assumption]).
    all: try (unfold upd in *; destruct (Nat.eqb h e) eqn:E; [apply Nat.eqb_eq in E; subst; congruence | assumption]).
  Qed.

  Lemma m_trash_fold : forall T m,
      (forall h, m_stg OS m h <> ETS) ->
      let m1 := fold_left m_trash_one T m in
      m_hist OS m1 = m_hist OS m /\ m_het OS m1 = m_het OS m /\
      (forall e, In e (m_pend OS m1) <-> In e (m_pend OS m) /\ ~ In (fst e) T) /\
      (forall h, In h T -> m_stg OS m1 h = Idle /\ m_ost OS m1 h = None) /\
      (forall h, ~ In h T -> m_stg OS m1 h = m_stg OS m h /\ m_ost OS m1 h = m_ost OS m h).
  Proof.
    induction T as [|x r IH]; intros m Hne; simpl.
    - intuition.
    - destruct (m_trash_one_spec m x) as (Hh & Ht & Hp & Hoth & Hox & Hsx & Hnew).
      assert (Hne' : forall h, m_stg OS (m_trash_one m x) h <> ETS) by (intros h Hc; apply (Hne h); auto).
      destruct (IH (m_trash_one m x) Hne') as (Hh2 & Ht2 & Hp2 & Hin2 & Hout2).
      split; [congruence|]. split; [congruence|]. split; [|split].
      + intros e. rewrite Hp2, Hp, sched_trash_in. intuition.
      + intros h Hin. destruct (in_dec Nat.eq_dec h r) as [Hr | Hr]; [apply Hin2; auto|].
        destruct Hin as [Hx | Hr']; [subst h | contradiction].
        destruct (Hout2 x Hr) as (Hs3 & Ho3). rewrite Hs3, Ho3. split; auto.
      + intros h Hnin. assert (h <> x) by (intro; subst; apply Hnin; auto).
        assert (~ In h r) by (intro; apply Hnin; auto).
        destruct (Hout2 h H1) as (Hs3 & Ho3). destruct (Hoth h H0) as (Hs4 & Ho4). split; congruence.
  Qed.
