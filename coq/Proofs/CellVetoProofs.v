(** * Proofs/CellVetoProofs.v — facts about Model/CellVeto.v (handler glue of C18). *)
From Coq Require Import ZArith Bool List Reals Lia Lra.
From Flocq Require Import Core.Core IEEE754.BinarySingleNaN.
Require Import JF.Base.F64 JF.Base.PyFloat JF.Model.Time JF.Model.CellIndex JF.Model.CellVeto.
Require Import JF.Proofs.F64Facts JF.Proofs.TimeProofs JF.Proofs.CellIndexProofs.
Import ListNotations.

(** the walker, factor and bound index chosen from the charge correction factor *)
Definition cv_walker (d : cvdir) (cf : f64) : f64 * f64 * list frow :=
  if fst (fst (cv_choose cf)) then d_upper d else d_lower d.
Definition cv_factor (cf : f64) : f64 := snd (fst (cv_choose cf)).
Definition cv_index (cf : f64) : nat := snd (cv_choose cf).

(** what a successful [send_event_time] returns *)
Lemma send_ok_inv : forall ns seps d active stamp speed cf row u e t off target ber,
  cv_send_event_time ns seps d active stamp speed cf row u e = CVOk t off target ber ->
  let w := cv_walker d cf in
  t = time_add stamp (cv_displacement e (fst (fst w)) (cv_factor cf) speed) /\
  (exists r, nth_error (snd w) row = Some r /\ fsample r (snd (fst w)) u = Some off) /\
  (exists rel b, nth_error seps off = Some rel /\ nth_error (d_bounds d) off = Some b /\
     target = translate ns active rel /\
     ber = fmul (bound_at b (cv_index cf)) (cv_factor cf) /\ fgt ber fzero = true).
Proof.
  intros ns seps d active stamp speed cf row u e t off target ber H.
  unfold cv_send_event_time in H. unfold cv_walker, cv_factor, cv_index.
  destruct (cv_choose cf) as [[upper factor] index]. simpl.
  destruct (if upper then d_upper d else d_lower d) as [[wtotal wmean] table]. simpl.
  destruct (nth_error table row) as [r|] eqn:Er; [|discriminate].
  destruct (fsample r wmean u) as [o|] eqn:Es; [|discriminate].
  destruct (nth_error (d_bounds d) o) as [b|] eqn:Eb; [|discriminate].
  destruct (nth_error seps o) as [rel|] eqn:Erel; [|discriminate].
  destruct (fgt (fmul (bound_at b index) factor) fzero) eqn:Eg; [|discriminate].
  inversion H; subst. split; [reflexivity|]. split.
  - exists r. auto.
  - exists rel, b. repeat split; auto.
Qed.

(** the candidate event time is not before the active unit's time stamp *)
Theorem event_time_not_before_stamp : forall ns seps d active stamp speed cf row u e t off target ber,
  cv_send_event_time ns seps d active stamp speed cf row u e = CVOk t off target ber ->
  let dsp := cv_displacement e (fst (fst (cv_walker d cf))) (cv_factor cf) speed in
  normalised stamp -> (0 <= B2R (tq stamp))%R -> ffinite dsp = true -> (0 <= B2R dsp)%R ->
  (B2R (tq stamp) + IZR (Zfloor (RN (B2R (tr stamp) + B2R dsp))) <= bpow radix2 53)%R ->
  (value stamp <= value t)%R /\ normalised t.
Proof.
  intros ns seps d active stamp speed cf row u e t off target ber H dsp N Pq F P B.
  destruct (send_ok_inv _ _ _ _ _ _ _ _ _ _ _ _ _ _ H) as [Ht _]. fold dsp in Ht. subst t. split.
  - apply add_never_decreases; auto.
  - apply (add_value stamp dsp N F P Pq B).
Qed.

(** the proposed target cell lies at the sampled offset from the active cell, and the bound used for the
    confirmation is the one stored for that offset, with the index given by the sign of the charge factor *)
Theorem target_and_bound : forall ns seps d active stamp speed cf row u e t off target ber,
  cv_send_event_time ns seps d active stamp speed cf row u e = CVOk t off target ber ->
  exists rel b, nth_error seps off = Some rel /\ nth_error (d_bounds d) off = Some b /\
    target = translate ns active rel /\
    (valid ns active -> valid ns rel -> valid ns target /\ relative ns target active = rel) /\
    ber = fmul (bound_at b (if fgt cf fzero then 0 else 1)%nat) (if fgt cf fzero then cf else fmul cf (fopp fone)) /\
    fgt ber fzero = true.
Proof.
  intros ns seps d active stamp speed cf row u e t off target ber H.
  destruct (send_ok_inv _ _ _ _ _ _ _ _ _ _ _ _ _ _ H) as [_ [_ [rel [b [H1 [H2 [H3 [H4 H5]]]]]]]].
  exists rel, b. split; [exact H1|]. split; [exact H2|]. split; [exact H3|]. split; [|split; [|exact H5]].
  - intros Va Vr. subst target. split.
    + apply valid_translate.
      * eapply valid_positive; eauto.
      * apply valid_length; auto.
      * apply valid_length; auto.
    + apply relative_translate; auto.
  - rewrite H4. unfold cv_index, cv_factor, cv_choose. destruct (fgt cf fzero); reflexivity.
Qed.

(** the offset comes from the chosen row of the chosen walker: first item iff the draw is <= its rate *)
Lemma sampled_offset_in_row : forall row mean u off,
  fsample row mean u = Some off ->
  (fle (funiform u fzero mean) (snd (fst row)) = true /\ off = fst (fst row)) \/
  (fle (funiform u fzero mean) (snd (fst row)) = false /\ exists r1, snd row = Some (off, r1)).
Proof.
  intros [[i0 r0] second] mean u off H. unfold fsample in H. cbn [fst snd].
  destruct (fle (funiform u fzero mean) r0) eqn:E.
  - left. inversion H. auto.
  - right. split; auto. destruct second as [[i1 r1]|]; [|discriminate]. inversion H. eauto.
Qed.

(** an empty target cell never changes the velocities; an occupied one only after confirmation against the bound *)
Lemma out_empty_unchanged : forall ber, cv_out_exchanged ber None = false.
Proof. reflexivity. Qed.

Lemma out_exchanged_confirmed : forall ber dr u,
  cv_out_exchanged ber (Some (dr, u)) = true ->
  fgt dr fzero = true /\ flt (funiform u fzero ber) dr = true.
Proof. intros ber dr u H. simpl in H. unfold cv_confirm in H. apply andb_true_iff in H. exact H. Qed.

(** helper for closed examples: decide success without reading back the float proof terms *)
Definition cv_is_ok (r : cvres) : bool := match r with CVOk _ _ _ _ => true | _ => false end.
Lemma cv_is_ok_ex : forall r, cv_is_ok r = true -> exists t off target ber, r = CVOk t off target ber.
Proof. intros [t off target ber| |] H; try discriminate. eauto. Qed.
Definition cv_target_is (r : cvres) (c : ident) : bool :=
  match r with CVOk _ _ target _ => if ident_eq_dec target c then true else false | _ => false end.
Lemma cv_target_is_ex : forall r c, cv_target_is r c = true -> exists t off ber, r = CVOk t off c ber.
Proof.
  intros [t off target ber| |] c H; try discriminate. simpl in H.
  destruct (ident_eq_dec target c); [subst; eauto | discriminate].
Qed.
