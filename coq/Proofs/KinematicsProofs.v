(** * Proofs/KinematicsProofs.v — global consequences of the local leg checks (C07). *)
From Coq Require Import ZArith QArith Qabs Qround List Bool Lia.
Require Import JF.Base.F64 JF.Model.Kinematics.
Import ListNotations.
Open Scope Q_scope.

(** ** Identifiers. *)
Lemma id_eqb_eq a b : id_eqb a b = true <-> a = b.
Proof.
  revert b; induction a as [|x a IH]; intros [|y b]; simpl; split; intro H; try discriminate; auto.
  - apply andb_true_iff in H as [H1 H2]. apply Nat.eqb_eq in H1. apply IH in H2. congruence.
  - inversion H; subst. rewrite Nat.eqb_refl. simpl. apply IH; reflexivity.
Qed.

Lemma id_eqb_refl a : id_eqb a a = true.
Proof. apply id_eqb_eq; reflexivity. Qed.

Lemma lookup_some st i u : lookup st i = Some u -> In u st /\ u_id u = i.
Proof.
  induction st as [|w st IH]; simpl; [discriminate|].
  destruct (id_eqb (u_id w) i) eqn:E.
  - intro H; inversion H; subst. split; [left; reflexivity | apply id_eqb_eq; exact E].
  - intro H. destruct (IH H). split; [right|]; assumption.
Qed.

(** ** Frame: a commit changes only the units of the out-state, and keeps identifiers. *)
Lemma override_frame out u : lookup out (u_id u) = None -> override out u = u.
Proof. unfold override. intros ->. reflexivity. Qed.

Lemma override_id out u : u_id (override out u) = u_id u.
Proof.
  unfold override. destruct (lookup out (u_id u)) as [u'|] eqn:E; [|reflexivity].
  apply lookup_some in E. apply E.
Qed.

Lemma commit_ids st out : map u_id (commit st out) = map u_id st.
Proof.
  unfold commit. rewrite map_map. apply map_ext. intro u. apply override_id.
Qed.

Lemma commit_in st out u' : In u' (commit st out) ->
  exists u, In u st /\ u' = override out u.
Proof. unfold commit. intro H. apply in_map_iff in H as [u [H1 H2]]. exists u. auto. Qed.

(** ** Unique identifiers: lookup finds the unit itself. *)
Lemma ids_nodup_lookup st u : ids_nodup (map u_id st) = true -> In u st -> lookup st (u_id u) = Some u.
Proof.
  induction st as [|w st IH]; simpl; intros Hnd Hin; [contradiction|].
  apply andb_true_iff in Hnd as [Hn Hnd].
  destruct Hin as [->|Hin].
  - rewrite id_eqb_refl. reflexivity.
  - destruct (id_eqb (u_id w) (u_id u)) eqn:E.
    + exfalso. apply negb_true_iff in Hn.
      assert (existsb (id_eqb (u_id w)) (map u_id st) = true).
      { apply existsb_exists. exists (u_id u). split; [apply in_map; exact Hin | exact E]. }
      congruence.
    + apply IH; assumption.
Qed.

(** ** What an accepted leg gives. *)
Definition pending_future (s : kstate) : Prop :=
  forall e, In e (s_pending s) -> s_now s <= snd e.

Lemma drop_handler_in h p e : In e (drop_handler h p) -> In e p.
Proof. unfold drop_handler. intro H. apply filter_In in H. apply H. Qed.

Lemma push_all_future now cs : forall p,
  (forall e, In e p -> now <= snd e) ->
  forallb (fun c => match tvalue (snd c) with Some q => Qle_bool now q | None => true end) cs = true ->
  forall e, In e (push_all p cs) -> now <= snd e.
Proof.
  induction cs as [|[h t] cs IH]; intros p Hp Hc e He; simpl in *; [auto|].
  apply andb_true_iff in Hc as [Hc1 Hc2].
  destruct (tvalue t) as [q|] eqn:Et.
  - apply (IH ((h, q) :: drop_handler h p)); auto.
    intros e' [<-|Hin]; simpl; [apply Qle_bool_iff; exact Hc1 | apply Hp; eapply drop_handler_in; exact Hin].
  - apply (IH (drop_handler h p)); auto.
    intros e' Hin. apply Hp. eapply drop_handler_in; exact Hin.
Qed.

Lemma trash_all_k_in hs : forall p e, In e (trash_all_k p hs) -> In e p.
Proof.
  unfold trash_all_k. induction hs as [|h hs IH]; intros p e He; simpl in *; [exact He|].
  apply IH in He. eapply drop_handler_in; exact He.
Qed.

Lemma is_min_le p h t e : is_min p h t = true -> In e p -> t <= snd e.
Proof.
  unfold is_min. intros H Hin. apply andb_true_iff in H as [_ H].
  rewrite forallb_forall in H. apply Qle_bool_iff. apply H. exact Hin.
Qed.

Lemma is_min_in p h t : is_min p h t = true -> exists e, In e p /\ snd e == t.
Proof.
  unfold is_min. intro H. apply andb_true_iff in H as [H _].
  apply existsb_exists in H as [e [Hin He]]. apply andb_true_iff in He as [_ He].
  exists e. split; auto. apply Qeq_bool_iff. exact He.
Qed.

(** Committed event times never decrease: the pick is a minimum of the pending events and every
    pending event lies in the future of the previous commit. *)
Theorem leg_time_monotone Ls n s l s' :
  pending_future s ->
  leg_ok Ls n s l = Some s' ->
  s_now s <= s_now s' /\ pending_future s'.
Proof.
  unfold leg_ok. intros Hp H.
  destruct (tvalue (k_time l)) as [T|]; [|discriminate].
  destruct (forallb _ (k_cands l) && is_min _ (k_pick l) T && out_ok _ _ _ _ _ _ && _) eqn:E1; [|discriminate].
  destruct (after_ok _ _ _ && _) eqn:E2; [|discriminate].
  inversion H; subst s'; clear H. simpl.
  apply andb_true_iff in E1 as [E1 _]. apply andb_true_iff in E1 as [E1 _].
  apply andb_true_iff in E1 as [Hc Hm].
  pose proof (push_all_future (s_now s) (k_cands l) (s_pending s) Hp Hc) as Hfut.
  split.
  - destruct (is_min_in _ _ _ Hm) as [e [Hin He]]. rewrite <- He. apply Hfut. exact Hin.
  - intros e He. simpl in *. apply trash_all_k_in in He. eapply is_min_le; eauto.
Qed.

(** ** Per-unit consequences of the out-state contract. *)
Definition box_inv (Ls : list Q) (st : gstate) : Prop := forall u, In u st -> in_box Ls u = true.

Lemma out_ok_unit Ls st k T tT out u u' :
  out_ok Ls st k T tT out = true ->
  ids_nodup (map u_id st) = true ->
  In u st -> lookup out (u_id u) = Some u' ->
  unit_ok Ls k T tT u u' = true.
Proof.
  unfold out_ok. intros H Hnd Hin Hl. rewrite forallb_forall in H.
  destruct (lookup_some _ _ _ Hl) as [Hin' Hid].
  specialize (H u' Hin'). rewrite Hid in H. rewrite (ids_nodup_lookup st u Hnd Hin) in H. exact H.
Qed.

Lemma unit_ok_box Ls k T tT u u' : unit_ok Ls k T tT u u' = true -> in_box Ls u' = true.
Proof.
  unfold unit_ok. intro H. repeat (apply andb_true_iff in H as [H ?]). assumption.
Qed.

Lemma unit_ok_charge Ls k T tT u u' : unit_ok Ls k T tT u u' = true -> zs_eqb (u_charge u) (u_charge u') = true.
Proof.
  unfold unit_ok. intro H. repeat (apply andb_true_iff in H as [H ?]). assumption.
Qed.

(** continuity: the trajectories before and after the commit agree at the commit time, within the
    rounding bound of the two time-slices involved *)
Definition continuous_at (Ls : list Q) (k : ekind) (T : Q) (u u' : unit) : Prop :=
  forall d, (d < length Ls)%nat ->
    exists a b, pos_at u T d = Some a /\ pos_at u' T d = Some b /\
      circ_le a b (nth d Ls 1)
              (slice_tol u T d (nth d Ls 1) + slice_tol u' T d (nth d Ls 1)
               + match k with KCellBoundary => 4 * nth d Ls 1 * eps50 | _ => 0 end) = true.

Lemma unit_ok_continuous Ls k T tT u u' : unit_ok Ls k T tT u u' = true -> continuous_at Ls k T u u'.
Proof.
  unfold unit_ok. intro H. apply andb_true_iff in H as [_ H].
  rewrite forallb_forall in H. intros d Hd.
  specialize (H d ltac:(apply in_seq; lia)).
  destruct (pos_at u T d) as [a|], (pos_at u' T d) as [b|]; try discriminate.
  exists a, b. auto.
Qed.

Lemma unit_ok_inactive_fixed Ls k T tT u u' :
  unit_ok Ls k T tT u u' = true -> moving u = false -> k <> KCellBoundary ->
  vel_eqb (u_pos u) (u_pos u') = true.
Proof.
  unfold unit_ok. intros H Hm Hk. apply andb_true_iff in H as [H _]. apply andb_true_iff in H as [_ H].
  rewrite Hm in H. simpl in H. destruct k; try exact H. congruence.
Qed.

(** ** One accepted leg: frame + contract for EVERY unit of the global state. *)
Record leg_facts (Ls : list Q) (s s' : kstate) (l : kleg) (T : Q) : Prop := {
  lf_time : tvalue (k_time l) = Some T;
  lf_now : s_now s' = T;
  lf_ids : map u_id (s_units s') = map u_id (s_units s);
  lf_units : forall u, In u (s_units s) ->
      (lookup (k_out l) (u_id u) = None /\ In u (s_units s'))           (* untouched, identical *)
      \/ (exists u', lookup (k_out l) (u_id u) = Some u' /\ In u' (s_units s')
                     /\ unit_ok Ls (k_kind l) T (k_time l) u u' = true);
  lf_all : forall u', In u' (s_units s') -> exists u, In u (s_units s) /\ u' = override (k_out l) u;
  lf_chain : s_started s' = true -> chain_ok (s_units s') = true;
  lf_real : after_ok (s_units s) (s_units s') (k_after l) = true
}.

Theorem leg_ok_facts Ls n s l s' :
  ids_nodup (map u_id (s_units s)) = true ->
  leg_ok Ls n s l = Some s' ->
  exists T, leg_facts Ls s s' l T.
Proof.
  unfold leg_ok. intros Hnd H.
  destruct (tvalue (k_time l)) as [T|] eqn:Et; [|discriminate].
  destruct (forallb _ (k_cands l) && is_min _ (k_pick l) T && out_ok _ _ _ _ _ _ && _) eqn:E1; [|discriminate].
  destruct (after_ok _ _ _ && _) eqn:E2; [|discriminate].
  inversion H; subst s'; clear H.
  apply andb_true_iff in E1 as [E1 _]. apply andb_true_iff in E1 as [_ Hout].
  apply andb_true_iff in E2 as [Hafter Hch].
  exists T. constructor; simpl; auto.
  - apply commit_ids.
  - intros u Hin. destruct (lookup (k_out l) (u_id u)) as [u'|] eqn:El.
    + right. exists u'. split; [reflexivity|]. split.
      * unfold commit. apply in_map_iff. exists u. split; auto. unfold override. rewrite El. reflexivity.
      * eapply out_ok_unit; eauto.
    + left. split; auto. unfold commit. apply in_map_iff. exists u. split; auto. apply override_frame; exact El.
  - intros u' Hin. apply commit_in. exact Hin.
  - intro Hst. rewrite Hst in Hch. simpl in Hch. apply andb_true_iff in Hch as [Hc _]. exact Hc.
Qed.

Lemma ids_nodup_preserved Ls n s l s' :
  ids_nodup (map u_id (s_units s)) = true -> leg_ok Ls n s l = Some s' ->
  ids_nodup (map u_id (s_units s')) = true.
Proof.
  intros Hnd H. destruct (leg_ok_facts _ _ _ _ _ Hnd H) as [T F]. rewrite (lf_ids _ _ _ _ _ F). exact Hnd.
Qed.

Lemma box_preserved Ls n s l s' :
  ids_nodup (map u_id (s_units s)) = true -> box_inv Ls (s_units s) ->
  leg_ok Ls n s l = Some s' -> box_inv Ls (s_units s').
Proof.
  intros Hnd Hb H. destruct (leg_ok_facts _ _ _ _ _ Hnd H) as [T F].
  intros u' Hin'. destruct (lf_all _ _ _ _ _ F u' Hin') as [u [Hin ->]].
  destruct (lf_units _ _ _ _ _ F u Hin) as [[Hl _]|[u'' [Hl [_ Hok]]]].
  - rewrite override_frame by exact Hl. apply Hb; exact Hin.
  - unfold override. rewrite Hl. eapply unit_ok_box; exact Hok.
Qed.

(** ** Whole runs. *)
Definition good (Ls : list Q) (ids : list (list nat)) (s : kstate) : Prop :=
  ids_nodup (map u_id (s_units s)) = true /\ map u_id (s_units s) = ids /\
  box_inv Ls (s_units s) /\ pending_future s /\ (s_started s = true -> chain_ok (s_units s) = true).

Fixpoint nondecreasing (now : Q) (l : list kstate) : Prop :=
  match l with
  | [] => True
  | s :: r => now <= s_now s /\ nondecreasing (s_now s) r
  end.

Theorem run_invariants Ls ls : forall n s ss ids,
  ids_nodup (map u_id (s_units s)) = true -> map u_id (s_units s) = ids ->
  box_inv Ls (s_units s) -> pending_future s ->
  run_states_k Ls n s ls = Some ss ->
  nondecreasing (s_now s) ss /\ Forall (good Ls ids) ss.
Proof.
  induction ls as [|l ls IH]; intros n s ss ids Hnd Hids Hb Hp H; simpl in H.
  - inversion H; subst. simpl. split; [exact I | constructor].
  - destruct (leg_ok Ls n s l) as [s'|] eqn:El; [|discriminate].
    destruct (run_states_k Ls (S n) s' ls) as [r|] eqn:Er; [|discriminate].
    inversion H; subst ss; clear H.
    destruct (leg_time_monotone _ _ _ _ _ Hp El) as [Hle Hp'].
    pose proof (ids_nodup_preserved _ _ _ _ _ Hnd El) as Hnd'.
    pose proof (box_preserved _ _ _ _ _ Hnd Hb El) as Hb'.
    destruct (leg_ok_facts _ _ _ _ _ Hnd El) as [T F].
    assert (Hids' : map u_id (s_units s') = ids) by (rewrite (lf_ids _ _ _ _ _ F); exact Hids).
    destruct (IH (S n) s' r ids Hnd' Hids' Hb' Hp' Er) as [Hmono Hall].
    split; [simpl; split; assumption|].
    constructor; [|exact Hall].
    repeat split; auto. exact (lf_chain _ _ _ _ _ F).
Qed.

Lemma init_ok_facts Ls st : init_ok Ls st = true ->
  ids_nodup (map u_id st) = true /\ box_inv Ls st.
Proof.
  unfold init_ok. intro H. apply andb_true_iff in H as [H _]. apply andb_true_iff in H as [Hnd H].
  split; [exact Hnd|]. intros u Hin. rewrite forallb_forall in H. specialize (H u Hin).
  repeat (apply andb_true_iff in H as [H ?]). assumption.
Qed.

(** Headline: every recorded run accepted by [check_kcase], of any length, has non-decreasing commit
    times; after every commit all identifiers are the initial ones, every position lies in the box,
    and from the start-of-run event on there is exactly one chain. *)
Theorem accepted_run_kinematics (c : kcase) :
  check_kcase c = true ->
  exists ss,
    run_states_k (map f2q (kc_L c)) 0 (kinit c) (kc_legs c) = Some ss /\
    nondecreasing 0 ss /\
    Forall (good (map f2q (kc_L c)) (map u_id (kc_init c))) ss.
Proof.
  unfold check_kcase. intro H. apply andb_true_iff in H as [H Hrun]. apply andb_true_iff in H as [_ Hinit].
  unfold run_ok in Hrun.
  destruct (run_states_k (map f2q (kc_L c)) 0 (kinit c) (kc_legs c)) as [ss|] eqn:E; [|discriminate].
  exists ss. split; [reflexivity|].
  destruct (init_ok_facts _ _ Hinit) as [Hnd Hb].
  apply (run_invariants (map f2q (kc_L c)) (kc_legs c) 0%nat (kinit c) ss (map u_id (kc_init c))); auto.
  intros e He. simpl in He. contradiction.
Qed.
