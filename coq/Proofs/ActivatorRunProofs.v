(** * Proofs/ActivatorRunProofs.v — C09 for whole recorded runs of any length:
    every run accepted by [check_acase] satisfies pending == fresh after every committed event. *)
From Coq Require Import List Arith Bool Lia.
Require Import JF.Model.Activator JF.Model.ActivatorCases JF.Proofs.ActivatorProofs.
Import ListNotations.

Lemma bools_eqb_eq a b : bools_eqb a b = true -> a = b.
Proof.
  revert b; induction a as [|x a IH]; intros [|y b]; simpl; intro H; try discriminate; auto.
  apply andb_true_iff in H as [H1 H2]. apply Bool.eqb_prop in H1. f_equal; auto.
Qed.

Lemma nodupb_NoDup l : nodupb l = true -> NoDup l.
Proof.
  induction l as [|x l IH]; simpl; intro H; [constructor|].
  apply andb_true_iff in H as [H1 H2]. constructor; auto.
  intro Hin. apply negb_true_iff in H1. unfold mem in H1.
  assert (existsb (Nat.eqb x) l = true).
  { apply existsb_exists. exists x. split; auto. apply Nat.eqb_refl. }
  congruence.
Qed.

Lemma creates_nodup_nth c t : creates_nodup c = true -> NoDup (nthl (w_creates (c_w c)) t).
Proof.
  unfold creates_nodup, nthl. intro H. rewrite forallb_forall in H.
  destruct (le_lt_dec (length (w_creates (c_w c))) t) as [Hge|Hlt].
  - rewrite nth_overflow by exact Hge. constructor.
  - apply nodupb_NoDup. apply H. apply nth_In. exact Hlt.
Qed.

Lemma eff_l_eff (U : astate) (l : aleg) x : a_active U = l_active l -> eff_l l x = eff U (gen_of l) x.
Proof. unfold eff_l, eff. intros ->. reflexivity. Qed.

Lemma forallb_seq_lt f n x : forallb f (seq 0 n) = true -> x < n -> f x = true.
Proof. intros H Hx. rewrite forallb_forall in H. apply H. apply in_seq. lia. Qed.

Section Run.
Variable c : acase.
Let w := c_w c.
Let K := kind_of c.
Let n := ntag c.

(** The chain: from a post-update state satisfying the invariant, all later post-update states
    of an accepted run satisfy it. *)
Lemma chain rest : forall l0 U0 us,
  lens U0 n ->
  creates_nodup c = true ->
  Inv K U0 (eff_l l0) ->
  run_states w (fst (act_trash w U0 (tg w (l_pick l0)))) (Some (l_pick l0)) rest = Some us ->
  frames_ok c (l0 :: rest) = true ->
  (forall x, n <= x -> K x = TOneShot) ->
  Forall2 (fun U l => Inv K U (eff_l l)) us rest.
Proof.
  induction rest as [|l1 rest IH]; intros l0 U0 us Hl Hnd Hinv Hrun Hfr Hk.
  - simpl in Hrun. inversion Hrun. constructor.
  - simpl in Hrun.
    destruct (act_trash w U0 (tg w (l_pick l0))) as [s1 tl] eqn:Et. simpl in Hrun.
    destruct (act_update w s1 (tg w (l_pick l0)) (gen_of l1)) as [[U1 tr]|] eqn:Eu; [|discriminate].
    destruct (torun_eqb tr (l_torun l1) && bools_eqb (a_active U1) (l_active l1)) eqn:Ec; [|discriminate].
    apply andb_true_iff in Ec as [_ Hact]. apply bools_eqb_eq in Hact.
    destruct (nats_eqb (snd (act_trash w U1 (tg w (l_pick l1)))) (l_trash l1)); [|discriminate].
    destruct (run_states w (fst (act_trash w U1 (tg w (l_pick l1)))) (Some (l_pick l1)) rest) as [us'|] eqn:Er;
      [|discriminate].
    inversion Hrun; subst us; clear Hrun.
    simpl in Hfr. apply andb_true_iff in Hfr as [Hf0 Hfr'].
    assert (Hstep : lens U1 n /\ Inv K U1 (eff U1 (gen_of l1))).
    { apply (leg_preserves_inv w K U0 (tg w (l_pick l0)) (gen_of l1) s1 tl U1 tr (eff_l l0) n); auto.
      - apply creates_nodup_nth; exact Hnd.
      - intro x. destruct (le_lt_dec n x) as [Hge|Hlt].
        + unfold frame_ok_x. rewrite (Hk x Hge). reflexivity.
        + rewrite <- (eff_l_eff U1 l1 x Hact).
          apply (forallb_seq_lt _ _ x Hf0 Hlt). }
    destruct Hstep as [Hl1 Hinv1].
    constructor.
    + intro x. rewrite (eff_l_eff U1 l1 x Hact). apply Hinv1.
    + apply (IH l1 U1 us'); auto.
      intro x. rewrite (eff_l_eff U1 l1 x Hact). apply Hinv1.
Qed.

Lemma nth_map_const {A B} (l : list A) (b : B) x : nth x (map (fun _ => b) l) b = b.
Proof. revert x; induction l as [|a l IH]; intros [|x]; simpl; auto. Qed.

Lemma pending_init x : pending (a_init w) x = [].
Proof. unfold pending, a_init, nthl. simpl. rewrite nth_map_const. reflexivity. Qed.

Lemma lens_init : lens (a_init w) n.
Proof. unfold lens, a_init, n, ntag. simpl. rewrite map_length. split; reflexivity. Qed.

(** C09 for a whole recorded run: every post-update activator state from the second leg on
    (i.e. after every committed event) satisfies pending == fresh generation. *)
Theorem run_pending_fresh l0 l1 rest U0 U1 us :
  c_legs c = l0 :: l1 :: rest ->
  run_states w (a_init w) None (c_legs c) = Some (U0 :: U1 :: us) ->
  creates_nodup c = true ->
  frame0_ok c l0 l1 = true ->
  frames_ok c (l1 :: rest) = true ->
  (forall x, n <= x -> K x = TOneShot) ->
  Forall2 (fun U l => Inv K U (eff_l l)) (U1 :: us) (l1 :: rest).
Proof.
  intros Hlegs Hrun Hnd Hf0 Hfr Hk. rewrite Hlegs in Hrun. simpl in Hrun.
  destruct (act_first w (a_init w) (gen_of l0)) as [[U0' tr0]|] eqn:E0; [|discriminate].
  destruct (torun_eqb tr0 (l_torun l0) && bools_eqb (a_active U0') (l_active l0)); [|discriminate].
  destruct (nats_eqb (snd (act_trash w U0' (tg w (l_pick l0)))) (l_trash l0)); [|discriminate].
  destruct (act_trash w U0' (tg w (l_pick l0))) as [s1 tl] eqn:Et. simpl in Hrun.
  destruct (act_update w s1 (tg w (l_pick l0)) (gen_of l1)) as [[U1' tr1]|] eqn:Eu; [|discriminate].
  destruct (torun_eqb tr1 (l_torun l1) && bools_eqb (a_active U1') (l_active l1)) eqn:Ec; [|discriminate].
  apply andb_true_iff in Ec as [_ Hact]. apply bools_eqb_eq in Hact.
  destruct (nats_eqb (snd (act_trash w U1' (tg w (l_pick l1)))) (l_trash l1)); [|discriminate].
  destruct (run_states w (fst (act_trash w U1' (tg w (l_pick l1)))) (Some (l_pick l1)) rest) as [us'|] eqn:Er;
    [|discriminate].
  inversion Hrun; subst U0' U1' us'; clear Hrun.
  (* state after the first call *)
  unfold act_first in E0.
  pose proof (apply_activation_lens w (a_init w) (w_start w) n lens_init) as Hl0'.
  destruct (create_all_spec [w_start w] _ _ _ _ n Hl0' ltac:(repeat constructor; simpl; tauto) E0)
    as (HlU0 & _ & HpU0).
  unfold act_trash in Et. destruct (trash_all_spec _ _ _ _ n HlU0 Et) as (Hls1 & _ & Hps1).
  unfold act_update in Eu.
  pose proof (apply_activation_lens w s1 (tg w (l_pick l0)) n Hls1) as Hls1'.
  destruct (create_all_spec _ _ _ _ _ n Hls1' (creates_nodup_nth c _ Hnd) Eu) as (HlU1 & HaU1 & HpU1).
  assert (HinvU1 : Inv K U1 (eff_l l1)).
  { intro x. rewrite HpU1, apply_activation_pending, Hps1, HpU0, apply_activation_pending, pending_init.
    rewrite (eff_l_eff U1 l1 x Hact).
    rewrite <- (eff_active (apply_activation w s1 (tg w (l_pick l0))) U1 (gen_of l1) x HaU1).
    unfold frame0_ok in Hf0. apply andb_true_iff in Hf0 as [Hst Hall].
    destruct (le_lt_dec n x) as [Hge|Hlt]; [rewrite (Hk x Hge); reflexivity|].
    pose proof (forallb_seq_lt _ _ x Hall Hlt) as Hx. simpl in Hx. fold (K x) in Hx.
    destruct (Nat.eq_dec x (w_start w)) as [->|Hne].
    - fold w in Hst. fold (K (w_start w)) in Hst. destruct (K (w_start w)); try discriminate. reflexivity.
    - assert (mem x [w_start w] = false) as ->.
      { unfold mem. simpl. apply Nat.eqb_neq in Hne. rewrite Hne. reflexivity. }
      simpl. change (c_w c) with w in Hx, HpU1 |- *.
      destruct (K x) eqn:Ek; try reflexivity.
      all: destruct (mem x (nthl (w_trashes w) (tg w (l_pick l0)))); simpl.
      all: destruct (mem x (nthl (w_creates w) (tg w (l_pick l0)))) eqn:Em; simpl in Hx |- *.
      all: try (apply (rel_refl TIdentity)); try (apply (rel_refl TCount)).
      all: try (rewrite (eff_l_eff U1 l1 x Hact) in Hx;
                destruct (eff U1 (gen_of l1) x); try discriminate; reflexivity). }
  constructor; [exact HinvU1|].
  apply (chain rest l1 U1 us); auto.
Qed.

End Run.

(** Headline: every recorded run accepted by the checker that the harness evaluates ([check_acase])
    satisfies pending == fresh generation after every committed event, whatever its length. *)
Theorem accepted_run_pending_fresh (c : acase) l0 l1 rest :
  check_acase c = true ->
  c_legs c = l0 :: l1 :: rest ->
  exists U0 U1 us,
    run_states (c_w c) (a_init (c_w c)) None (c_legs c) = Some (U0 :: U1 :: us) /\
    Forall2 (fun U l => Inv (kind_of c) U (eff_l l)) (U1 :: us) (l1 :: rest).
Proof.
  intros Hc Hlegs. unfold check_acase in Hc.
  apply andb_true_iff in Hc as [Hc Hfr]. apply andb_true_iff in Hc as [Hc Hlen].
  apply andb_true_iff in Hc as [Hrun Hnd].
  rewrite Hlegs in Hfr. apply andb_true_iff in Hfr as [Hf0 Hfr].
  unfold run_conf in Hrun. destruct (run_states (c_w c) (a_init (c_w c)) None (c_legs c)) as [us0|] eqn:Er;
    [|discriminate].
  assert (Hshape : exists U0 U1 us, us0 = U0 :: U1 :: us).
  { rewrite Hlegs in Er. simpl in Er.
    destruct (act_first (c_w c) (a_init (c_w c)) (gen_of l0)) as [[a b]|]; [|discriminate].
    destruct (torun_eqb b (l_torun l0) && bools_eqb (a_active a) (l_active l0)); [|discriminate].
    destruct (nats_eqb _ _); [|discriminate].
    destruct (act_update _ _ _ _) as [[a1 b1]|]; [|discriminate].
    destruct (torun_eqb b1 (l_torun l1) && bools_eqb (a_active a1) (l_active l1)); [|discriminate].
    destruct (nats_eqb _ _); [|discriminate].
    destruct (run_states _ _ _ rest) as [us'|]; [|discriminate].
    inversion Er. eauto. }
  destruct Hshape as (U0 & U1 & us & ->).
  exists U0, U1, us. split; [reflexivity|].
  apply (run_pending_fresh c l0 l1 rest U0 U1 us); auto.
  intros x Hx. unfold kind_of. apply nth_overflow. apply Nat.leb_le in Hlen. unfold ntag in *. lia.
Qed.
