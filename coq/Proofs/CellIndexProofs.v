(** * Proofs/CellIndexProofs.v — the index relations of Model/CellIndex.v form a torus
    (any dimension, unequal numbers of cells per side).  Pure Z / list development. *)
From Coq Require Import ZArith Bool List Lia.
Require Import JF.Model.CellIndex.
Import ListNotations.
Local Open Scope Z_scope.

Definition positive_counts (ns : list Z) : Prop := Forall (fun n => 0 < n) ns.

(** ** validity *)
Lemma valid_length : forall ns id, valid ns id -> length id = length ns.
Proof. intros ns id H. induction H; simpl; congruence. Qed.

Lemma valid_positive : forall ns id, valid ns id -> positive_counts ns.
Proof. intros ns id H. induction H; constructor; auto; lia. Qed.

Lemma validb_spec : forall ns id, validb ns id = true <-> valid ns id.
Proof.
  intros ns id; revert ns. induction id as [|i id IH]; intros [|n ns]; simpl.
  - split; auto. constructor.
  - split; [discriminate | intros H; inversion H].
  - split; [discriminate | intros H; inversion H].
  - rewrite !andb_true_iff, IH, Z.leb_le, Z.ltb_lt. split.
    + intros [[H1 H2] H3]. constructor; auto.
    + intros H; inversion H; subst. tauto.
Qed.

Lemma valid_zero : forall ns, positive_counts ns -> valid ns (zero ns).
Proof. intros ns H. induction H; simpl; constructor; auto; lia. Qed.

(** ** relative / translate *)
Lemma translate_cons : forall n ns x a y b,
  translate (n :: ns) (x :: a) (y :: b) = (x + y) mod n :: translate ns a b.
Proof. reflexivity. Qed.
Lemma relative_cons : forall n ns x a y b,
  relative (n :: ns) (x :: a) (y :: b) = (x - y) mod n :: relative ns a b.
Proof. reflexivity. Qed.
Lemma zero_cons : forall n ns, zero (n :: ns) = 0 :: zero ns.
Proof. reflexivity. Qed.
Ltac tr_simpl := repeat (progress (rewrite ?translate_cons, ?relative_cons, ?zero_cons)).
Lemma valid_translate : forall ns a b, positive_counts ns -> length a = length ns -> length b = length ns ->
  valid ns (translate ns a b).
Proof.
  intros ns a b H; revert a b. induction H as [|n ns Hn H IH]; intros [|x a] [|y b]; simpl length; try discriminate.
  - constructor.
  - intros Ha Hb. tr_simpl. constructor. apply Z.mod_pos_bound; lia. apply IH; lia.
Qed.

Lemma valid_relative : forall ns a b, positive_counts ns -> length a = length ns -> length b = length ns ->
  valid ns (relative ns a b).
Proof.
  intros ns a b H; revert a b. induction H as [|n ns Hn H IH]; intros [|x a] [|y b]; simpl length; try discriminate.
  - constructor.
  - intros Ha Hb. tr_simpl. constructor. apply Z.mod_pos_bound; lia. apply IH; lia.
Qed.

(** translate inverts relative offset *)
Lemma translate_relative : forall ns c r, valid ns c -> valid ns r ->
  translate ns r (relative ns c r) = c.
Proof.
  intros ns c r Hc; revert r. induction Hc as [|x n c ns Hx Hc IH]; intros r Hr; inversion Hr; subst; tr_simpl.
  - reflexivity.
  - f_equal.
    + rewrite Zplus_mod_idemp_r. replace (x0 + (x - x0)) with x by ring. apply Z.mod_small; lia.
    + apply IH; assumption.
Qed.

Lemma relative_translate : forall ns c rel, valid ns c -> valid ns rel ->
  relative ns (translate ns c rel) c = rel.
Proof.
  intros ns c rel Hc; revert rel. induction Hc as [|x n c ns Hx Hc IH]; intros r Hr; inversion Hr; subst; tr_simpl.
  - reflexivity.
  - f_equal.
    + rewrite Zminus_mod_idemp_l. replace (x + x0 - x) with x0 by ring. apply Z.mod_small; lia.
    + apply IH; assumption.
Qed.

Lemma translate_zero : forall ns a, valid ns a -> translate ns a (zero ns) = a.
Proof.
  intros ns a H. induction H; tr_simpl; [reflexivity|]. f_equal; auto. rewrite Z.add_0_r. apply Z.mod_small; lia.
Qed.

Lemma relative_self : forall ns a, valid ns a -> relative ns a a = zero ns.
Proof.
  intros ns a H. induction H; tr_simpl; [reflexivity|]. f_equal; auto. rewrite Z.sub_diag. apply Z.mod_0_l; lia.
Qed.

Lemma relative_zero : forall ns a, valid ns a -> relative ns a (zero ns) = a.
Proof.
  intros ns a H. induction H; tr_simpl; [reflexivity|]. f_equal; auto. rewrite Z.sub_0_r. apply Z.mod_small; lia.
Qed.

(** ** nearby *)
Lemma In_range_from : forall cnt a d, In d (range_from a cnt) <-> a <= d < a + Z.of_nat cnt.
Proof.
  induction cnt as [|cnt IH]; intros a d.
  - simpl. lia.
  - change (range_from a (S cnt)) with (a :: range_from (a + 1) cnt).
    rewrite Nat2Z.inj_succ. simpl In. rewrite IH. lia.
Qed.

Lemma In_offsets : forall l d, In d (offsets l) <-> - l <= d <= l.
Proof.
  intros l d. unfold offsets. rewrite In_range_from.
  destruct (Z_lt_le_dec (2 * l + 1) 0) as [H|H].
  - replace (Z.to_nat (2 * l + 1)) with 0%nat by lia. simpl. lia.
  - rewrite Z2Nat.id by lia. lia.
Qed.

(** [near l ns a b]: every entry of [b] is the entry of [a] shifted by at most [l], modulo the count. *)
Fixpoint near (l : Z) (ns a b : list Z) : Prop :=
  match a, b, ns with
  | [], [], [] => True
  | x :: a', y :: b', n :: ns' => (exists d, - l <= d <= l /\ y = (x + d) mod n) /\ near l ns' a' b'
  | _, _, _ => False
  end.

Lemma In_nearby_raw_p : forall l ns a b, In b (nearby_raw_p l ns a) <-> near l ns a b.
Proof.
  intros l ns a; revert ns. induction a as [|x a IH]; intros [|n ns] b.
  - simpl. destruct b; intuition congruence.
  - simpl. destruct b; tauto.
  - simpl. destruct b; tauto.
  - cbn [nearby_raw_p]. rewrite in_flat_map. split.
    + intros [d [Hd Hb]]. apply in_map_iff in Hb. destruct Hb as [b' [Hb Hin]]. subst b.
      simpl. split. exists d. split; [apply In_offsets; assumption | reflexivity]. apply IH; assumption.
    + destruct b as [|y b]; simpl; [tauto|]. intros [[d [Hd Hy]] Hn].
      exists d. split. apply In_offsets; assumption. apply in_map_iff. exists b. split.
      congruence. apply IH; assumption.
Qed.

Lemma In_nearby_p : forall l ns a b, In b (nearby_p l ns a) <-> near l ns a b.
Proof. intros. unfold nearby_p. rewrite nodup_In. apply In_nearby_raw_p. Qed.

Lemma nearby_p_NoDup : forall l ns a, NoDup (nearby_p l ns a).
Proof. intros. apply NoDup_nodup. Qed.

Lemma near_valid : forall l ns a b, positive_counts ns -> near l ns a b -> valid ns b.
Proof.
  intros l ns a b H; revert a b. induction H as [|n ns Hn H IH]; intros [|x a] [|y b]; simpl; try tauto.
  - intros _. constructor.
  - intros [[d [Hd Hy]] Hr]. constructor. subst y. apply Z.mod_pos_bound; lia. eapply IH; eassumption.
Qed.

Lemma near_sym : forall l ns a b, valid ns a -> near l ns a b -> near l ns b a.
Proof.
  intros l ns a b Ha; revert b. induction Ha as [|x n a ns Hx Ha IH]; intros [|y b]; simpl; try tauto.
  intros [[d [Hd Hy]] Hr]. split; [|apply IH; assumption].
  exists (- d). split; [lia|]. subst y. rewrite Zplus_mod_idemp_l.
  replace (x + d + - d) with x by ring. symmetry. apply Z.mod_small; lia.
Qed.

Lemma near_refl : forall l ns a, 0 <= l -> valid ns a -> near l ns a a.
Proof.
  intros l ns a Hl Ha. induction Ha; simpl; auto. split; auto.
  exists 0. split; [lia|]. rewrite Z.add_0_r. symmetry. apply Z.mod_small; lia.
Qed.

Lemma nearby_symmetric : forall l ns a b, valid ns a -> valid ns b ->
  (In b (nearby_p l ns a) <-> In a (nearby_p l ns b)).
Proof. intros. rewrite !In_nearby_p. split; apply near_sym; assumption. Qed.

Lemma nearby_refl : forall l ns a, 0 <= l -> valid ns a -> In a (nearby_p l ns a).
Proof. intros. apply In_nearby_p. apply near_refl; assumption. Qed.

Lemma nearby_valid : forall l ns a b, positive_counts ns -> In b (nearby_p l ns a) -> valid ns b.
Proof. intros l ns a b H Hin. apply In_nearby_p in Hin. eapply near_valid; eassumption. Qed.

(** nearby is the translate of the neighbourhood of the zero cell *)
Lemma near_translate : forall l ns a b, length a = length ns ->
  (near l ns a b <-> exists z, near l ns (zero ns) z /\ b = translate ns a z).
Proof.
  intros l ns; induction ns as [|n ns IH]; intros [|x a] b Hlen; simpl in Hlen; try discriminate.
  - destruct b as [|y b].
    + split; intros _. exists []. split; [exact I | reflexivity]. exact I.
    + split. intros H; destruct H.
      intros [zs [Hz Hb]]. discriminate Hb.
  - injection Hlen as Hlen. destruct b as [|y b].
    + split. intros H; destruct H.
      intros [zs [Hz Hb]]. destruct zs as [|z0 zs]. destruct Hz. discriminate Hb.
    + split.
      * intros [[d [Hd Hy]] Hr]. apply (IH a b Hlen) in Hr. destruct Hr as [zs [Hz Hb]].
        exists ((0 + d) mod n :: zs). split.
        -- rewrite zero_cons. split; [exists d; auto | assumption].
        -- rewrite translate_cons. subst. f_equal. rewrite Zplus_mod_idemp_r. f_equal.
      * intros [zs [Hz Hb]]. rewrite zero_cons in Hz. destruct zs as [|z0 zs]; [destruct Hz|].
        destruct Hz as [[d [Hd Hz0]] Hz]. rewrite translate_cons in Hb. injection Hb as Hy Hb. split.
        -- exists d. split; auto. subst. rewrite Zplus_mod_idemp_r. f_equal.
        -- apply (IH a b Hlen). exists zs. auto.
Qed.

Lemma nearby_translation_invariant : forall l ns a b, valid ns a ->
  (In b (nearby_p l ns a) <-> In b (map (translate ns a) (nearby_p l ns (zero ns)))).
Proof.
  intros l ns a b Ha. rewrite In_nearby_p, in_map_iff, (near_translate l ns a b (valid_length _ _ Ha)).
  split; intros [z Hz]; exists z; rewrite In_nearby_p in *; intuition.
Qed.

(** the number of nearby cells does not depend on the cell (follows from translation invariance for valid
    cells; stated for the record through the bijection [translate a]) *)
Lemma translate_injective : forall ns a z z', valid ns a -> valid ns z -> valid ns z' ->
  translate ns a z = translate ns a z' -> z = z'.
Proof.
  intros ns a z z' Ha Hz Hz' H.
  rewrite <- (relative_translate ns a z Ha Hz), <- (relative_translate ns a z' Ha Hz'). congruence.
Qed.

(** ** neighbours *)
Lemma neighbor_is_translate_unit : forall ns a d positive, valid ns a ->
  neighbor_p ns a d positive = translate ns a (unit_cell ns d positive).
Proof.
  intros ns a d positive Ha; revert d. unfold neighbor_p, unit_cell.
  induction Ha as [|x n a ns Hx Ha IH]; intros d.
  - destruct d; reflexivity.
  - destruct d as [|d]; simpl; rewrite translate_cons.
    + f_equal. rewrite Zplus_mod_idemp_r. reflexivity.
      symmetry. apply translate_zero; assumption.
    + f_equal. rewrite Z.add_0_r. symmetry. apply Z.mod_small; lia. apply IH.
Qed.

Lemma upd_dir_length : forall f d id ns, length (upd_dir f d id ns) = length id.
Proof.
  intros f d; induction d as [|d IH]; intros [|i id] [|n ns]; simpl; auto.
Qed.

Lemma zero_length : forall ns, length (zero ns) = length ns.
Proof. intros. apply map_length. Qed.

Lemma neighbor_p_valid : forall ns a d positive, valid ns a -> valid ns (neighbor_p ns a d positive).
Proof.
  intros ns a d positive Ha. rewrite neighbor_is_translate_unit by assumption.
  pose proof (valid_positive _ _ Ha) as Hp. apply valid_translate; auto.
  - apply valid_length; assumption.
  - unfold unit_cell. rewrite upd_dir_length. apply zero_length.
Qed.

(** positive and negative neighbours are mutually inverse *)
Lemma neighbor_p_inverse : forall ns a d positive, valid ns a ->
  neighbor_p ns (neighbor_p ns a d positive) d (negb positive) = a.
Proof.
  intros ns a d positive Ha; revert d. unfold neighbor_p.
  induction Ha as [|x n a ns Hx Ha IH]; intros d.
  - destruct d; reflexivity.
  - destruct d as [|d]; simpl.
    + f_equal. rewrite Zplus_mod_idemp_l. replace (x + sgn positive + sgn (negb positive)) with x
        by (destruct positive; simpl; ring). apply Z.mod_small; lia.
    + f_equal. apply IH.
Qed.

(** the neighbour in direction d is a nearby cell as soon as there is one layer *)
Lemma neighbor_in_nearby : forall l ns a d positive, 1 <= l -> valid ns a ->
  In (neighbor_p ns a d positive) (nearby_p l ns a).
Proof.
  intros l ns a d positive Hl Ha. apply In_nearby_p. revert d. unfold neighbor_p.
  induction Ha as [|x n a ns Hx Ha IH]; intros d.
  - destruct d; exact I.
  - destruct d as [|d]; simpl.
    + split. exists (sgn positive). split; [destruct positive; simpl; lia | reflexivity].
      apply near_refl; [lia | assumption].
    + split. exists 0. split; [lia|]. rewrite Z.add_0_r. symmetry. apply Z.mod_small; lia. apply IH.
Qed.

(** ** the non-periodic class CuboidCells *)
Fixpoint near_np (l : Z) (ns a b : list Z) : Prop :=
  match a, b, ns with
  | [], [], [] => True
  | x :: a', y :: b', n :: ns' => (- l <= y - x <= l /\ 0 <= y < n) /\ near_np l ns' a' b'
  | _, _, _ => False
  end.

Lemma In_nearby_np : forall l ns a b, In b (nearby_np l ns a) <-> near_np l ns a b.
Proof.
  intros l ns a; revert ns. induction a as [|x a IH]; intros [|n ns] b.
  - simpl. destruct b; intuition congruence.
  - simpl. destruct b; tauto.
  - simpl. destruct b; tauto.
  - cbn [nearby_np]. rewrite in_flat_map. split.
    + intros [d [Hd Hb]]. apply In_offsets in Hd.
      destruct ((0 <=? x + d) && (x + d <? n)) eqn:E; [|destruct Hb].
      apply andb_true_iff in E. destruct E as [E1 E2]. apply Z.leb_le in E1. apply Z.ltb_lt in E2.
      apply in_map_iff in Hb. destruct Hb as [b' [Hb Hin]]. subst b. simpl.
      split. lia. apply IH; assumption.
    + destruct b as [|y b]; simpl; [tauto|]. intros [[Hd Hy] Hn].
      exists (y - x). split. apply In_offsets; lia.
      replace (x + (y - x)) with y by ring.
      replace ((0 <=? y) && (y <? n)) with true
        by (symmetry; apply andb_true_iff; split; [apply Z.leb_le | apply Z.ltb_lt]; lia).
      apply in_map_iff. exists b. split. reflexivity. apply IH; assumption.
Qed.

Lemma near_np_near : forall l ns a b, near_np l ns a b -> near l ns a b.
Proof.
  intros l ns a; revert ns. induction a as [|x a IH]; intros [|n ns] [|y b]; simpl; try tauto.
  intros [[Hd Hy] Hr]. split; [|apply IH; assumption].
  exists (y - x). split; [lia|]. replace (x + (y - x)) with y by ring. symmetry. apply Z.mod_small; lia.
Qed.

(** the non-periodic neighbourhood is the part of the periodic one reached without wrapping *)
Lemma nearby_np_subset : forall l ns a b, In b (nearby_np l ns a) -> In b (nearby_p l ns a).
Proof. intros l ns a b H. apply In_nearby_p. apply near_np_near. apply In_nearby_np. assumption. Qed.

Lemma nearby_np_symmetric : forall l ns a b, valid ns a -> valid ns b ->
  (In b (nearby_np l ns a) <-> In a (nearby_np l ns b)).
Proof.
  intros l ns a b Ha Hb. rewrite !In_nearby_np. revert b Hb.
  induction Ha as [|x n a ns Hx Ha IH]; intros b Hb; inversion Hb; subst; simpl.
  - tauto.
  - specialize (IH _ H3). split; intros [[H1 H2'] H3']; (split; [lia | apply IH; assumption]).
Qed.

Lemma nearby_np_refl : forall l ns a, 0 <= l -> valid ns a -> In a (nearby_np l ns a).
Proof.
  intros l ns a Hl Ha. apply In_nearby_np. induction Ha; simpl; auto. split; auto. lia.
Qed.

Lemma neighbor_np_some : forall ns a d positive b, valid ns a ->
  neighbor_np ns a d positive = Some b ->
  b = neighbor_p ns a d positive /\ 0 <= nth d a 0 + sgn positive < nth d ns 0.
Proof.
  intros ns a d positive b Ha. unfold neighbor_np, neighbor_p.
  assert (Hnth : (d < length ns)%nat -> 0 <= nth d a 0 < nth d ns 0).
  { revert d. induction Ha; intros d Hd; simpl in Hd. lia. destruct d; simpl. assumption. apply IHHa. lia. }
  assert (Hupd : forall s, 0 <= nth d a 0 + s < nth d ns 0 ->
     upd_dir (fun i _ => i + s) d a ns = upd_dir (fun i n => (i + s) mod n) d a ns).
  { clear Hnth. revert d. induction Ha; intros d s Hs. destruct d; reflexivity.
    destruct d; simpl in *. f_equal. symmetry. apply Z.mod_small. lia. f_equal. apply IHHa. assumption. }
  destruct (Nat.lt_ge_cases d (length ns)) as [Hd|Hd].
  - specialize (Hnth Hd). destruct positive; simpl.
    + destruct (nth d a 0 + 1 >=? nth d ns 0) eqn:E; [discriminate|]. intros H; injection H as H.
      rewrite Z.geb_leb in E; apply Z.leb_gt in E. split; [|lia]. subst b. apply Hupd. lia.
    + destruct (nth d a 0 - 1 <? 0) eqn:E; [discriminate|]. intros H; injection H as H.
      apply Z.ltb_ge in E. split; [|lia]. subst b. apply (Hupd (-1)). lia.
  - rewrite (nth_overflow ns) by assumption. rewrite (nth_overflow a) by (rewrite (valid_length _ _ Ha); assumption).
    destruct positive; simpl; discriminate.
Qed.

Lemma neighbor_np_none : forall ns a d positive, valid ns a -> (d < length ns)%nat ->
  (neighbor_np ns a d positive = None <-> ~ (0 <= nth d a 0 + sgn positive < nth d ns 0)).
Proof.
  intros ns a d positive Ha Hd.
  assert (Hnth : 0 <= nth d a 0 < nth d ns 0).
  { revert d Hd. induction Ha; intros d Hd; simpl in Hd. lia. destruct d; simpl. assumption. apply IHHa. lia. }
  unfold neighbor_np. destruct positive; simpl.
  - destruct (nth d a 0 + 1 >=? nth d ns 0) eqn:E.
    + rewrite Z.geb_leb in E; apply Z.leb_le in E. split; [lia | reflexivity].
    + rewrite Z.geb_leb in E; apply Z.leb_gt in E. split; [discriminate | lia].
  - destruct (nth d a 0 - 1 <? 0) eqn:E.
    + apply Z.ltb_lt in E. split; [lia | reflexivity].
    + apply Z.ltb_ge in E. split; [discriminate | lia].
Qed.

(** ** flat index: bijection between valid identifiers and [0, number_of_cells) *)
Lemma dot_strides_scale : forall ns id acc, dot id (strides_from acc ns) = acc * dot id (strides_from 1 ns).
Proof.
  induction ns as [|n ns IH]; intros id acc.
  - destruct id; simpl; ring.
  - destruct id as [|i id]; cbn [dot strides_from]. ring.
    rewrite (IH id (acc * n)), (IH id (1 * n)). ring.
Qed.

Lemma flat_cons : forall n ns i id, flat (n :: ns) (i :: id) = i + n * flat ns id.
Proof.
  intros. unfold flat, strides. cbn [dot strides_from]. rewrite (dot_strides_scale ns id (1 * n)). ring.
Qed.

Lemma flat_nil : flat [] [] = 0.
Proof. reflexivity. Qed.

Lemma flat_range : forall ns id, valid ns id -> 0 <= flat ns id < prod ns.
Proof.
  intros ns id H. induction H as [|i n id ns Hi H IH].
  - rewrite flat_nil. simpl. lia.
  - rewrite flat_cons. simpl prod. nia.
Qed.

Lemma unflat_flat : forall ns id, valid ns id -> unflat ns (flat ns id) = id.
Proof.
  intros ns id H. induction H as [|i n id ns Hi H IH].
  - reflexivity.
  - rewrite flat_cons. simpl. f_equal.
    + rewrite Z.mul_comm, Z_mod_plus_full. apply Z.mod_small; lia.
    + rewrite Z.mul_comm, Z_div_plus_full by lia. rewrite Z.div_small by lia. simpl. assumption.
Qed.

Lemma flat_unflat : forall ns k, positive_counts ns -> 0 <= k < prod ns ->
  flat ns (unflat ns k) = k /\ valid ns (unflat ns k).
Proof.
  intros ns k H; revert k. induction H as [|n ns Hn H IH]; intros k Hk.
  - simpl in *. split. rewrite flat_nil. lia. constructor.
  - simpl prod in Hk. simpl unflat. rewrite flat_cons.
    assert (Hq : 0 <= k / n < prod ns).
    { split. apply Z.div_pos; lia. apply Z.div_lt_upper_bound; lia. }
    destruct (IH _ Hq) as [IH1 IH2]. split.
    + rewrite IH1. pose proof (Z_div_mod_eq_full k n). lia.
    + constructor. apply Z.mod_pos_bound; lia. assumption.
Qed.

Lemma flat_injective : forall ns a b, valid ns a -> valid ns b -> flat ns a = flat ns b -> a = b.
Proof.
  intros ns a b Ha Hb H. rewrite <- (unflat_flat ns a Ha), <- (unflat_flat ns b Hb). congruence.
Qed.

(** the constructor's odometer enumerates the identifiers in flat order *)
Lemma next_ident_unflat : forall ns k, positive_counts ns -> 0 <= k -> k + 1 < prod ns ->
  next_ident ns (unflat ns k) = unflat ns (k + 1).
Proof.
  intros ns k H; revert k. induction H as [|n ns Hn H IH]; intros k Hk0 Hk.
  - simpl in Hk. lia.
  - simpl prod in Hk. simpl unflat. cbn [next_ident].
    pose proof (Z.mod_pos_bound k n Hn) as Hm. pose proof (Z_div_mod_eq_full k n) as Hdm.
    destruct (k mod n + 1 <? n) eqn:E.
    + apply Z.ltb_lt in E.
      assert (Hk1 : k + 1 = n * (k / n) + (k mod n + 1)) by lia.
      f_equal.
      * apply (Z.mod_unique_pos (k + 1) n (k / n) (k mod n + 1)); lia.
      * f_equal. apply (Z.div_unique_pos (k + 1) n (k / n) (k mod n + 1)); lia.
    + apply Z.ltb_ge in E.
      assert (Hk1 : k + 1 = n * (k / n + 1) + 0) by lia.
      assert (Hmod : (k + 1) mod n = 0).
      { symmetry. apply (Z.mod_unique_pos (k + 1) n (k / n + 1) 0); lia. }
      assert (Hdiv : (k + 1) / n = k / n + 1).
      { symmetry. apply (Z.div_unique_pos (k + 1) n (k / n + 1) 0); lia. }
      assert (Hq0 : 0 <= k / n) by (apply Z.div_pos; lia).
      assert (Hq : k / n + 1 < prod ns) by nia.
      rewrite Hmod, Hdiv. destruct ns as [|n' ns'].
      * simpl in Hq. lia.
      * rewrite <- (IH (k / n) Hq0 Hq). simpl unflat. reflexivity.
Qed.

Lemma unflat_zero : forall ns, positive_counts ns -> unflat ns 0 = zero ns.
Proof.
  intros ns H. induction H as [|n ns Hn H IH]; simpl. reflexivity.
  rewrite Z.mod_0_l by lia. rewrite Z.div_0_l by lia. f_equal. assumption.
Qed.

Lemma idents_from_unflat : forall ns cnt k, positive_counts ns -> 0 <= k -> k + Z.of_nat cnt <= prod ns ->
  idents_from ns (unflat ns k) cnt = map (unflat ns) (range_from k cnt).
Proof.
  intros ns cnt; induction cnt as [|cnt IH]; intros k Hp Hk Hle.
  - reflexivity.
  - simpl idents_from. simpl range_from. simpl map. f_equal.
    destruct cnt as [|cnt']; [reflexivity|].
    rewrite next_ident_unflat by (auto; lia). apply IH; auto; lia.
Qed.

(** [_cells] in list order: cell number k has identifier [unflat ns k], hence flat index k. *)
Lemma all_idents_spec : forall ns, positive_counts ns ->
  all_idents ns = map (unflat ns) (range_from 0 (Z.to_nat (prod ns))).
Proof.
  intros ns Hp. unfold all_idents. rewrite <- (unflat_zero ns Hp).
  apply idents_from_unflat; auto. lia.
  assert (0 < prod ns). { induction Hp; simpl; nia. }
  rewrite Z2Nat.id; lia.
Qed.

Lemma nth_range_from : forall cnt a k, (k < cnt)%nat -> nth k (range_from a cnt) 0 = a + Z.of_nat k.
Proof.
  induction cnt as [|cnt IH]; intros a k Hk. lia.
  destruct k as [|k]; simpl range_from; simpl nth. lia.
  rewrite IH by lia. lia.
Qed.

Lemma range_from_length : forall cnt a, length (range_from a cnt) = cnt.
Proof. induction cnt; intros; simpl; auto. Qed.

Lemma all_idents_nth : forall ns k, positive_counts ns -> 0 <= k < prod ns ->
  let id := nth (Z.to_nat k) (all_idents ns) [] in
  valid ns id /\ flat ns id = k.
Proof.
  intros ns k Hp Hk. rewrite (all_idents_spec ns Hp).
  assert (Hlt : (Z.to_nat k < Z.to_nat (prod ns))%nat) by lia.
  cbv zeta. rewrite (nth_indep _ [] (unflat ns 0)) by (rewrite map_length, range_from_length; exact Hlt).
  rewrite map_nth, nth_range_from by exact Hlt. rewrite Z2Nat.id by lia. simpl.
  destruct (flat_unflat ns k Hp Hk). split; assumption.
Qed.

(** ** combined statements used by Props/C16.v *)
Lemma flat_bijective_lemma : forall ns,
  (forall id, valid ns id -> 0 <= flat ns id < number_of_cells ns /\ unflat ns (flat ns id) = id) /\
  (positive_counts ns -> forall k, 0 <= k < number_of_cells ns ->
     flat ns (unflat ns k) = k /\ valid ns (unflat ns k)).
Proof.
  intros ns. split.
  - intros id H. split; [apply flat_range | apply unflat_flat]; assumption.
  - intros Hp k Hk. apply flat_unflat; assumption.
Qed.

Lemma nearby_characterised_lemma : forall l ns a b,
  (In b (nearby_p l ns a) <-> near l ns a b) /\ NoDup (nearby_p l ns a).
Proof. intros. split; [apply In_nearby_p | apply nearby_p_NoDup]. Qed.

Lemma neighbor_unit_lemma : forall ns a d positive, valid ns a ->
  neighbor_p ns a d positive = translate ns a (unit_cell ns d positive) /\
  neighbor_p ns (neighbor_p ns a d positive) d (negb positive) = a.
Proof. intros. split; [apply neighbor_is_translate_unit | apply neighbor_p_inverse]; assumption. Qed.

Lemma nonperiodic_relations_lemma : forall l ns a,
  valid ns a ->
  (forall d positive b, neighbor_np ns a d positive = Some b ->
     b = neighbor_p ns a d positive /\ 0 <= nth d a 0 + sgn positive < nth d ns 0) /\
  (forall d positive, (d < length ns)%nat ->
     (neighbor_np ns a d positive = None <-> ~ (0 <= nth d a 0 + sgn positive < nth d ns 0))) /\
  (forall b, In b (nearby_np l ns a) <-> near_np l ns a b) /\
  (forall b, In b (nearby_np l ns a) -> In b (nearby_p l ns a)) /\
  (forall b, valid ns b -> (In b (nearby_np l ns a) <-> In a (nearby_np l ns b))) /\
  (0 <= l -> In a (nearby_np l ns a)).
Proof.
  intros l ns a H. repeat split.
  - apply (neighbor_np_some ns a d positive b H H0).
  - apply (neighbor_np_some ns a d positive b H H0).
  - apply (neighbor_np_some ns a d positive b H H0).
  - apply (neighbor_np_none ns a d positive H H0).
  - apply (neighbor_np_none ns a d positive H H0).
  - apply In_nearby_np.
  - apply In_nearby_np.
  - apply nearby_np_subset.
  - apply nearby_np_symmetric; assumption.
  - apply nearby_np_symmetric; assumption.
  - intros. apply nearby_np_refl; assumption.
Qed.
