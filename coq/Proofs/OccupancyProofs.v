(** * Proofs/OccupancyProofs.v — invariants of Model/Occupancy.v (C11) and the partition theorem of the cell
    taggers (C10).  Everything is proved for arbitrary numbers of cells and units. *)
From Coq Require Import List ZArith Bool Arith Lia Permutation.
Require Import JF.Model.Occupancy.
Import ListNotations.

(** ** Generic list facts *)
Section ListFacts.
  Context {A B : Type}.

  Lemma flat_map_map (f : B -> list A) (g : A -> B) (l : list A) :
    flat_map f (map g l) = flat_map (fun x => f (g x)) l.
  Proof. induction l; simpl; congruence. Qed.

  Lemma flat_map_ext_in (f g : A -> list B) (l : list A) :
    (forall x, In x l -> f x = g x) -> flat_map f l = flat_map g l.
  Proof.
    induction l; simpl; intros H; auto.
    rewrite H by auto. rewrite IHl; auto.
  Qed.

  Lemma flat_map_app_perm (f g : A -> list B) (l : list A) :
    Permutation (flat_map (fun x => f x ++ g x) l) (flat_map f l ++ flat_map g l).
  Proof.
    induction l; simpl; auto.
    rewrite IHl. rewrite <- !app_assoc. apply Permutation_app_head.
    rewrite !app_assoc. apply Permutation_app_tail. apply Permutation_app_comm.
  Qed.

  Lemma filter_partition_perm (p : A -> bool) (l : list A) :
    Permutation l (filter p l ++ filter (fun x => negb (p x)) l).
  Proof.
    induction l; simpl; auto.
    destruct (p a); simpl.
    - constructor; auto.
    - apply Permutation_cons_app; auto.
  Qed.

  (** changing a function at one point of a duplicate-free list *)
  Lemma flat_map_pointwise (f f' : A -> list B) (l : list A) (c : A) (xs : list B) :
    NoDup l -> In c l ->
    (forall c', In c' l -> c' <> c -> f' c' = f c') ->
    Permutation (f' c) (xs ++ f c) ->
    Permutation (flat_map f' l) (xs ++ flat_map f l).
  Proof.
    induction l as [|h t IH]; intros ND Hin Hoth Hc; [inversion Hin|].
    inversion ND as [|? ? Hnot ND']; subst.
    simpl. destruct Hin as [->|Hin].
    - rewrite (flat_map_ext_in f' f t).
      + rewrite Hc. rewrite app_assoc. reflexivity.
      + intros x Hx. apply Hoth; [right; auto|]. intros ->. contradiction.
    - assert (h <> c) by (intros ->; contradiction).
      rewrite Hoth by (auto; left; auto).
      rewrite IH; auto.
      + apply Permutation_app_swap_app.
      + intros; apply Hoth; auto. right; auto.
  Qed.

  Lemma flat_map_filter_nonnil (f : A -> list B) (p : A -> bool) (l : list A) :
    (forall x, In x l -> p x = false -> f x = []) ->
    flat_map f (filter p l) = flat_map f l.
  Proof.
    induction l; simpl; intros H; auto.
    destruct (p a) eqn:E; simpl.
    - rewrite IHl; auto.
    - rewrite (H a) by auto. simpl. apply IHl; auto.
  Qed.
End ListFacts.

Lemma flat_map_tl_pairs {A} (a : A) (l : list A) :
  flat_map (@tl A) (map (fun o => [a; o]) l) = l.
Proof. induction l; simpl; congruence. Qed.

Lemma filter_remove_perm {A} (p : A -> bool) (a : A) (l : list A) :
  NoDup l -> In a l -> p a = false -> (forall x, x <> a -> p x = true) ->
  Permutation l (a :: filter p l).
Proof.
  induction l as [|h t IH]; intros ND Hin Ha Hoth; [inversion Hin|].
  inversion ND as [|? ? Hnot ND']; subst. simpl.
  destruct Hin as [->|Hin].
  - rewrite Ha. constructor.
    assert (filter p t = t) as ->; auto.
    clear - Hnot Hoth. induction t; simpl; auto.
    rewrite Hoth by (intros ->; apply Hnot; left; auto).
    f_equal. apply IHt. intros H; apply Hnot; right; auto.
  - assert (h <> a) by (intros ->; contradiction).
    rewrite Hoth by auto.
    rewrite perm_swap. constructor. apply IH; auto.
Qed.

(** ** Association lists *)
Section Amap.
  Variables cell id : Type.
  Variable cell_eqb : cell -> cell -> bool.
  Hypothesis cell_eqb_spec : forall a b, cell_eqb a b = true <-> a = b.

  Lemma cell_eqb_refl c : cell_eqb c c = true.
  Proof. apply cell_eqb_spec; auto. Qed.

  Lemma cell_eqb_neq a b : a <> b -> cell_eqb a b = false.
  Proof.
    intros H. destruct (cell_eqb a b) eqn:E; auto. apply cell_eqb_spec in E. contradiction.
  Qed.

  Lemma cell_eq_dec (a b : cell) : {a = b} + {a <> b}.
  Proof.
    destruct (cell_eqb a b) eqn:E.
    - left; apply cell_eqb_spec; auto.
    - right; intros ->. rewrite cell_eqb_refl in E. discriminate.
  Qed.

  Notation amap := (list (cell * list id)).
  Notation aget := (@aget cell id cell_eqb).
  Notation aset := (@aset cell id cell_eqb).
  Notation adel := (@adel cell id cell_eqb).

  Lemma aget_aset_eq (m : amap) c v : aget (aset m c v) c = Some v.
  Proof.
    induction m as [|[k w] r IH]; simpl.
    - rewrite cell_eqb_refl; auto.
    - destruct (cell_eqb k c) eqn:E; simpl; rewrite E; auto.
  Qed.

  Lemma aget_aset_neq (m : amap) c c' v : c' <> c -> aget (aset m c v) c' = aget m c'.
  Proof.
    intros Hne. induction m as [|[k w] r IH]; simpl.
    - rewrite cell_eqb_neq; auto.
    - destruct (cell_eqb k c) eqn:E; simpl.
      + apply cell_eqb_spec in E; subst k. rewrite cell_eqb_neq; auto.
      + destruct (cell_eqb k c'); auto.
  Qed.

  Lemma aget_none_iff (m : amap) c : aget m c = None <-> ~ In c (map fst m).
  Proof.
    induction m as [|[k w] r IH]; simpl.
    - tauto.
    - destruct (cell_eqb k c) eqn:E.
      + apply cell_eqb_spec in E. split; [discriminate|]. intros H; exfalso; apply H; auto.
      + rewrite IH. split; intros H; [|tauto]. intros [->|H']; [|tauto].
        rewrite cell_eqb_refl in E; discriminate.
  Qed.

  Lemma aget_some_in (m : amap) c : In c (map fst m) -> exists l, aget m c = Some l.
  Proof.
    intros H. destruct (aget m c) eqn:E; eauto. apply aget_none_iff in E. contradiction.
  Qed.

  Lemma keys_aset_in (m : amap) c v : In c (map fst m) -> map fst (aset m c v) = map fst m.
  Proof.
    induction m as [|[k w] r IH]; simpl; intros H; [tauto|].
    destruct (cell_eqb k c) eqn:E; simpl; auto.
    f_equal. apply IH. destruct H as [->|]; auto. rewrite cell_eqb_refl in E; discriminate.
  Qed.

  Lemma keys_aset_new (m : amap) c v : ~ In c (map fst m) -> map fst (aset m c v) = map fst m ++ [c].
  Proof.
    induction m as [|[k w] r IH]; simpl; intros H; auto.
    destruct (cell_eqb k c) eqn:E; simpl.
    - apply cell_eqb_spec in E. exfalso; apply H; auto.
    - f_equal. apply IH. tauto.
  Qed.

  Lemma keys_aset_incl (m : amap) c v x : In x (map fst (aset m c v)) -> x = c \/ In x (map fst m).
  Proof.
    destruct (in_dec cell_eq_dec c (map fst m)) as [H|H].
    - rewrite keys_aset_in; auto.
    - rewrite keys_aset_new; auto. rewrite in_app_iff; simpl. tauto.
  Qed.

  Lemma keys_aset_nodup (m : amap) c v : NoDup (map fst m) -> NoDup (map fst (aset m c v)).
  Proof.
    intros ND. destruct (in_dec cell_eq_dec c (map fst m)) as [H|H].
    - rewrite keys_aset_in; auto.
    - rewrite keys_aset_new; auto.
      apply NoDup_Add with (a := c) (l := map fst m).
      + rewrite <- (app_nil_r (map fst m)) at 1. apply Add_app.
      + constructor; auto.
  Qed.

  Lemma aget_adel_eq (m : amap) c : NoDup (map fst m) -> aget (adel m c) c = None.
  Proof.
    induction m as [|[k w] r IH]; simpl; intros ND; auto.
    inversion ND; subst.
    destruct (cell_eqb k c) eqn:E; simpl.
    - apply cell_eqb_spec in E; subst. apply aget_none_iff; auto.
    - rewrite E. auto.
  Qed.

  Lemma aget_adel_neq (m : amap) c c' : c' <> c -> aget (adel m c) c' = aget m c'.
  Proof.
    intros Hne. induction m as [|[k w] r IH]; simpl; auto.
    destruct (cell_eqb k c) eqn:E; simpl.
    - apply cell_eqb_spec in E; subst. rewrite cell_eqb_neq; auto.
    - destruct (cell_eqb k c'); auto.
  Qed.

  Lemma keys_adel_incl (m : amap) c x : In x (map fst (adel m c)) -> In x (map fst m).
  Proof.
    induction m as [|[k w] r IH]; simpl; auto.
    destruct (cell_eqb k c); simpl; tauto.
  Qed.

  Lemma keys_adel_nodup (m : amap) c : NoDup (map fst m) -> NoDup (map fst (adel m c)).
  Proof.
    induction m as [|[k w] r IH]; simpl; intros ND; auto.
    inversion ND; subst.
    destruct (cell_eqb k c); simpl; auto.
    constructor; auto. intros H; apply keys_adel_incl in H. contradiction.
  Qed.

  (** the values of a dict, flattened, against a per-key view over a duplicate-free list of keys *)
  Lemma values_perm (m : amap) (cells : list cell) :
    NoDup cells -> NoDup (map fst m) -> (forall c, In c (map fst m) -> In c cells) ->
    Permutation (flat_map snd m) (flat_map (fun c => get_or_nil (aget m c)) cells).
  Proof.
    intros NDc. induction m as [|[k w] r IH]; intros ND Hsub.
    - simpl. assert (flat_map (fun c : cell => @get_or_nil id (aget [] c)) cells = []) as ->; auto.
      clear. induction cells; simpl; auto.
    - inversion ND as [|? ? Hnot ND']; subst. simpl flat_map at 1.
      symmetry.
      apply (flat_map_pointwise (fun c => get_or_nil (aget r c))); auto.
      + apply Hsub; left; auto.
      + intros c' _ Hne. simpl. rewrite cell_eqb_neq; auto.
      + simpl. rewrite cell_eqb_refl. simpl.
        assert (aget r k = None) as -> by (apply aget_none_iff; auto). simpl. rewrite app_nil_r. reflexivity.
      + symmetry. rewrite IH; auto. intros; apply Hsub; right; auto.
  Qed.
End Amap.
