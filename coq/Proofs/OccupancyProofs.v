(** * Proofs/OccupancyProofs.v — invariants of Model/Occupancy.v (C11) and the partition theorem of the cell
    taggers (C10).  Everything is proved for arbitrary numbers of cells and units. *)
From Coq Require Import List ZArith Bool Arith Lia Permutation.
Require Import JF.Model.Occupancy.
Import ListNotations.

(** ** Generic list facts *)
Lemma flat_map_map {A B C} (f : B -> list C) (g : A -> B) (l : list A) :
  flat_map f (map g l) = flat_map (fun x => f (g x)) l.
Proof. induction l; simpl; congruence. Qed.

Section ListFacts.
  Context {A B : Type}.

  Lemma flat_map_ext_in (f g : A -> list B) (l : list A) :
    (forall x, In x l -> f x = g x) -> flat_map f l = flat_map g l.
  Proof.
    induction l; simpl; intros H; auto.
    rewrite H by auto. rewrite IHl; auto.
  Qed.

  Lemma flat_map_app_perm (f g : A -> list B) (l : list A) :
    Permutation (flat_map (fun x => f x ++ g x) l) (flat_map f l ++ flat_map g l).
  Proof.
    induction l; simpl; auto.
    rewrite IHl. rewrite <- !app_assoc. apply Permutation_app_head.
    rewrite !app_assoc. apply Permutation_app_tail. apply Permutation_app_comm.
  Qed.

  Lemma filter_partition_perm (p : A -> bool) (l : list A) :
    Permutation l (filter p l ++ filter (fun x => negb (p x)) l).
  Proof.
    induction l; simpl; auto.
    destruct (p a); simpl.
    - constructor; auto.
    - apply Permutation_cons_app; auto.
  Qed.

  (** changing a function at one point of a duplicate-free list *)
  Lemma flat_map_pointwise (f f' : A -> list B) (l : list A) (c : A) (xs : list B) :
    NoDup l -> In c l ->
    (forall c', In c' l -> c' <> c -> f' c' = f c') ->
    Permutation (f' c) (xs ++ f c) ->
    Permutation (flat_map f' l) (xs ++ flat_map f l).
  Proof.
    induction l as [|h t IH]; intros ND Hin Hoth Hc; [inversion Hin|].
    inversion ND as [|? ? Hnot ND']; subst.
    simpl. destruct Hin as [->|Hin].
    - rewrite (flat_map_ext_in f' f t).
      + rewrite Hc. rewrite app_assoc. reflexivity.
      + intros x Hx. apply Hoth; [right; auto|]. intros ->. contradiction.
    - assert (h <> c) by (intros ->; contradiction).
      rewrite Hoth by (auto; left; auto).
      rewrite IH; auto.
      + apply Permutation_app_swap_app.
      + intros; apply Hoth; auto. right; auto.
  Qed.

  Lemma flat_map_all_nil (f : A -> list B) (l : list A) : (forall x, f x = []) -> flat_map f l = [].
  Proof. intros H. induction l; simpl; auto. rewrite H, IHl; auto. Qed.

  Lemma flat_map_filter_nonnil (f : A -> list B) (p : A -> bool) (l : list A) :
    (forall x, In x l -> p x = false -> f x = []) ->
    flat_map f (filter p l) = flat_map f l.
  Proof.
    induction l; simpl; intros H; auto.
    destruct (p a) eqn:E; simpl.
    - rewrite IHl; auto.
    - rewrite (H a) by auto. simpl. apply IHl; auto.
  Qed.
End ListFacts.

Lemma flat_map_tl_pairs {A} (a : A) (l : list A) :
  flat_map (@tl A) (map (fun o => [a; o]) l) = l.
Proof. induction l; simpl; congruence. Qed.

Lemma filter_remove_perm {A} (p : A -> bool) (a : A) (l : list A) :
  NoDup l -> In a l -> p a = false -> (forall x, x <> a -> p x = true) ->
  Permutation l (a :: filter p l).
Proof.
  induction l as [|h t IH]; intros ND Hin Ha Hoth; [inversion Hin|].
  inversion ND as [|? ? Hnot ND']; subst. simpl.
  destruct Hin as [->|Hin].
  - rewrite Ha. constructor.
    assert (filter p t = t) as ->; auto.
    clear - Hnot Hoth. induction t; simpl; auto.
    rewrite Hoth by (intros ->; apply Hnot; left; auto).
    f_equal. apply IHt. intros H; apply Hnot; right; auto.
  - assert (h <> a) by (intros ->; contradiction).
    rewrite Hoth by auto.
    rewrite perm_swap. constructor. apply IH; auto.
Qed.

(** ** Association lists *)
Section Amap.
  Variables cell id : Type.
  Variable cell_eqb : cell -> cell -> bool.
  Hypothesis cell_eqb_spec : forall a b, cell_eqb a b = true <-> a = b.

  Lemma cell_eqb_refl c : cell_eqb c c = true.
  Proof. apply cell_eqb_spec; auto. Qed.

  Lemma cell_eqb_neq a b : a <> b -> cell_eqb a b = false.
  Proof.
    intros H. destruct (cell_eqb a b) eqn:E; auto. apply cell_eqb_spec in E. contradiction.
  Qed.

  Lemma cell_eq_dec (a b : cell) : {a = b} + {a <> b}.
  Proof.
    destruct (cell_eqb a b) eqn:E.
    - left; apply cell_eqb_spec; auto.
    - right; intros ->. rewrite cell_eqb_refl in E. discriminate.
  Qed.

  Notation amap := (list (cell * list id)).
  Notation aget := (@aget cell id cell_eqb).
  Notation aset := (@aset cell id cell_eqb).
  Notation adel := (@adel cell id cell_eqb).

  Lemma aget_aset_eq (m : amap) c v : aget (aset m c v) c = Some v.
  Proof.
    induction m as [|[k w] r IH]; simpl.
    - rewrite cell_eqb_refl; auto.
    - destruct (cell_eqb k c) eqn:E; simpl; rewrite E; auto.
  Qed.

  Lemma aget_aset_neq (m : amap) c c' v : c' <> c -> aget (aset m c v) c' = aget m c'.
  Proof.
    intros Hne. induction m as [|[k w] r IH]; simpl.
    - rewrite cell_eqb_neq; auto.
    - destruct (cell_eqb k c) eqn:E; simpl.
      + apply cell_eqb_spec in E; subst k. rewrite cell_eqb_neq; auto.
      + destruct (cell_eqb k c'); auto.
  Qed.

  Lemma aget_none_iff (m : amap) c : aget m c = None <-> ~ In c (map fst m).
  Proof.
    induction m as [|[k w] r IH]; simpl.
    - tauto.
    - destruct (cell_eqb k c) eqn:E.
      + apply cell_eqb_spec in E. split; [discriminate|]. intros H; exfalso; apply H; auto.
      + rewrite IH. split; intros H.
        * intros [->|H']; [|contradiction]. rewrite cell_eqb_refl in E; discriminate.
        * intros H'; apply H; right; exact H'.
  Qed.

  Lemma aget_some_in (m : amap) c : In c (map fst m) -> exists l, aget m c = Some l.
  Proof.
    intros H. destruct (aget m c) eqn:E; eauto. apply aget_none_iff in E. contradiction.
  Qed.

  Lemma keys_aset_in (m : amap) c v : In c (map fst m) -> map fst (aset m c v) = map fst m.
  Proof.
    induction m as [|[k w] r IH]; simpl; intros H; [tauto|].
    destruct (cell_eqb k c) eqn:E; simpl; auto.
    f_equal. apply IH. destruct H as [->|]; auto. rewrite cell_eqb_refl in E; discriminate.
  Qed.

  Lemma keys_aset_new (m : amap) c v : ~ In c (map fst m) -> map fst (aset m c v) = map fst m ++ [c].
  Proof.
    induction m as [|[k w] r IH]; simpl; intros H; auto.
    destruct (cell_eqb k c) eqn:E; simpl.
    - apply cell_eqb_spec in E. exfalso; apply H; auto.
    - f_equal. apply IH. tauto.
  Qed.

  Lemma keys_aset_incl (m : amap) c v x : In x (map fst (aset m c v)) -> x = c \/ In x (map fst m).
  Proof.
    destruct (in_dec cell_eq_dec c (map fst m)) as [H|H].
    - rewrite keys_aset_in; auto.
    - rewrite keys_aset_new; auto. rewrite in_app_iff; simpl. intuition auto.
  Qed.

  Lemma keys_aset_nodup (m : amap) c v : NoDup (map fst m) -> NoDup (map fst (aset m c v)).
  Proof.
    intros ND. destruct (in_dec cell_eq_dec c (map fst m)) as [H|H].
    - rewrite keys_aset_in; auto.
    - rewrite keys_aset_new; auto.
      apply NoDup_Add with (a := c) (l := map fst m).
      + rewrite <- (app_nil_r (map fst m)) at 1. apply Add_app.
      + constructor; auto.
  Qed.

  Lemma aget_adel_eq (m : amap) c : NoDup (map fst m) -> aget (adel m c) c = None.
  Proof.
    induction m as [|[k w] r IH]; simpl; intros ND; auto.
    inversion ND; subst.
    destruct (cell_eqb k c) eqn:E; simpl.
    - apply cell_eqb_spec in E; subst. apply aget_none_iff; auto.
    - rewrite E. auto.
  Qed.

  Lemma aget_adel_neq (m : amap) c c' : c' <> c -> aget (adel m c) c' = aget m c'.
  Proof.
    intros Hne. induction m as [|[k w] r IH]; simpl; auto.
    destruct (cell_eqb k c) eqn:E; simpl.
    - apply cell_eqb_spec in E; subst. rewrite cell_eqb_neq; auto.
    - destruct (cell_eqb k c'); auto.
  Qed.

  Lemma keys_adel_incl (m : amap) c x : In x (map fst (adel m c)) -> In x (map fst m).
  Proof.
    induction m as [|[k w] r IH]; simpl; auto.
    destruct (cell_eqb k c); simpl; tauto.
  Qed.

  Lemma keys_adel_nodup (m : amap) c : NoDup (map fst m) -> NoDup (map fst (adel m c)).
  Proof.
    induction m as [|[k w] r IH]; simpl; intros ND; auto.
    inversion ND; subst.
    destruct (cell_eqb k c); simpl; auto.
    constructor; auto. intros H; apply keys_adel_incl in H. contradiction.
  Qed.

  (** the values of a dict, flattened, against a per-key view over a duplicate-free list of keys *)
  Lemma values_perm (m : amap) (cells : list cell) :
    NoDup cells -> NoDup (map fst m) -> (forall c, In c (map fst m) -> In c cells) ->
    Permutation (flat_map snd m) (flat_map (fun c => get_or_nil (aget m c)) cells).
  Proof.
    intros NDc. induction m as [|[k w] r IH]; intros ND Hsub.
    - simpl. rewrite flat_map_all_nil; auto.
    - inversion ND as [|? ? Hnot ND']; subst.
      change (flat_map snd ((k, w) :: r)) with (w ++ flat_map snd r).
      rewrite IH; auto; [|intros; apply Hsub; right; auto].
      symmetry.
      apply (flat_map_pointwise (fun c => get_or_nil (aget r c))) with (c := k); auto.
      + apply Hsub; left; auto.
      + intros c' _ Hne. simpl. rewrite cell_eqb_neq; auto.
      + simpl. rewrite cell_eqb_refl. simpl.
        assert (aget r k = None) as -> by (apply aget_none_iff; auto). simpl. rewrite app_nil_r. reflexivity.
  Qed.
End Amap.

(** ** The occupancy invariant (C11) *)
Section Inv.
  Variables cell id : Type.
  Variable cell_eqb : cell -> cell -> bool.
  Variable id_eqb : id -> id -> bool.
  Hypothesis cell_eqb_spec : forall a b, cell_eqb a b = true <-> a = b.
  Hypothesis id_eqb_spec : forall a b, id_eqb a b = true <-> a = b.

  Notation state := (state cell id).
  Notation aget := (@aget cell id cell_eqb).
  Notation aset := (@aset cell id cell_eqb).
  Notation adel := (@adel cell id cell_eqb).
  Notation occ_of := (@occ_of cell id cell_eqb).
  Notation sur_of := (@sur_of cell id cell_eqb).
  Notation insert_unit := (@insert_unit cell id cell_eqb).
  Notation update := (@update cell id cell_eqb id_eqb).
  Notation initialize := (@initialize cell id cell_eqb).
  Notation remove_first := (@remove_first id id_eqb).

  Variable cells : list cell.
  Hypothesis cells_nodup : NoDup cells.

  (** everything recorded, cell by cell *)
  Definition recorded (s : state) : list id := flat_map (fun c => occ_of s c ++ sur_of s c) cells.
  Definition is_active (s : state) (u : id) : bool := opt_id_eqb id_eqb (active_id s) u.
  (** the units that must be recorded: all relevant ones except the active one *)
  Definition others (s : state) (units : list id) : list id := filter (fun u => negb (is_active s u)) units.

  (** structural part: keys, surplus dictionary, occupant limit *)
  Record st_wf (s : state) : Prop := {
    wf_keys : map fst (occupants s) = cells;
    wf_sur_nodup : NoDup (map fst (surplus s));
    wf_sur_valid : forall c, In c (map fst (surplus s)) -> In c cells;
    wf_sur_nonempty : forall c, aget (surplus s) c <> Some [];
    wf_limit : forall c k, limit s = Some k -> length (occ_of s c) <= k
  }.

  (** [occ_inv s units cellof]: [units] are the relevant units on the cell level (duplicate-free),
      [cellof u] is the cell that contains the current position of [u]. *)
  Record occ_inv (s : state) (units : list id) (cellof : id -> cell) : Prop := {
    inv_wf : st_wf s;
    (* every relevant non-active unit is recorded exactly once, the active one is not recorded *)
    inv_recorded : Permutation (recorded s) (others s units);
    (* ... in the occupant or surplus list of the cell that contains its position *)
    inv_where : forall c u, In c cells -> In u (occ_of s c ++ sur_of s c) -> cellof u = c;
    (* the active unit is stored with the cell that contains its position *)
    inv_active : match active_id s, active_cell s with
                 | Some a, Some c => In a units /\ c = cellof a
                 | None, None => True
                 | _, _ => False
                 end
  }.

  Lemma id_eqb_refl u : id_eqb u u = true.
  Proof. apply id_eqb_spec; auto. Qed.
  Lemma id_eqb_neq a b : a <> b -> id_eqb a b = false.
  Proof. intros H. destruct (id_eqb a b) eqn:E; auto. apply id_eqb_spec in E; contradiction. Qed.
  Lemma id_eq_dec (a b : id) : {a = b} + {a <> b}.
  Proof.
    destruct (id_eqb a b) eqn:E.
    - left; apply id_eqb_spec; auto.
    - right; intros ->. rewrite id_eqb_refl in E; discriminate.
  Qed.

  (** *** list.remove *)
  Lemma remove_first_some x l l' : remove_first x l = Some l' ->
    Permutation l (x :: l') /\ length l = S (length l') /\ (forall u, In u l' -> In u l).
  Proof.
    revert l'. induction l as [|y r IH]; simpl; intros l' H; [discriminate|].
    destruct (id_eqb y x) eqn:E.
    - apply id_eqb_spec in E; subst. inversion H; subst. repeat split; auto with datatypes.
    - destruct (remove_first x r) eqn:R; [|discriminate]. inversion H; subst.
      destruct (IH _ eq_refl) as (P & L & I). repeat split.
      + rewrite perm_swap. constructor; auto.
      + simpl. lia.
      + intros u [->|Hu]; [left; auto|right; auto].
  Qed.

  Lemma remove_first_in x l : In x l -> exists l', remove_first x l = Some l'.
  Proof.
    induction l as [|y r IH]; simpl; intros H; [tauto|].
    destruct (id_eqb y x) eqn:E; eauto.
    destruct H as [->|H]; [rewrite id_eqb_refl in E; discriminate|].
    destruct (IH H) as (l' & ->). eauto.
  Qed.

  Lemma remove_first_none x l : remove_first x l = None -> ~ In x l.
  Proof.
    intros H Hin. destruct (remove_first_in _ _ Hin) as (l' & E). congruence.
  Qed.

  (** *** views *)
  Lemma occ_of_set_sur s m c : occ_of (set_sur s m) c = occ_of s c.
  Proof. reflexivity. Qed.
  Lemma sur_of_set_occ s m c : sur_of (set_occ s m) c = sur_of s c.
  Proof. reflexivity. Qed.

  Lemma in_recorded s u : In u (recorded s) <-> exists c, In c cells /\ In u (occ_of s c ++ sur_of s c).
  Proof. unfold recorded. rewrite in_flat_map. tauto. Qed.

  Lemma refill_condition_false (s : state) c : (forall c, aget (surplus s) c <> Some []) -> refill_condition cell_eqb s c = false.
  Proof.
    intros H. unfold refill_condition. specialize (H c).
    destruct (aget (surplus s) c) as [[|]|]; simpl; auto. congruence.
  Qed.

  (** if the branch were ever taken it would raise: it pops from the empty list it has just tested for *)
  Lemma refill_would_raise (s : state) c : refill_condition cell_eqb s c = true -> refill cell_eqb s c = Err IndexError.
  Proof.
    unfold refill_condition, refill. destruct (aget (surplus s) c) as [[|]|]; simpl; auto; discriminate.
  Qed.

  (** *** insert_unit *)
  Lemma insert_unit_ok s c u :
    st_wf s -> In c cells ->
    exists s', insert_unit s c u = Ok s' /\ st_wf s'
      /\ active_cell s' = active_cell s /\ active_id s' = active_id s
      /\ (forall c', c' <> c -> occ_of s' c' = occ_of s c' /\ sur_of s' c' = sur_of s c')
      /\ ((occ_of s' c = occ_of s c ++ [u] /\ sur_of s' c = sur_of s c)
          \/ (occ_of s' c = occ_of s c /\ sur_of s' c = sur_of s c ++ [u])).
  Proof.
    intros W Hc. destruct W as [K ND V NE L].
    unfold Occupancy.insert_unit.
    assert (Hk : In c (map fst (occupants s))) by (rewrite K; auto).
    destruct (aget_some_in _ _ _ cell_eqb_spec _ _ Hk) as (oc & Eoc). rewrite Eoc.
    destruct (has_room (limit s) oc) eqn:R.
    - eexists; split; [reflexivity|]. split; [|split; [reflexivity|split; [reflexivity|split]]].
      + constructor; simpl; auto.
        * rewrite keys_aset_in; auto.
        * intros c' k Hl. unfold Occupancy.occ_of; simpl.
          destruct (cell_eq_dec _ _ cell_eqb_spec c' c) as [->|Hne].
          -- rewrite aget_aset_eq by auto. simpl. rewrite app_length; simpl.
             unfold has_room in R. rewrite Hl in R. apply Nat.ltb_lt in R. lia.
          -- rewrite aget_aset_neq by auto. apply (L c' k Hl).
      + intros c' Hne. unfold Occupancy.occ_of, Occupancy.sur_of; simpl. rewrite aget_aset_neq by auto. auto.
      + left. unfold Occupancy.occ_of, Occupancy.sur_of; simpl. rewrite aget_aset_eq by auto. rewrite Eoc. auto.
    - eexists; split; [reflexivity|]. split; [|split; [reflexivity|split; [reflexivity|split]]].
      + constructor; simpl; auto.
        * apply keys_aset_nodup; auto.
        * intros c' H'. apply keys_aset_incl in H'; auto. destruct H' as [->|]; auto.
        * intros c'. destruct (cell_eq_dec _ _ cell_eqb_spec c' c) as [->|Hne].
          -- rewrite aget_aset_eq by auto. intros H'. inversion H' as [H'']. destruct (get_or_nil (aget (surplus s) c)); discriminate.
          -- rewrite aget_aset_neq by auto. apply NE.
      + intros c' Hne. unfold Occupancy.occ_of, Occupancy.sur_of; simpl. rewrite aget_aset_neq by auto. auto.
      + right. unfold Occupancy.occ_of, Occupancy.sur_of; simpl. rewrite aget_aset_eq by auto. auto.
  Qed.

  Lemma recorded_pointwise s s' c xs :
    In c cells ->
    (forall c', c' <> c -> occ_of s' c' = occ_of s c' /\ sur_of s' c' = sur_of s c') ->
    Permutation (occ_of s' c ++ sur_of s' c) (xs ++ occ_of s c ++ sur_of s c) ->
    Permutation (recorded s') (xs ++ recorded s).
  Proof.
    intros Hc Hoth Hp. unfold recorded.
    apply flat_map_pointwise with (c := c); auto.
    intros c' _ Hne. destruct (Hoth c' Hne) as [-> ->]. auto.
  Qed.

  Lemma insert_unit_recorded s s' c u :
    st_wf s -> In c cells -> insert_unit s c u = Ok s' -> Permutation (recorded s') (u :: recorded s).
  Proof.
    intros W Hc E. destruct (insert_unit_ok s c u W Hc) as (s1 & E1 & _ & _ & _ & Hoth & Hat).
    rewrite E in E1; inversion E1; subst s1.
    change (u :: recorded s) with ([u] ++ recorded s).
    apply recorded_pointwise with (c := c); auto.
    destruct Hat as [[-> ->]|[-> ->]].
    - rewrite <- app_assoc. simpl. symmetry. apply Permutation_middle.
    - rewrite app_assoc. simpl. symmetry. apply Permutation_cons_append.
  Qed.

  (** *** taking the new active unit out of its cell (the try/except part of update and the final del) *)
  Definition take_out (s2 : state) (c : cell) (nid : id) : res state :=
    bind (match aget (occupants s2) c with
          | None => Err KeyError
          | Some oc =>
              match remove_first nid oc with
              | Some oc' =>
                  let s3 := set_occ s2 (aset (occupants s2) c oc') in
                  if refill_condition cell_eqb s3 c then refill cell_eqb s3 c else Ok s3
              | None =>
                  match aget (surplus s2) c with
                  | None => Err KeyError
                  | Some sl =>
                      match remove_first nid sl with
                      | None => Err ValueError
                      | Some sl' => Ok (set_sur s2 (aset (surplus s2) c sl'))
                      end
                  end
              end
          end) (fun s4 =>
      if negb (get_truthy (aget (surplus s4) c)) then Ok (set_sur s4 (adel (surplus s4) c)) else Ok s4).

  Definition reinsert (s : state) : res state :=
    match active_id s with
    | Some a => match active_cell s with Some ac => insert_unit s ac a | None => Err KeyError end
    | None => Ok s
    end.

  Lemma update_unfold s nid rel c :
    update s nid rel c =
    if opt_id_eqb id_eqb (active_id s) nid then Ok (set_active s (Some c) (active_id s))
    else bind (reinsert s) (fun s1 =>
           if rel then take_out (set_active s1 (Some c) (Some nid)) c nid
           else Ok (set_active s1 None None)).
  Proof. reflexivity. Qed.

  Lemma take_out_ok s2 c nid :
    st_wf s2 -> In c cells -> In nid (occ_of s2 c ++ sur_of s2 c) ->
    exists s', take_out s2 c nid = Ok s' /\ st_wf s'
      /\ active_cell s' = active_cell s2 /\ active_id s' = active_id s2
      /\ (forall c', c' <> c -> occ_of s' c' = occ_of s2 c' /\ sur_of s' c' = sur_of s2 c')
      /\ Permutation (occ_of s2 c ++ sur_of s2 c) (nid :: occ_of s' c ++ sur_of s' c).
  Proof.
    intros W Hc Hin. destruct W as [K ND V NE L].
    unfold take_out.
    assert (Hk : In c (map fst (occupants s2))) by (rewrite K; auto).
    destruct (aget_some_in _ _ _ cell_eqb_spec _ _ Hk) as (oc & Eoc). rewrite Eoc.
    assert (Hocc : occ_of s2 c = oc) by (unfold Occupancy.occ_of; rewrite Eoc; auto).
    destruct (remove_first nid oc) as [oc'|] eqn:R.
    - (* found among the occupants *)
      destruct (remove_first_some _ _ _ R) as (P & Len & Sub).
      rewrite refill_condition_false by (simpl; auto).
      simpl bind. simpl surplus.
      assert (negb (get_truthy (aget (surplus s2) c)) = false) as ->.
      { specialize (NE c). destruct (aget (surplus s2) c) as [[|]|]; simpl; auto. congruence. }
      eexists; split; [reflexivity|]. split; [|split; [reflexivity|split; [reflexivity|split]]].
      + constructor; simpl; auto.
        * rewrite keys_aset_in; auto.
        * intros c' k Hl. unfold Occupancy.occ_of; simpl.
          destruct (cell_eq_dec _ _ cell_eqb_spec c' c) as [->|Hne].
          -- rewrite aget_aset_eq by auto. simpl. specialize (L c k Hl). rewrite Hocc in L. lia.
          -- rewrite aget_aset_neq by auto. apply (L c' k Hl).
      + intros c' Hne. unfold Occupancy.occ_of, Occupancy.sur_of; simpl. rewrite aget_aset_neq by auto. auto.
      + unfold Occupancy.occ_of at 2. unfold Occupancy.sur_of at 2. simpl. rewrite aget_aset_eq by auto. simpl.
        rewrite Hocc. rewrite P. apply Permutation_refl.
    - (* ValueError: it must be in the surplus list *)
      apply remove_first_none in R.
      rewrite Hocc in Hin. apply in_app_or in Hin. destruct Hin as [Hin|Hin]; [contradiction|].
      unfold Occupancy.sur_of in Hin.
      destruct (aget (surplus s2) c) as [sl|] eqn:Esl; [|inversion Hin]. simpl in Hin.
      destruct (remove_first_in _ _ Hin) as (sl' & R'). rewrite R'.
      destruct (remove_first_some _ _ _ R') as (P & Len & Sub).
      simpl bind. rewrite aget_aset_eq by auto.
      assert (Hks : In c (map fst (surplus s2))).
      { destruct (in_dec (cell_eq_dec _ _ cell_eqb_spec) c (map fst (surplus s2))); auto.
        apply (aget_none_iff _ _ _ cell_eqb_spec) in n. congruence. }
      assert (Hsur2 : sur_of s2 c = sl) by (unfold Occupancy.sur_of; rewrite Esl; auto).
      destruct sl' as [|x sl'].
      + (* the list became empty: deleted *)
        simpl. eexists; split; [reflexivity|]. split; [|split; [reflexivity|split; [reflexivity|split]]].
        * constructor; simpl; auto.
          -- apply keys_adel_nodup; auto. apply keys_aset_nodup; auto.
          -- intros c' H'. apply keys_adel_incl in H'. apply keys_aset_incl in H'; auto. destruct H' as [->|]; auto.
          -- intros c'. destruct (cell_eq_dec _ _ cell_eqb_spec c' c) as [->|Hne].
             ++ rewrite aget_adel_eq; auto; [discriminate|]. apply keys_aset_nodup; auto.
             ++ rewrite aget_adel_neq by auto. rewrite aget_aset_neq by auto. apply NE.
        * intros c' Hne. unfold Occupancy.occ_of, Occupancy.sur_of; simpl.
          rewrite aget_adel_neq by auto. rewrite aget_aset_neq by auto. auto.
        * unfold Occupancy.occ_of at 2. unfold Occupancy.sur_of at 2. simpl.
          rewrite aget_adel_eq; auto; [|apply keys_aset_nodup; auto]. simpl.
          fold (occ_of s2 c). rewrite Hocc, Hsur2, app_nil_r.
          rewrite P. symmetry. apply Permutation_cons_append.
      + simpl. eexists; split; [reflexivity|]. split; [|split; [reflexivity|split; [reflexivity|split]]].
        * constructor; simpl; auto.
          -- apply keys_aset_nodup; auto.
          -- intros c' H'. apply keys_aset_incl in H'; auto. destruct H' as [->|]; auto.
          -- intros c'. destruct (cell_eq_dec _ _ cell_eqb_spec c' c) as [->|Hne].
             ++ rewrite aget_aset_eq by auto. discriminate.
             ++ rewrite aget_aset_neq by auto. apply NE.
        * intros c' Hne. unfold Occupancy.occ_of, Occupancy.sur_of; simpl. rewrite aget_aset_neq by auto. auto.
        * unfold Occupancy.occ_of at 2. unfold Occupancy.sur_of at 2. simpl. rewrite aget_aset_eq by auto. simpl.
          fold (occ_of s2 c). rewrite Hocc, Hsur2. rewrite P. symmetry. apply Permutation_middle.
  Qed.

  Lemma st_wf_set_active s c a : st_wf s -> st_wf (set_active s c a).
  Proof. intros [K ND V NE L]. constructor; auto. Qed.

  Lemma recorded_set_active s c a : recorded (set_active s c a) = recorded s.
  Proof. reflexivity. Qed.

  Lemma others_none s units : active_id s = None -> others s units = units.
  Proof.
    intros E. unfold others, is_active. rewrite E. simpl.
    induction units; simpl; auto. f_equal; auto.
  Qed.

  Lemma others_some s a units : active_id s = Some a -> NoDup units -> In a units ->
    Permutation units (a :: others s units).
  Proof.
    intros E ND Hin. unfold others, is_active. rewrite E. simpl.
    apply filter_remove_perm; auto.
    - rewrite id_eqb_refl; auto.
    - intros x Hx. rewrite id_eqb_neq; auto.
  Qed.

  Section Update.
    Variables (units : list id) (cellof cellof' : id -> cell).
    Hypothesis units_nodup : NoDup units.
    Hypothesis cellof'_valid : forall u, In u units -> In (cellof' u) cells.

    Definition where_ok (s : state) (co : id -> cell) : Prop :=
      forall c u, In c cells -> In u (occ_of s c ++ sur_of s c) -> co u = c.

    (** first half of update: the previous active unit goes back into its recorded cell *)
    Lemma reinsert_ok s nid :
      occ_inv s units cellof ->
      opt_id_eqb id_eqb (active_id s) nid = false ->
      (forall u, In u units -> is_active s u = false -> cellof' u = cellof u) ->
      (forall a, active_id s = Some a -> a <> nid -> cellof' a = cellof a) ->
      exists s1, reinsert s = Ok s1 /\ st_wf s1 /\ Permutation (recorded s1) units /\ where_ok s1 cellof'.
    Proof.
      intros [W Rec Wh Act] Hne Hstay Hold.
      assert (Wh' : where_ok s cellof').
      { intros c0 u Hc0 Hu. rewrite <- (Wh c0 u Hc0 Hu).
        assert (Hr : In u (others s units)).
        { eapply Permutation_in; [exact Rec|]. apply in_recorded. eauto. }
        unfold others in Hr. apply filter_In in Hr. destruct Hr as [Hu1 Hu2].
        apply Hstay; auto. destruct (is_active s u); auto; discriminate. }
      unfold reinsert. destruct (active_id s) as [a|] eqn:Ea.
      - destruct (active_cell s) as [ac|] eqn:Eac; [|contradiction].
        destruct Act as [Ha Hac].
        simpl in Hne.
        assert (Han : a <> nid) by (intros ->; rewrite id_eqb_refl in Hne; discriminate).
        assert (Hca : cellof' a = ac) by (rewrite Hac; apply Hold; auto).
        assert (Hacc : In ac cells) by (rewrite <- Hca; auto).
        destruct (insert_unit_ok s ac a W Hacc) as (s1 & E1 & W1 & _ & _ & Hoth & Hat).
        exists s1. split; auto. split; auto. split.
        + rewrite (insert_unit_recorded s s1 ac a W Hacc E1). rewrite Rec.
          symmetry. apply others_some; auto.
        + intros c0 u Hc0 Hu.
          destruct (cell_eq_dec _ _ cell_eqb_spec c0 ac) as [->|Hne0].
          * assert (Hu' : In u (occ_of s ac ++ sur_of s ac) \/ u = a).
            { destruct Hat as [[E2 E3]|[E2 E3]]; rewrite E2, E3 in Hu;
                repeat (rewrite in_app_iff in Hu; simpl in Hu); rewrite in_app_iff; intuition auto. }
            destruct Hu' as [Hu'| ->]; auto.
          * destruct (Hoth c0 Hne0) as [E2 E3]. rewrite E2, E3 in Hu. auto.
      - destruct (active_cell s); [contradiction|].
        exists s. split; auto. split; auto. split; auto.
        rewrite Rec. rewrite others_none; auto.
    Qed.

    (** second half: the new active unit is taken out of the cell of its position *)
    Lemma finish_ok s1 nid rel c :
      st_wf s1 -> Permutation (recorded s1) units -> where_ok s1 cellof' ->
      (rel = true <-> In nid units) ->
      (rel = true -> c = cellof' nid) ->
      exists s', (if rel then take_out (set_active s1 (Some c) (Some nid)) c nid
                  else Ok (set_active s1 None None)) = Ok s'
                 /\ occ_inv s' units cellof'.
    Proof.
      intros W1 Rec1 Wh1 Hrel Hc.
      destruct rel.
      - assert (Hn : In nid units) by (apply Hrel; auto).
        specialize (Hc eq_refl).
        assert (Hcc : In c cells) by (rewrite Hc; auto).
        assert (Hin : In nid (occ_of s1 c ++ sur_of s1 c)).
        { assert (Hr : In nid (recorded s1)) by (eapply Permutation_in; [symmetry; exact Rec1|auto]).
          apply in_recorded in Hr. destruct Hr as (c0 & Hc0 & Hu).
          rewrite Hc. rewrite (Wh1 c0 nid Hc0 Hu). auto. }
        set (s2 := set_active s1 (Some c) (Some nid)).
        assert (W2 : st_wf s2) by (apply st_wf_set_active; auto).
        destruct (take_out_ok s2 c nid W2 Hcc Hin) as (s' & E & W' & Eac & Eai & Hoth & Hp).
        exists s'. split; auto.
        assert (Hrec : Permutation (recorded s2) (nid :: recorded s')).
        { change (nid :: recorded s') with ([nid] ++ recorded s').
          apply recorded_pointwise with (c := c); auto.
          intros c' Hne. destruct (Hoth c' Hne) as [-> ->]; auto. }
        constructor; auto.
        + apply Permutation_cons_inv with (a := nid).
          rewrite <- Hrec. unfold s2. rewrite recorded_set_active. rewrite Rec1.
          apply others_some; auto.
        + intros c0 u Hc0 Hu.
          destruct (cell_eq_dec _ _ cell_eqb_spec c0 c) as [->|Hne0].
          * apply (Wh1 c u Hcc). change (In u (occ_of s2 c ++ sur_of s2 c)).
            eapply Permutation_in; [symmetry; exact Hp|]. right; auto.
          * destruct (Hoth c0 Hne0) as [E2 E3]. rewrite E2, E3 in Hu. apply (Wh1 c0 u Hc0 Hu).
        + rewrite Eai, Eac. simpl. auto.
      - eexists; split; [reflexivity|].
        constructor.
        + apply st_wf_set_active; auto.
        + rewrite recorded_set_active, others_none; auto.
        + exact Wh1.
        + simpl; auto.
    Qed.

    (** *** update preserves the invariant.
        [cellof] / [cellof'] give the cell of every unit's position before / after the step of the run.
        Hypotheses: the units that are not active did not move; if the active unit changes, the previous
        active unit is still in its recorded cell (it left it only by a cell-boundary event, after which
        update was called with the same identifier); [c] is the cell of the new active unit's position. *)
    Theorem update_inv s nid rel c :
      occ_inv s units cellof ->
      (rel = true <-> In nid units) ->
      (rel = true -> c = cellof' nid) ->
      (forall u, In u units -> is_active s u = false -> cellof' u = cellof u) ->
      (forall a, active_id s = Some a -> a <> nid -> cellof' a = cellof a) ->
      exists s', update s nid rel c = Ok s' /\ occ_inv s' units cellof'.
    Proof.
      intros I Hrel Hc Hstay Hold. rewrite update_unfold.
      destruct (opt_id_eqb id_eqb (active_id s) nid) eqn:E.
      - (* same identifier: the active cell is determined again *)
        destruct I as [W Rec Wh Act].
        destruct (active_id s) as [a|] eqn:Ea; [|discriminate]. simpl in E.
        apply id_eqb_spec in E. subst a.
        destruct (active_cell s) as [ac|] eqn:Eac; [|contradiction]. destruct Act as [Ha _].
        eexists; split; [reflexivity|].
        constructor.
        + apply st_wf_set_active; auto.
        + rewrite recorded_set_active. unfold others, is_active in *. simpl. rewrite Ea in Rec. exact Rec.
        + intros c0 u Hc0 Hu. rewrite <- (Wh c0 u Hc0 Hu).
          assert (Hr : In u (others s units)).
          { eapply Permutation_in; [exact Rec|]. apply in_recorded. eauto. }
          unfold others in Hr. apply filter_In in Hr. destruct Hr as [Hu1 Hu2].
          apply Hstay; auto. destruct (is_active s u); auto; discriminate.
        + simpl. split; auto. apply Hc. apply Hrel; auto.
      - destruct (reinsert_ok s nid I E Hstay Hold) as (s1 & E1 & W1 & Rec1 & Wh1).
        rewrite E1. simpl bind.
        apply finish_ok; auto.
    Qed.
  End Update.

  (** *** the refill branch of update is dead code under the invariant *)
  Definition take_out_norefill (s2 : state) (c : cell) (nid : id) : res state :=
    bind (match aget (occupants s2) c with
          | None => Err KeyError
          | Some oc =>
              match remove_first nid oc with
              | Some oc' => Ok (set_occ s2 (aset (occupants s2) c oc'))
              | None =>
                  match aget (surplus s2) c with
                  | None => Err KeyError
                  | Some sl =>
                      match remove_first nid sl with
                      | None => Err ValueError
                      | Some sl' => Ok (set_sur s2 (aset (surplus s2) c sl'))
                      end
                  end
              end
          end) (fun s4 =>
      if negb (get_truthy (aget (surplus s4) c)) then Ok (set_sur s4 (adel (surplus s4) c)) else Ok s4).

  (** update with the two lines of the refill branch deleted *)
  Definition update_norefill (s : state) (nid : id) (rel : bool) (c : cell) : res state :=
    if opt_id_eqb id_eqb (active_id s) nid then Ok (set_active s (Some c) (active_id s))
    else bind (reinsert s) (fun s1 =>
           if rel then take_out_norefill (set_active s1 (Some c) (Some nid)) c nid
           else Ok (set_active s1 None None)).

  Theorem refill_branch_dead s units cellof nid rel c :
    occ_inv s units cellof ->
    (forall u, In u units -> In (cellof u) cells) ->
    update s nid rel c = update_norefill s nid rel c.
  Proof.
    intros [W Rec Wh Act] Hv. rewrite update_unfold. unfold update_norefill.
    destruct (opt_id_eqb id_eqb (active_id s) nid); auto.
    assert (H1 : forall s1, reinsert s = Ok s1 -> forall c0, aget (surplus s1) c0 <> Some []).
    { unfold reinsert. intros s1 E1.
      destruct (active_id s) as [a|].
      - destruct (active_cell s) as [ac|]; [|discriminate]. destruct Act as [Ha ->].
        destruct (insert_unit_ok s (cellof a) a W (Hv a Ha)) as (s1' & E1' & W1 & _).
        rewrite E1 in E1'. inversion E1'; subst. apply (wf_sur_nonempty _ W1).
      - inversion E1; subst. apply (wf_sur_nonempty _ W). }
    destruct (reinsert s) as [s1|e] eqn:E1; auto. simpl bind.
    destruct rel; auto.
    unfold take_out, take_out_norefill.
    destruct (aget (occupants (set_active s1 (Some c) (Some nid))) c) as [oc|]; auto.
    destruct (remove_first nid oc) as [oc'|]; auto.
    rewrite refill_condition_false; auto. simpl. apply H1; auto.
  Qed.

  (** *** initialize establishes the invariant *)
  Definition units_of (us : list (id * cell * bool)) : list id :=
    map (fun x => fst (fst x)) (filter (fun x => snd x) us).

  Lemma aget_init (l : list cell) c : get_or_nil (aget (map (fun c => (c, [])) l) c) = [].
  Proof. induction l as [|k r IH]; simpl; auto. destruct (cell_eqb k c); auto. Qed.

  Lemma init_state_wf lim : st_wf (init_state cells lim).
  Proof.
    assert (Hocc : forall c, occ_of (init_state cells lim) c = []).
    { intros c. unfold Occupancy.occ_of, init_state; simpl. apply aget_init. }
    constructor; simpl.
    - rewrite map_map. simpl. apply map_id.
    - constructor.
    - intros c H; contradiction.
    - intros c H; discriminate.
    - intros c k _. rewrite Hocc. simpl. lia.
  Qed.

  Lemma init_state_recorded lim : recorded (init_state cells lim) = [].
  Proof.
    unfold recorded. apply flat_map_all_nil. intros c.
    unfold Occupancy.occ_of, Occupancy.sur_of, init_state; simpl.
    rewrite aget_init. auto.
  Qed.

  Lemma insert_all_ok (cellof : id -> cell) us : forall s done,
    st_wf s -> active_id s = None -> active_cell s = None ->
    Permutation (recorded s) done -> where_ok s cellof ->
    (forall u c r, In (u, c, r) us -> In c cells /\ cellof u = c) ->
    exists s', insert_all cell_eqb s us = Ok s' /\ st_wf s' /\ active_id s' = None /\ active_cell s' = None
               /\ Permutation (recorded s') (done ++ units_of us) /\ where_ok s' cellof.
  Proof.
    induction us as [|[[u c] r] us IH]; intros s done W Ai Ac Rec Wh Hus.
    - exists s. simpl. rewrite app_nil_r. auto 10.
    - simpl. destruct r.
      + destruct (Hus u c true (or_introl eq_refl)) as [Hc Hco].
        destruct (insert_unit_ok s c u W Hc) as (s1 & E1 & W1 & Eac & Eai & Hoth & Hat).
        rewrite E1. simpl bind.
        destruct (IH s1 (done ++ [u])) as (s' & E' & W' & Ai' & Ac' & Rec' & Wh'); auto; try congruence.
        * rewrite (insert_unit_recorded s s1 c u W Hc E1). rewrite Rec. apply Permutation_cons_append.
        * intros c0 u0 Hc0 Hu0.
          destruct (cell_eq_dec _ _ cell_eqb_spec c0 c) as [->|Hne0].
          -- assert (Hu' : In u0 (occ_of s c ++ sur_of s c) \/ u0 = u).
             { destruct Hat as [[E2 E3]|[E2 E3]]; rewrite E2, E3 in Hu0;
                 repeat (rewrite in_app_iff in Hu0; simpl in Hu0); rewrite in_app_iff; intuition auto. }
             destruct Hu' as [Hu'| ->]; auto.
          -- destruct (Hoth c0 Hne0) as [E2 E3]. rewrite E2, E3 in Hu0. auto.
        * intros; eapply Hus; right; eauto.
        * exists s'. repeat (split; auto).
          unfold units_of in *. simpl. rewrite <- app_assoc in Rec'. exact Rec'.
      + destruct (IH s done) as (s' & E' & W' & Ai' & Ac' & Rec' & Wh'); auto.
        * intros; eapply Hus; right; eauto.
        * exists s'. repeat (split; auto).
  Qed.

  Lemma insert_all_limit (us : list (id * cell * bool)) : forall (s0 s' : state),
    insert_all cell_eqb s0 us = Ok s' -> limit s' = limit s0.
  Proof.
    assert (Hl : forall (s0 : state) c u s1, insert_unit s0 c u = Ok s1 -> limit s1 = limit s0).
    { intros s0 c u s1. unfold Occupancy.insert_unit. destruct (aget (occupants s0) c); [|discriminate].
      destruct (has_room (limit s0) l); intros H; inversion H; auto. }
    induction us as [|[[u c] r] us IH]; simpl; intros s0 s' E.
    - inversion E; auto.
    - destruct r; auto.
      destruct (insert_unit s0 c u) as [s1|] eqn:E1; [|discriminate]. simpl in E.
      rewrite (IH _ _ E). eauto.
  Qed.

  (** [us]: the units on the cell level with the cell of their position and the charge filter's verdict *)
  Theorem init_inv lim (us : list (id * cell * bool)) (cellof : id -> cell) :
    (forall u c r, In (u, c, r) us -> In c cells /\ cellof u = c) ->
    exists s, initialize cells lim us = Ok s /\ occ_inv s (units_of us) cellof
              /\ active_id s = None /\ limit s = lim.
  Proof.
    intros Hus. unfold Occupancy.initialize.
    destruct (insert_all_ok cellof us (init_state cells lim) []) as (s' & E' & W' & Ai' & Ac' & Rec' & Wh'); auto.
    - apply init_state_wf.
    - rewrite init_state_recorded; auto.
    - intros c u Hc Hu. exfalso.
      assert (H : In u (recorded (init_state cells lim))) by (apply in_recorded; eauto).
      rewrite init_state_recorded in H. contradiction.
    - exists s'. split; auto. split; [|split; auto].
      + constructor; auto.
        * rewrite others_none; auto.
        * rewrite Ai', Ac'. auto.
      + rewrite (insert_all_limit _ _ _ E'). reflexivity.
  Qed.
End Inv.

Arguments recorded {cell id}.
Arguments is_active {cell id}.
Arguments others {cell id}.
Arguments st_wf {cell id}.
Arguments occ_inv {cell id}.
Arguments where_ok {cell id}.
Arguments units_of {cell id}.
Arguments update_norefill {cell id}.

(** ** C10: the cell taggers partition the other relevant units *)
Section Partition.
  Variables cell id : Type.
  Variable cell_eqb : cell -> cell -> bool.
  Variable id_eqb : id -> id -> bool.
  Hypothesis cell_eqb_spec : forall a b, cell_eqb a b = true <-> a = b.
  Hypothesis id_eqb_spec : forall a b, id_eqb a b = true <-> a = b.

  Notation state := (state cell id).
  Notation occ_of := (@occ_of cell id cell_eqb).
  Notation sur_of := (@sur_of cell id cell_eqb).

  (** what the cell taggers need of a (periodic) cell system; all quantifiers range over the cells of the
      system, so the record is decidable for a concrete system ([cellsys_ok_b] below). *)
  Record cellsys_ok (cs : cellsys cell) : Prop := {
    ok_cells_nodup : NoDup (cs_cells cs);
    ok_zero : In (cs_zero cs) (cs_cells cs);
    ok_nearby_nodup : forall c, In c (cs_cells cs) -> NoDup (cs_nearby cs c);
    ok_nearby_valid : forall c c', In c (cs_cells cs) -> In c' (cs_nearby cs c) -> In c' (cs_cells cs);
    ok_translate_valid : forall a r, In a (cs_cells cs) -> In r (cs_cells cs) -> In (cs_translate cs a r) (cs_cells cs);
    ok_relative_valid : forall c a, In c (cs_cells cs) -> In a (cs_cells cs) -> In (cs_relative cs c a) (cs_cells cs);
    ok_translate_relative : forall a c, In a (cs_cells cs) -> In c (cs_cells cs) ->
                                        cs_translate cs a (cs_relative cs c a) = c;
    ok_relative_translate : forall a r, In a (cs_cells cs) -> In r (cs_cells cs) ->
                                        cs_relative cs (cs_translate cs a r) a = r;
    (* nearby_translation_invariant *)
    ok_nearby_invariant : forall a r, In a (cs_cells cs) -> In r (cs_cells cs) ->
        (In (cs_translate cs a r) (cs_nearby cs a) <-> In r (cs_nearby cs (cs_zero cs)));
    (* the walker items are used as keys of the bound table: relative_cell(cell, zero_cell) is the cell itself *)
    ok_relative_zero : forall c, In c (cs_cells cs) -> cs_relative cs c (cs_zero cs) = c
  }.

  Lemma mem_cell_spec c l : mem_cell cell_eqb c l = true <-> In c l.
  Proof.
    unfold mem_cell. rewrite existsb_exists. split.
    - intros (x & Hx & E). apply cell_eqb_spec in E. subst; auto.
    - intros H. exists c. split; auto. apply cell_eqb_spec; auto.
  Qed.

  Lemma mem_cell_false c l : mem_cell cell_eqb c l = false <-> ~ In c l.
  Proof.
    rewrite <- mem_cell_spec. destruct (mem_cell cell_eqb c l); split; intros H; auto; try discriminate.
    exfalso; apply H; auto.
  Qed.

  Lemma NoDup_map_inj_in {A B} (f : A -> B) (l : list A) :
    (forall x y, In x l -> In y l -> f x = f y -> x = y) -> NoDup l -> NoDup (map f l).
  Proof.
    induction l as [|a r IH]; simpl; intros Hinj ND; [constructor|].
    inversion ND; subst. constructor.
    - intros H. apply in_map_iff in H. destruct H as (y & E & Hy).
      assert (y = a) by (apply Hinj; auto). subst. contradiction.
    - apply IH; auto.
  Qed.

  Variable cs : cellsys cell.
  Hypothesis cs_ok : cellsys_ok cs.
  Notation cells := (cs_cells cs).

  Definition not_nearby (ac c : cell) : bool := negb (mem_cell cell_eqb c (cs_nearby cs ac)).

  (** the translated walker items are exactly the cells that are not nearby the active cell *)
  Lemma veto_cells_perm ac : In ac cells ->
    Permutation (map (cs_translate cs ac) (veto_domain cell_eqb cs)) (filter (not_nearby ac) cells).
  Proof.
    intros Hac. destruct cs_ok as [ND Z NN NV TV RV TR RT NI RZ].
    apply NoDup_Permutation.
    - apply NoDup_map_inj_in.
      + unfold veto_domain. intros x y Hx Hy E. apply filter_In in Hx. apply filter_In in Hy.
        rewrite <- (RT ac x), <- (RT ac y); try tauto. rewrite E; auto.
      + apply NoDup_filter; auto.
    - apply NoDup_filter; auto.
    - intros x. rewrite in_map_iff, filter_In. unfold veto_domain, not_nearby. split.
      + intros (r & E & Hr). apply filter_In in Hr. destruct Hr as [Hr Hn]. subst x. split; auto.
        apply negb_true_iff in Hn. apply negb_true_iff. apply mem_cell_false. apply mem_cell_false in Hn.
        intros H. apply Hn. apply (NI ac r); auto.
      + intros [Hx Hn]. exists (cs_relative cs x ac). split; auto.
        apply filter_In. split; auto.
        apply negb_true_iff in Hn. apply negb_true_iff. apply mem_cell_false. apply mem_cell_false in Hn.
        intros H. apply Hn. apply (NI ac (cs_relative cs x ac)) in H; auto. rewrite TR in H; auto.
  Qed.

  Lemma nearby_cells_perm ac : In ac cells ->
    Permutation (filter (fun c => mem_cell cell_eqb c (cs_nearby cs ac)) cells) (cs_nearby cs ac).
  Proof.
    intros Hac. destruct cs_ok as [ND Z NN NV TV RV TR RT NI RZ].
    apply NoDup_Permutation.
    - apply NoDup_filter; auto.
    - apply NN; auto.
    - intros x. rewrite filter_In, mem_cell_spec. split; [tauto|]. intros H; split; auto. apply (NV ac x); auto.
  Qed.

  Lemma cells_split_perm ac : In ac cells ->
    Permutation cells (map (cs_translate cs ac) (veto_domain cell_eqb cs) ++ cs_nearby cs ac).
  Proof.
    intros Hac. rewrite veto_cells_perm, <- nearby_cells_perm by auto.
    rewrite Permutation_app_comm.
    apply (filter_partition_perm (fun c => mem_cell cell_eqb c (cs_nearby cs ac))).
  Qed.

  (** every sampled walker item is a key of the handler's bound table *)
  Lemma veto_keys_consistent : veto_keys cell_eqb cs = veto_domain cell_eqb cs.
  Proof.
    unfold veto_keys. rewrite <- (map_id (veto_domain cell_eqb cs)) at 2.
    apply map_ext_in. intros c Hc. unfold veto_domain in Hc. apply filter_In in Hc.
    apply (ok_relative_zero _ cs_ok); tauto.
  Qed.

  (** *** the targets of the three event families *)
  Lemma nearby_targets_eq (s : state) ac a : active_cell s = Some ac -> active_id s = Some a ->
    nearby_targets cell_eqb cs s = flat_map (occ_of s) (cs_nearby cs ac).
  Proof.
    intros Ec Ea. unfold nearby_targets, excluded_cells_tagger, yield_active_cells, targets_of.
    rewrite Ec, Ea. simpl. rewrite app_nil_r.
    induction (cs_nearby cs ac) as [|n r IH]; simpl; auto.
    rewrite flat_map_app, IH. f_equal. apply flat_map_tl_pairs.
  Qed.

  Lemma surplus_targets_eq (s : state) ac a : active_cell s = Some ac -> active_id s = Some a ->
    surplus_targets s = yield_surplus s.
  Proof.
    intros Ec Ea. unfold surplus_targets, surplus_cells_tagger, yield_active_cells, targets_of.
    rewrite Ec, Ea. simpl. rewrite app_nil_r. apply flat_map_tl_pairs.
  Qed.

  Lemma veto_targets_eq (s : state) ac a : active_cell s = Some ac -> active_id s = Some a ->
    cell_veto_targets cell_eqb cs s = flat_map (occ_of s) (map (cs_translate cs ac) (veto_domain cell_eqb cs)).
  Proof.
    intros Ec Ea. unfold cell_veto_targets, yield_active_cells. rewrite Ec, Ea. simpl. rewrite app_nil_r.
    rewrite flat_map_map. reflexivity.
  Qed.

  Lemma bounding_targets_eq (s : state) ac a : active_cell s = Some ac -> active_id s = Some a ->
    bounding_targets cell_eqb cs s = flat_map (occ_of s) (filter (not_nearby ac) cells).
  Proof.
    intros Ec Ea. unfold bounding_targets, cell_bounding_tagger, yield_active_cells, targets_of.
    rewrite Ec, Ea. simpl. rewrite app_nil_r.
    rewrite flat_map_map. simpl.
    transitivity (flat_map (occ_of s)
      (filter (fun c => negb (is_nil (occ_of s c))) (filter (not_nearby ac) cells))).
    - f_equal. clear. induction cells as [|c r IH]; simpl; auto.
      unfold not_nearby at 1. destruct (mem_cell cell_eqb c (cs_nearby cs ac)); simpl.
      + rewrite andb_false_r. auto.
      + rewrite andb_true_r. destruct (is_nil (occ_of s c)); simpl; rewrite IH; auto.
    - apply flat_map_filter_nonnil. intros x _ H. destruct (occ_of s x); auto; discriminate.
  Qed.

  Variables (units : list id) (cellof : id -> cell).
  Hypothesis units_nodup : NoDup units.

  (** *** cell-veto (or cell-bounding) targets + nearby targets + surplus targets = all other relevant units,
      as multisets: nobody is missed, nobody is treated twice. *)
  Hypothesis cellof_valid : forall u, In u units -> In (cellof u) cells.

  Theorem cells_partition (s : state) a :
    occ_inv cell_eqb id_eqb cells s units cellof -> active_id s = Some a ->
    Permutation (cell_veto_targets cell_eqb cs s ++ nearby_targets cell_eqb cs s ++ surplus_targets s)
                (others id_eqb s units).
  Proof.
    intros [W Rec Wh Act] Ea. rewrite Ea in Act.
    destruct (active_cell s) as [ac|] eqn:Ec; [|contradiction]. destruct Act as [Ha Hac].
    assert (Hacc : In ac cells) by (rewrite Hac; auto).
    rewrite <- Rec.
    rewrite (veto_targets_eq s ac a), (nearby_targets_eq s ac a), (surplus_targets_eq s ac a) by auto.
    unfold recorded. rewrite flat_map_app_perm.
    rewrite app_assoc. apply Permutation_app.
    - rewrite <- flat_map_app. apply Permutation_flat_map. symmetry. apply cells_split_perm; auto.
    - destruct W as [K ND V NE L]. unfold yield_surplus.
      apply (values_perm _ _ cell_eqb cell_eqb_spec); auto. apply (ok_cells_nodup _ cs_ok).
  Qed.

  (** the cell-bounding family (one event per non-empty far cell) treats the same units as the cell-veto family *)
  Theorem cell_bounding_same_targets (s : state) a :
    occ_inv cell_eqb id_eqb cells s units cellof -> active_id s = Some a ->
    Permutation (bounding_targets cell_eqb cs s) (cell_veto_targets cell_eqb cs s).
  Proof.
    intros [W Rec Wh Act] Ea. rewrite Ea in Act.
    destruct (active_cell s) as [ac|] eqn:Ec; [|contradiction]. destruct Act as [Ha Hac].
    assert (Hacc : In ac cells) by (rewrite Hac; auto).
    rewrite (veto_targets_eq s ac a), (bounding_targets_eq s ac a) by auto.
    apply Permutation_flat_map. symmetry. apply veto_cells_perm; auto.
  Qed.

  Corollary cells_partition_bounding (s : state) a :
    occ_inv cell_eqb id_eqb cells s units cellof -> active_id s = Some a ->
    Permutation (bounding_targets cell_eqb cs s ++ nearby_targets cell_eqb cs s ++ surplus_targets s)
                (others id_eqb s units).
  Proof.
    intros I Ea. rewrite (cell_bounding_same_targets s a I Ea). apply (cells_partition s a); auto.
  Qed.

  (** nobody twice, nobody missed, stated element-wise *)
  Corollary cells_partition_nodup (s : state) a :
    occ_inv cell_eqb id_eqb cells s units cellof -> active_id s = Some a ->
    NoDup (cell_veto_targets cell_eqb cs s ++ nearby_targets cell_eqb cs s ++ surplus_targets s)
    /\ (forall u, In u (cell_veto_targets cell_eqb cs s ++ nearby_targets cell_eqb cs s ++ surplus_targets s)
                  <-> In u units /\ u <> a).
  Proof.
    intros I Ea. pose proof (cells_partition s a I Ea) as P. split.
    - eapply Permutation_NoDup; [symmetry; exact P|]. unfold others. apply NoDup_filter; auto.
    - intros u. split.
      + intros H. eapply Permutation_in in H; [|exact P]. unfold others, is_active in H. rewrite Ea in H.
        apply filter_In in H. destruct H as [H1 H2]. split; auto. intros ->. simpl in H2.
        assert (id_eqb a a = true) by (apply id_eqb_spec; auto). rewrite H in H2. discriminate.
      + intros [H1 H2]. eapply Permutation_in; [symmetry; exact P|]. unfold others, is_active. rewrite Ea.
        apply filter_In. split; auto. simpl. destruct (id_eqb a u) eqn:E; auto.
        apply id_eqb_spec in E. subst. contradiction.
  Qed.

  (** the taggers' in-states all start with the active unit; without a relevant active unit nothing is generated *)
  Lemma taggers_without_active (s : state) : active_id s = None ->
    cell_veto_tagger s = [] /\ cell_bounding_tagger cell_eqb cs s = [] /\ excluded_cells_tagger cell_eqb cs s = []
    /\ surplus_cells_tagger s = [] /\ cell_boundary_tagger s = [].
  Proof.
    intros E. unfold cell_veto_tagger, cell_bounding_tagger, excluded_cells_tagger, surplus_cells_tagger,
      cell_boundary_tagger, yield_active_cells. rewrite E. destruct (active_cell s); simpl; auto.
  Qed.

  (** C11, element-wise reading of the invariant *)
  Corollary occ_inv_exactly_once (s : state) u :
    occ_inv cell_eqb id_eqb cells s units cellof -> In u units -> is_active id_eqb s u = false ->
    In u (occ_of s (cellof u) ++ sur_of s (cellof u))
    /\ NoDup (recorded cell_eqb cells s)
    /\ (forall c, In c cells -> In u (occ_of s c ++ sur_of s c) -> c = cellof u).
  Proof.
    intros [W Rec Wh Act] Hu Hna.
    assert (Hr : In u (recorded cell_eqb cells s)).
    { eapply Permutation_in; [symmetry; exact Rec|]. unfold others. apply filter_In. rewrite Hna. auto. }
    split; [|split].
    - apply in_flat_map in Hr. destruct Hr as (c & Hc & Hin). rewrite (Wh c u Hc Hin). auto.
    - eapply Permutation_NoDup; [symmetry; exact Rec|]. unfold others. apply NoDup_filter; auto.
    - intros c Hc Hin. symmetry. apply (Wh c u Hc Hin).
  Qed.

  Corollary occ_inv_active_not_recorded (s : state) a :
    occ_inv cell_eqb id_eqb cells s units cellof -> active_id s = Some a ->
    ~ In a (recorded cell_eqb cells s) /\ active_cell s = Some (cellof a).
  Proof.
    intros [W Rec Wh Act] Ea. rewrite Ea in Act. split.
    - intros H. eapply Permutation_in in H; [|exact Rec]. unfold others, is_active in H. rewrite Ea in H.
      apply filter_In in H. destruct H as [_ H]. simpl in H.
      assert (id_eqb a a = true) by (apply id_eqb_spec; auto). rewrite H0 in H. discriminate.
    - destruct (active_cell s); [|contradiction]. destruct Act as [_ ->]; auto.
  Qed.
End Partition.

Arguments cellsys_ok {cell}.
Arguments not_nearby {cell}.

(** ** [cellsys_ok] is decidable for a concrete cell system *)
Section Decide.
  Variable cell : Type.
  Variable cell_eqb : cell -> cell -> bool.
  Hypothesis cell_eqb_spec : forall a b, cell_eqb a b = true <-> a = b.

  Fixpoint nodup_b (l : list cell) : bool :=
    match l with [] => true | x :: r => negb (mem_cell cell_eqb x r) && nodup_b r end.

  Lemma nodup_b_spec l : nodup_b l = true -> NoDup l.
  Proof.
    induction l as [|x r IH]; simpl; intros H; [constructor|].
    apply andb_true_iff in H. destruct H as [H1 H2]. constructor; auto.
    apply negb_true_iff in H1. apply (mem_cell_false _ cell_eqb cell_eqb_spec) in H1. auto.
  Qed.

  Definition cellsys_ok_b (cs : cellsys cell) : bool :=
    let cells := cs_cells cs in
    let mem := mem_cell cell_eqb in
    nodup_b cells
    && mem (cs_zero cs) cells
    && forallb (fun c => nodup_b (cs_nearby cs c) && forallb (fun c' => mem c' cells) (cs_nearby cs c)) cells
    && forallb (fun a => forallb (fun r =>
          mem (cs_translate cs a r) cells
          && mem (cs_relative cs r a) cells
          && cell_eqb (cs_translate cs a (cs_relative cs r a)) r
          && cell_eqb (cs_relative cs (cs_translate cs a r) a) r
          && Bool.eqb (mem (cs_translate cs a r) (cs_nearby cs a)) (mem r (cs_nearby cs (cs_zero cs)))) cells) cells
    && forallb (fun c => cell_eqb (cs_relative cs c (cs_zero cs)) c) cells.

  Theorem cellsys_ok_b_sound cs : cellsys_ok_b cs = true -> cellsys_ok cs.
  Proof.
    unfold cellsys_ok_b. intros H.
    repeat (apply andb_true_iff in H; let H' := fresh "H" in destruct H as [H H']).
    rename H into Hnd, H3 into Hz, H2 into Hnear, H1 into Hpair, H0 into Hrz.
    pose proof (mem_cell_spec _ cell_eqb cell_eqb_spec) as MS.
    assert (Hp : forall a r, In a (cs_cells cs) -> In r (cs_cells cs) ->
       In (cs_translate cs a r) (cs_cells cs) /\ In (cs_relative cs r a) (cs_cells cs)
       /\ cs_translate cs a (cs_relative cs r a) = r /\ cs_relative cs (cs_translate cs a r) a = r
       /\ (In (cs_translate cs a r) (cs_nearby cs a) <-> In r (cs_nearby cs (cs_zero cs)))).
    { intros a r Ha Hr. rewrite forallb_forall in Hpair. specialize (Hpair a Ha).
      rewrite forallb_forall in Hpair. specialize (Hpair r Hr).
      repeat (apply andb_true_iff in Hpair; let H' := fresh "P" in destruct Hpair as [Hpair H']).
      repeat split; try (apply MS; assumption); try (apply cell_eqb_spec; assumption).
      - intros Hx. apply MS in Hx. apply Bool.eqb_prop in P. rewrite Hx in P. apply MS. auto.
      - intros Hx. apply MS in Hx. apply Bool.eqb_prop in P. rewrite Hx in P. apply MS. auto. }
    constructor.
    - apply nodup_b_spec; auto.
    - apply MS; auto.
    - intros c Hc. rewrite forallb_forall in Hnear. specialize (Hnear c Hc).
      apply andb_true_iff in Hnear. apply nodup_b_spec; tauto.
    - intros c c' Hc Hc'. rewrite forallb_forall in Hnear. specialize (Hnear c Hc).
      apply andb_true_iff in Hnear. destruct Hnear as [_ Hn]. rewrite forallb_forall in Hn. apply MS; auto.
    - intros a r Ha Hr. apply (Hp a r); auto.
    - intros c a Hc Ha. apply (Hp a c); auto.
    - intros a c Ha Hc. apply (Hp a c); auto.
    - intros a r Ha Hr. apply (Hp a r); auto.
    - intros a r Ha Hr. apply (Hp a r); auto.
    - intros c Hc. rewrite forallb_forall in Hrz. apply cell_eqb_spec; auto.
  Qed.
End Decide.

Lemma list_Z_eqb_spec a b : list_Z_eqb a b = true <-> a = b.
Proof.
  revert b. induction a as [|x a IH]; destruct b as [|y b]; simpl; split; intros H; try discriminate; auto.
  - apply andb_true_iff in H. destruct H as [H1 H2]. apply Z.eqb_eq in H1. apply IH in H2. subst; auto.
  - inversion H; subst. rewrite Z.eqb_refl. simpl. apply IH; auto.
Qed.

Lemma occ_inv_limit (cell id : Type) (cell_eqb : cell -> cell -> bool) (id_eqb : id -> id -> bool)
      (cells : list cell) (units : list id) (cellof : id -> cell) (s : state cell id) :
  occ_inv cell_eqb id_eqb cells s units cellof ->
  (forall c k, limit s = Some k -> length (occ_of cell_eqb s c) <= k)
  /\ (forall c, aget cell_eqb (surplus s) c <> Some []).
Proof. intros [[K ND V NE L] _ _ _]. split; auto. Qed.

(** ** A concrete, non-trivial instance (used by the non-vacuity examples of Props/C10.v and Props/C11.v):
    5 cells on a ring, one neighbour layer, occupant limit 1, six units, three of them in the same cell. *)
Module OccExample.
  Open Scope Z_scope.
  Definition cs5 : cellsys (list Z) := torus_cs [5] 1.
  Definition us : list (list Z * list Z * bool) :=
    [([0], [0], true); ([1], [0], true); ([2], [2], true); ([3], [3], true); ([4], [0], true); ([5], [1], true);
     ([6], [4], false)].
  Definition units : list (list Z) := units_of us.
  Definition cellof (u : list Z) : list Z :=
    match find (fun x => list_Z_eqb (fst (fst x)) u) us with Some x => snd (fst x) | None => [0] end.
  Definition lim : option nat := limit_of_max 1.

  Lemma cs5_ok : cellsys_ok cs5.
  Proof. apply (cellsys_ok_b_sound _ list_Z_eqb list_Z_eqb_spec). vm_compute. reflexivity. Qed.

  Lemma units_nodup : NoDup units.
  Proof. apply (nodup_b_spec _ list_Z_eqb list_Z_eqb_spec). vm_compute. reflexivity. Qed.

  Lemma cellof_valid : forall u, In u units -> In (cellof u) (cs_cells cs5).
  Proof.
    intros u H. vm_compute in H.
    repeat (destruct H as [<-|H]; [vm_compute; tauto|]). contradiction.
  Qed.

  Lemma us_ok : forall u c r, In (u, c, r) us -> In c (cs_cells cs5) /\ cellof u = c.
  Proof.
    intros u c r H. unfold us in H.
    repeat (destruct H as [H|H]; [inversion H; subst; vm_compute; tauto|]). contradiction.
  Qed.

  (** the state after initialize *)
  Definition s0 : state (list Z) (list Z) :=
    match initialize list_Z_eqb (cs_cells cs5) lim us with Ok s => s | Err _ => init_state [] None end.
  (** ... and after unit (0,) has become active *)
  Definition s1 : state (list Z) (list Z) :=
    match update list_Z_eqb list_Z_eqb s0 [0] true [0] with Ok s => s | Err _ => s0 end.

  Lemma s0_inv : occ_inv list_Z_eqb list_Z_eqb (cs_cells cs5) s0 units cellof.
  Proof.
    destruct (init_inv _ _ list_Z_eqb list_Z_eqb list_Z_eqb_spec (cs_cells cs5) (ok_cells_nodup _ _ cs5_ok) lim us cellof us_ok)
      as (s & E & I & _).
    unfold s0. rewrite E. exact I.
  Qed.

  Lemma s1_inv : occ_inv list_Z_eqb list_Z_eqb (cs_cells cs5) s1 units cellof.
  Proof.
    assert (H1 : true = true <-> In [0] units) by (split; auto; intros _; vm_compute; auto).
    assert (H2 : true = true -> [0] = cellof [0]) by (intros _; reflexivity).
    assert (H3 : forall u, In u units -> is_active list_Z_eqb s0 u = false -> cellof u = cellof u) by auto.
    assert (H4 : forall a, active_id s0 = Some a -> a <> [0] -> cellof a = cellof a) by auto.
    destruct (update_inv _ _ list_Z_eqb list_Z_eqb list_Z_eqb_spec list_Z_eqb_spec (cs_cells cs5)
                (ok_cells_nodup _ _ cs5_ok) units cellof cellof units_nodup cellof_valid s0 [0] true [0] s0_inv
                H1 H2 H3 H4) as (s & E & I).
    unfold s1. rewrite E. exact I.
  Qed.

  Lemma s1_active : active_id s1 = Some [0] /\ active_cell s1 = Some [0].
  Proof. vm_compute. auto. Qed.
End OccExample.
