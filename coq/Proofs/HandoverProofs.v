(** * Proofs/HandoverProofs.v — the chain condition follows from the local contract of the out-state. *)
From Coq Require Import ZArith QArith Qabs List Bool Lia Permutation Lqa.
From Flocq Require Import Core.Core IEEE754.BinarySingleNaN.
Require Import JF.Base.F64 JF.Model.Kinematics JF.Proofs.KinematicsProofs JF.Model.Handover.
Import ListNotations.

(* ---------------------------------------------------------------------------------------- *)
(** ** Bit-equality of velocities is an equivalence *)

Lemma sf_eqb_eq a b : sf_eqb a b = true <-> a = b.
Proof.
  destruct a, b; simpl; split; intro H; try discriminate; try reflexivity.
  - apply Bool.eqb_prop in H. congruence.
  - injection H as ->. apply Bool.eqb_reflx.
  - apply Bool.eqb_prop in H. congruence.
  - injection H as ->. apply Bool.eqb_reflx.
  - apply andb_true_iff in H as [H H3]. apply andb_true_iff in H as [H1 H2].
    apply Bool.eqb_prop in H1. apply Pos.eqb_eq in H2. apply Z.eqb_eq in H3. congruence.
  - injection H as -> -> ->. rewrite Bool.eqb_reflx, Pos.eqb_refl, Z.eqb_refl. reflexivity.
Qed.

Definition veq (a b : list f64) : Prop := map (@B2SF 53 1024) a = map (@B2SF 53 1024) b.

Lemma vel_eqb_veq a : forall b, vel_eqb a b = true <-> veq a b.
Proof.
  unfold veq. induction a as [|x a IH]; intros [|y b]; simpl; split; intro H; try discriminate; auto.
  - apply andb_true_iff in H as [H1 H2]. unfold feqb_bits in H1. apply sf_eqb_eq in H1.
    apply IH in H2. congruence.
  - injection H as H1 H2. apply andb_true_iff. split; [unfold feqb_bits; apply sf_eqb_eq; exact H1 | apply IH; exact H2].
Qed.

Lemma same_vel_spec a b : same_vel a b = true <-> exists x y, u_vel a = Some x /\ u_vel b = Some y /\ veq x y.
Proof.
  unfold same_vel. destruct (u_vel a) as [x|], (u_vel b) as [y|]; split; intro H;
    try discriminate; try (destruct H as [? [? [? [? ?]]]]; discriminate).
  - exists x, y. repeat split. apply vel_eqb_veq. exact H.
  - destruct H as [x' [y' [E1 [E2 V]]]]. injection E1 as <-. injection E2 as <-. apply vel_eqb_veq. exact V.
Qed.

Lemma same_vel_refl a : moving a = true -> same_vel a a = true.
Proof.
  unfold moving. intro H. apply same_vel_spec. destruct (u_vel a) as [x|]; [|discriminate].
  exists x, x. repeat split.
Qed.

Lemma same_vel_sym a b : same_vel a b = true -> same_vel b a = true.
Proof.
  intro H. apply same_vel_spec in H as [x [y [E1 [E2 V]]]]. apply same_vel_spec. exists y, x.
  repeat split; auto. unfold veq in *. congruence.
Qed.

Lemma same_vel_trans a b c : same_vel a b = true -> same_vel b c = true -> same_vel a c = true.
Proof.
  intros H1 H2. apply same_vel_spec in H1 as [x [y [E1 [E2 V]]]]. apply same_vel_spec in H2 as [y' [z [E3 [E4 W]]]].
  apply same_vel_spec. exists x, z. repeat split; auto. unfold veq in *. congruence.
Qed.

(** the exact value depends on the bit pattern only *)
Lemma f2q_B2SF x y : B2SF x = B2SF y -> f2q x = f2q y.
Proof.
  destruct x, y; simpl; intro H; try discriminate; try reflexivity. injection H as -> -> ->. reflexivity.
Qed.

Lemma speed2_veq a : forall b, veq a b -> speed2 a = speed2 b.
Proof.
  unfold veq. induction a as [|x a IH]; intros [|y b] H; simpl in *; try discriminate; [reflexivity|].
  injection H as H1 H2. rewrite (f2q_B2SF x y H1), (IH b H2). reflexivity.
Qed.

(* ---------------------------------------------------------------------------------------- *)
(** ** Leaf-ness depends on identifiers only *)

Lemma existsb_ids (h : list nat -> bool) (st : gstate) :
  existsb (fun w => h (u_id w)) st = existsb h (map u_id st).
Proof. induction st as [|w r IH]; simpl; [reflexivity|]. rewrite IH. reflexivity. Qed.

Lemma is_leaf_ids st1 st2 u : map u_id st1 = map u_id st2 -> is_leaf st1 u = is_leaf st2 u.
Proof.
  intro H. unfold is_leaf.
  rewrite (existsb_ids (fun i => Nat.eqb (length i) (S (length (u_id u)))
                                  && id_eqb (firstn (length (u_id u)) i) (u_id u)) st1).
  rewrite (existsb_ids (fun i => Nat.eqb (length i) (S (length (u_id u)))
                                  && id_eqb (firstn (length (u_id u)) i) (u_id u)) st2).
  rewrite H. reflexivity.
Qed.

Lemma is_leaf_same_id st u w : u_id u = u_id w -> is_leaf st u = is_leaf st w.
Proof. intro H. unfold is_leaf. rewrite H. reflexivity. Qed.

Lemma root_of_same_id (u w : unit) : u_id u = u_id w -> root_of u = root_of w.
Proof. unfold root_of. intros ->. reflexivity. Qed.

(* ---------------------------------------------------------------------------------------- *)
(** ** Lists with duplicate-free identifiers *)

Lemma ids_nodup_filter (p : unit -> bool) : forall l, ids_nodup (map u_id l) = true -> ids_nodup (map u_id (filter p l)) = true.
Proof.
  induction l as [|w l IH]; simpl; [reflexivity|]. intro H. apply andb_true_iff in H as [H1 H2].
  destruct (p w); simpl; [|apply IH; exact H2].
  apply andb_true_iff. split; [|apply IH; exact H2].
  apply negb_true_iff. apply negb_true_iff in H1.
  destruct (existsb (id_eqb (u_id w)) (map u_id (filter p l))) eqn:E; [|reflexivity].
  apply existsb_exists in E as [i [Hi Ei]]. apply in_map_iff in Hi as [x [<- Hx]].
  apply filter_In in Hx as [Hx _].
  assert (existsb (id_eqb (u_id w)) (map u_id l) = true); [|congruence].
  apply existsb_exists. exists (u_id x). split; [apply in_map; exact Hx | exact Ei].
Qed.

Lemma ids_nodup_inj l a b : ids_nodup (map u_id l) = true -> In a l -> In b l -> u_id a = u_id b -> a = b.
Proof.
  intros N Ha Hb E. pose proof (ids_nodup_lookup l a N Ha) as La. pose proof (ids_nodup_lookup l b N Hb) as Lb.
  rewrite E in La. congruence.
Qed.

Lemma in_lookup l : forall (u : unit), In u l -> exists u', lookup l (u_id u) = Some u'.
Proof.
  induction l as [|w l IH]; simpl; intros u H; [contradiction|].
  destruct (id_eqb (u_id w) (u_id u)) eqn:E; [eauto|].
  destruct H as [->|H]; [rewrite id_eqb_refl in E; discriminate | apply IH; exact H].
Qed.

Lemma lookup_filter_some (p : unit -> bool) : forall l i u,
  lookup l i = Some u -> p u = true -> lookup (filter p l) i = Some u.
Proof.
  induction l as [|w l IH]; simpl; intros i u H P; [discriminate|].
  destruct (id_eqb (u_id w) i) eqn:E.
  - injection H as <-. rewrite P. simpl. rewrite E. reflexivity.
  - destruct (p w); simpl; [rewrite E|]; apply IH; assumption.
Qed.

Lemma in_ids_spec i l : in_ids i l = true <-> exists u, In u l /\ u_id u = i.
Proof.
  unfold in_ids. rewrite existsb_exists. split; intros [u [H E]]; exists u; split; auto; apply id_eqb_eq; exact E.
Qed.

(* ---------------------------------------------------------------------------------------- *)
(** ** Frame argument *)

Lemma is_leaf_commit st out u : is_leaf (commit st out) u = is_leaf st u.
Proof. apply is_leaf_ids. apply commit_ids. Qed.

(** a leaf of the out-state is what [commit] finds under its identifier *)
Lemma out_leaf_lookup st out x :
  ids_nodup (map u_id (filter (is_leaf st) out)) = true -> In x out -> is_leaf st x = true ->
  lookup out (u_id x) = Some x.
Proof.
  intros D Hx Lx. destruct (in_lookup out x Hx) as [u' Hu']. rewrite Hu'. f_equal.
  destruct (lookup_some _ _ _ Hu') as [Hin Hid].
  assert (Lu : is_leaf st u' = true) by (rewrite (is_leaf_same_id st u' x Hid); exact Lx).
  pose proof (lookup_filter_some (is_leaf st) out (u_id x) u' Hu' Lu) as F1.
  assert (Fx : In x (filter (is_leaf st) out)) by (apply filter_In; split; assumption).
  pose proof (ids_nodup_lookup _ x D Fx) as F2. congruence.
Qed.

Lemma moving_leaves_commit_in st out x :
  covers_moving st out = true -> In x (moving_leaves (commit st out)) -> In x (out_moving_leaves st out).
Proof.
  intros C Hx. unfold moving_leaves in Hx. apply filter_In in Hx as [Hx Px].
  rewrite is_leaf_commit in Px. apply commit_in in Hx as [w [Hw ->]].
  unfold override in *. destruct (lookup out (u_id w)) as [u'|] eqn:E.
  - apply lookup_some in E as [Hin _]. unfold out_moving_leaves. apply filter_In. split; assumption.
  - exfalso. unfold covers_moving in C. rewrite forallb_forall in C.
    assert (Mw : In w (moving_leaves st)) by (unfold moving_leaves; apply filter_In; split; assumption).
    specialize (C w Mw). rewrite E in C. discriminate.
Qed.

Lemma out_moving_in_commit st out x :
  ids_nodup (map u_id (filter (is_leaf st) out)) = true ->
  In x (out_moving_leaves st out) -> in_ids (u_id x) st = true -> In x (moving_leaves (commit st out)).
Proof.
  intros D Hx Ix. unfold out_moving_leaves in Hx. apply filter_In in Hx as [Hx Px].
  unfold leaf_moving in Px. pose proof Px as Px'. apply andb_true_iff in Px' as [Lx Mx].
  apply in_ids_spec in Ix as [w [Hw Ew]].
  pose proof (out_leaf_lookup st out x D Hx Lx) as Lk.
  assert (Ov : override out w = x) by (unfold override; rewrite Ew, Lk; reflexivity).
  unfold moving_leaves. apply filter_In. split.
  - rewrite <- Ov. unfold commit. apply in_map. exact Hw.
  - rewrite is_leaf_commit. exact Px.
Qed.

Lemma ids_nodup_head_tail (a b : unit) l :
  ids_nodup (map u_id (a :: l)) = true -> In b l -> u_id a <> u_id b.
Proof.
  simpl. intros H Hb E. apply andb_true_iff in H as [H _]. apply negb_true_iff in H.
  assert (existsb (id_eqb (u_id a)) (map u_id l) = true); [|congruence].
  apply existsb_exists. exists (u_id b). split; [apply in_map; exact Hb | rewrite E; apply id_eqb_refl].
Qed.

(** THE THEOREM: the local contract of the out-state implies the global chain condition after the
    commit. *)
Theorem chain_from_handover_lemma st out :
  ids_nodup (map u_id st) = true -> handover_ok st out = true -> chain_ok (commit st out) = true.
Proof.
  intros N H. unfold handover_ok in H.
  apply andb_true_iff in H as [H H3]. apply andb_true_iff in H as [C D].
  destruct (out_moving_leaves st out) as [|m rest] eqn:ML; [discriminate|].
  apply andb_true_iff in H3 as [H3 S]. apply andb_true_iff in H3 as [I V].
  rewrite forallb_forall in I, V.
  assert (Mm : In m (out_moving_leaves st out)) by (rewrite ML; left; reflexivity).
  assert (MLprop : forall y, In y (m :: rest) -> In y out /\ is_leaf st y = true /\ moving y = true).
  { intros y Hy. rewrite <- ML in Hy. unfold out_moving_leaves in Hy. apply filter_In in Hy as [Hy Py].
    unfold leaf_moving in Py. apply andb_true_iff in Py as [? ?]. auto. }
  assert (SV : forall y, In y (m :: rest) -> same_vel y m = true).
  { intros y [<-|Hy]; [apply same_vel_refl; apply (MLprop m); left; reflexivity | apply V; exact Hy]. }
  set (st' := commit st out).
  assert (N' : ids_nodup (map u_id st') = true) by (unfold st'; rewrite commit_ids; exact N).
  assert (NM : ids_nodup (map u_id (moving_leaves st')) = true) by (apply ids_nodup_filter; exact N').
  assert (B : forall x, In x (moving_leaves st') -> In x (m :: rest)).
  { intros x Hx. rewrite <- ML. apply moving_leaves_commit_in; assumption. }
  assert (Cc : forall x, In x (m :: rest) -> In x (moving_leaves st')).
  { intros x Hx. apply out_moving_in_commit; [exact D | rewrite ML; exact Hx | apply I; exact Hx]. }
  unfold chain_ok. destruct (moving_leaves st') as [|m' rest'] eqn:E.
  - exfalso. apply (Cc m). left. reflexivity.
  - assert (Bm' : In m' (m :: rest)) by (apply B; left; reflexivity).
    apply andb_true_iff. split.
    + apply forallb_forall. intros u Hu. change (same_vel u m' = true).
      apply same_vel_trans with m; [apply SV; apply B; right; exact Hu | apply same_vel_sym; apply SV; exact Bm'].
    + destruct rest' as [|r1 rest'']; [reflexivity|]. apply orb_true_iff. right.
      assert (Br1 : In r1 (m :: rest)) by (apply B; right; left; reflexivity).
      (* two different moving leaves after the commit: the out-state has more than one *)
      destruct rest as [|r0 rest0].
      { exfalso. destruct Bm' as [<-|[]]. destruct Br1 as [<-|[]].
        apply (ids_nodup_head_tail m m (m :: rest'') NM); [left; reflexivity | reflexivity]. }
      apply orb_true_iff in S as [S|S]; [simpl in S; discriminate|].
      apply andb_true_iff in S as [R F]. rewrite forallb_forall in R, F.
      assert (RT : forall y, In y (m :: r0 :: rest0) -> root_of y = root_of m).
      { intros y [<-|Hy]; [reflexivity | apply id_eqb_eq; apply R; exact Hy]. }
      apply andb_true_iff. split.
      * apply forallb_forall. intros u Hu. apply id_eqb_eq.
        rewrite (RT u) by (apply B; right; exact Hu). symmetry. apply RT. exact Bm'.
      * apply forallb_forall. intros w' Hw'.
        destruct (is_leaf st' w' && id_eqb (root_of w') (root_of m')) eqn:P; [|reflexivity]. simpl.
        apply andb_true_iff in P as [Lw Rw]. apply id_eqb_eq in Rw.
        unfold st' in Hw', Lw. rewrite is_leaf_commit in Lw. apply commit_in in Hw' as [w [Hw Ew]].
        assert (Idw : u_id w' = u_id w) by (rewrite Ew; apply override_id).
        assert (Lw0 : is_leaf st w = true) by (rewrite <- (is_leaf_same_id st w' w Idw); exact Lw).
        assert (Rw0 : root_of w = root_of m).
        { rewrite <- (root_of_same_id w' w Idw), Rw. apply RT. exact Bm'. }
        specialize (F w Hw). rewrite Lw0 in F. rewrite Rw0, id_eqb_refl in F.
        change (in_ids (u_id w) (m :: r0 :: rest0) = true) in F.
        apply in_ids_spec in F as [u [Hu Eu]].
        destruct (MLprop u Hu) as [Uo [Ul Um]].
        pose proof (out_leaf_lookup st out u D Uo Ul) as Lk.
        assert (Ex : w' = u) by (rewrite Ew; unfold override; rewrite <- Eu, Lk; reflexivity).
        rewrite Ex. exact Um.
Qed.

(* ---------------------------------------------------------------------------------------- *)
(** ** The moving leaves after the commit are exactly the moving leaves of the out-state *)

Lemma handover_facts st out :
  ids_nodup (map u_id st) = true -> handover_ok st out = true ->
  exists m rest, out_moving_leaves st out = m :: rest /\
    (forall x, In x (moving_leaves (commit st out)) <-> In x (m :: rest)) /\
    (forall y, In y (m :: rest) -> same_vel y m = true).
Proof.
  intros N H. unfold handover_ok in H.
  apply andb_true_iff in H as [H H3]. apply andb_true_iff in H as [C D].
  destruct (out_moving_leaves st out) as [|m rest] eqn:ML; [discriminate|].
  apply andb_true_iff in H3 as [H3 S]. apply andb_true_iff in H3 as [I V].
  rewrite forallb_forall in I, V.
  exists m, rest. split; [reflexivity|]. split.
  - intro x. split.
    + intro Hx. rewrite <- ML. apply moving_leaves_commit_in; assumption.
    + intro Hx. apply out_moving_in_commit; [exact D | rewrite ML; exact Hx | apply I; exact Hx].
  - intros y [<-|Hy]; [|apply V; exact Hy]. apply same_vel_refl.
    assert (Hm : In m (out_moving_leaves st out)) by (rewrite ML; left; reflexivity).
    unfold out_moving_leaves in Hm. apply filter_In in Hm as [_ P]. unfold leaf_moving in P.
    apply andb_true_iff in P as [_ P]. exact P.
Qed.

(* ---------------------------------------------------------------------------------------- *)
(** ** Squared speed *)

Definition sumsq (l : list Q) : Q := fold_right (fun q acc => q * q + acc)%Q 0%Q l.

Lemma speed2_sumsq v : speed2 v = sumsq (map f2q v).
Proof. induction v as [|x v IH]; simpl; [reflexivity|]. rewrite IH. reflexivity. Qed.

Lemma sumsq_perm l l' : Permutation l l' -> (sumsq l == sumsq l')%Q.
Proof.
  induction 1; simpl.
  - reflexivity.
  - rewrite IHPermutation. reflexivity.
  - ring.
  - rewrite IHPermutation1. exact IHPermutation2.
Qed.

Lemma sumsq_abs l : (sumsq (map Qabs l) == sumsq l)%Q.
Proof.
  induction l as [|q l IH]; simpl; [reflexivity|]. rewrite IH.
  assert (E : (Qabs q * Qabs q == q * q)%Q).
  { rewrite <- Qabs_Qmult. apply Qabs_pos. destruct (Qlt_le_dec q 0) as [L|L].
    - setoid_replace (q * q)%Q with ((- q) * (- q))%Q by ring. apply Qmult_le_0_compat; lra.
    - apply Qmult_le_0_compat; assumption. }
  rewrite E. reflexivity.
Qed.

(** bit-identical velocity *)
Lemma speed2_bits va vb : vel_eqb va vb = true -> (speed2 va == speed2 vb)%Q.
Proof. intro H. apply vel_eqb_veq in H. rewrite (speed2_veq va vb H). reflexivity. Qed.

(** the components are permuted (end of chain with periodic direction: cyclic shift of the components) *)
Lemma speed2_perm va vb : Permutation (map f2q va) (map f2q vb) -> (speed2 va == speed2 vb)%Q.
Proof. intro H. rewrite !speed2_sumsq. apply sumsq_perm. exact H. Qed.

(** ... up to signs *)
Lemma speed2_abs_perm va vb :
  Permutation (map (fun x => Qabs (f2q x)) va) (map (fun x => Qabs (f2q x)) vb) -> (speed2 va == speed2 vb)%Q.
Proof.
  intro H. rewrite !speed2_sumsq. rewrite <- (sumsq_abs (map f2q va)), <- (sumsq_abs (map f2q vb)).
  rewrite !map_map. apply sumsq_perm. exact H.
Qed.

Lemma rot_perm {A} (l1 l2 : list A) : Permutation (l1 ++ l2) (l2 ++ l1).
Proof. apply Permutation_app_comm. Qed.

Theorem speed_from_handover_lemma st out m rest m0 rest0 va vb :
  ids_nodup (map u_id st) = true -> handover_ok st out = true ->
  out_moving_leaves st out = m :: rest -> u_vel m = Some va ->
  moving_leaves st = m0 :: rest0 -> u_vel m0 = Some vb ->
  (speed2 va == speed2 vb)%Q ->
  exists a b, chain_speed2 (commit st out) = Some a /\ chain_speed2 st = Some b /\ (a == b)%Q.
Proof.
  intros N H ML Va M0 Vb E.
  destruct (handover_facts st out N H) as [m1 [rest1 [ML1 [EQ SV]]]].
  rewrite ML in ML1. injection ML1 as <- <-.
  unfold chain_speed2 at 2. rewrite M0, Vb.
  unfold chain_speed2. destruct (moving_leaves (commit st out)) as [|m' rest'] eqn:E'.
  - exfalso. apply (proj2 (EQ m)). left. reflexivity.
  - assert (Hm' : In m' (m :: rest)) by (apply EQ; left; reflexivity).
    pose proof (SV m' Hm') as S. apply same_vel_spec in S as [x [y [E1 [E2 V]]]].
    rewrite E1. rewrite Va in E2. injection E2 as <-.
    exists (speed2 x), (speed2 vb). split; [reflexivity|]. split; [reflexivity|].
    rewrite (speed2_veq x va V). exact E.
Qed.

(* ---------------------------------------------------------------------------------------- *)
(** ** Whole runs *)

Theorem chain_from_handover_run_lemma : forall legs st started,
  ids_nodup (map u_id st) = true -> handover_run st started legs = true ->
  Forall (fun p => snd p = true -> chain_ok (fst p) = true) (commit_states st started legs).
Proof.
  induction legs as [|l r IH]; intros st started N H; simpl; [constructor|].
  simpl in H. apply andb_true_iff in H as [H1 H2]. constructor.
  - simpl. intro S. rewrite S in H1. simpl in H1. apply chain_from_handover_lemma; assumption.
  - apply IH; [rewrite commit_ids; exact N | exact H2].
Qed.

(** the states of [run_states_k] are the iterated commits *)
Lemma leg_ok_state Ls n s l s' : leg_ok Ls n s l = Some s' ->
  s_units s' = commit (s_units s) (k_out l) /\ s_started s' = s_started s || is_start (k_kind l).
Proof.
  unfold leg_ok. destruct (tvalue (k_time l)); [|discriminate].
  match goal with |- (if ?c then _ else _) = _ -> _ => destruct c end; [|discriminate].
  match goal with |- (if ?c then _ else _) = _ -> _ => destruct c end; [|discriminate].
  intro H. injection H as <-. simpl. split; reflexivity.
Qed.

Lemma run_states_commit : forall ls Ls n s ss, run_states_k Ls n s ls = Some ss ->
  map (fun s' => (s_units s', s_started s')) ss = commit_states (s_units s) (s_started s) ls.
Proof.
  induction ls as [|l r IH]; intros Ls n s ss H; simpl in H.
  - injection H as <-. reflexivity.
  - destruct (leg_ok Ls n s l) as [s1|] eqn:E; [|discriminate].
    destruct (run_states_k Ls (S n) s1 r) as [rr|] eqn:R; [|discriminate]. injection H as <-.
    destruct (leg_ok_state _ _ _ _ _ E) as [U S]. simpl. rewrite <- U, <- S. f_equal. apply (IH _ _ _ _ R).
Qed.

Theorem run_chain_from_handover_lemma Ls n s ls ss :
  ids_nodup (map u_id (s_units s)) = true ->
  run_states_k Ls n s ls = Some ss ->
  handover_run (s_units s) (s_started s) ls = true ->
  Forall (fun s' => s_started s' = true -> chain_ok (s_units s') = true) ss.
Proof.
  intros N R H. pose proof (chain_from_handover_run_lemma ls _ _ N H) as F.
  rewrite <- (run_states_commit ls Ls n s ss R) in F.
  apply Forall_forall. intros s' Hs'. rewrite Forall_forall in F.
  apply (F (s_units s', s_started s')). apply in_map_iff. exists s'. split; [reflexivity | exact Hs'].
Qed.
