(** * Proofs/ReachProofs.v — the fuelled breadth-first closure contains every reachable state. *)
From Coq Require Import List Bool Lia.
Require Import JF.Model.Reach.
Import ListNotations.

Section ClosureProofs.
  Variable S : Type.
  Variable eqb : S -> S -> bool.
  Variable succ : S -> list S.
  Hypothesis eqb_spec : forall x y, eqb x y = true <-> x = y.

  Lemma memG_In a l : memG eqb a l = true <-> In a l.
  Proof.
    unfold memG. rewrite existsb_exists. split.
    - intros [x [Hx He]]. apply eqb_spec in He. subst. exact Hx.
    - intros H. exists a. split; [exact H|]. apply eqb_spec. reflexivity.
  Qed.

  (* the fold only appends, and every element of [next] ends up in [seen ++ result] *)
  Lemma fold_add_spec seen next : forall acc,
    let R := fold_left (fun acc b => if memG eqb b (seen ++ acc) then acc else acc ++ [b]) next acc in
    incl acc R /\ (forall b, In b next -> In b (seen ++ R)).
  Proof.
    induction next as [|b next IH]; intros acc; cbn [fold_left].
    - split; [apply incl_refl|]. intros b [].
    - destruct (memG eqb b (seen ++ acc)) eqn:Hm.
      + destruct (IH acc) as [I1 I2]. split; [exact I1|].
        intros c [->|Hc]; [|apply I2; exact Hc].
        apply memG_In in Hm. apply in_app_or in Hm. apply in_or_app.
        destruct Hm as [Hm|Hm]; [left; exact Hm|right; apply I1; exact Hm].
      + destruct (IH (acc ++ [b])) as [I1 I2]. split.
        * intros x Hx. apply I1. apply in_or_app. left. exact Hx.
        * intros c [->|Hc]; [|apply I2; exact Hc].
          apply in_or_app. right. apply I1. apply in_or_app. right. left. reflexivity.
  Qed.

  Lemma add_new_spec seen next : forall b, In b next -> In b (seen ++ add_new eqb seen next).
  Proof. intros b Hb. unfold add_new. apply (proj2 (fold_add_spec seen next [])). exact Hb. Qed.

  (** invariant: the frontier is part of [seen], and every state of [seen] outside the frontier has
      all its successors in [seen] *)
  Definition inv (seen frontier : list S) : Prop :=
    incl frontier seen /\
    (forall a, In a seen -> ~ In a frontier -> forall b, In b (succ a) -> In b seen).

  Lemma inv_step seen a rest :
    inv seen (a :: rest) ->
    inv (seen ++ add_new eqb seen (succ a)) (rest ++ add_new eqb seen (succ a)).
  Proof.
    intros [I1 I2]. split.
    - intros x Hx. apply in_app_or in Hx. apply in_or_app. destruct Hx as [Hx|Hx].
      + left. apply I1. right. exact Hx.
      + right. exact Hx.
    - intros x Hx Hnf b Hb. apply in_app_or in Hx. destruct Hx as [Hx|Hx].
      + assert (Hdec : x = a \/ x <> a).
        { destruct (eqb x a) eqn:E; [left; apply eqb_spec; exact E|right; intros ->].
          assert (eqb a a = true) by (apply eqb_spec; reflexivity). congruence. }
        destruct Hdec as [->|Hne].
        * apply add_new_spec. exact Hb.
        * apply in_or_app. left. apply (I2 x Hx); [|exact Hb].
          intros [He|Hr]; [apply Hne; symmetry; exact He|].
          apply Hnf. apply in_or_app. left. exact Hr.
      + exfalso. apply Hnf. apply in_or_app. right. exact Hx.
  Qed.

  Lemma closure_closed fuel : forall seen frontier r,
    closureG eqb succ fuel seen frontier = Some r -> inv seen frontier ->
    incl seen r /\ (forall a, In a r -> forall b, In b (succ a) -> In b r).
  Proof.
    induction fuel as [|f IH]; intros seen frontier r H Hinv; cbn [closureG] in H.
    - destruct frontier; [|discriminate]. injection H as <-. split; [apply incl_refl|].
      intros a Ha b Hb. apply (proj2 Hinv a Ha); [intros []|exact Hb].
    - destruct frontier as [|a rest].
      + injection H as <-. split; [apply incl_refl|].
        intros a Ha b Hb. apply (proj2 Hinv a Ha); [intros []|exact Hb].
      + destruct (IH _ _ _ H (inv_step _ _ _ Hinv)) as [J1 J2]. split; [|exact J2].
        intros x Hx. apply J1. apply in_or_app. left. exact Hx.
  Qed.

  Inductive reach (s0 : S) : S -> Prop :=
  | reach0 : reach s0 s0
  | reachS a b : reach s0 a -> In b (succ a) -> reach s0 b.

  Theorem closure_sound fuel s0 r :
    closureG eqb succ fuel [s0] [s0] = Some r -> forall a, reach s0 a -> In a r.
  Proof.
    intros H. assert (Hinv : inv [s0] [s0]).
    { split; [apply incl_refl|]. intros a Ha Hn. contradiction. }
    destruct (closure_closed fuel _ _ _ H Hinv) as [J1 J2].
    intros a Hr. induction Hr as [|a b Hr IH Hb].
    - apply J1. left. reflexivity.
    - apply (J2 a IH b Hb).
  Qed.
End ClosureProofs.
