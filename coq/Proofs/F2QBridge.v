(** * Proofs/F2QBridge.v — the rational value [f2q] used by the validators (Model/Kinematics.v)
    is the real value [B2R] of the float. *)
From Coq Require Import ZArith QArith Qreals Reals Lia Lra.
From Flocq Require Import Core.Core IEEE754.BinarySingleNaN.
Require Import JF.Base.F64 JF.Model.Kinematics.
Local Open Scope R_scope.

Lemma Q2R_inject_Z : forall z : Z, Q2R (inject_Z z) = IZR z.
Proof. intros z. unfold Q2R, inject_Z. simpl. field. Qed.

Lemma Q2R_pow2Q : forall e : Z, Q2R (pow2Q e) = bpow radix2 e.
Proof.
  intros [|p|p]; unfold pow2Q.
  - unfold Q2R. simpl. field.
  - rewrite Q2R_inject_Z. apply (IZR_Zpower radix2). lia.
  - unfold Q2R. simpl Qnum. simpl Qden. simpl bpow.
    rewrite Pos2Z.inj_pow. rewrite Z.pow_pos_fold. field.
    apply IZR_neq. apply Z.pow_nonzero; lia.
Qed.

Lemma f2q_B2R : forall x : f64, Q2R (f2q x) = B2R x.
Proof.
  intros [s|s| |s m e H]; simpl f2q; simpl B2R; try (unfold Q2R; simpl; lra).
  rewrite Q2R_mult, Q2R_inject_Z, Q2R_pow2Q. unfold F2R. simpl Fnum. simpl Fexp.
  destruct s; reflexivity.
Qed.
