(** * Proofs/BalanceProofs.v — proofs about Model/Balance.v (C01). *)
From Coq Require Import Reals Lra.
Ltac rlra := lra.
From Coq Require Import QArith Lqa List Lia.
Require Import JF.Base.QInterval JF.Model.Lifting JF.Proofs.LiftingProofs JF.Model.Balance.
Import ListNotations.

(* ------------------------------------------------------------------------------------------- *)
Section RealProofs.
  Local Open Scope R_scope.

  Lemma budget_gt_iff : forall beta e u,
      0 < beta -> 0 <= u < 1 -> (e < budget beta u <-> 1 - survival beta e < u).
  Proof.
    intros beta e u Hb [Hu0 Hu1]. unfold budget, survival.
    assert (Hpos : 0 < 1 - u) by rlra.
    assert (Hdiv : - ln (1 - u) / beta * beta = - ln (1 - u)) by (field; rlra).
    split; intro Hlt.
    - assert (H1 : beta * e < - ln (1 - u)).
      { rewrite <- Hdiv. rewrite (Rmult_comm beta e). apply Rmult_lt_compat_r; auto. }
      assert (H2 : ln (1 - u) < - beta * e) by rlra.
      apply exp_increasing in H2. rewrite exp_ln in H2 by auto. rlra.
    - assert (H1 : 1 - u < exp (- beta * e)) by rlra.
      assert (H2 : ln (1 - u) < - beta * e).
      { rewrite <- (ln_exp (- beta * e)). apply ln_increasing; auto. }
      assert (H3 : e * beta < - ln (1 - u) / beta * beta) by (rewrite Hdiv; rlra).
      apply Rmult_lt_reg_r in H3; auto.
  Qed.

  Lemma survival_range : forall beta e, 0 < beta -> 0 <= e -> 0 < survival beta e <= 1.
  Proof.
    intros beta e Hb He. unfold survival. split; [apply exp_pos|].
    rewrite <- exp_0. destruct (Req_dec (- beta * e) 0) as [E | E]; [rewrite E; rlra|].
    left. apply exp_increasing. assert (0 <= beta * e) by (apply Rmult_le_pos; rlra). rlra.
  Qed.

  Theorem survival_law_thm : forall (beta : R) (Ep : R -> R) (d : R),
      0 < beta -> 0 <= Ep d ->
      (forall u, 0 <= u < 1 -> (Ep d < budget beta u <-> 1 - survival beta (Ep d) < u < 1)) /\
      0 <= 1 - survival beta (Ep d) < 1 /\
      1 - (1 - survival beta (Ep d)) = exp (- beta * Ep d).
  Proof.
    intros beta Ep d Hb He. split; [|split].
    - intros u Hu. rewrite (budget_gt_iff beta (Ep d) u Hb Hu). rlra.
    - pose proof (survival_range beta (Ep d) Hb He). rlra.
    - unfold survival. rlra.
  Qed.

  (** the same through the event distance of a factor *)
  Theorem survival_law_disp_thm : forall (beta : R) (f : factor) (d : R),
      0 < beta -> galois f -> 0 <= Eplus f d ->
      forall u, 0 <= u < 1 -> (d < disp f (budget beta u) <-> 1 - survival beta (Eplus f d) < u < 1).
  Proof.
    intros beta f d Hb Hg He u Hu. rewrite (Hg (budget beta u) d).
    apply (survival_law_thm beta (Eplus f) d Hb He); auto.
  Qed.

  Lemma lmin_gt : forall d c cs, d < fold_right Rmin c cs <-> d < c /\ Forall (Rlt d) cs.
  Proof.
    intros d c cs. induction cs as [|x r IH]; simpl.
    - split; [intros; split; auto | tauto].
    - split.
      + intros Hm. assert (d < x /\ d < fold_right Rmin c r).
        { split; [eapply Rlt_le_trans; [exact Hm | apply Rmin_l] | eapply Rlt_le_trans; [exact Hm | apply Rmin_r]]. }
        destruct H as (Hx & Hr). apply IH in Hr. destruct Hr. split; auto.
      + intros (Hc & Hf). inversion Hf; subst. apply Rmin_glb_lt; auto. apply IH. auto.
  Qed.

  Lemma rprod_survival : forall beta es, rprod (map (survival beta) es) = survival beta (rsum es).
  Proof.
    intros beta es. unfold survival. induction es as [|e r IH]; simpl.
    - rewrite Rmult_0_r. symmetry. apply exp_0.
    - rewrite IH. rewrite <- exp_plus. f_equal. rlra.
  Qed.

  Theorem superposition_thm : forall (beta d : R) (fs : list factor) (us : list R),
      0 < beta -> length us = length fs -> Forall galois fs -> Forall (fun u => 0 <= u < 1) us ->
      Forall (fun f => 0 <= Eplus f d) fs ->
      (earliest_exceeds d (candidates beta fs us) <-> in_box beta d fs us) /\
      rprod (map (fun f => 1 - (1 - survival beta (Eplus f d))) fs) =
      exp (- beta * rsum (map (fun f => Eplus f d) fs)).
  Proof.
    intros beta d fs us Hb Hlen Hg Hu He. split.
    - revert us Hlen Hu Hg He. induction fs as [|f fs IH]; intros [|u us] Hlen Hu Hg He; simpl in *; try discriminate.
      + unfold earliest_exceeds. split; auto.
      + inversion Hg as [|? ? Gf Gfs]; subst. inversion Hu as [|? ? Uu Uus]; subst.
        inversion He as [|? ? Ef Efs]; subst.
        assert (Hlen' : length us = length fs) by (injection Hlen; auto).
        unfold earliest_exceeds in *. split.
        * intros Hf. inversion Hf as [|? ? Cx Cr]; subst.
          apply (survival_law_disp_thm beta f d Hb Gf Ef u Uu) in Cx.
          destruct Cx. repeat split; auto. apply IH; auto.
        * intros (A & B & C). constructor.
          -- apply (survival_law_disp_thm beta f d Hb Gf Ef u Uu). auto.
          -- apply IH; auto.
    - replace (map (fun f => 1 - (1 - survival beta (Eplus f d))) fs)
        with (map (survival beta) (map (fun f => Eplus f d) fs)).
      + apply rprod_survival.
      + rewrite map_map. apply map_ext. intros. rlra.
  Qed.
End RealProofs.

(* ------------------------------------------------------------------------------------------- *)
Section JumpProofs.
  Local Open Scope Q_scope.

  Lemma negs_app : forall a b, negs (a ++ b) = negs a ++ negs b.
  Proof.
    induction a as [|e a IH]; intros b; simpl; auto.
    destruct (Qlt_bool 0 (fst e)); rewrite IH; auto.
  Qed.

  Lemma split_at : forall (t : utable) j, (j < length t)%nat ->
      t = firstn j t ++ nth j t (0, 0%Z) :: skipn (S j) t.
  Proof.
    induction t as [|e t IH]; intros j Hj; simpl in *; [lia|].
    destruct j; simpl; auto. f_equal. apply IH. lia.
  Qed.

  Lemma rate_at_nth : forall t j, rate_at j t = fst (nth j t (0, 0%Z)).
  Proof.
    intros t j. unfold rate_at, rates. change 0 with (fst (0, 0%Z)) at 1. apply map_nth.
  Qed.

  Lemma neg_index_spec : forall t j,
      (j < length t)%nat -> Qlt_bool 0 (rate_at j t) = false ->
      (neg_index t j < length (negs t))%nat /\ nth (neg_index t j) (negs t) 0 = - rate_at j t.
  Proof.
    intros t j Hj Hr. unfold neg_index.
    rewrite (split_at t j Hj) at 2 4. rewrite negs_app. simpl.
    rewrite rate_at_nth in Hr. rewrite Hr. rewrite app_length. simpl. split; [lia|].
    rewrite app_nth2 by lia. rewrite Nat.sub_diag. simpl. rewrite rate_at_nth. reflexivity.
  Qed.

  (** JUMP BALANCE, one factor: corollary of C05's flow balance ([flow_balance_main]). *)
  Theorem jump_balance_thm : forall (s : scheme) (t : utable) (j : nat),
      balanced t -> (j < length t)%nat -> jump_term s t j == 0.
  Proof.
    intros s t j Hb Hj. unfold jump_term, inflow.
    destruct (Qlt_bool 0 (rate_at j t)) eqn:E.
    - unfold weight. rewrite E. lra.
    - destruct (neg_index_spec t j Hj E) as (Hk & Hn).
      rewrite (flow_balance_main s t (neg_index t j) Hb Hk). rewrite Hn.
      unfold weight. rewrite E. lra.
  Qed.

  (** inflow_k = max 0 (-g_k) *)
  Theorem inflow_is_negative_part_thm : forall (s : scheme) (t : utable) (j : nat),
      balanced t -> (j < length t)%nat -> inflow s t j == weight (- rate_at j t).
  Proof.
    intros s t j Hb Hj. pose proof (jump_balance_thm s t j Hb Hj) as H. unfold jump_term in H.
    unfold weight in *. destruct (Qlt_bool 0 (rate_at j t)) eqn:E.
    - apply Qlt_bool_iff in E. assert (E2 : Qlt_bool 0 (- rate_at j t) = false) by (apply Qlt_bool_false; lra).
      rewrite E2. lra.
    - apply Qlt_bool_false in E.
      destruct (Qlt_bool 0 (- rate_at j t)) eqn:E2.
      + lra.
      + apply Qlt_bool_false in E2. lra.
  Qed.

  (** all factors: the jump terms of any finite family of factors (each with its own scheme, table and
      position of the unit in the table) sum to zero. *)
  Theorem jump_balance_factors_thm : forall (fs : list (scheme * utable * nat)),
      Forall (fun f => balanced (snd (fst f)) /\ (snd f < length (snd (fst f)))%nat) fs ->
      qsum (map (fun f => jump_term (fst (fst f)) (snd (fst f)) (snd f)) fs) == 0.
  Proof.
    induction fs as [|[[s t] j] fs IH]; intros Hf; simpl; [lra|].
    inversion Hf; subst. simpl in *. destruct H1 as (Hb & Hj).
    rewrite (jump_balance_thm s t j Hb Hj). rewrite IH; auto. lra.
  Qed.

  (** pair factor: the velocity is handed over with probability 1, for every scheme. *)
  Theorem pair_factor_thm : forall (s : scheme) (g : Q) (i1 i2 : Z),
      0 < g ->
      balanced (pair_table g i1 i2) /\
      len (sel_int s (pair_table g i1 i2) 0 0) == 1 /\
      jump_term s (pair_table g i1 i2) 0 == 0 /\ jump_term s (pair_table g i1 i2) 1 == 0 /\
      (forall u1 u2, draw_range s u1 u2 -> l_run s u1 u2 (activate 0 (pair_table g i1 i2)) = LOk 0 i2).
  Proof.
    intros s g i1 i2 Hg.
    assert (Hb : balanced (pair_table g i1 i2)).
    { unfold balanced, pair_table, rates. simpl. lra. }
    assert (Hgt : Qlt_bool 0 g = true) by (apply Qlt_bool_iff; auto).
    assert (Hgn : Qlt_bool 0 (- g) = false) by (apply Qlt_bool_false; lra).
    assert (Hnegs : negs (pair_table g i1 i2) = [- - g]).
    { unfold pair_table. simpl. rewrite Hgt, Hgn. reflexivity. }
    split; [exact Hb|]. split; [|split; [|split]].
    - assert (Hk : (0 < length (negs (pair_table g i1 i2)))%nat) by (rewrite Hnegs; simpl; lia).
      pose proof (flow_balance_main s _ 0%nat Hb Hk) as Hf.
      rewrite Hnegs in Hf. unfold flow in Hf. simpl in Hf.
      unfold rate_at, rates, pair_table in Hf. simpl in Hf.
      unfold weight in Hf. rewrite Hgt, Hgn in Hf.
      fold (pair_table g i1 i2) in Hf.
      set (x := len (sel_int s (pair_table g i1 i2) 0 0)) in *.
      assert (Hx : g * x == g) by lra.
      assert (Hx2 : g * (x - 1) == 0) by lra.
      apply Qmult_integral in Hx2. destruct Hx2; lra.
    - apply jump_balance_thm; [exact Hb | simpl; lia].
    - apply jump_balance_thm; [exact Hb | simpl; lia].
    - intros u1 u2 Hr.
      assert (Ha : (0 < length (pair_table g i1 i2))%nat) by (simpl; lia).
      assert (Hq : 0 < rate_at 0 (pair_table g i1 i2)) by (unfold rate_at, rates, pair_table; simpl; auto).
      destruct (selected_rate_negative s u1 u2 (pair_table g i1 i2) 0%nat Ha Hq Hb Hr) as (k & Hk & Hrun & _).
      rewrite Hnegs in Hk. simpl in Hk. assert (k = 0%nat) by lia. subst k.
      rewrite Hrun. unfold pair_table. simpl. rewrite Hgt, Hgn. reflexivity.
  Qed.
End JumpProofs.
