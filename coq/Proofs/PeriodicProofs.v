(** * Proofs/PeriodicProofs.v — proofs about Model/Periodic.v (property C15). *)
From Coq Require Import ZArith Bool List Reals Lia Lra Psatz.
From Flocq Require Import Core.Core IEEE754.BinarySingleNaN.
Require Import JF.Base.F64 JF.Base.PyFloat JF.Model.Periodic JF.Proofs.F64Facts.
Import ListNotations.
Local Open Scope R_scope.

Lemma ulp64_le : forall x y, Rabs x <= Rabs y -> ulp64 x <= ulp64 y.
Proof. intros; apply ulp_le; auto with typeclass_instances. Qed.

Lemma IZR_between_0 : forall (k : Z) (w L : R), 0 < L -> 0 <= w < L -> 0 <= w - IZR k * L < L -> k = 0%Z.
Proof.
  intros k w L PL [W1 W2] [H1 H2].
  assert (A : IZR k < 1) by nra.
  assert (B : -1 < IZR k) by nra.
  apply (lt_IZR k 1) in A. apply (lt_IZR (-1) k) in B. lia.
Qed.

(** ** correct_position_entry *)

(** Full specification of [wrap] for a finite entry and a finite positive system length. *)
Lemma wrap_spec : forall x L : f64,
  ffinite x = true -> ffinite L = true -> 0 < B2R L ->
  exists (w : f64) (k : Z),
    wrap x L = Some w /\ ffinite w = true /\ fsign w = false /\
    0 <= B2R w < B2R L /\
    Rabs (B2R w - (B2R x - IZR k * B2R L)) <= / 2 * ulp64 (B2R L) /\
    (0 <= B2R x -> B2R w = B2R x - IZR k * B2R L).
Proof.
  intros x L Fx FL PL.
  destruct (py_mod_pos x L Fx FL PL) as (m & k & E & Fm & Sm & Rv & Vm & Ex).
  set (v := B2R x - IZR k * B2R L) in *.
  assert (Bm : 0 <= B2R m <= B2R L).
  { rewrite Vm. change 0 with (B2R fzero). apply RN_between. simpl. lra. }
  assert (Err : Rabs (B2R m - v) <= / 2 * ulp64 (B2R L)).
  { rewrite Vm. apply Rle_trans with (1 := RN_err v).
    apply Rmult_le_compat_l; [lra|]. apply ulp64_le. rewrite !Rabs_pos_eq by lra. lra. }
  unfold wrap. rewrite E. rewrite feq_spec by assumption.
  destruct (Req_bool_spec (B2R m) (B2R L)) as [EQ|NE].
  - (* the float modulo rounded to L itself: mapped to 0.0 *)
    exists fzero, (k + 1)%Z.
    split; [reflexivity|]. split; [reflexivity|]. split; [reflexivity|].
    split; [simpl; lra|]. split.
    + rewrite plus_IZR. simpl (B2R fzero).
      replace (0 - (B2R x - (IZR k + 1) * B2R L)) with (B2R L - v) by (unfold v; ring).
      rewrite <- EQ at 1. exact Err.
    + intros Px. exfalso. rewrite (RN_id _ (Ex Px)) in Vm. lra.
  - exists m, k.
    split; [reflexivity|]. split; [exact Fm|]. split; [exact Sm|].
    split; [lra|]. split; [exact Err|].
    intros Px. rewrite Vm. apply RN_id, Ex, Px.
Qed.

Lemma wrap_range : forall x L w : f64,
  ffinite x = true -> ffinite L = true -> 0 < B2R L ->
  wrap x L = Some w -> ffinite w = true /\ 0 <= B2R w < B2R L.
Proof.
  intros x L w Fx FL PL E.
  destruct (wrap_spec x L Fx FL PL) as (w' & k & E' & Fw & _ & R & _).
  rewrite E in E'. injection E' as ->. split; assumption.
Qed.

Lemma wrap_defined : forall x L : f64,
  ffinite x = true -> ffinite L = true -> 0 < B2R L -> exists w, wrap x L = Some w.
Proof.
  intros x L Fx FL PL. destruct (wrap_spec x L Fx FL PL) as (w & k & E & _). exists w; exact E.
Qed.

Lemma wrap_congruent : forall x L w : f64,
  ffinite x = true -> ffinite L = true -> 0 < B2R L -> wrap x L = Some w ->
  exists k : Z,
    Rabs (B2R w - (B2R x - IZR k * B2R L)) <= / 2 * ulp64 (B2R L) /\
    (0 <= B2R x -> B2R w = B2R x - IZR k * B2R L).
Proof.
  intros x L w Fx FL PL E.
  destruct (wrap_spec x L Fx FL PL) as (w' & k & E' & _ & _ & _ & C & X).
  rewrite E in E'. injection E' as ->. exists k. split; assumption.
Qed.

(** The representative is unique: an integer multiple of L added to a point of [0, L) leaves
    [0, L) unless the multiple is zero. *)
Lemma representative_unique : forall (L a b : R) (k : Z),
  0 < L -> 0 <= a < L -> 0 <= b < L -> a = b - IZR k * L -> a = b.
Proof.
  intros L a b k PL Ra Rb E.
  assert (k = 0%Z) by (apply (IZR_between_0 k b L PL Rb); lra).
  subst k. simpl in E. lra.
Qed.

Lemma wrap_fixpoint : forall w L : f64,
  ffinite w = true -> ffinite L = true -> fsign w = false -> 0 <= B2R w < B2R L ->
  wrap w L = Some w.
Proof.
  intros w L Fw FL Sw Rw.
  assert (PL : 0 < B2R L) by lra.
  destruct (wrap_spec w L Fw FL PL) as (w' & k & E & Fw' & Sw' & Rw' & _ & X).
  rewrite E. f_equal.
  specialize (X (proj1 Rw)).
  apply f64_eq; try assumption; [|congruence].
  apply (representative_unique (B2R L) _ _ k PL Rw' Rw X).
Qed.

Lemma wrap_idempotent : forall x L w : f64,
  ffinite x = true -> ffinite L = true -> 0 < B2R L ->
  wrap x L = Some w -> wrap w L = Some w.
Proof.
  intros x L w Fx FL PL E.
  destruct (wrap_spec x L Fx FL PL) as (w' & k & E' & Fw & Sw & Rw & _).
  rewrite E in E'. injection E' as ->.
  apply wrap_fixpoint; assumption.
Qed.

(** Documentation of the repaired finding F1: the raw float modulo can return L. *)
Definition f_m1em17 : f64 := of_bits 0xBC670EF54646D497.   (* -1e-17 *)

Lemma wrap_raw_hits_L :
  exists x L : f64, ffinite x = true /\ ffinite L = true /\ 0 < B2R L /\
    exists m, wrap_raw x L = Some m /\ feqb_bits m L = true /\
    wrap x L = Some fzero.
Proof.
  exists f_m1em17, fone. split; [vm_compute; reflexivity|]. split; [apply fone_finite|].
  split; [rewrite fone_R; lra|].
  assert (exists m, wrap_raw f_m1em17 fone = Some m) as [m Em].
  { destruct (wrap_raw f_m1em17 fone) eqn:E; [eexists; reflexivity|vm_compute in E; discriminate]. }
  exists m. split; [exact Em|]. split.
  - assert (H : match wrap_raw f_m1em17 fone with Some m => feqb_bits m fone | None => false end = true)
      by (vm_compute; reflexivity).
    rewrite Em in H. exact H.
  - assert (H : match wrap f_m1em17 fone with Some m => feqb_bits m fzero | None => false end = true)
      by (vm_compute; reflexivity).
    destruct (wrap f_m1em17 fone) as [w|] eqn:Ew; [|discriminate].
    f_equal. unfold feqb_bits in H. apply sf_eqb_eq in H.
    apply (B2SF_inj 53 1024). exact H.
Qed.
