(** * Proofs/PeriodicProofs.v — proofs about Model/Periodic.v (property C15). *)
From Coq Require Import ZArith Bool List Reals Lia Lra Psatz.
From Flocq Require Import Core.Core IEEE754.BinarySingleNaN.
Require Import JF.Base.F64 JF.Base.PyFloat JF.Model.Periodic JF.Proofs.F64Facts.
Import ListNotations.
Local Open Scope R_scope.

Lemma ulp64_le : forall x y, Rabs x <= Rabs y -> ulp64 x <= ulp64 y.
Proof. intros; apply ulp_le; auto with typeclass_instances. Qed.

Lemma IZR_between_0 : forall (k : Z) (w L : R), 0 < L -> 0 <= w < L -> 0 <= w - IZR k * L < L -> k = 0%Z.
Proof.
  intros k w L PL [W1 W2] [H1 H2].
  assert (A : IZR k < 1) by nra.
  assert (B : -1 < IZR k) by nra.
  apply (lt_IZR k 1) in A. apply (lt_IZR (-1) k) in B. lia.
Qed.

(** ** correct_position_entry *)

(** Full specification of [wrap] for a finite entry and a finite positive system length. *)
Lemma wrap_spec : forall x L : f64,
  ffinite x = true -> ffinite L = true -> 0 < B2R L ->
  exists (w : f64) (k : Z),
    wrap x L = Some w /\ ffinite w = true /\ fsign w = false /\
    0 <= B2R w < B2R L /\
    Rabs (B2R w - (B2R x - IZR k * B2R L)) <= / 2 * ulp64 (B2R L) /\
    (0 <= B2R x -> B2R w = B2R x - IZR k * B2R L).
Proof.
  intros x L Fx FL PL.
  destruct (py_mod_pos x L Fx FL PL) as (m & k & E & Fm & Sm & Rv & Vm & Ex).
  set (v := B2R x - IZR k * B2R L) in *.
  assert (Bm : 0 <= B2R m <= B2R L).
  { rewrite Vm. change 0 with (B2R fzero). apply RN_between. simpl. lra. }
  assert (Err : Rabs (B2R m - v) <= / 2 * ulp64 (B2R L)).
  { rewrite Vm. apply Rle_trans with (1 := RN_err v).
    apply Rmult_le_compat_l; [lra|]. apply ulp64_le. rewrite !Rabs_pos_eq by lra. lra. }
  unfold wrap. rewrite E. rewrite feq_spec by assumption.
  destruct (Req_bool_spec (B2R m) (B2R L)) as [EQ|NE].
  - (* the float modulo rounded to L itself: mapped to 0.0 *)
    exists fzero, (k + 1)%Z.
    split; [reflexivity|]. split; [reflexivity|]. split; [reflexivity|].
    split; [simpl; lra|]. split.
    + rewrite plus_IZR. simpl (B2R fzero).
      replace (0 - (B2R x - (IZR k + 1) * B2R L)) with (B2R L - v) by (unfold v; ring).
      rewrite <- EQ at 1. exact Err.
    + intros Px. exfalso. rewrite (RN_id _ (Ex Px)) in Vm. lra.
  - exists m, k.
    split; [reflexivity|]. split; [exact Fm|]. split; [exact Sm|].
    split; [lra|]. split; [exact Err|].
    intros Px. rewrite Vm. apply RN_id, Ex, Px.
Qed.

Lemma wrap_range : forall x L w : f64,
  ffinite x = true -> ffinite L = true -> 0 < B2R L ->
  wrap x L = Some w -> ffinite w = true /\ 0 <= B2R w < B2R L.
Proof.
  intros x L w Fx FL PL E.
  destruct (wrap_spec x L Fx FL PL) as (w' & k & E' & Fw & _ & R & _).
  rewrite E in E'. injection E' as ->. split; assumption.
Qed.

Lemma wrap_defined : forall x L : f64,
  ffinite x = true -> ffinite L = true -> 0 < B2R L -> exists w, wrap x L = Some w.
Proof.
  intros x L Fx FL PL. destruct (wrap_spec x L Fx FL PL) as (w & k & E & _). exists w; exact E.
Qed.

Lemma wrap_congruent : forall x L w : f64,
  ffinite x = true -> ffinite L = true -> 0 < B2R L -> wrap x L = Some w ->
  exists k : Z,
    Rabs (B2R w - (B2R x - IZR k * B2R L)) <= / 2 * ulp64 (B2R L) /\
    (0 <= B2R x -> B2R w = B2R x - IZR k * B2R L).
Proof.
  intros x L w Fx FL PL E.
  destruct (wrap_spec x L Fx FL PL) as (w' & k & E' & _ & _ & _ & C & X).
  rewrite E in E'. injection E' as ->. exists k. split; assumption.
Qed.

(** The representative is unique: an integer multiple of L added to a point of [0, L) leaves
    [0, L) unless the multiple is zero. *)
Lemma representative_unique : forall (L a b : R) (k : Z),
  0 < L -> 0 <= a < L -> 0 <= b < L -> a = b - IZR k * L -> a = b.
Proof.
  intros L a b k PL Ra Rb E.
  assert (k = 0%Z) by (apply (IZR_between_0 k b L PL Rb); lra).
  subst k. simpl in E. lra.
Qed.

Lemma wrap_fixpoint : forall w L : f64,
  ffinite w = true -> ffinite L = true -> fsign w = false -> 0 <= B2R w < B2R L ->
  wrap w L = Some w.
Proof.
  intros w L Fw FL Sw Rw.
  assert (PL : 0 < B2R L) by lra.
  destruct (wrap_spec w L Fw FL PL) as (w' & k & E & Fw' & Sw' & Rw' & _ & X).
  rewrite E. f_equal.
  specialize (X (proj1 Rw)).
  apply f64_eq; try assumption; [|congruence].
  apply (representative_unique (B2R L) _ _ k PL Rw' Rw X).
Qed.

Lemma wrap_idempotent : forall x L w : f64,
  ffinite x = true -> ffinite L = true -> 0 < B2R L ->
  wrap x L = Some w -> wrap w L = Some w.
Proof.
  intros x L w Fx FL PL E.
  destruct (wrap_spec x L Fx FL PL) as (w' & k & E' & Fw & Sw & Rw & _).
  rewrite E in E'. injection E' as ->.
  apply wrap_fixpoint; assumption.
Qed.

(** Documentation of the repaired finding F1: the raw float modulo can return L. *)
Definition f_m1em17 : f64 := of_bits 0xBC670EF54646D497.   (* -1e-17 *)

Lemma wrap_raw_hits_L :
  exists x L : f64, ffinite x = true /\ ffinite L = true /\ 0 < B2R L /\
    match wrap_raw x L with Some m => feqb_bits m L | None => false end = true /\
    match wrap x L with Some w => feqb_bits w fzero | None => false end = true.
Proof.
  exists f_m1em17, fone. split; [vm_compute; reflexivity|]. split; [apply fone_finite|].
  split; [rewrite fone_R; lra|]. split; vm_compute; reflexivity.
Qed.

(** ** correct_separation_entry *)
Lemma ftwo_R : B2R ftwo = 2.
Proof. unfold ftwo. simpl. unfold F2R; simpl. lra. Qed.

Lemma half_spec : forall L : f64, ffinite L = true ->
  B2R (half L) = RN (B2R L / 2) /\ ffinite (half L) = true.
Proof.
  intros L FL. unfold half.
  assert (N2 : B2R ftwo <> 0) by (rewrite ftwo_R; lra).
  destruct (fdiv_spec L ftwo FL N2) as [V F].
  - rewrite ftwo_R. apply (RN_no_overflow_le L).
    unfold Rdiv. rewrite Rabs_mult. rewrite (Rabs_pos_eq (/ 2)) by lra.
    generalize (Rabs_pos (B2R L)). lra.
  - rewrite ftwo_R in V. split; assumption.
Qed.

(** Halving is exact for every system length of at least 2^-1021 (no bit is lost to underflow). *)
Lemma half_exact : forall L : f64, ffinite L = true -> bpow radix2 (-1021) <= B2R L ->
  B2R (half L) = B2R L / 2.
Proof.
  intros L FL HL. destruct (half_spec L FL) as [V _]. rewrite V. apply RN_id.
  destruct L as [s|s| |s m e H]; try discriminate.
  - exfalso. simpl in HL. generalize (bpow_gt_0 radix2 (-1021)). lra.
  - destruct (bounded_inv _ _ H) as [Bm Be].
    assert (E1 : (-1073 <= e)%Z).
    { destruct (Z_le_dec (-1073) e) as [Y|N]; [exact Y|exfalso].
      assert (e = (-1074)%Z) by lia. subst e.
      assert (A : Rabs (F2R (Float radix2 (cond_Zopp s (Z.pos m)) (-1074))) < bpow radix2 (-1021)).
      { apply F2R_lt_bpow. simpl Fnum. simpl Fexp. rewrite abs_cond_Zopp.
        change (radix2 ^ (-1021 - -1074))%Z with (2 ^ 53)%Z. simpl Z.abs. exact Bm. }
      unfold B2R in HL. apply Rabs_lt_inv in A. lra. }
    apply generic_format_FLT. exists (Float radix2 (cond_Zopp s (Z.pos m)) (e - 1)).
    + simpl B2R. unfold F2R. simpl Fnum. simpl Fexp.
      unfold Zminus. rewrite bpow_plus. change (bpow radix2 (- (1))) with (/ 2). field.
    + simpl Fnum. rewrite abs_cond_Zopp. simpl Z.abs. exact Bm.
    + simpl Fexp. lia.
Qed.

Lemma sep_spec : forall s L : f64,
  ffinite s = true -> ffinite L = true -> 0 < B2R L ->
  B2R (half L) = B2R L / 2 ->
  Rabs (B2R s) + B2R L <= bpow radix2 1023 ->
  exists (d : f64) (k : Z),
    sep s L = Some d /\ ffinite d = true /\
    Rabs (B2R d) <= B2R L / 2 /\
    Rabs (B2R d - (B2R s - IZR k * B2R L)) <= / 2 * ulp64 (B2R s + B2R L / 2) + ulp64 (B2R L).
Proof.
  intros s L Fs FL PL HE NO.
  destruct (half_spec L FL) as [_ Fh].
  set (Lh := half L) in *.
  (* a = fl(s + L/2) *)
  assert (NOa : Rabs (RN (B2R s + B2R Lh)) < bpow radix2 1024).
  { apply Rle_lt_trans with (bpow radix2 1023); [|apply bpow_lt; lia].
    apply abs_round_le_generic; auto with typeclass_instances.
    - apply generic_format_bpow. unfold FLT_exp. lia.
    - apply Rle_trans with (1 := Rabs_triang _ _). rewrite HE.
      rewrite (Rabs_pos_eq (B2R L / 2)) by lra. lra. }
  destruct (fadd_spec s Lh Fs Fh NOa) as [Va Fa].
  set (a := fadd s Lh) in *.
  destruct (py_mod_pos a L Fa FL PL) as (m & k & E & Fm & Sm & Rv & Vm & _).
  set (v := B2R a - IZR k * B2R L) in *.
  assert (Bm : 0 <= B2R m <= B2R L).
  { rewrite Vm. change 0 with (B2R fzero). apply RN_between. simpl. lra. }
  (* d = fl(m - L/2) *)
  assert (Bd : Rabs (B2R m - B2R Lh) <= B2R Lh).
  { rewrite HE. apply Rabs_le. lra. }
  assert (PLh : 0 <= B2R Lh) by (rewrite HE; lra).
  assert (Rd : Rabs (RN (B2R m - B2R Lh)) <= B2R Lh).
  { apply abs_round_le_generic; auto with typeclass_instances. apply fmt_B2R. }
  destruct (fsub_spec m Lh Fm Fh) as [Vd Fd].
  { apply Rle_lt_trans with (1 := Rd). rewrite <- (Rabs_pos_eq _ PLh). apply B2R_lt_emax. }
  exists (fsub m Lh), k.
  split; [unfold sep; fold Lh; fold a; rewrite E; reflexivity|].
  split; [exact Fd|]. split; [rewrite Vd, <- HE; exact Rd|].
  rewrite Vd.
  replace (RN (B2R m - B2R Lh) - (B2R s - IZR k * B2R L))
    with ((RN (B2R m - B2R Lh) - (B2R m - B2R Lh)) + (B2R m - v) + (B2R a - (B2R s + B2R Lh)))
    by (unfold v; ring).
  apply Rle_trans with (1 := Rabs_triang _ _).
  apply Rle_trans with (Rabs (RN (B2R m - B2R Lh) - (B2R m - B2R Lh)) + Rabs (B2R m - v) + Rabs (B2R a - (B2R s + B2R Lh))).
  { apply Rplus_le_compat_r. apply Rabs_triang. }
  assert (E3 : Rabs (RN (B2R m - B2R Lh) - (B2R m - B2R Lh)) <= / 2 * ulp64 (B2R L)).
  { apply Rle_trans with (1 := RN_err _). apply Rmult_le_compat_l; [lra|].
    apply ulp64_le. rewrite (Rabs_pos_eq (B2R L)) by lra. lra. }
  assert (E2 : Rabs (B2R m - v) <= / 2 * ulp64 (B2R L)).
  { rewrite Vm. apply Rle_trans with (1 := RN_err _). apply Rmult_le_compat_l; [lra|].
    apply ulp64_le. rewrite !Rabs_pos_eq by lra. lra. }
  assert (E1 : Rabs (B2R a - (B2R s + B2R Lh)) <= / 2 * ulp64 (B2R s + B2R L / 2)).
  { rewrite Va, HE. apply RN_err. }
  lra.
Qed.

Lemma sep_bound : forall s L d : f64,
  ffinite s = true -> ffinite L = true -> 0 < B2R L ->
  B2R (half L) = B2R L / 2 -> Rabs (B2R s) + B2R L <= bpow radix2 1023 ->
  sep s L = Some d -> ffinite d = true /\ Rabs (B2R d) <= B2R L / 2.
Proof.
  intros s L d Fs FL PL HE NO E.
  destruct (sep_spec s L Fs FL PL HE NO) as (d' & k & E' & Fd & B & _).
  rewrite E in E'. injection E' as ->. split; assumption.
Qed.

Lemma sep_congruent : forall s L d : f64,
  ffinite s = true -> ffinite L = true -> 0 < B2R L ->
  B2R (half L) = B2R L / 2 -> Rabs (B2R s) + B2R L <= bpow radix2 1023 ->
  sep s L = Some d ->
  exists k : Z,
    Rabs (B2R d - (B2R s - IZR k * B2R L)) <= / 2 * ulp64 (B2R s + B2R L / 2) + ulp64 (B2R L).
Proof.
  intros s L d Fs FL PL HE NO E.
  destruct (sep_spec s L Fs FL PL HE NO) as (d' & k & E' & _ & _ & C).
  rewrite E in E'. injection E' as ->. exists k. exact C.
Qed.

(** Documentation: for a subnormal system length with an odd number of units, L/2 is not
    representable and the bound by L/2 fails (L = 3 * 2^-1074, s = 2^-1074: |sep| = 2 * 2^-1074). *)
Definition f_u1 : f64 := of_bits 1.
Definition f_u2 : f64 := of_bits 2.
Definition f_u3 : f64 := of_bits 3.
Lemma sep_bound_tiny_L_refuted :
  exists s L : f64, ffinite s = true /\ ffinite L = true /\ 0 < B2R L /\
    match sep s L with Some d => feqb_bits d (fopp f_u2) | None => false end = true /\
    B2R L / 2 < Rabs (B2R (fopp f_u2)).
Proof.
  exists f_u1, f_u3. split; [vm_compute; reflexivity|]. split; [vm_compute; reflexivity|].
  assert (R3 : B2R f_u3 = 3 * bpow radix2 (-1074)).
  { unfold f_u3. b2r (of_bits 3). unfold F2R. simpl Fnum. simpl Fexp. simpl cond_Zopp. lra. }
  assert (R2 : B2R (fopp f_u2) = - (2 * bpow radix2 (-1074))).
  { unfold fopp. rewrite B2R_Bopp. unfold f_u2. b2r (of_bits 2). unfold F2R. simpl Fnum. simpl Fexp. simpl cond_Zopp. lra. }
  generalize (bpow_gt_0 radix2 (-1074)). intros P.
  split; [rewrite R3; lra|]. split; [vm_compute; reflexivity|].
  rewrite R3, R2, Rabs_Ropp, Rabs_pos_eq by lra. lra.
Qed.

(** ** Vectors *)
Lemma all_some_Forall2 : forall {A B : Type} (f : A -> option B) (l : list A) (out : list B),
  all_some (map f l) = Some out -> Forall2 (fun x w => f x = Some w) l out.
Proof.
  intros A B f l. induction l as [|a l IH]; simpl; intros out H.
  - injection H as <-. constructor.
  - destruct (f a) as [b|] eqn:E; [|discriminate].
    destruct (all_some (map f l)) as [r|] eqn:E2; [|discriminate].
    injection H as <-. constructor; [exact E|apply IH; reflexivity].
Qed.

Lemma Forall2_all_some : forall {A B : Type} (f : A -> option B) (l : list A) (out : list B),
  Forall2 (fun x w => f x = Some w) l out -> all_some (map f l) = Some out.
Proof.
  intros A B f l out H. induction H; simpl; [reflexivity|]. rewrite H, IHForall2. reflexivity.
Qed.

Lemma Forall2_Forall_out : forall {A B : Type} (R : A -> B -> Prop) (P : A -> Prop) (Q : B -> Prop),
  (forall a b, P a -> R a b -> Q b) ->
  forall l out, Forall2 R l out -> Forall P l -> Forall Q out.
Proof.
  intros A B R P Q H l out F2. induction F2; intros FP; constructor; inversion FP; subst; eauto.
Qed.

Lemma Forall2_len : forall {A B : Type} (R : A -> B -> Prop) l out, Forall2 R l out -> length l = length out.
Proof. intros A B R l out H. induction H; simpl; congruence. Qed.

Definition in_box (L p : f64) : Prop := ffinite p = true /\ 0 <= B2R p < B2R L.

(** [correct_position]: every corrected entry lies in [0, L). *)
Lemma cubic_correct_position_range : forall (L : f64) (pos out : list f64),
  ffinite L = true -> 0 < B2R L -> Forall (fun x => ffinite x = true) pos ->
  cubic_correct_position L pos = Some out ->
  length out = length pos /\ Forall (in_box L) out.
Proof.
  intros L pos out FL PL Fp H. apply all_some_Forall2 in H. split.
  - symmetry. eapply Forall2_len; eassumption.
  - eapply Forall2_Forall_out; [|exact H|exact Fp].
    intros x w Fx E. simpl in E. apply (wrap_range x L w Fx FL PL E).
Qed.

Lemma cubic_correct_position_defined : forall (L : f64) (pos : list f64),
  ffinite L = true -> 0 < B2R L -> Forall (fun x => ffinite x = true) pos ->
  exists out, cubic_correct_position L pos = Some out.
Proof.
  intros L pos FL PL Fp. unfold cubic_correct_position. induction Fp; simpl.
  - eexists; reflexivity.
  - destruct (wrap_defined x L H FL PL) as [w ->]. destruct IHFp as [r ->]. eexists; reflexivity.
Qed.

Lemma cubic_correct_position_idempotent : forall (L : f64) (pos out : list f64),
  ffinite L = true -> 0 < B2R L -> Forall (fun x => ffinite x = true) pos ->
  cubic_correct_position L pos = Some out -> cubic_correct_position L out = Some out.
Proof.
  intros L pos out FL PL Fp H. apply all_some_Forall2 in H.
  apply Forall2_all_some.
  induction H; [constructor|]. inversion Fp; subst. constructor; [|auto].
  apply (wrap_idempotent x L y); assumption.
Qed.

(** [separation_vector] of two positions in the box: every component is bounded by L/2. *)
Lemma raw_separation_in_box : forall (dim : nat) (L : f64) (ref tgt : list f64),
  ffinite L = true ->
  length ref = dim -> length tgt = dim -> Forall (in_box L) ref -> Forall (in_box L) tgt ->
  Forall (fun s => ffinite s = true /\ Rabs (B2R s) < B2R L) (raw_separation dim ref tgt).
Proof.
  intros dim L ref tgt FL Lr Lt Br Bt. unfold raw_separation.
  apply Forall_forall. intros s Hs. apply in_map_iff in Hs. destruct Hs as (i & <- & Hi).
  apply in_seq in Hi. simpl in Hi.
  assert (Ir : in_box L (nth i ref fnan)).
  { apply (proj1 (Forall_forall _ _) Br). apply nth_In. lia. }
  assert (It : in_box L (nth i tgt fnan)).
  { apply (proj1 (Forall_forall _ _) Bt). apply nth_In. lia. }
  destruct Ir as [Fr Rr], It as [Ft Rt].
  assert (B : Rabs (B2R (nth i tgt fnan) - B2R (nth i ref fnan)) <= Rabs (B2R L)).
  { rewrite (Rabs_pos_eq (B2R L)) by lra. apply Rabs_le. lra. }
  destruct (fsub_spec _ _ Ft Fr (RN_no_overflow_le L _ B)) as [V F].
  split; [exact F|]. rewrite V.
  (* strictness: the exact difference is strictly inside (-L, L) and both bounds are floats *)
  assert (S1 : - B2R L <= RN (B2R (nth i tgt fnan) - B2R (nth i ref fnan)) <= B2R L).
  { rewrite <- (B2R_Bopp 53 1024 L). apply RN_between. rewrite B2R_Bopp. lra. }
  destruct S1 as [S1 S2].
  destruct (Req_dec (RN (B2R (nth i tgt fnan) - B2R (nth i ref fnan))) (B2R L)) as [E|NE1].
  { (* RN(t - r) = L would need t - r >= L - ulp/2, but t - r <= t < L and t is a float *)
    exfalso.
    assert (RN (B2R (nth i tgt fnan) - B2R (nth i ref fnan)) <= B2R (nth i tgt fnan)).
    { rewrite <- (RN_B2R (nth i tgt fnan)) at 2. apply RN_le. lra. }
    lra. }
  destruct (Req_dec (RN (B2R (nth i tgt fnan) - B2R (nth i ref fnan))) (- B2R L)) as [E|NE2].
  { exfalso.
    assert (- B2R (nth i ref fnan) <= RN (B2R (nth i tgt fnan) - B2R (nth i ref fnan))).
    { rewrite <- (B2R_Bopp 53 1024 (nth i ref fnan)).
      rewrite <- (RN_B2R (Bopp (nth i ref fnan))) at 1. apply RN_le. rewrite B2R_Bopp. lra. }
    lra. }
  apply Rabs_lt. lra.
Qed.

Lemma cubic_separation_vector_bound : forall (dim : nat) (L : f64) (ref tgt out : list f64),
  ffinite L = true -> 0 < B2R L -> B2R (half L) = B2R L / 2 -> B2R L <= bpow radix2 1022 ->
  length ref = dim -> length tgt = dim -> Forall (in_box L) ref -> Forall (in_box L) tgt ->
  cubic_separation_vector dim L ref tgt = Some out ->
  length out = dim /\ Forall (fun d => ffinite d = true /\ Rabs (B2R d) <= B2R L / 2) out.
Proof.
  intros dim L ref tgt out FL PL HE HB Lr Lt Br Bt H.
  generalize (raw_separation_in_box dim L ref tgt FL Lr Lt Br Bt). intros Fraw.
  unfold cubic_separation_vector, cubic_correct_separation in H.
  apply all_some_Forall2 in H. split.
  - rewrite <- (Forall2_len _ _ _ H). unfold raw_separation. rewrite map_length, seq_length. reflexivity.
  - eapply Forall2_Forall_out; [|exact H|exact Fraw].
    intros s d [Fs Bs] E. simpl in E.
    apply (sep_bound s L d Fs FL PL HE); [|exact E].
    change (bpow radix2 1023) with (bpow radix2 (1022 + 1)). rewrite bpow_plus.
    change (bpow radix2 1) with 2. lra.
Qed.

(** ** The cubic and the cuboid classes agree when all lengths are equal. *)
Lemma nth_error_repeat' : forall {A : Type} (a : A) (n i : nat), (i < n)%nat -> nth_error (repeat a n) i = Some a.
Proof.
  intros A a n. induction n; intros i H; [lia|]. destruct i; simpl; [reflexivity|]. apply IHn. lia.
Qed.

Lemma cuboid_wrap_entry_equal : forall L n x i, (i < n)%nat ->
  cuboid_wrap_entry (repeat L n) x i = wrap x L.
Proof. intros. unfold cuboid_wrap_entry. rewrite nth_error_repeat' by assumption. reflexivity. Qed.

Lemma cuboid_sep_entry_equal : forall L n s i, (i < n)%nat ->
  cuboid_sep_entry (repeat L n) s i = sep s L.
Proof. intros. unfold cuboid_sep_entry. rewrite nth_error_repeat' by assumption. reflexivity. Qed.

Lemma enumerate_map_equal : forall {B : Type} (f : f64 -> option B) (g : nat -> f64 -> option B) (n : nat),
  (forall x i, (i < n)%nat -> g i x = f x) ->
  forall (l : list f64) (i : nat), (i + length l <= n)%nat ->
  map (fun ix => g (fst ix) (snd ix)) (enumerate_from i l) = map f l.
Proof.
  intros B f g n H l. induction l as [|a l IH]; intros i Hi; simpl; [reflexivity|].
  simpl in Hi. rewrite H by lia. f_equal. apply IH. lia.
Qed.

Lemma cuboid_correct_position_equal : forall L n pos, (length pos <= n)%nat ->
  cuboid_correct_position (repeat L n) pos = cubic_correct_position L pos.
Proof.
  intros L n pos H. unfold cuboid_correct_position, cubic_correct_position. f_equal.
  apply (enumerate_map_equal (fun x => wrap x L) (fun i x => cuboid_wrap_entry (repeat L n) x i) n).
  - intros x i Hi. apply cuboid_wrap_entry_equal, Hi.
  - simpl. exact H.
Qed.

Lemma cuboid_correct_separation_equal : forall L n v, (length v <= n)%nat ->
  cuboid_correct_separation (repeat L n) v = cubic_correct_separation L v.
Proof.
  intros L n v H. unfold cuboid_correct_separation, cubic_correct_separation. f_equal.
  apply (enumerate_map_equal (fun x => sep x L) (fun i x => cuboid_sep_entry (repeat L n) x i) n).
  - intros x i Hi. apply cuboid_sep_entry_equal, Hi.
  - simpl. exact H.
Qed.

Lemma cuboid_separation_vector_equal : forall L n ref tgt,
  cuboid_separation_vector (repeat L n) ref tgt = cubic_separation_vector n L ref tgt.
Proof.
  intros L n ref tgt. unfold cuboid_separation_vector, cubic_separation_vector.
  rewrite repeat_length. apply cuboid_correct_separation_equal.
  unfold raw_separation. rewrite map_length, seq_length. lia.
Qed.

Lemma cuboid_next_image_equal : forall L n x i, (i < n)%nat ->
  cuboid_next_image (repeat L n) x i = Some (cubic_next_image L x i).
Proof. intros. unfold cuboid_next_image. rewrite nth_error_repeat' by assumption. reflexivity. Qed.

Lemma cubic_eq_cuboid : forall (L : f64) (n : nat),
  (forall x i, (i < n)%nat -> cuboid_wrap_entry (repeat L n) x i = wrap x L) /\
  (forall s i, (i < n)%nat -> cuboid_sep_entry (repeat L n) s i = sep s L) /\
  (forall x i, (i < n)%nat -> cuboid_next_image (repeat L n) x i = Some (cubic_next_image L x i)) /\
  (forall pos, (length pos <= n)%nat -> cuboid_correct_position (repeat L n) pos = cubic_correct_position L pos) /\
  (forall v, (length v <= n)%nat -> cuboid_correct_separation (repeat L n) v = cubic_correct_separation L v) /\
  (forall ref tgt, cuboid_separation_vector (repeat L n) ref tgt = cubic_separation_vector n L ref tgt).
Proof.
  intros L n. repeat split; intros.
  - apply cuboid_wrap_entry_equal; assumption.
  - apply cuboid_sep_entry_equal; assumption.
  - apply cuboid_next_image_equal; assumption.
  - apply cuboid_correct_position_equal; assumption.
  - apply cuboid_correct_separation_equal; assumption.
  - apply cuboid_separation_vector_equal.
Qed.

(** ** Statements in the form used by Props/C15.v (definedness included). *)
Lemma wrap_range_ex : forall x L : f64,
  ffinite x = true -> ffinite L = true -> 0 < B2R L ->
  exists w, wrap x L = Some w /\ ffinite w = true /\ 0 <= B2R w < B2R L.
Proof.
  intros x L Fx FL PL. destruct (wrap_spec x L Fx FL PL) as (w & k & E & F & _ & R & _).
  exists w. auto.
Qed.

Lemma wrap_congruent_ex : forall x L : f64,
  ffinite x = true -> ffinite L = true -> 0 < B2R L ->
  exists (w : f64) (k : Z), wrap x L = Some w /\
    Rabs (B2R w - (B2R x - IZR k * B2R L)) <= / 2 * ulp64 (B2R L) /\
    (0 <= B2R x -> B2R w = B2R x - IZR k * B2R L).
Proof.
  intros x L Fx FL PL. destruct (wrap_spec x L Fx FL PL) as (w & k & E & _ & _ & _ & C & X).
  exists w, k. auto.
Qed.

Lemma sep_bound_ex : forall s L : f64,
  ffinite s = true -> ffinite L = true -> 0 < B2R L ->
  B2R (half L) = B2R L / 2 -> Rabs (B2R s) + B2R L <= bpow radix2 1023 ->
  exists d, sep s L = Some d /\ ffinite d = true /\ Rabs (B2R d) <= B2R L / 2.
Proof.
  intros s L Fs FL PL HE NO. destruct (sep_spec s L Fs FL PL HE NO) as (d & k & E & F & B & _).
  exists d. auto.
Qed.

Lemma sep_congruent_ex : forall s L : f64,
  ffinite s = true -> ffinite L = true -> 0 < B2R L ->
  B2R (half L) = B2R L / 2 -> Rabs (B2R s) + B2R L <= bpow radix2 1023 ->
  exists (d : f64) (k : Z), sep s L = Some d /\
    Rabs (B2R d - (B2R s - IZR k * B2R L)) <= / 2 * ulp64 (B2R s + B2R L / 2) + ulp64 (B2R L).
Proof.
  intros s L Fs FL PL HE NO. destruct (sep_spec s L Fs FL PL HE NO) as (d & k & E & _ & _ & C).
  exists d, k. auto.
Qed.

(** ** Concrete samples for the non-vacuity examples. *)
Definition p_m025 : f64 := of_bits 0xBFD0000000000000.   (* -0.25 *)
Definition p_075 : f64 := of_bits 0x3FE8000000000000.    (* 0.75 *)
Definition p_025 : f64 := of_bits 0x3FD0000000000000.    (* 0.25 *)
Lemma p_m025_R : B2R p_m025 = - / 4.
Proof. unfold p_m025. b2r (of_bits 0xBFD0000000000000). unfold F2R; simpl; lra. Qed.
Lemma p_075_R : B2R p_075 = 3 / 4.
Proof. unfold p_075. b2r (of_bits 0x3FE8000000000000). unfold F2R; simpl; lra. Qed.
Lemma p_025_R : B2R p_025 = / 4.
Proof. unfold p_025. b2r (of_bits 0x3FD0000000000000). unfold F2R; simpl; lra. Qed.

Lemma bpow_m1021_le_1 : bpow radix2 (-1021) <= 1.
Proof. change 1 with (bpow radix2 0). apply bpow_le. lia. Qed.
Lemma two_le_bpow_1023 : 2 <= bpow radix2 1023.
Proof. change 2 with (bpow radix2 1). apply bpow_le. lia. Qed.

Lemma sample_wrap_hyps : ffinite p_m025 = true /\ ffinite fone = true /\ 0 < B2R fone.
Proof. split; [vm_compute; reflexivity|]. split; [apply fone_finite|rewrite fone_R; lra]. Qed.

Lemma sample_sep_hyps :
  ffinite p_075 = true /\ ffinite fone = true /\ 0 < B2R fone /\
  B2R (half fone) = B2R fone / 2 /\ Rabs (B2R p_075) + B2R fone <= bpow radix2 1023.
Proof.
  split; [vm_compute; reflexivity|]. split; [apply fone_finite|]. split; [rewrite fone_R; lra|].
  split.
  - apply half_exact; [apply fone_finite|rewrite fone_R; apply bpow_m1021_le_1].
  - rewrite p_075_R, fone_R, Rabs_pos_eq by lra. generalize two_le_bpow_1023. lra.
Qed.

Lemma sample_in_box : Forall (in_box fone) [p_075; p_025] /\ Forall (in_box fone) [p_025; p_075].
Proof.
  assert (A : in_box fone p_075) by (split; [vm_compute; reflexivity|rewrite p_075_R, fone_R; lra]).
  assert (B : in_box fone p_025) by (split; [vm_compute; reflexivity|rewrite p_025_R, fone_R; lra]).
  split; (constructor; [assumption|constructor; [assumption|constructor]]).
Qed.

(** ** [separation_vector] is congruent to the exact difference of the two positions. *)
Lemma Forall2_nth : forall {A B : Type} (R : A -> B -> Prop) (l : list A) (out : list B) (da : A) (db : B),
  Forall2 R l out -> forall i, (i < length l)%nat -> R (nth i l da) (nth i out db).
Proof.
  intros A B R l out da db H. induction H; intros i Hi; simpl in Hi; [lia|].
  destruct i; simpl; [assumption|]. apply IHForall2. lia.
Qed.

Lemma raw_separation_nth : forall dim ref tgt i, (i < dim)%nat ->
  nth i (raw_separation dim ref tgt) fnan = fsub (nth i tgt fnan) (nth i ref fnan).
Proof.
  intros dim ref tgt i Hi. unfold raw_separation.
  rewrite (nth_indep _ fnan (fsub (nth 0 tgt fnan) (nth 0 ref fnan)))
    by (rewrite map_length, seq_length; exact Hi).
  rewrite (map_nth (fun i => fsub (nth i tgt fnan) (nth i ref fnan)) (seq 0 dim) 0%nat i).
  rewrite seq_nth by exact Hi. reflexivity.
Qed.

Lemma cubic_separation_vector_congruent : forall (dim : nat) (L : f64) (ref tgt out : list f64),
  ffinite L = true -> 0 < B2R L -> B2R (half L) = B2R L / 2 -> B2R L <= bpow radix2 1022 ->
  length ref = dim -> length tgt = dim -> Forall (in_box L) ref -> Forall (in_box L) tgt ->
  cubic_separation_vector dim L ref tgt = Some out ->
  forall i, (i < dim)%nat ->
  let t := B2R (nth i tgt fnan) in let r := B2R (nth i ref fnan) in
  exists k : Z,
    Rabs (B2R (nth i out fnan) - (t - r - IZR k * B2R L)) <=
      / 2 * ulp64 (t - r) + / 2 * ulp64 (RN (t - r) + B2R L / 2) + ulp64 (B2R L).
Proof.
  intros dim L ref tgt out FL PL HE HB Lr Lt Br Bt H i Hi t r.
  generalize (raw_separation_in_box dim L ref tgt FL Lr Lt Br Bt). intros Fraw.
  unfold cubic_separation_vector, cubic_correct_separation in H.
  apply all_some_Forall2 in H.
  assert (Li : (i < length (raw_separation dim ref tgt))%nat).
  { unfold raw_separation. rewrite map_length, seq_length. exact Hi. }
  generalize (Forall2_nth _ _ _ fnan fnan H i Li). rewrite raw_separation_nth by exact Hi.
  intros E.
  assert (Fs : ffinite (fsub (nth i tgt fnan) (nth i ref fnan)) = true /\
               Rabs (B2R (fsub (nth i tgt fnan) (nth i ref fnan))) < B2R L).
  { rewrite <- raw_separation_nth with (dim := dim) by exact Hi.
    apply (proj1 (Forall_forall _ _) Fraw). apply nth_In. exact Li. }
  destruct Fs as [Fs Bs].
  assert (Ir : in_box L (nth i ref fnan)).
  { apply (proj1 (Forall_forall _ _) Br). apply nth_In. lia. }
  assert (It : in_box L (nth i tgt fnan)).
  { apply (proj1 (Forall_forall _ _) Bt). apply nth_In. lia. }
  destruct Ir as [Fr Rr], It as [Ft Rt].
  assert (Vs : B2R (fsub (nth i tgt fnan) (nth i ref fnan)) = RN (t - r)).
  { apply fsub_spec; try assumption. apply (RN_no_overflow_le L).
    rewrite (Rabs_pos_eq (B2R L)) by lra. apply Rabs_le. lra. }
  assert (NO : Rabs (B2R (fsub (nth i tgt fnan) (nth i ref fnan))) + B2R L <= bpow radix2 1023).
  { change (bpow radix2 1023) with (bpow radix2 (1022 + 1)). rewrite bpow_plus.
    change (bpow radix2 1) with 2. lra. }
  destruct (sep_congruent _ L _ Fs FL PL HE NO E) as [k C].
  exists k. rewrite Vs in C.
  replace (B2R (nth i out fnan) - (t - r - IZR k * B2R L))
    with ((B2R (nth i out fnan) - (RN (t - r) - IZR k * B2R L)) + (RN (t - r) - (t - r))) by ring.
  apply Rle_trans with (1 := Rabs_triang _ _).
  generalize (RN_err (t - r)). lra.
Qed.
