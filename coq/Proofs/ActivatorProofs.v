(** * Proofs/ActivatorProofs.v — invariants of the TagActivator model (C09). *)
From Coq Require Import List Arith Bool Lia.
Require Import JF.Model.Activator.
Import ListNotations.

(** ** Decidable equalities are equalities. *)
Lemma ident_eqb_eq a b : ident_eqb a b = true <-> a = b.
Proof.
  revert b; induction a as [|x a IH]; intros [|y b]; simpl; split; intro H; try discriminate; auto.
  - apply andb_true_iff in H as [H1 H2]. apply Nat.eqb_eq in H1. apply IH in H2. congruence.
  - inversion H; subst. rewrite Nat.eqb_refl. simpl. apply IH; reflexivity.
Qed.

Lemma idents_eqb_eq a b : idents_eqb a b = true <-> a = b.
Proof.
  revert b; induction a as [|x a IH]; intros [|y b]; simpl; split; intro H; try discriminate; auto.
  - apply andb_true_iff in H as [H1 H2]. apply ident_eqb_eq in H1. apply IH in H2. congruence.
  - inversion H; subst. apply andb_true_iff; split; [apply ident_eqb_eq | apply IH]; reflexivity.
Qed.

Lemma instate_eqb_eq a b : instate_eqb a b = true <-> a = b.
Proof.
  destruct a as [a|], b as [b|]; simpl; split; intro H; try discriminate; auto.
  - apply idents_eqb_eq in H. congruence.
  - inversion H; subst. apply idents_eqb_eq; reflexivity.
Qed.

Lemma instate_eqb_refl a : instate_eqb a a = true.
Proof. apply instate_eqb_eq; reflexivity. Qed.

(** ** Multisets. *)
Lemma count_app i a b : count i (a ++ b) = count i a + count i b.
Proof. unfold count. rewrite filter_app, app_length. reflexivity. Qed.

Lemma count_pos_in i l : count i l <> 0 -> In i l.
Proof.
  unfold count. induction l as [|x l IH]; simpl; [congruence|].
  destruct (instate_eqb i x) eqn:E; simpl; intro H.
  - left. symmetry. apply instate_eqb_eq; exact E.
  - right. auto.
Qed.

Lemma mset_eqb_spec a b : mset_eqb a b = true <-> (forall i, count i a = count i b).
Proof.
  unfold mset_eqb. rewrite forallb_forall. split.
  - intros H i. destruct (in_dec (fun x y => match instate_eqb x y as b return (instate_eqb x y = b -> {x = y} + {x <> y}) with
                                             | true => fun E => left (proj1 (instate_eqb_eq x y) E)
                                             | false => fun E => right (fun Heq => eq_ind (instate_eqb x y) (fun b => b = false -> False)
                                                                       (fun E' => ltac:(rewrite (proj2 (instate_eqb_eq x y) Heq) in E'; discriminate)) _ eq_refl E)
                                             end eq_refl) i (a ++ b)) as [Hin|Hnin].
    + apply Nat.eqb_eq. apply H. exact Hin.
    + assert (count i a = 0).
      { destruct (Nat.eq_dec (count i a) 0) as [|Hn]; auto. exfalso. apply Hnin. apply in_or_app. left.
        apply count_pos_in; exact Hn. }
      assert (count i b = 0).
      { destruct (Nat.eq_dec (count i b) 0) as [|Hn]; auto. exfalso. apply Hnin. apply in_or_app. right.
        apply count_pos_in; exact Hn. }
      congruence.
  - intros H i _. apply Nat.eqb_eq. apply H.
Qed.

Lemma mset_refl a : mset_eqb a a = true.
Proof. apply mset_eqb_spec; reflexivity. Qed.

Lemma mset_trans a b c : mset_eqb a b = true -> mset_eqb b c = true -> mset_eqb a c = true.
Proof. rewrite !mset_eqb_spec. intros H1 H2 i. rewrite H1. apply H2. Qed.

Lemma mset_nil_l b : mset_eqb [] b = true -> b = [].
Proof.
  rewrite mset_eqb_spec. intro H. destruct b as [|x b]; auto.
  specialize (H x). unfold count in H. simpl in H. rewrite instate_eqb_refl in H. simpl in H. discriminate.
Qed.

Lemma rel_refl k a : rel_kind k a a = true.
Proof. destruct k; simpl; [apply mset_refl | apply Nat.eqb_refl | reflexivity]. Qed.

Lemma rel_trans k a b c : rel_kind k a b = true -> rel_kind k b c = true -> rel_kind k a c = true.
Proof.
  destruct k; simpl; [apply mset_trans | | auto].
  rewrite !Nat.eqb_eq. congruence.
Qed.

Lemma rel_nil_l k b : k <> TOneShot -> rel_kind k [] b = true -> b = [].
Proof.
  destruct k; simpl; intros Hk H; [apply mset_nil_l; exact H | | congruence].
  destruct b; simpl in H; [reflexivity | discriminate].
Qed.

Lemma rel_nil_r k a : k <> TOneShot -> rel_kind k a [] = true -> a = [].
Proof.
  destruct k; simpl; intros Hk H; [ | | congruence].
  - rewrite mset_eqb_spec in H. destruct a as [|x a]; auto.
    specialize (H x). unfold count in H. simpl in H. rewrite instate_eqb_refl in H. simpl in H. discriminate.
  - destruct a; simpl in H; [reflexivity | discriminate].
Qed.

(** ** List updates. *)
Lemma nthl_set_nth_same {A} (l : list (list A)) x v : x < length l -> nthl (set_nth l x v) x = v.
Proof. unfold nthl. revert x; induction l as [|y l IH]; intros [|x] H; simpl in *; try lia; auto. apply IH; lia. Qed.

Lemma nthl_set_nth_other {A} (l : list (list A)) x y v : x <> y -> nthl (set_nth l x v) y = nthl l y.
Proof.
  unfold nthl. revert x y; induction l as [|z l IH]; intros [|x] [|y] H; simpl; try congruence; auto.
Qed.

Lemma nthl_beyond {A} (l : list (list A)) x : length l <= x -> nthl l x = [].
Proof. unfold nthl. intro H. apply nth_overflow; exact H. Qed.

Lemma set_nth_length {A} (l : list A) x v : length (set_nth l x v) = length l.
Proof. revert x; induction l as [|y l IH]; intros [|x]; simpl; auto. Qed.

Lemma set_nth_beyond {A} (l : list A) x v : length l <= x -> set_nth l x v = l.
Proof. revert x; induction l as [|y l IH]; intros [|x] H; simpl in *; try lia; auto. f_equal. apply IH; lia. Qed.

(** ** Effect of the operations on the pending in-states. *)
Definition lens (s : astate) (n : nat) : Prop :=
  length (a_running s) = n /\ length (a_notrun s) = n.

Lemma start_handlers_spec ins : forall s x s' l n,
  lens s n ->
  start_handlers s x ins = Some (s', l) ->
  lens s' n /\ a_active s' = a_active s /\
  pending s' x = pending s x ++ ins /\
  (forall y, y <> x -> pending s' y = pending s y) /\
  map snd l = ins.
Proof.
  induction ins as [|i ins IH]; intros s x s' l n Hl H; simpl in H.
  - inversion H; subst. rewrite app_nil_r. repeat split; auto; apply Hl.
  - destruct (rev (nthl (a_notrun s) x)) as [|h r] eqn:Er; [discriminate|].
    set (s1 := {| a_running := set_nth (a_running s) x (nthl (a_running s) x ++ [(h, i)]);
                  a_notrun := set_nth (a_notrun s) x (rev r); a_active := a_active s |}) in *.
    destruct (start_handlers s1 x ins) as [[s2 l2]|] eqn:E2; [|discriminate].
    inversion H; subst s' l; clear H.
    assert (Hx : x < n).
    { destruct Hl as [_ Hn]. destruct (le_lt_dec n x) as [Hge|]; auto.
      rewrite nthl_beyond in Er by lia. discriminate. }
    assert (Hl1 : lens s1 n).
    { destruct Hl as [Ha Hb]. split; simpl; rewrite set_nth_length; assumption. }
    destruct (IH s1 x s2 l2 n Hl1 E2) as (Hl2 & Hact & Hp & Ho & Hm).
    repeat split; try apply Hl2.
    + rewrite Hact. reflexivity.
    + rewrite Hp. unfold pending at 1. simpl. rewrite nthl_set_nth_same by (destruct Hl; lia).
      rewrite map_app. simpl. rewrite <- app_assoc. reflexivity.
    + intros y Hy. rewrite (Ho y Hy). unfold pending. simpl. rewrite nthl_set_nth_other by congruence. reflexivity.
    + simpl. rewrite Hm. reflexivity.
Qed.

Lemma eff_active s s' gen x : a_active s' = a_active s -> eff s' gen x = eff s gen x.
Proof. unfold eff. intros ->. reflexivity. Qed.

Lemma create_all_spec xs : forall s gen s' l n,
  lens s n -> NoDup xs ->
  create_all s gen xs = Some (s', l) ->
  lens s' n /\ a_active s' = a_active s /\
  (forall y, pending s' y = pending s y ++ (if mem y xs then eff s gen y else [])).
Proof.
  induction xs as [|x xs IH]; intros s gen s' l n Hl Hnd H; simpl in H.
  - inversion H; subst. repeat split; try apply Hl. intro y. simpl. rewrite app_nil_r. reflexivity.
  - destruct (start_handlers s x (eff s gen x)) as [[s1 l1]|] eqn:E1; [|discriminate].
    destruct (create_all s1 gen xs) as [[s2 l2]|] eqn:E2; [|discriminate].
    inversion H; subst s' l; clear H.
    destruct (start_handlers_spec _ _ _ _ _ _ Hl E1) as (Hl1 & Ha1 & Hp1 & Ho1 & _).
    inversion Hnd as [|? ? Hnin Hnd']; subst.
    destruct (IH s1 gen s2 l2 n Hl1 Hnd' E2) as (Hl2 & Ha2 & Hp2).
    repeat split; try apply Hl2.
    + congruence.
    + intro y. rewrite Hp2. simpl. destruct (Nat.eqb y x) eqn:Eyx.
      * apply Nat.eqb_eq in Eyx. subst y. simpl.
        assert (mem x xs = false) as ->.
        { unfold mem. apply not_true_is_false. intro Hm. apply existsb_exists in Hm as [z [Hz Hxz]].
          apply Nat.eqb_eq in Hxz. subst z. contradiction. }
        rewrite app_nil_r. exact Hp1.
      * simpl. apply Nat.eqb_neq in Eyx. rewrite (Ho1 y Eyx). rewrite (eff_active _ _ _ _ Ha1). reflexivity.
Qed.

Lemma trash_all_spec xs : forall s s' l n,
  lens s n ->
  trash_all s xs = (s', l) ->
  lens s' n /\ a_active s' = a_active s /\
  (forall y, pending s' y = if mem y xs then [] else pending s y).
Proof.
  induction xs as [|x xs IH]; intros s s' l n Hl H; simpl in H.
  - inversion H; subst. repeat split; try apply Hl.
  - set (s1 := {| a_running := set_nth (a_running s) x [];
                  a_notrun := set_nth (a_notrun s) x (nthl (a_notrun s) x ++ map fst (nthl (a_running s) x));
                  a_active := a_active s |}) in *.
    destruct (trash_all s1 xs) as [s2 l2] eqn:E2. inversion H; subst s' l; clear H.
    assert (Hl1 : lens s1 n).
    { destruct Hl as [Ha Hb]. split; simpl; rewrite set_nth_length; assumption. }
    destruct (IH s1 s2 l2 n Hl1 E2) as (Hl2 & Ha2 & Hp2).
    repeat split; try apply Hl2.
    + rewrite Ha2. reflexivity.
    + intro y. rewrite Hp2. simpl. destruct (Nat.eqb y x) eqn:Eyx; simpl.
      * apply Nat.eqb_eq in Eyx. subst y. destruct (mem x xs); auto.
        unfold pending. simpl. destruct (le_lt_dec (length (a_running s)) x) as [Hge|Hlt].
        -- rewrite set_nth_beyond by exact Hge. rewrite nthl_beyond by exact Hge. reflexivity.
        -- rewrite nthl_set_nth_same by exact Hlt. reflexivity.
      * apply Nat.eqb_neq in Eyx. destruct (mem y xs); auto.
        unfold pending. simpl. rewrite nthl_set_nth_other by congruence. reflexivity.
Qed.

Lemma set_active_lens s xs b n : lens s n -> lens (set_active s xs b) n.
Proof. intros [Ha Hb]. split; simpl; assumption. Qed.

Lemma set_active_pending s xs b y : pending (set_active s xs b) y = pending s y.
Proof. reflexivity. Qed.

Lemma apply_activation_lens w s t n : lens s n -> lens (apply_activation w s t) n.
Proof. intro H. unfold apply_activation. apply set_active_lens. apply set_active_lens. exact H. Qed.

Lemma apply_activation_pending w s t y : pending (apply_activation w s t) y = pending s y.
Proof. reflexivity. Qed.

(** ** The invariant of C09 and its preservation by one leg. *)
Definition Inv (kinds : nat -> tkind) (s : astate) (e : nat -> list instate) : Prop :=
  forall x, rel_kind (kinds x) (pending s x) (e x) = true.

(** One leg of the mediator seen from the activator: the committed event of tagger [t] trashes, then
    the next call of the activator (with the same preceding tagger [t]) creates. *)
Theorem leg_preserves_inv w kinds s t gen s1 tl s2 tr e0 n :
  lens s n ->
  NoDup (nthl (w_creates w) t) ->
  Inv kinds s e0 ->
  act_trash w s t = (s1, tl) ->
  act_update w s1 t gen = Some (s2, tr) ->
  (forall x, frame_ok_x w t x (kinds x) (e0 x) (eff s2 gen x) = true) ->
  lens s2 n /\ Inv kinds s2 (eff s2 gen).
Proof.
  intros Hl Hnd Hinv Ht Hu Hf.
  unfold act_trash in Ht. destruct (trash_all_spec _ _ _ _ _ Hl Ht) as (Hl1 & Ha1 & Hp1).
  unfold act_update in Hu.
  pose proof (apply_activation_lens w s1 t n Hl1) as Hl1'.
  destruct (create_all_spec _ _ _ _ _ _ Hl1' Hnd Hu) as (Hl2 & Ha2 & Hp2).
  split; [exact Hl2|].
  intro x. specialize (Hf x). specialize (Hinv x).
  rewrite Hp2. rewrite apply_activation_pending. rewrite Hp1.
  rewrite (eff_active (apply_activation w s1 t) s2 gen x Ha2) in *.
  set (e1 := eff (apply_activation w s1 t) gen x) in *.
  unfold frame_ok_x in Hf.
  destruct (kinds x) eqn:Ek; try reflexivity;
  destruct (mem x (nthl (w_creates w) t)) eqn:Ec, (mem x (nthl (w_trashes w) t)) eqn:Ed; simpl in Hf |- *.
  all: try (apply (rel_refl TIdentity)); try (apply (rel_refl TCount)).
  all: try (rewrite app_nil_r).
  - (* created only, nothing pending before *)
    destruct (e0 x) eqn:E0; [|discriminate].
    assert (pending s x = []) as -> by (apply (rel_nil_r TIdentity); [congruence | exact Hinv]).
    apply (rel_refl TIdentity).
  - destruct e1 eqn:E1; [|discriminate]. reflexivity.
  - apply (rel_trans TIdentity _ (e0 x)); assumption.
  - destruct (e0 x) eqn:E0; [|discriminate].
    assert (pending s x = []) as -> by (apply (rel_nil_r TCount); [congruence | exact Hinv]).
    apply (rel_refl TCount).
  - destruct e1 eqn:E1; [|discriminate]. reflexivity.
  - apply (rel_trans TCount _ (e0 x)); assumption.
Qed.

(** No shortage of event handlers: creation fails only if a tagger generates more in-states than it
    has not-running handlers. *)
Lemma start_handlers_enough ins : forall s x,
  length ins <= length (nthl (a_notrun s) x) ->
  x < length (a_notrun s) ->
  start_handlers s x ins <> None.
Proof.
  induction ins as [|i ins IH]; intros s x Hlen Hx; simpl; [congruence|].
  destruct (rev (nthl (a_notrun s) x)) as [|h r] eqn:Er.
  - assert (length (rev (nthl (a_notrun s) x)) = 0) by (rewrite Er; reflexivity).
    rewrite rev_length in H. simpl in Hlen. lia.
  - set (s1 := {| a_running := _; a_notrun := _; a_active := _ |}).
    assert (Hn : length (nthl (a_notrun s1) x) = length (nthl (a_notrun s) x) - 1).
    { simpl. rewrite nthl_set_nth_same by exact Hx. rewrite rev_length.
      assert (length (rev (nthl (a_notrun s) x)) = S (length r)) by (rewrite Er; reflexivity).
      rewrite rev_length in H. lia. }
    specialize (IH s1 x). destruct (start_handlers s1 x ins) as [[s2 l2]|]; [congruence|].
    exfalso. apply IH; [simpl in Hlen; lia | simpl; rewrite set_nth_length; exact Hx | reflexivity].
Qed.
