(** * Proofs/DumpSchedProofs.v — C19 instantiated with the HeapScheduler model of C06.

    Part A (generic keys, no order hypotheses): every heap.c function reads and writes cells
    0 .. length only, so two heaps whose arrays agree there ([heq]) behave identically, step by step
    (same returned entry, hence the same handler on ties).
    Part B (float instance): [setstate (getstate s)] is [seqv]-equivalent to [s]; [seqv] is a
    bisimulation for push / trash / get; instantiation of [Dump.run] and of a variant with a
    state-changing get. *)
From Coq Require Import List Arith Bool NArith Lia.
Require Import JF.Model.Heap JF.Model.Sched JF.Proofs.HeapProofs JF.Proofs.SchedProofs.
Import ListNotations.

Section Lockstep.
  Variable K : Type.
  Variable ltb : K -> K -> bool.
  Variable bot : K.
  Notation cells := (cells K).
  Notation entry := (entry K).

  Definition agree (n : nat) (es es' : cells) : Prop := forall i, i < n -> cget es i = cget es' i.

  Lemma agree_cset : forall n es es' i e es1 es1', agree n es es' ->
    cset es i e = Some es1 -> cset es' i e = Some es1' -> agree n es1 es1'.
  Proof.
    intros n es es' i e es1 es1' Hag H1 H2 j Hj.
    destruct (cset_inv K _ _ _ _ H1) as (_ & _ & G1). destruct (cset_inv K _ _ _ _ H2) as (_ & _ & G2).
    rewrite G1, G2. destruct (j =? i); auto.
  Qed.

  Lemma agree_cset_hole : forall n es es' i e es1 es1',
    (forall j, j < n -> j <> i -> cget es j = cget es' j) ->
    cset es i e = Some es1 -> cset es' i e = Some es1' -> agree n es1 es1'.
  Proof.
    intros n es es' i e es1 es1' Hag H1 H2 j Hj.
    destruct (cset_inv K _ _ _ _ H1) as (_ & _ & G1). destruct (cset_inv K _ _ _ _ H2) as (_ & _ & G2).
    rewrite G1, G2. destruct (Nat.eqb_spec j i); auto.
  Qed.

  (** bubble_up reads only parents of the current position *)
  Lemma bubble_up_agree : forall k n fuel es es' pos r r', pos < n -> agree n es es' ->
    bubble_up K ltb fuel es pos k = Some r -> bubble_up K ltb fuel es' pos k = Some r' ->
    snd r = snd r' /\ agree n (fst r) (fst r').
  Proof.
    intros k n. induction fuel as [|f IH]; intros es es' pos r r' Hp Hag H1 H2; [discriminate|].
    cbn [Heap.bubble_up] in H1, H2.
    assert (Hpar : pos / 2 < n) by (pose proof (Nat.div_le_upper_bound pos 2 pos ltac:(lia) ltac:(lia)); lia).
    rewrite <- (Hag _ Hpar) in H2.
    destruct (cget es (pos / 2)) as [pe|]; cbn [obind] in *; [|discriminate].
    destruct (ltb k (ekey pe)).
    - destruct (cset es pos pe) as [es1|] eqn:E1; cbn [obind] in *; [|discriminate].
      destruct (cset es' pos pe) as [es1'|] eqn:E2; cbn [obind] in *; [|discriminate].
      apply (IH es1 es1' (pos / 2) r r'); auto. eapply agree_cset; eauto.
    - inversion H1; inversion H2; subst. auto.
  Qed.

  Lemma bubble_up_agree_hole : forall k n fuel es es' pos r r', 1 <= pos < n ->
    (forall j, j < n -> j <> pos -> cget es j = cget es' j) ->
    bubble_up K ltb fuel es pos k = Some r -> bubble_up K ltb fuel es' pos k = Some r' ->
    snd r = snd r' /\ (forall j, j < n -> j <> snd r -> cget (fst r) j = cget (fst r') j).
  Proof.
    intros k n [|f] es es' pos r r' Hp Hag H1 H2; [discriminate|].
    cbn [Heap.bubble_up] in H1, H2.
    assert (Hpar : pos / 2 < pos) by (apply Nat.div_lt; lia).
    rewrite <- (Hag (pos / 2)) in H2 by lia.
    destruct (cget es (pos / 2)) as [pe|]; cbn [obind] in *; [|discriminate].
    destruct (ltb k (ekey pe)).
    - destruct (cset es pos pe) as [es1|] eqn:E1; cbn [obind] in *; [|discriminate].
      destruct (cset es' pos pe) as [es1'|] eqn:E2; cbn [obind] in *; [|discriminate].
      destruct (bubble_up_agree k n f es1 es1' (pos / 2) r r' ltac:(lia)
                  (agree_cset_hole n es es' pos pe es1 es1' Hag E1 E2) H1 H2) as (A & B).
      split; [exact A|]. intros j Hj _. apply B; auto.
    - inversion H1; inversion H2; subst. auto.
  Qed.

  (** bubble_down reads cells 0..len only *)
  Lemma bubble_down_agree : forall len fuel es es' pos e2 e2', agree (S len) es es' ->
    bubble_down K ltb fuel es len pos = Some e2 -> bubble_down K ltb fuel es' len pos = Some e2' ->
    agree (S len) e2 e2'.
  Proof.
    intros len. induction fuel as [|f IH]; intros es es' pos e2 e2' Hag H1 H2.
    - cbn [Heap.bubble_down] in H1, H2. destruct (pos <? len); [discriminate|].
      inversion H1; inversion H2; subst; auto.
    - cbn [Heap.bubble_down] in H1, H2. destruct (pos <? len) eqn:Epl.
      2:{ inversion H1; inversion H2; subst; auto. }
      apply Nat.ltb_lt in Epl.
      assert (Hx : cget es' len = cget es len) by (symmetry; apply Hag; lia).
      assert (Hfin : forall cmp2, cmp2 <= len ->
                (e <- cget es cmp2 ;; es1 <- cset es pos e ;; bubble_down K ltb f es1 len cmp2) = Some e2 ->
                (e <- cget es' cmp2 ;; es1 <- cset es' pos e ;; bubble_down K ltb f es1 len cmp2) = Some e2' ->
                agree (S len) e2 e2').
      { intros cmp2 Hc F1 F2. rewrite <- (Hag cmp2) in F2 by lia.
        destruct (cget es cmp2) as [e|]; cbn [obind] in *; [|discriminate].
        destruct (cset es pos e) as [es1|] eqn:E1; cbn [obind] in *; [|discriminate].
        destruct (cset es' pos e) as [es1'|] eqn:E2; cbn [obind] in *; [|discriminate].
        apply (IH es1 es1' cmp2); auto. eapply agree_cset; eauto. }
      destruct (Nat.ltb_spec (2 * pos) len) as [L1|L1].
      + assert (Hc1 : cget es' (2 * pos) = cget es (2 * pos)) by (symmetry; apply Hag; lia).
        rewrite Hc1, Hx in H2.
        destruct (cget es (2 * pos)) as [c1|] eqn:Ec1; cbn [obind] in *; [|discriminate].
        destruct (cget es len) as [x|] eqn:Ex; cbn [obind] in *; [|discriminate].
        destruct (Nat.ltb_spec (2 * pos + 1) len) as [L2|L2].
        * assert (Hc2 : cget es' (2 * pos + 1) = cget es (2 * pos + 1)) by (symmetry; apply Hag; lia).
          rewrite Hc2 in H2.
          destruct (cget es (2 * pos + 1)) as [c2|] eqn:Ec2; cbn [obind] in *; [|discriminate].
          destruct (entry_lt K ltb c1 x); cbv beta iota in H1, H2.
          -- rewrite Hc1 in H2. rewrite Ec1 in H1. cbn [obind] in *.
             destruct (entry_lt K ltb c2 c1); cbv beta iota in H1, H2; (eapply Hfin; [|exact H1|exact H2]; lia).
          -- rewrite Hx in H2. rewrite Ex in H1. cbn [obind] in *.
             destruct (entry_lt K ltb c2 x); cbv beta iota in H1, H2; (eapply Hfin; [|exact H1|exact H2]; lia).
        * cbn [obind] in *. destruct (entry_lt K ltb c1 x); cbv beta iota in H1, H2; (eapply Hfin; [|exact H1|exact H2]; lia).
      + destruct (Nat.ltb_spec (2 * pos + 1) len) as [L2|L2]; [lia|].
        cbn [obind] in *. eapply Hfin; [|exact H1|exact H2]; lia.
  Qed.

  Lemma agree_weaken : forall n m es es', agree n es es' -> m <= n -> agree m es es'.
  Proof. intros n m es es' H Hm i Hi. apply H. lia. Qed.

  (** two heaps are indistinguishable when their arrays agree on 0 .. length-1 (or both hold nothing);
      size, cells beyond length and length 0-vs-1 of an empty heap are not observable *)
  Definition heq (h h' : heap K) : Prop :=
    (hlen h <= 1 /\ hlen h' <= 1) \/
    (hlen h = hlen h' /\ agree (hlen h) (entries h) (entries h')).

  Lemma root_loop_agree : forall cb cb', (forall e, cb e = cb' e) ->
    forall fuel h h' h1 h1' r r', hlen h = hlen h' -> agree (hlen h) (entries h) (entries h') ->
    root_loop K ltb bot fuel cb h = Some (h1, r) -> root_loop K ltb bot fuel cb' h' = Some (h1', r') ->
    r = r' /\ hlen h1 = hlen h1' /\ agree (hlen h1) (entries h1) (entries h1').
  Proof.
    intros cb cb' Hcb. induction fuel as [|f IH]; intros h h' h1 h1' r r' Hlen Hag H1 H2.
    - cbn [Heap.root_loop] in H1, H2. rewrite <- Hlen in H2.
      destruct (Nat.ltb_spec 1 (hlen h)) as [L|L].
      + rewrite <- (Hag 1 L) in H2. destruct (cget (entries h) 1) as [e1|]; cbn [obind] in *; [|discriminate].
        rewrite <- Hcb in H2. destruct (cb e1); [discriminate|].
        inversion H1; inversion H2; subst. auto.
      + inversion H1; inversion H2; subst. auto.
    - cbn [Heap.root_loop] in H1, H2. rewrite <- Hlen in H2.
      destruct (Nat.ltb_spec 1 (hlen h)) as [L|L].
      2:{ inversion H1; inversion H2; subst. auto. }
      rewrite <- (Hag 1 L) in H2. destruct (cget (entries h) 1) as [e1|]; cbn [obind] in *; [|discriminate].
      rewrite <- Hcb in H2. destruct (cb e1).
      2:{ inversion H1; inversion H2; subst. auto. }
      rewrite <- (Hag (hlen h - 1)) in H2 by lia.
      destruct (cget (entries h) (hlen h - 1)) as [el|]; cbn [obind] in *; [|discriminate].
      destruct (cset (entries h) 1 el) as [es1|] eqn:E1; cbn [obind] in *; [|discriminate].
      destruct (cset (entries h') 1 el) as [es1'|] eqn:E2; cbn [obind] in *; [|discriminate].
      destruct (bubble_down K ltb (hlen h - 1) es1 (hlen h - 1) 1) as [es2|] eqn:B1; cbn [obind] in *; [|discriminate].
      destruct (bubble_down K ltb (hlen h - 1) es1' (hlen h - 1) 1) as [es2'|] eqn:B2; cbn [obind] in *; [|discriminate].
      assert (Hag1 : agree (S (hlen h - 1)) es1 es1').
      { replace (S (hlen h - 1)) with (hlen h) by lia. eapply agree_cset; eauto. }
      pose proof (bubble_down_agree _ _ _ _ _ _ _ Hag1 B1 B2) as Hag2.
      assert (Hag3 : agree (hlen h - 1) es2 es2') by (eapply agree_weaken; [exact Hag2|lia]).
      apply (IH (mkHeap es2 (hlen h - 1) (hsize h)) (mkHeap es2' (hlen h - 1) (hsize h')) _ _ _ _ eq_refl Hag3 H1 H2).
  Qed.

  Lemma del_loop_agree : forall hd n fuel es es' len ci e2 l2 e2' l2', len <= n -> agree n es es' ->
    del_loop K fuel es len ci hd = Some (e2, l2) -> del_loop K fuel es' len ci hd = Some (e2', l2') ->
    l2 = l2' /\ l2 <= len /\ agree n e2 e2'.
  Proof.
    intros hd n. induction fuel as [|f IH]; intros es es' len ci e2 l2 e2' l2' Hn Hag H1 H2.
    - cbn [Heap.del_loop] in H1, H2. destruct (ci <? len); [discriminate|].
      inversion H1; inversion H2; subst. auto.
    - cbn [Heap.del_loop] in H1, H2. destruct (Nat.ltb_spec ci len) as [L|L].
      2:{ inversion H1; inversion H2; subst. auto. }
      rewrite <- (Hag ci) in H2 by lia.
      destruct (cget es ci) as [e|]; cbn [obind] in *; [|discriminate].
      destruct (hd_eqb (ehd e) (Some hd)).
      + rewrite <- (Hag (len - 1)) in H2 by lia.
        destruct (cget es (len - 1)) as [el|]; cbn [obind] in *; [|discriminate].
        destruct (cset es ci el) as [es1|] eqn:E1; cbn [obind] in *; [|discriminate].
        destruct (cset es' ci el) as [es1'|] eqn:E2; cbn [obind] in *; [|discriminate].
        destruct (IH es1 es1' (len - 1) ci _ _ _ _ ltac:(lia) (agree_cset _ _ _ _ _ _ _ Hag E1 E2) H1 H2) as (A & B & C).
        split; [exact A|]. split; [lia|exact C].
      + destruct (IH es es' len (S ci) _ _ _ _ Hn Hag H1 H2) as (A & B & C). auto.
  Qed.

  Lemma heapify_agree : forall len idx es es' e2 e2', idx < len \/ idx = 0 -> agree len es es' ->
    heapify K ltb idx es len = Some e2 -> heapify K ltb idx es' len = Some e2' -> agree len e2 e2'.
  Proof.
    intros len. induction idx as [|i IH]; intros es es' e2 e2' Hi Hag H1 H2.
    - cbn in H1, H2. inversion H1; inversion H2; subst; auto.
    - cbn [Heap.heapify] in H1, H2. destruct Hi as [Hi|Hi]; [|discriminate].
      rewrite <- (Hag (S i) Hi) in H2.
      destruct (cget es (S i)) as [e|]; cbn [obind] in *; [|discriminate].
      destruct (cset es len e) as [es1|] eqn:E1; cbn [obind] in *; [|discriminate].
      destruct (cset es' len e) as [es1'|] eqn:E2; cbn [obind] in *; [|discriminate].
      destruct (bubble_down K ltb len es1 len (S i)) as [es2|] eqn:B1; cbn [obind] in *; [|discriminate].
      destruct (bubble_down K ltb len es1' len (S i)) as [es2'|] eqn:B2; cbn [obind] in *; [|discriminate].
      assert (Hag1 : agree (S len) es1 es1').
      { apply (agree_cset_hole (S len) es es' len e); auto. intros j Hj Hne. apply Hag. lia. }
      pose proof (bubble_down_agree _ _ _ _ _ _ _ Hag1 B1 B2) as Hag2.
      apply (IH es2 es2'); auto. { left; lia. } eapply agree_weaken; eauto.
  Qed.

  Lemma root_heq : forall cb cb', (forall e, cb e = cb' e) -> forall h h' h1 h1' r r', heq h h' ->
    root K ltb bot cb h = Some (h1, r) -> root K ltb bot cb' h' = Some (h1', r') -> r = r' /\ heq h1 h1'.
  Proof.
    intros cb cb' Hcb h h' h1 h1' r r' [(L & L')|(Hlen & Hag)] H1 H2; unfold Heap.root in *.
    - assert (E1 : forall c f (g : heap K), hlen g <= 1 -> root_loop K ltb bot f c g = Some (g, sentinel bot)).
      { intros c f g Hg. destruct f; cbn [Heap.root_loop]; destruct (Nat.ltb_spec 1 (hlen g)); try lia; reflexivity. }
      rewrite E1 in H1, H2 by auto. inversion H1; inversion H2; subst. split; [reflexivity|left; auto].
    - rewrite <- Hlen in H2.
      destruct (root_loop_agree cb cb' Hcb _ _ _ _ _ _ _ Hlen Hag H1 H2) as (A & B & C).
      split; [exact A|right; auto].
  Qed.

  Lemma delete_events_heq : forall hd h h' h1 h1', heq h h' ->
    delete_events K ltb h hd = Some h1 -> delete_events K ltb h' hd = Some h1' -> heq h1 h1'.
  Proof.
    intros hd h h' h1 h1' Hq H1 H2. unfold Heap.delete_events in *.
    destruct (del_loop K (hlen h) (entries h) (hlen h) 1 hd) as [[es1 l1]|] eqn:D1; cbn [obind] in *; [|discriminate].
    destruct (del_loop K (hlen h') (entries h') (hlen h') 1 hd) as [[es1' l1']|] eqn:D2; cbn [obind] in *; [|discriminate].
    destruct (heapify K ltb (l1 / 2) es1 l1) as [es2|] eqn:F1; cbn [obind] in *; [|discriminate].
    destruct (heapify K ltb (l1' / 2) es1' l1') as [es2'|] eqn:F2; cbn [obind] in *; [|discriminate].
    inversion H1; inversion H2; subst. clear H1 H2.
    destruct Hq as [(L & L')|(Hlen & Hag)].
    - left. cbn [hlen].
      assert (E : forall f es len, len <= 1 -> del_loop K f es len 1 hd = Some (es, len)).
      { intros f es len Hl. destruct f; cbn [Heap.del_loop]; destruct (Nat.ltb_spec 1 len); try lia; reflexivity. }
      rewrite E in D1, D2 by auto. inversion D1; inversion D2; subst. auto.
    - rewrite <- Hlen in D2.
      destruct (del_loop_agree hd (hlen h) _ _ _ _ _ _ _ _ _ (le_n _) Hag D1 D2) as (A & B & C). subst l1'.
      right. cbn [hlen entries]. split; [reflexivity|].
      apply (heapify_agree l1 (l1 / 2) es1 es1' es2 es2'); auto.
      + destruct (Nat.eq_dec l1 0) as [->|Hn]; [right; reflexivity|left; apply Nat.div_lt; lia].
      + eapply agree_weaken; eauto.
  Qed.

  Variable good : K -> Prop.

  Lemma insert_heq : forall h h' k hd c h1 h1', heq h h' ->
    heap_inv K ltb bot good h -> heap_inv K ltb bot good h' ->
    insert K ltb bot h k hd c = Some h1 -> insert K ltb bot h' k hd c = Some h1' -> heq h1 h1'.
  Proof.
    intros h h' k hd c h1 h1' Hq Hinv Hinv' H1 H2.
    destruct (insert_prep_spec K ltb bot good h Hinv) as (es & pos & size & Hprep & P1 & P2 & P3 & _ & P5 & _).
    destruct (insert_prep_spec K ltb bot good h' Hinv') as (es' & pos' & size' & Hprep' & P1' & P2' & P3' & _ & P5' & _).
    destruct (insert_prep_frame K ltb bot good h Hinv _ _ _ _ Hprep) as (Hp & Hfr).
    destruct (insert_prep_frame K ltb bot good h' Hinv' _ _ _ _ Hprep') as (Hp' & Hfr').
    assert (Hpos : pos = pos' /\ forall j, j < S pos -> j <> pos -> cget es j = cget es' j).
    { destruct Hq as [(L & L')|(Hlen & Hag)].
      - assert (pos = 1) by (subst pos; destruct (hlen h) as [|[|n]]; cbn; lia).
        assert (pos' = 1) by (subst pos'; destruct (hlen h') as [|[|n]]; cbn; lia).
        split; [lia|]. intros j Hj Hne. assert (j = 0) by lia. subst j. congruence.
      - split; [subst pos pos'; rewrite Hlen; reflexivity|].
        assert (Hpl : pos = hlen h \/ (pos = 1 /\ hlen h = 0)).
        { subst pos. destruct (hlen h); cbn; auto. }
        intros j Hj Hne. destruct (Nat.eq_dec j 0) as [->|Hj0]; [congruence|].
        assert (Hpp : pos' = pos) by (subst pos pos'; rewrite Hlen; reflexivity).
        rewrite Hfr by lia. rewrite Hfr' by lia. apply Hag. lia. }
    destruct Hpos as (<- & Hagx).
    rewrite insert_unfold, Hprep in H1. rewrite insert_unfold, Hprep' in H2. cbn [obind] in H1, H2.
    destruct (bubble_up K ltb (S pos) es pos k) as [[e2 p2]|] eqn:B1; cbn [obind] in *; [|discriminate].
    destruct (bubble_up K ltb (S pos) es' pos k) as [[e2' p2']|] eqn:B2; cbn [obind] in *; [|discriminate].
    assert (Hrange : 1 <= pos < S pos) by lia.
    destruct (bubble_up_agree_hole k (S pos) _ _ _ _ _ _ Hrange Hagx B1 B2) as (A & B). cbn [fst snd] in A, B. subst p2'.
    destruct (cset e2 p2 _) as [e3|] eqn:C1; cbn [obind] in *; [|discriminate].
    destruct (cset e2' p2 _) as [e3'|] eqn:C2; cbn [obind] in *; [|discriminate].
    pose proof (agree_cset_hole (S pos) e2 e2' p2 _ _ _ B C1 C2) as Hfin.
    inversion H1; inversion H2; subst. right. cbn [hlen entries]. split; [reflexivity|]. exact Hfin.
  Qed.
End Lockstep.

(** * Part B: the heap-scheduler model as a scheduler of Model/Dump.v (float instance) *)
From Coq Require Import ZArith.
Require Import JF.Base.F64 JF.Model.Time JF.Model.Dump JF.Proofs.DumpProofs.

Notation finv := (heap_inv fkey fkey_lt fkey_bot good_key).
Notation fhsched := (hsched fkey).
Notation f_push := (hs_push fkey fkey_lt fkey_bot fkey_inf).
Notation f_get := (hs_get fkey fkey_lt fkey_bot).
Notation f_pickle := (hs_pickle fkey fkey_lt fkey_bot).
Notation fheq := (heq fkey).

(** the invariant of a heap-scheduler state (holds in every reachable state, [reach_hs_inv]) *)
Definition hs_inv (s : fhsched) : Prop :=
  finv (hs_heap s) /\ hs_alloc s = heap_bytes (hs_heap s).

(** observational equivalence of two heap-scheduler states: same array on 0..length-1 (hence same
    handler on ties), same counters, same last returned time.  NOT compared: allocated size
    ([hsize], [hs_alloc]), cells at and beyond [length], length 0 vs 1 of a heap without entries. *)
Definition seqv (s s' : fhsched) : Prop :=
  hs_inv s /\ hs_inv s' /\ fheq (hs_heap s) (hs_heap s') /\
  (forall hd, hs_mvc s hd = hs_mvc s' hd) /\ hs_last s = hs_last s'.

Lemma seqv_refl : forall s, hs_inv s -> seqv s s.
Proof.
  intros s H. split; [exact H|]. split; [exact H|]. split; [|split; reflexivity].
  right. split; [reflexivity|]. intros i Hi; reflexivity.
Qed.

Lemma getstate_heq : forall h h' l, finv h -> finv h' ->
  getstate_loop fkey fkey_bot (S (hlen h)) h 0 = Some l ->
  getstate_loop fkey fkey_bot (S (hlen h')) h' 0 = Some l -> fheq h h'.
Proof.
  intros h h' l Hinv Hinv' G G'.
  destruct (getstate_spec fkey fkey_lt fkey_bot good_key h Hinv (S (hlen h)) 0 ltac:(lia) ltac:(lia)) as (l1 & G1 & _ & N1).
  destruct (getstate_spec fkey fkey_lt fkey_bot good_key h' Hinv' (S (hlen h')) 0 ltac:(lia) ltac:(lia)) as (l2 & G2 & _ & N2).
  rewrite G in G1. rewrite G' in G2. inversion G1; inversion G2; subst l1 l2. clear G1 G2.
  assert (Hcell : forall (g : heap fkey), finv g -> forall i, 1 <= i < hlen g -> cget (entries g) i <> None).
  { intros g (_ & [(H0 & _)|(H1 & H2 & H3 & H4 & H5)]) i Hi; [lia|].
    destruct (H4 i Hi) as (e & He & _). congruence. }
  assert (Hge : forall (g g' : heap fkey), finv g -> 2 <= hlen g ->
            (forall j, nth_error l j = if 0 + 1 + j <? hlen g then cget (entries g) (0 + 1 + j) else None) ->
            (forall j, nth_error l j = if 0 + 1 + j <? hlen g' then cget (entries g') (0 + 1 + j) else None) ->
            hlen g <= hlen g').
  { intros g g' Hg H2 Ng Ng'. pose proof (Ng (hlen g - 2)) as A. pose proof (Ng' (hlen g - 2)) as B.
    destruct (Nat.ltb_spec (0 + 1 + (hlen g - 2)) (hlen g)); [|lia].
    destruct (Nat.ltb_spec (0 + 1 + (hlen g - 2)) (hlen g')) as [L|L]; [lia|].
    rewrite B in A. symmetry in A. apply (Hcell g Hg) in A; [contradiction|lia]. }
  destruct (le_lt_dec (hlen h) 1) as [L|L]; destruct (le_lt_dec (hlen h') 1) as [L'|L'].
  - left; auto.
  - pose proof (Hge h' h Hinv' ltac:(lia) N2 N1). lia.
  - pose proof (Hge h h' Hinv ltac:(lia) N1 N2). lia.
  - pose proof (Hge h h' Hinv ltac:(lia) N1 N2). pose proof (Hge h' h Hinv' ltac:(lia) N2 N1).
    assert (E : hlen h = hlen h') by lia. right. split; [exact E|].
    intros i Hi. destruct (Nat.eq_dec i 0) as [->|Hi0].
    + destruct Hinv as (_ & [(Z0 & _)|(_ & _ & Z3 & _)]); [lia|].
      destruct Hinv' as (_ & [(Z0' & _)|(_ & _ & Z3' & _)]); [lia|]. congruence.
    + pose proof (N1 (i - 1)) as A. pose proof (N2 (i - 1)) as B.
      replace (0 + 1 + (i - 1)) with i in A, B by lia.
      destruct (Nat.ltb_spec i (hlen h)); [|lia]. destruct (Nat.ltb_spec i (hlen h')); [|lia]. congruence.
Qed.

(** (1a) __setstate__ (__getstate__ s) is equivalent to s *)
Lemma pickle_seqv : forall s, hs_inv s -> exists s', f_pickle s = Some s' /\ seqv s s'.
Proof.
  intros s (Hinv & Hal). unfold hs_pickle, hs_getstate.
  destruct (pickle_exact fkey fkey_lt fkey_bot good_key fkey_asym fkey_le_trans fkey_bot_least fkey_bot_good
              (hs_heap s) Hinv) as (l & h' & G & Rb & Hinv' & G').
  rewrite G. cbn [obind]. rewrite Rb. cbn [obind]. eexists. split; [reflexivity|].
  split; [split; assumption|]. split; [split; [exact Hinv'|reflexivity]|].
  split; [exact (getstate_heq _ _ l Hinv Hinv' G G')|]. split; reflexivity.
Qed.

Lemma hs_cb_ext : forall (m m' : N -> N), (forall hd, m hd = m' hd) -> forall e : entry fkey, hs_cb fkey m e = hs_cb fkey m' e.
Proof. intros m m' H e. unfold hs_cb. destruct (ehd e); [rewrite H|]; reflexivity. Qed.

Lemma push_seqv : forall s s' t hd, seqv s s' -> good_key t ->
  exists s1 s1', f_push s t hd = Some (s1, ONone) /\ f_push s' t hd = Some (s1', ONone) /\ seqv s1 s1'.
Proof.
  intros s s' t hd ((Hinv & Hal) & (Hinv' & Hal') & Hq & Hm & Hl) Ht. unfold hs_push.
  destruct (fkey_lt t fkey_inf).
  2:{ exists s, s'. split; [reflexivity|]. split; [reflexivity|].
      split; [split; assumption|]. split; [split; assumption|]. split; [assumption|]. split; assumption. }
  rewrite <- (Hm hd).
  destruct (N.ltb (hs_mvc s hd) two32).
  - destruct (insert_spec fkey fkey_lt fkey_bot good_key fkey_asym fkey_le_trans fkey_bot_least fkey_bot_good
                (hs_heap s) t hd (hs_mvc s hd) Hinv Ht) as (h1 & I1 & Hinv1 & _ & Hsz1 & _).
    destruct (insert_spec fkey fkey_lt fkey_bot good_key fkey_asym fkey_le_trans fkey_bot_least fkey_bot_good
                (hs_heap s') t hd (hs_mvc s hd) Hinv' Ht) as (h1' & I1' & Hinv1' & _ & Hsz1' & _).
    rewrite I1, I1'. cbn [obind]. cbv beta iota zeta.
    destruct (push_alloc fkey (hs_heap s) h1 (hs_mvc s) (hs_last s) (hs_alloc s) Hal Hsz1) as (a & Ha & Ea).
    destruct (push_alloc fkey (hs_heap s') h1' (hs_mvc s') (hs_last s') (hs_alloc s') Hal' Hsz1') as (a' & Ha' & Ea').
    rewrite Ha, Ha'. eexists _, _. split; [reflexivity|]. split; [reflexivity|].
    split; [split; assumption|]. split; [split; assumption|].
    split; [exact (insert_heq fkey fkey_lt fkey_bot good_key _ _ _ _ _ _ _ Hq Hinv Hinv' I1 I1')|].
    split; assumption.
  - destruct (delete_events_spec fkey fkey_lt fkey_bot good_key fkey_asym fkey_le_trans fkey_bot_least
                (hs_heap s) hd Hinv) as (h0 & D0 & Hinv0 & Hsz0 & _).
    destruct (delete_events_spec fkey fkey_lt fkey_bot good_key fkey_asym fkey_le_trans fkey_bot_least
                (hs_heap s') hd Hinv') as (h0' & D0' & Hinv0' & Hsz0' & _).
    destruct (insert_spec fkey fkey_lt fkey_bot good_key fkey_asym fkey_le_trans fkey_bot_least fkey_bot_good
                h0 t hd 0%N Hinv0 Ht) as (h1 & I1 & Hinv1 & _ & Hsz1 & _).
    destruct (insert_spec fkey fkey_lt fkey_bot good_key fkey_asym fkey_le_trans fkey_bot_least fkey_bot_good
                h0' t hd 0%N Hinv0' Ht) as (h1' & I1' & Hinv1' & _ & Hsz1' & _).
    rewrite D0, D0'. cbn [obind]. rewrite I1, I1'. cbn [obind]. cbv beta iota zeta.
    destruct (push_alloc fkey (hs_heap s) h1 (mvc_set (hs_mvc s) hd 0%N) (hs_last s) (hs_alloc s) Hal ltac:(lia)) as (a & Ha & Ea).
    destruct (push_alloc fkey (hs_heap s') h1' (mvc_set (hs_mvc s') hd 0%N) (hs_last s') (hs_alloc s') Hal' ltac:(lia)) as (a' & Ha' & Ea').
    rewrite Ha, Ha'. eexists _, _. split; [reflexivity|]. split; [reflexivity|].
    split; [split; assumption|]. split; [split; assumption|].
    split.
    { apply (insert_heq fkey fkey_lt fkey_bot good_key h0 h0' t hd 0%N h1 h1'); auto.
      exact (delete_events_heq fkey fkey_lt hd _ _ _ _ Hq D0 D0'). }
    split; [|assumption]. intros x. cbn [hs_mvc]. unfold mvc_set. rewrite Hm. reflexivity.
Qed.

Lemma bump_seqv : forall s s' hd n, seqv s s' -> seqv (hs_bump fkey s hd n) (hs_bump fkey s' hd n).
Proof.
  intros s s' hd n (I & I' & Hq & Hm & Hl). unfold hs_bump, seqv, hs_inv in *. cbn [hs_heap hs_mvc hs_last hs_alloc].
  repeat (split; [tauto|]). split; [|exact Hl]. intros x. unfold mvc_set. rewrite !Hm. reflexivity.
Qed.

Lemma get_seqv : forall s s', seqv s s' ->
  exists s1 s1' out, f_get s = Some (s1, out) /\ f_get s' = Some (s1', out) /\ seqv s1 s1'.
Proof.
  intros s s' ((Hinv & Hal) & (Hinv' & Hal') & Hq & Hm & Hl). unfold hs_get.
  destruct (root_spec fkey fkey_lt fkey_bot good_key fkey_asym fkey_le_trans fkey_bot_least
              (hs_cb fkey (hs_mvc s)) (hs_heap s) Hinv) as (h1 & r & R1 & Hinv1 & Hsz1 & _).
  destruct (root_spec fkey fkey_lt fkey_bot good_key fkey_asym fkey_le_trans fkey_bot_least
              (hs_cb fkey (hs_mvc s')) (hs_heap s') Hinv') as (h1' & r' & R1' & Hinv1' & Hsz1' & _).
  destruct (root_heq fkey fkey_lt fkey_bot _ _ (hs_cb_ext _ _ Hm) _ _ _ _ _ _ Hq R1 R1') as (<- & Hq1).
  rewrite R1, R1'. cbn [obind]. rewrite <- Hl.
  assert (B : forall last last', last = last' ->
            seqv (mkHS h1 (hs_mvc s) last (hs_alloc s)) (mkHS h1' (hs_mvc s') last' (hs_alloc s'))).
  { intros last last' <-. unfold seqv, hs_inv. cbn [hs_heap hs_mvc hs_last hs_alloc].
    split; [split; [exact Hinv1|rewrite Hal; unfold heap_bytes; rewrite Hsz1; reflexivity]|].
    split; [split; [exact Hinv1'|rewrite Hal'; unfold heap_bytes; rewrite Hsz1'; reflexivity]|].
    split; [exact Hq1|]. split; [exact Hm|reflexivity]. }
  destruct (ehd r).
  - destruct (fkey_lt (ekey r) (hs_last s)); eexists _, _, _; (split; [reflexivity|]); (split; [reflexivity|]); apply B; reflexivity.
  - eexists _, _, _. split; [reflexivity|]. split; [reflexivity|]. apply B; reflexivity.
Qed.

(** ** wrappers with the signatures of Model/Dump.v.
    [Sc] = option state: [None] is a stuck scheduler (model-level memory fault, MemoryError, or a NaN
    time, which is excluded by hypothesis everywhere in C06); nothing is ever returned from it. *)
Definition Sc : Type := option fhsched.
Definition goodb (t : fkey) : bool := negb (fisnan (fst t)) && negb (fisnan (snd t)).
Lemma goodb_spec : forall t, goodb t = true <-> good_key t.
Proof.
  intros [q r]. unfold goodb, good_key. cbn [fst snd]. rewrite andb_true_iff, !negb_true_iff. tauto.
Qed.

Definition w_push (o : Sc) (t : fkey) (hd : N) : Sc :=
  match o with
  | None => None
  | Some s => if goodb t then match f_push s t hd with Some (s', ONone) => Some s' | _ => None end else None
  end.
Definition w_trash (o : Sc) (hd : N) : Sc := option_map (fun s => hs_trash fkey s hd) o.
(** stateful get: the handler and the state after lazy deletion and the guard update; the two
    SchedulerErrors (empty, decreasing time) end the run ([None]) *)
Definition w_getst (o : Sc) : option (N * Sc) :=
  match o with
  | Some s => match f_get s with Some (s', OGot hd _) => Some (hd, Some s') | _ => None end
  | None => None
  end.
(** Dump.v's get is a pure function of the scheduler: the handler only *)
Definition w_get (o : Sc) : option N := option_map fst (w_getst o).

Definition oeqv (o o' : Sc) : Prop :=
  match o, o' with
  | None, None => True
  | Some s, Some s' => seqv s s'
  | _, _ => False
  end.

Lemma w_push_eqv : forall o o' t hd, oeqv o o' -> oeqv (w_push o t hd) (w_push o' t hd).
Proof.
  intros [s|] [s'|] t hd H; cbn in H; try contradiction; cbn [w_push]; [|exact I].
  destruct (goodb t) eqn:G; [|exact I]. apply goodb_spec in G.
  destruct (push_seqv s s' t hd H G) as (s1 & s1' & P & P' & Hs). rewrite P, P'. exact Hs.
Qed.

Lemma w_trash_eqv : forall o o' hd, oeqv o o' -> oeqv (w_trash o hd) (w_trash o' hd).
Proof.
  intros [s|] [s'|] hd H; cbn in H; try contradiction; cbn; [|exact I].
  apply (bump_seqv s s' hd 1%N H).
Qed.

Lemma w_getst_eqv : forall o o', oeqv o o' ->
  match w_getst o, w_getst o' with
  | Some (h, o1), Some (h', o1') => h = h' /\ oeqv o1 o1'
  | None, None => True
  | _, _ => False
  end.
Proof.
  intros [s|] [s'|] H; cbn in H; try contradiction; cbn [w_getst]; [|exact I].
  destruct (get_seqv s s' H) as (s1 & s1' & out & G & G' & Hs). rewrite G, G'.
  destruct out; try exact I. split; [reflexivity|exact Hs].
Qed.

Lemma w_get_eqv : forall o o', oeqv o o' -> w_get o = w_get o'.
Proof.
  intros o o' H. pose proof (w_getst_eqv o o' H) as G. unfold w_get.
  destruct (w_getst o) as [[h o1]|], (w_getst o') as [[h' o1']|]; try contradiction; cbn; [|reflexivity].
  destruct G as (-> & _). reflexivity.
Qed.

(** (1) pickle_bisim *)
Theorem pickle_bisim_proof :
  (forall s, hs_inv s -> exists s', f_pickle s = Some s' /\ oeqv (Some s) (Some s')) /\
  bisim Sc N fkey w_push w_trash w_get oeqv.
Proof.
  split; [exact pickle_seqv|]. constructor.
  - intros; apply w_push_eqv; assumption.
  - intros; apply w_trash_eqv; assumption.
  - exact w_get_eqv.
Qed.

(** (2) via Dump.run *)
Theorem resume_same_trace_heap_proof :
  forall (R E : Type) (produce : R -> list (fkey * N) * R) (commit : R -> N -> option (E * R * list N))
         (s : fhsched), hs_inv s ->
  exists s', f_pickle s = Some s' /\
    forall n r, run R Sc N fkey E w_push w_trash w_get produce commit n (r, Some s) =
                run R Sc N fkey E w_push w_trash w_get produce commit n (r, Some s').
Proof.
  intros R E produce commit s Hs. destruct (pickle_seqv s Hs) as (s' & P & Hq). exists s'. split; [exact P|].
  intros n r. apply (run_eqv R Sc N fkey E w_push w_trash w_get produce commit oeqv (proj2 pickle_bisim_proof)).
  exact Hq.
Qed.

(** ** the same with a get that changes the scheduler (what the real get_succeeding_event does) *)
Section MediatorSt.
  Variables R S H T E : Type.
  Variable push : S -> T -> H -> S.
  Variable trash : S -> H -> S.
  Variable getst : S -> option (H * S).
  Variable produce : R -> list (T * H) * R.
  Variable commit : R -> H -> option (E * R * list H).

  Definition leg_st (st : R * S) : option (E * (R * S)) :=
    let '(cands, r1) := produce (fst st) in
    let s1 := push_all S H T push (snd st) cands in
    match getst s1 with
    | None => None
    | Some (h, s1') =>
        match commit r1 h with
        | None => None
        | Some (e, r2, tr) => Some (e, (r2, trash_all S H trash s1' tr))
        end
    end.

  Fixpoint run_st (n : nat) (st : R * S) : list E :=
    match n with
    | O => []
    | Datatypes.S n' => match leg_st st with
              | Some (e, st') => e :: run_st n' st'
              | None => []
              end
    end.

  Variable eqv : S -> S -> Prop.
  Hypothesis Hpush : forall s s' t h, eqv s s' -> eqv (push s t h) (push s' t h).
  Hypothesis Htrash : forall s s' h, eqv s s' -> eqv (trash s h) (trash s' h).
  Hypothesis Hget : forall s s', eqv s s' ->
    match getst s, getst s' with
    | Some (h, s1), Some (h', s1') => h = h' /\ eqv s1 s1'
    | None, None => True
    | _, _ => False
    end.

  Lemma push_all_eqv_st : forall l s s', eqv s s' -> eqv (push_all S H T push s l) (push_all S H T push s' l).
  Proof. unfold push_all. induction l as [|c l IH]; intros s s' He; cbn; auto. Qed.
  Lemma trash_all_eqv_st : forall l s s', eqv s s' -> eqv (trash_all S H trash s l) (trash_all S H trash s' l).
  Proof. unfold trash_all. induction l as [|c l IH]; intros s s' He; cbn; auto. Qed.

  Theorem run_st_eqv : forall n r s s', eqv s s' -> run_st n (r, s) = run_st n (r, s').
  Proof.
    induction n as [|n IH]; intros r s s' He; [reflexivity|]. cbn [run_st]. unfold leg_st. cbn [fst snd].
    destruct (produce r) as [cands r1].
    pose proof (Hget _ _ (push_all_eqv_st cands s s' He)) as G.
    destruct (getst (push_all S H T push s cands)) as [[h s1]|],
             (getst (push_all S H T push s' cands)) as [[h' s1']|]; try contradiction; [|reflexivity].
    destruct G as (<- & He1). destruct (commit r1 h) as [[[e r2] tr]|]; [|reflexivity].
    f_equal. apply IH. apply trash_all_eqv_st. exact He1.
  Qed.
End MediatorSt.

(** Dump.run is the special case of a get that leaves the scheduler unchanged *)
Lemma run_st_pure : forall R S H T E push trash (get : S -> option H) produce commit n st,
  run_st R S H T E push trash (fun s => option_map (fun h => (h, s)) (get s)) produce commit n st =
  run R S H T E push trash get produce commit n st.
Proof.
  intros R S H T E push trash get produce commit. induction n as [|n IH]; intros [r s]; [reflexivity|].
  cbn [run_st run]. unfold leg_st, leg. cbn [fst snd]. destruct (produce r) as [cands r1].
  destruct (get (push_all S H T push s cands)) as [h|]; cbn [option_map]; [|reflexivity].
  destruct (commit r1 h) as [[[e r2] tr]|]; [|reflexivity]. rewrite IH. reflexivity.
Qed.

Theorem resume_same_trace_heap_st_proof :
  forall (R E : Type) (produce : R -> list (fkey * N) * R) (commit : R -> N -> option (E * R * list N))
         (s : fhsched), hs_inv s ->
  exists s', f_pickle s = Some s' /\
    forall n r, run_st R Sc N fkey E w_push w_trash w_getst produce commit n (r, Some s) =
                run_st R Sc N fkey E w_push w_trash w_getst produce commit n (r, Some s').
Proof.
  intros R E produce commit s Hs. destruct (pickle_seqv s Hs) as (s' & P & Hq). exists s'. split; [exact P|].
  intros n r. apply (run_st_eqv R Sc N fkey E w_push w_trash w_getst produce commit oeqv w_push_eqv w_trash_eqv w_getst_eqv).
  exact Hq.
Qed.

(** every state reached by any operation sequence (no NaN time) satisfies [hs_inv] *)
Lemma reach_hs_inv : forall ops, Forall (good_op fkey good_key) ops ->
  exists s outs, hs_run fkey fkey_lt fkey_bot fkey_inf (hs_init fkey fkey_bot) ops = Some (s, outs) /\ hs_inv s.
Proof.
  intros ops H.
  destruct (reach_R fkey fkey_lt fkey_bot fkey_inf good_key fkey_asym fkey_le_trans fkey_bot_least fkey_bot_good ops H)
    as (s & outs & Hrun & HR & _).
  exists s, outs. split; [exact Hrun|]. split; [apply (r_inv _ _ _ _ _ _ _ HR)|apply (r_alloc _ _ _ _ _ _ _ HR)].
Qed.

(** ListScheduler: pickled as is (dill stores [_times] and [_last_returned_event]): the model's pickle
    is the identity, so the resumed scheduler is the same value and equality is the bisimulation. *)
Lemma list_pickle_id : forall ls : lsched fkey, fst (ls_step fkey fkey_lt ls OpPickle) = ls.
Proof. reflexivity. Qed.
