(** * Proofs/WiringProofs.v — the static wiring checks hold along EVERY history of firings (C08 / C09). *)
From Coq Require Import List Arith Bool Lia.
Require Import JF.Model.Kinematics JF.Model.Reach JF.Model.Wiring JF.Proofs.ReachProofs.
Import ListNotations.

Lemma avec_eqb_spec : forall a b, avec_eqb a b = true <-> a = b.
Proof.
  induction a as [|x a IH]; destruct b as [|y b]; cbn [avec_eqb]; split; intros H;
    try reflexivity; try discriminate.
  - apply andb_prop in H. destruct H as [H1 H2]. apply eqb_prop in H1. apply IH in H2. subst. reflexivity.
  - injection H as -> ->. rewrite eqb_reflx. apply IH. reflexivity.
Qed.

Lemma mstate_eqb_spec : forall x y, mstate_eqb x y = true <-> x = y.
Proof.
  intros [m a] [m' a']. unfold mstate_eqb. cbn [fst snd]. split.
  - intros H. apply andb_prop in H. destruct H as [H1 H2].
    apply Nat.eqb_eq in H1. apply avec_eqb_spec in H2. subst. reflexivity.
  - intros H. injection H as -> ->. rewrite Nat.eqb_refl. apply avec_eqb_spec. reflexivity.
Qed.

(** the closure used by [wiring_static_ok] is the generic one *)
Lemma closure_generic w : forall f seen fr,
  closure w f seen fr = closureG avec_eqb (vsucc w) f seen fr.
Proof.
  induction f as [|f IH]; intros seen fr; cbn [closure closureG].
  - reflexivity.
  - destruct fr as [|a rest]; [reflexivity|]. apply IH.
Qed.

(** Every activation vector reachable from the start of the run by ANY finite sequence of events
    of taggers that can fire satisfies the create / trash conditions of [pair_ok]. *)
Lemma static_ok_all_histories (w : swiring) :
  wiring_static_ok w = true ->
  exists s, start_index w = Some s /\ pair_ok w (all_on w) s true = true /\
    forall a, reach avec (vsucc w) (apply_act w (all_on w) s) a ->
    forall t, In t (can_fire w a) -> pair_ok w a t false = true.
Proof.
  unfold wiring_static_ok. destruct (start_index w) as [s|]; [|discriminate].
  intros H. apply andb_prop in H. destruct H as [H0 H]. exists s. split; [reflexivity|]. split; [exact H0|].
  rewrite closure_generic in H.
  destruct (closureG avec_eqb (vsucc w) 64 [apply_act w (all_on w) s] [apply_act w (all_on w) s]) as [r|] eqn:Hc;
    [|discriminate].
  intros a Hr t Ht.
  pose proof (closure_sound avec avec_eqb (vsucc w) avec_eqb_spec 64 _ r Hc a Hr) as Hin.
  rewrite forallb_forall in H. specialize (H a Hin). rewrite forallb_forall in H. apply H. exact Ht.
Qed.

Lemma mode_fun_on_spec l : mode_fun_on l = true ->
  forall m a a', In (m, a) l -> In (m, a') l -> a = a'.
Proof.
  unfold mode_fun_on. intros H m a a' H1 H2. rewrite forallb_forall in H.
  specialize (H _ H1). rewrite forallb_forall in H. specialize (H _ H2). cbn [fst snd] in H.
  rewrite Nat.eqb_refl in H. cbn [negb orb] in H. apply avec_eqb_spec. exact H.
Qed.

(** Along every history the activation vector is a function of the mode of motion. *)
Lemma mode_function (w : swiring) (aims : list (option nat)) (m0 : nat) :
  mode_fun_ok w aims m0 = true ->
  exists s, start_index w = Some s /\
    forall m a a',
      reach mstate (msucc w aims) (m0, apply_act w (all_on w) s) (m, a) ->
      reach mstate (msucc w aims) (m0, apply_act w (all_on w) s) (m, a') -> a = a'.
Proof.
  unfold mode_fun_ok. destruct (start_index w) as [s|]; [|discriminate].
  intros H. exists s. split; [reflexivity|].
  destruct (closureG mstate_eqb (msucc w aims) 128 [(m0, apply_act w (all_on w) s)]
                     [(m0, apply_act w (all_on w) s)]) as [r|] eqn:Hc; [|discriminate].
  intros m a a' R1 R2.
  apply (mode_fun_on_spec r H m a a').
  - apply (closure_sound mstate mstate_eqb (msucc w aims) mstate_eqb_spec 128 _ r Hc _ R1).
  - apply (closure_sound mstate mstate_eqb (msucc w aims) mstate_eqb_spec 128 _ r Hc _ R2).
Qed.
