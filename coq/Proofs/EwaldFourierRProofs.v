(** * Proofs/EwaldFourierRProofs.v — proofs about Model/EwaldFourierR.v (C03, lattice-sum clause). *)
From Coq Require Import Reals Arith ZArith List Lia Lra.
Require Import JF.Model.EwaldFourierR.
Local Open Scope R_scope.

(** ** Finite sums *)
Lemma sum_from_ext : forall n s g h, (forall t, (s <= t < s + n)%nat -> g t = h t) ->
  sum_from n s g = sum_from n s h.
Proof.
  induction n; intros s g h H; simpl; [reflexivity|].
  rewrite (H s) by lia. f_equal. apply IHn. intros t Ht. apply H. lia.
Qed.

Lemma sum_from_opp : forall n s g, sum_from n s (fun t => - g t) = - sum_from n s g.
Proof. induction n; intros; simpl; [ring|]. rewrite IHn. ring. Qed.

Lemma sum_from_scal : forall n s g c, sum_from n s (fun t => c * g t) = c * sum_from n s g.
Proof. induction n; intros; simpl; [ring|]. rewrite IHn. ring. Qed.

Lemma sum_from_plus : forall n s g h, sum_from n s (fun t => g t + h t) = sum_from n s g + sum_from n s h.
Proof. induction n; intros; simpl; [ring|]. rewrite IHn. ring. Qed.

(** An accumulating loop is the initial value plus the sum of the increments. *)
Lemma iter_from_additive : forall n s (body : nat -> R -> R) (h : nat -> R),
  (forall t acc, (s <= t < s + n)%nat -> body t acc = acc + h t) ->
  forall acc, iter_from n s body acc = acc + sum_from n s h.
Proof.
  induction n; intros s body h H acc; simpl; [ring|].
  rewrite (H s acc) by lia. rewrite (IHn (S s) body h) by (intros; apply H; lia). ring.
Qed.

(** ** The Fourier loop *)
Section Fourier.
Variable N : nat.
Variable farr : nat -> nat -> nat -> R.
Variables tx ty tz : R.

Let d := mkD (cos tx) (sin tx) (cos ty) (sin ty) (cos tz) (sin tz).

Definition term (i j k : nat) : R :=
  farr i j k * sin (INR i * tx) * cos (INR j * ty) * cos (INR k * tz).

(** Loop invariant: the six running values are the cosines and sines of the angles a, b, c. *)
Definition finv (st : fstate) (a b c : R) : Prop :=
  f_cx st = cos a /\ f_sx st = sin a /\ f_cy st = cos b /\ f_sy st = sin b /\
  f_cz st = cos c /\ f_sz st = sin c.

Lemma cos_next : forall n t, cos (INR n * t) * cos t - sin (INR n * t) * sin t = cos (INR (S n) * t).
Proof. intros. rewrite S_INR, Rmult_plus_distr_r, Rmult_1_l, cos_plus. reflexivity. Qed.
Lemma sin_next : forall n t, sin (INR n * t) * cos t + cos (INR n * t) * sin t = sin (INR (S n) * t).
Proof. intros. rewrite S_INR, Rmult_plus_distr_r, Rmult_1_l, sin_plus. reflexivity. Qed.

(** State in which the k-loop for (i, j) leaves the running values. *)
Definition post_k (i j : nat) (st : fstate) : Prop :=
  if negb (j =? cut_j N i)%nat then finv st (INR i * tx) (INR (S j) * ty) (INR 0 * tz)
  else if negb (i =? N)%nat then finv st (INR (S i) * tx) (INR 0 * ty) (INR 0 * tz)
  else True.

Definition post_j (i : nat) (st : fstate) : Prop :=
  if negb (i =? N)%nat then finv st (INR (S i) * tx) (INR 0 * ty) (INR 0 * tz) else True.

Lemma one_cos0 : forall t, 1 = cos (INR 0 * t).
Proof. intros. simpl. rewrite Rmult_0_l, cos_0. reflexivity. Qed.
Lemma zero_sin0 : forall t, 0 = sin (INR 0 * t).
Proof. intros. simpl. rewrite Rmult_0_l, sin_0. reflexivity. Qed.

Lemma floop_k_aux : forall (i j n k : nat) (st : fstate),
  (k + S n = cut_k N i j + 1)%nat ->
  finv st (INR i * tx) (INR j * ty) (INR k * tz) ->
  f_acc (iter_from (S n) k (fbody N farr d i j) st) = f_acc st + sum_from (S n) k (term i j) /\
  post_k i j (iter_from (S n) k (fbody N farr d i j) st).
Proof.
  intros i j n. induction n as [|n IH]; intros k st Hk (I1 & I2 & I3 & I4 & I5 & I6).
  - (* last iteration of the k-loop *)
    assert (E : (k =? cut_k N i j)%nat = true) by (apply Nat.eqb_eq; lia).
    simpl iter_from. simpl sum_from. unfold fbody, post_k. rewrite E. simpl negb. cbv iota.
    destruct (j =? cut_j N i)%nat; simpl negb; cbv iota.
    + destruct (i =? N)%nat; simpl negb; cbv iota; simpl f_acc.
      * split; [unfold term; rewrite I2, I3, I5; ring|exact I].
      * split; [unfold term; rewrite I2, I3, I5; ring|].
        unfold finv; simpl. rewrite I1, I2.
        repeat split; try apply cos_next; try apply sin_next;
          try (rewrite Rmult_0_l; symmetry; first [apply cos_0|apply sin_0]).
    + simpl f_acc. split; [unfold term; rewrite I2, I3, I5; ring|].
      unfold finv; simpl. rewrite I3, I4.
      repeat split; try assumption; try apply cos_next; try apply sin_next;
        try (rewrite Rmult_0_l; symmetry; first [apply cos_0|apply sin_0]).
  - (* not the last iteration: rotate the z angle *)
    assert (E : (k =? cut_k N i j)%nat = false) by (apply Nat.eqb_neq; lia).
    change (iter_from (S (S n)) k (fbody N farr d i j) st)
      with (iter_from (S n) (S k) (fbody N farr d i j) (fbody N farr d i j k st)).
    change (sum_from (S (S n)) k (term i j)) with (term i j k + sum_from (S n) (S k) (term i j)).
    destruct (IH (S k) (fbody N farr d i j k st)) as [A B].
    + lia.
    + unfold fbody. rewrite E. simpl negb. cbv iota. unfold finv; simpl.
      rewrite I5, I6. repeat split; try assumption; [apply cos_next|apply sin_next].
    + split; [|exact B]. rewrite A. unfold fbody. rewrite E. simpl negb. cbv iota. simpl f_acc.
      unfold term. rewrite I2, I3, I5. ring.
Qed.

Lemma floop_k_spec : forall (i j : nat) (st : fstate),
  finv st (INR i * tx) (INR j * ty) (INR 0 * tz) ->
  f_acc (floop_k N farr d i j st) = f_acc st + sum_from (cut_k N i j + 1) 0 (term i j) /\
  post_k i j (floop_k N farr d i j st).
Proof.
  intros i j st H. unfold floop_k. replace (cut_k N i j + 1)%nat with (S (cut_k N i j)) by lia.
  apply floop_k_aux; [lia|exact H].
Qed.

Definition sum_k (i j : nat) : R := sum_from (cut_k N i j + 1) 0 (term i j).

Lemma floop_j_aux : forall (i n j : nat) (st : fstate),
  (j + S n = cut_j N i + 1)%nat ->
  finv st (INR i * tx) (INR j * ty) (INR 0 * tz) ->
  f_acc (iter_from (S n) j (floop_k N farr d i) st) = f_acc st + sum_from (S n) j (sum_k i) /\
  post_j i (iter_from (S n) j (floop_k N farr d i) st).
Proof.
  intros i n. induction n as [|n IH]; intros j st Hj I.
  - assert (E : (j =? cut_j N i)%nat = true) by (apply Nat.eqb_eq; lia).
    simpl iter_from. simpl sum_from.
    destruct (floop_k_spec i j st I) as [A B]. split; [rewrite A; unfold sum_k; ring|].
    unfold post_k in B. rewrite E in B. simpl negb in B. cbv iota in B. exact B.
  - assert (E : (j =? cut_j N i)%nat = false) by (apply Nat.eqb_neq; lia).
    change (iter_from (S (S n)) j (floop_k N farr d i) st)
      with (iter_from (S n) (S j) (floop_k N farr d i) (floop_k N farr d i j st)).
    change (sum_from (S (S n)) j (sum_k i)) with (sum_k i j + sum_from (S n) (S j) (sum_k i)).
    destruct (floop_k_spec i j st I) as [A B].
    unfold post_k in B. rewrite E in B. simpl negb in B. cbv iota in B.
    destruct (IH (S j) (floop_k N farr d i j st)) as [A' B']; [lia|exact B|].
    split; [|exact B']. rewrite A', A. unfold sum_k. ring.
Qed.

Definition sum_j (i : nat) : R := sum_from (cut_j N i + 1) 0 (sum_k i).

Lemma floop_j_spec : forall (i : nat) (st : fstate),
  finv st (INR i * tx) (INR 0 * ty) (INR 0 * tz) ->
  f_acc (floop_j N farr d i st) = f_acc st + sum_j i /\ post_j i (floop_j N farr d i st).
Proof.
  intros i st H. unfold floop_j, sum_j. replace (cut_j N i + 1)%nat with (S (cut_j N i)) by lia.
  apply floop_j_aux; [lia|exact H].
Qed.

Lemma floop_i_aux : forall (n i : nat) (st : fstate),
  (i + n = N + 1)%nat ->
  finv st (INR i * tx) (INR 0 * ty) (INR 0 * tz) ->
  f_acc (iter_from n i (floop_j N farr d) st) = f_acc st + sum_from n i sum_j.
Proof.
  induction n as [|n IH]; intros i st Hi I.
  - simpl. ring.
  - simpl iter_from. simpl sum_from.
    destruct (floop_j_spec i st I) as [A B].
    destruct n as [|n].
    + simpl. rewrite A. ring.
    + assert (E : (i =? N)%nat = false) by (apply Nat.eqb_neq; lia).
      unfold post_j in B. rewrite E in B. simpl negb in B. cbv iota in B.
      rewrite (IH (S i) _ ltac:(lia) B). rewrite A. ring.
Qed.

(** The value computed by the recurrence loop is the accumulated start value plus the explicit
    finite sum over the same index set. *)
Lemma fourier_loop_closed_form_gen : forall acc0 : R,
  fourier_loop N farr tx ty tz acc0 = acc0 + fourier_sum N farr tx ty tz.
Proof.
  intros acc0. unfold fourier_loop, floop_i. fold d.
  rewrite floop_i_aux.
  - simpl f_acc. f_equal.
  - lia.
  - unfold finv; simpl. rewrite !Rmult_1_l, !Rmult_0_l, cos_0, sin_0. repeat split; reflexivity.
Qed.
End Fourier.

(** ** Triple sums over the code's index set *)
Definition sum3 (N : nat) (g : nat -> nat -> nat -> R) : R :=
  sum_from N 1 (fun i => sum_from (cut_j N i + 1) 0 (fun j => sum_from (cut_k N i j + 1) 0 (fun k => g i j k))).

Lemma fourier_sum_sum3 : forall N farr tx ty tz,
  fourier_sum N farr tx ty tz = sum3 N (term farr tx ty tz).
Proof. reflexivity. Qed.

Lemma sum3_ext : forall N g h, (forall i j k, g i j k = h i j k) -> sum3 N g = sum3 N h.
Proof.
  intros N g h H. unfold sum3.
  apply sum_from_ext; intros i _. apply sum_from_ext; intros j _. apply sum_from_ext; intros k _. apply H.
Qed.

Lemma sum3_opp : forall N g, sum3 N (fun i j k => - g i j k) = - sum3 N g.
Proof.
  intros N g. unfold sum3. rewrite <- sum_from_opp. apply sum_from_ext; intros i _.
  rewrite <- sum_from_opp. apply sum_from_ext; intros j _. apply sum_from_opp.
Qed.

Lemma sum3_scal : forall N g c, sum3 N (fun i j k => c * g i j k) = c * sum3 N g.
Proof.
  intros N g c. unfold sum3. rewrite <- sum_from_scal. apply sum_from_ext; intros i _.
  rewrite <- sum_from_scal. apply sum_from_ext; intros j _. apply sum_from_scal.
Qed.

Lemma sum3_plus : forall N g h, sum3 N (fun i j k => g i j k + h i j k) = sum3 N g + sum3 N h.
Proof.
  intros N g h. unfold sum3. rewrite <- sum_from_plus. apply sum_from_ext; intros i _.
  rewrite <- sum_from_plus. apply sum_from_ext; intros j _. apply sum_from_plus.
Qed.

(** ** The Fourier part of [derivative] *)
Lemma fourier_loop_closed_form : forall (N : nat) (alpha L sx sy sz acc0 : R),
  fourier_part_loop N alpha L sx sy sz acc0 = acc0 + fourier_part N alpha L sx sy sz.
Proof. intros. apply fourier_loop_closed_form_gen. Qed.

Lemma angle_opp : forall L s, angle L (- s) = - angle L s.
Proof. intros. unfold angle. ring. Qed.

Lemma angle_shift : forall L s, L <> 0 -> angle L (s + L) = angle L s + 2 * PI.
Proof. intros. unfold angle. field. assumption. Qed.

Lemma sin_mult_period : forall n t, sin (INR n * (t + 2 * PI)) = sin (INR n * t).
Proof.
  intros. replace (INR n * (t + 2 * PI)) with (INR n * t + 2 * INR n * PI) by ring. apply sin_period.
Qed.
Lemma cos_mult_period : forall n t, cos (INR n * (t + 2 * PI)) = cos (INR n * t).
Proof.
  intros. replace (INR n * (t + 2 * PI)) with (INR n * t + 2 * INR n * PI) by ring. apply cos_period.
Qed.

(** Odd in the component along the direction of motion. *)
Lemma fourier_part_odd : forall N alpha L sx sy sz,
  fourier_part N alpha L (- sx) sy sz = - fourier_part N alpha L sx sy sz.
Proof.
  intros. unfold fourier_part. rewrite !fourier_sum_sum3, <- sum3_opp. apply sum3_ext; intros i j k.
  unfold term. rewrite angle_opp. replace (INR i * - angle L sx) with (- (INR i * angle L sx)) by ring.
  rewrite sin_neg. ring.
Qed.

(** Even in the two transverse components. *)
Lemma fourier_part_even_y : forall N alpha L sx sy sz,
  fourier_part N alpha L sx (- sy) sz = fourier_part N alpha L sx sy sz.
Proof.
  intros. unfold fourier_part. rewrite !fourier_sum_sum3. apply sum3_ext; intros i j k.
  unfold term. rewrite angle_opp. replace (INR j * - angle L sy) with (- (INR j * angle L sy)) by ring.
  rewrite cos_neg. ring.
Qed.

Lemma fourier_part_even_z : forall N alpha L sx sy sz,
  fourier_part N alpha L sx sy (- sz) = fourier_part N alpha L sx sy sz.
Proof.
  intros. unfold fourier_part. rewrite !fourier_sum_sum3. apply sum3_ext; intros i j k.
  unfold term. rewrite angle_opp. replace (INR k * - angle L sz) with (- (INR k * angle L sz)) by ring.
  rewrite cos_neg. ring.
Qed.

(** Periodic with the system length in every component. *)
Lemma fourier_part_periodic_x : forall N alpha L sx sy sz, L <> 0 ->
  fourier_part N alpha L (sx + L) sy sz = fourier_part N alpha L sx sy sz.
Proof.
  intros. unfold fourier_part. rewrite !fourier_sum_sum3. apply sum3_ext; intros i j k.
  unfold term. rewrite angle_shift by assumption. rewrite sin_mult_period. reflexivity.
Qed.

Lemma fourier_part_periodic_y : forall N alpha L sx sy sz, L <> 0 ->
  fourier_part N alpha L sx (sy + L) sz = fourier_part N alpha L sx sy sz.
Proof.
  intros. unfold fourier_part. rewrite !fourier_sum_sum3. apply sum3_ext; intros i j k.
  unfold term. rewrite angle_shift by assumption. rewrite cos_mult_period. reflexivity.
Qed.

Lemma fourier_part_periodic_z : forall N alpha L sx sy sz, L <> 0 ->
  fourier_part N alpha L sx sy (sz + L) = fourier_part N alpha L sx sy sz.
Proof.
  intros. unfold fourier_part. rewrite !fourier_sum_sum3. apply sum3_ext; intros i j k.
  unfold term. rewrite angle_shift by assumption. rewrite cos_mult_period. reflexivity.
Qed.

Lemma fourier_part_periodic : forall N alpha L sx sy sz, L <> 0 ->
  fourier_part N alpha L (sx + L) sy sz = fourier_part N alpha L sx sy sz /\
  fourier_part N alpha L sx (sy + L) sz = fourier_part N alpha L sx sy sz /\
  fourier_part N alpha L sx sy (sz + L) = fourier_part N alpha L sx sy sz.
Proof.
  intros. split; [|split]; [apply fourier_part_periodic_x|apply fourier_part_periodic_y
                           |apply fourier_part_periodic_z]; assumption.
Qed.

(** The Fourier sum is linear in the table of coefficients. *)
Lemma fourier_sum_linear : forall N f g a b tx ty tz,
  fourier_sum N (fun i j k => a * f i j k + b * g i j k) tx ty tz =
  a * fourier_sum N f tx ty tz + b * fourier_sum N g tx ty tz.
Proof.
  intros. rewrite !fourier_sum_sum3, <- !sum3_scal, <- sum3_plus. apply sum3_ext; intros i j k.
  unfold term. ring.
Qed.

(** ** Position space (for an arbitrary function in place of erfc) *)
Lemma position_loop_sum : forall erfc P alpha L sx sy sz acc0,
  position_loop erfc P alpha L sx sy sz acc0 = acc0 + position_sum erfc P alpha L sx sy sz.
Proof.
  intros. unfold position_loop, position_sum.
  apply iter_from_additive. intros tk acc _.
  apply iter_from_additive. intros tj acc' _.
  apply iter_from_additive. intros ti acc'' _. reflexivity.
Qed.

Lemma sum_from_shift : forall n s g, sum_from n (S s) g = sum_from n s (fun t => g (S t)).
Proof. induction n; intros; simpl; [reflexivity|]. rewrite IHn. reflexivity. Qed.

Lemma sum_from_last : forall n s g, sum_from (S n) s g = sum_from n s g + g (s + n)%nat.
Proof.
  induction n; intros s g.
  - simpl. rewrite Nat.add_0_r. ring.
  - change (sum_from (S (S n)) s g) with (g s + sum_from (S n) (S s) g).
    rewrite IHn. simpl sum_from. replace (S s + n)%nat with (s + S n)%nat by lia. ring.
Qed.

Lemma sum_from_rev : forall n g, sum_from n 0 g = sum_from n 0 (fun t => g (n - 1 - t)%nat).
Proof.
  induction n; intros g; [reflexivity|].
  rewrite sum_from_last. rewrite IHn. simpl plus.
  change (sum_from (S n) 0 (fun t => g (S n - 1 - t)%nat))
    with (g (S n - 1 - 0)%nat + sum_from n 1 (fun t => g (S n - 1 - t)%nat)).
  rewrite sum_from_shift. replace (S n - 1 - 0)%nat with n by lia.
  rewrite Rplus_comm. f_equal. apply sum_from_ext. intros t Ht. f_equal. lia.
Qed.

(** Reflection of a symmetric index range [-c .. c]. *)
Lemma sum_sym_reflect : forall (c : nat) (h : Z -> R),
  sum_from (2 * c + 1) 0 (fun t => h (zidx c t)) = sum_from (2 * c + 1) 0 (fun t => h (- zidx c t)%Z).
Proof.
  intros c h. rewrite sum_from_rev. apply sum_from_ext. intros t Ht. f_equal. unfold zidx. lia.
Qed.

Lemma pos_term_odd : forall erfc alpha L vx a b,
  pos_term erfc alpha L (- vx) a b = - pos_term erfc alpha L vx a b.
Proof.
  intros. unfold pos_term. replace (- vx * - vx) with (vx * vx) by ring. unfold Rdiv. ring.
Qed.

Lemma pcut_i_neg_j : forall P j k, pcut_i P (- j) k = pcut_i P j k.
Proof. intros. unfold pcut_i. f_equal. f_equal. ring. Qed.
Lemma pcut_i_neg_k : forall P j k, pcut_i P j (- k) = pcut_i P j k.
Proof. intros. unfold pcut_i. f_equal. f_equal. ring. Qed.
Lemma pcut_j_neg : forall P k, pcut_j P (- k) = pcut_j P k.
Proof. intros. unfold pcut_j. f_equal. f_equal. ring. Qed.

(** Odd in the component along the direction of motion. *)
Lemma position_sum_odd : forall erfc P alpha L sx sy sz,
  position_sum erfc P alpha L (- sx) sy sz = - position_sum erfc P alpha L sx sy sz.
Proof.
  intros. unfold position_sum. rewrite <- sum_from_opp. apply sum_from_ext; intros tk _.
  cbv zeta. rewrite <- sum_from_opp. apply sum_from_ext; intros tj _.
  rewrite <- sum_from_opp.
  set (cx := pcut_i (Z.of_nat P) (zidx (pcut_j (Z.of_nat P) (zidx P tk)) tj) (zidx P tk)).
  rewrite (sum_sym_reflect cx (fun i => pos_term erfc alpha L (- sx + IZR i * L) _ _)).
  apply sum_from_ext; intros ti _.
  rewrite <- pos_term_odd. f_equal. rewrite opp_IZR. ring.
Qed.

(** Even in the two transverse components. *)
Lemma position_sum_even_y : forall erfc P alpha L sx sy sz,
  position_sum erfc P alpha L sx (- sy) sz = position_sum erfc P alpha L sx sy sz.
Proof.
  intros. unfold position_sum. apply sum_from_ext; intros tk _. cbv zeta.
  set (k := zidx P tk). set (cy := pcut_j (Z.of_nat P) k).
  rewrite (sum_sym_reflect cy (fun j =>
    sum_from (2 * pcut_i (Z.of_nat P) j k + 1) 0 (fun ti =>
      pos_term erfc alpha L (sx + IZR (zidx (pcut_i (Z.of_nat P) j k) ti) * L)
        ((- sy + IZR j * L) * (- sy + IZR j * L)) ((sz + IZR k * L) * (sz + IZR k * L))))).
  apply sum_from_ext; intros tj _. rewrite pcut_i_neg_j.
  apply sum_from_ext; intros ti _. f_equal. rewrite opp_IZR. ring.
Qed.

Lemma position_sum_even_z : forall erfc P alpha L sx sy sz,
  position_sum erfc P alpha L sx sy (- sz) = position_sum erfc P alpha L sx sy sz.
Proof.
  intros. unfold position_sum.
  rewrite (sum_sym_reflect P (fun k =>
    sum_from (2 * pcut_j (Z.of_nat P) k + 1) 0 (fun tj =>
      sum_from (2 * pcut_i (Z.of_nat P) (zidx (pcut_j (Z.of_nat P) k) tj) k + 1) 0 (fun ti =>
        pos_term erfc alpha L
          (sx + IZR (zidx (pcut_i (Z.of_nat P) (zidx (pcut_j (Z.of_nat P) k) tj) k) ti) * L)
          ((sy + IZR (zidx (pcut_j (Z.of_nat P) k) tj) * L) * (sy + IZR (zidx (pcut_j (Z.of_nat P) k) tj) * L))
          ((- sz + IZR k * L) * (- sz + IZR k * L)))))).
  apply sum_from_ext; intros tk _. cbv zeta. rewrite pcut_j_neg.
  apply sum_from_ext; intros tj _. rewrite pcut_i_neg_k.
  apply sum_from_ext; intros ti _. f_equal. rewrite opp_IZR. ring.
Qed.

(** ** The whole function *)
Lemma derivative_c_split : forall erfc N P alpha L sx sy sz,
  derivative_c erfc N P alpha L sx sy sz =
  position_sum erfc P alpha L sx sy sz + fourier_part N alpha L sx sy sz.
Proof.
  intros. unfold derivative_c. rewrite fourier_loop_closed_form, position_loop_sum. ring.
Qed.

Lemma derivative_c_odd : forall erfc N P alpha L sx sy sz,
  derivative_c erfc N P alpha L (- sx) sy sz = - derivative_c erfc N P alpha L sx sy sz.
Proof. intros. rewrite !derivative_c_split, position_sum_odd, fourier_part_odd. ring. Qed.

Lemma derivative_c_even_transverse : forall erfc N P alpha L sx sy sz,
  derivative_c erfc N P alpha L sx (- sy) sz = derivative_c erfc N P alpha L sx sy sz /\
  derivative_c erfc N P alpha L sx sy (- sz) = derivative_c erfc N P alpha L sx sy sz.
Proof.
  intros. rewrite !derivative_c_split, position_sum_even_y, fourier_part_even_y,
    position_sum_even_z, fourier_part_even_z. split; reflexivity.
Qed.

(** Linear in each charge (and in the prefactor). *)
Lemma fourier_linear_in_charges : forall erfc N P alpha L pf c1 c1' c2 a sx sy sz,
  standard_velocity_derivative erfc N P alpha L pf (a * c1 + c1') c2 sx sy sz =
    a * standard_velocity_derivative erfc N P alpha L pf c1 c2 sx sy sz
    + standard_velocity_derivative erfc N P alpha L pf c1' c2 sx sy sz /\
  standard_velocity_derivative erfc N P alpha L pf c2 (a * c1 + c1') sx sy sz =
    a * standard_velocity_derivative erfc N P alpha L pf c2 c1 sx sy sz
    + standard_velocity_derivative erfc N P alpha L pf c2 c1' sx sy sz.
Proof. intros. unfold standard_velocity_derivative. split; ring. Qed.
