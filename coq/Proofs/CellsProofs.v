(** * Proofs/CellsProofs.v — proofs about Model/Cells.v (float lookup and recorded extents of one
    direction of the cell grid) and the abstract partition lemma.

    Contents
    - [idx_monotone], [idx_in_range]: the clamped index is monotone and in range (Bdiv_correct, round_le,
      Btrunc_correct, Ztrunc_le);
    - [lower_loops_min], [upper_loops_max] (partial correctness of the constructor's stepping loops: whenever
      the fuelled loops return, the result is the least / greatest float of the cell's fibre);
    - [fibre_interval], [extents_abut], [position_in_exactly_one_extent], [grid_partition]: the recorded
      extents partition the floats of [0, pred L];
    - [pre_ok_sound]: the boolean hypotheses evaluated in Coq on every generated grid imply [grid_hyps];
    - [idx_top_raw_refuted]: finding F2 on the unclamped index;
    - [monotone_partition]: the abstract statement over consecutive integers. *)
From Coq Require Import ZArith Reals Bool List Lia Lra.
Import ListNotations.
From Flocq Require Import Core.Core IEEE754.BinarySingleNaN.
Require Import JF.Base.F64 JF.Base.PyFloat JF.Model.Cells JF.Model.CellsCases.
Local Open Scope R_scope.

Notation fexp64 := (SpecFloat.fexp 53 1024).
Notation RN := (round radix2 fexp64 ZnearestE).
Notation val := (@B2R 53 1024).
Notation fmt := (generic_format radix2 fexp64).

#[global] Instance valid_fexp64 : Valid_exp fexp64 := fexp_correct 53 1024 Hprec53.

Lemma RN_le : forall x y, x <= y -> RN x <= RN y.
Proof. intros. apply round_le; auto with typeclass_instances. Qed.

Lemma RN_0 : RN 0 = 0.
Proof. apply round_0. auto with typeclass_instances. Qed.

Lemma RN_fmt : forall x, fmt x -> RN x = x.
Proof. intros. apply round_generic; auto with typeclass_instances. Qed.

Lemma fmt_val : forall x : f64, fmt (val x).
Proof. intros. apply generic_format_B2R. Qed.

Lemma val_lt_emax : forall x : f64, Rabs (val x) < bpow radix2 1024.
Proof. intros. apply abs_B2R_lt_emax. Qed.

Lemma py_int_Ztrunc : forall x : f64, py_int x = Ztrunc (val x).
Proof.
  intros x. unfold py_int, ftruncZ. apply eq_IZR.
  rewrite (Btrunc_correct 53 1024 Hmax1024). apply round_FIX_IZR.
Qed.

Lemma overflow_not_finite : forall (z : f64) s,
  B2SF z = binary_overflow 53 1024 mode_NE s -> is_finite z = false.
Proof.
  intros z s H. unfold binary_overflow in H. simpl in H. destruct z; simpl in *; try reflexivity; discriminate.
Qed.

(** x / s when the quotient is finite *)
Lemma fdiv_val : forall x s : f64, val s <> 0 -> ffinite (fdiv x s) = true ->
  val (fdiv x s) = RN (val x / val s).
Proof.
  intros x s Hs Hf. unfold fdiv, ffinite in *.
  generalize (Bdiv_correct 53 1024 Hprec53 Hmax1024 mode_NE x s Hs).
  destruct (Rlt_bool _ _).
  - intros [H _]. exact H.
  - intros H. apply overflow_not_finite in H. congruence.
Qed.

Lemma fdiv_finite_le : forall x y s : f64,
  ffinite x = true -> 0 <= val x <= val y -> 0 < val s -> ffinite (fdiv y s) = true ->
  ffinite (fdiv x s) = true /\ val (fdiv x s) = RN (val x / val s).
Proof.
  intros x y s Fx Hxy Hs Fq.
  assert (Hs0 : val s <> 0) by lra.
  pose proof (fdiv_val y s Hs0 Fq) as Hy.
  assert (Hle : RN (val x / val s) <= RN (val y / val s)).
  { apply RN_le.
    unfold Rdiv. apply Rmult_le_compat_r; [|lra]. left. apply Rinv_0_lt_compat. exact Hs. }
  assert (H0 : 0 <= RN (val x / val s)).
  { rewrite <- RN_0 at 1. apply RN_le.
    unfold Rdiv. apply Rmult_le_pos; [lra|]. left. apply Rinv_0_lt_compat. exact Hs. }
  unfold fdiv, ffinite in *.
  generalize (Bdiv_correct 53 1024 Hprec53 Hmax1024 mode_NE x s Hs0).
  rewrite Rlt_bool_true.
  - intros [H1 [H2 _]]. split; [congruence | exact H1].
  - simpl round_mode. rewrite Rabs_pos_eq by exact H0.
    apply Rle_lt_trans with (1 := Hle). rewrite <- Hy.
    apply Rle_lt_trans with (2 := val_lt_emax (Bdiv mode_NE y s)). apply Rle_abs.
Qed.
Lemma Ztrunc_nonneg : forall r, 0 <= r -> (0 <= Ztrunc r)%Z.
Proof. intros r H. rewrite <- (Ztrunc_IZR 0). apply Ztrunc_le. exact H. Qed.

Lemma raw_idx_monotone : forall (s x y : f64),
  ffinite x = true -> 0 <= val x <= val y -> 0 < val s -> ffinite (fdiv y s) = true ->
  (raw_idx s x <= raw_idx s y)%Z.
Proof.
  intros s x y Fx Hxy Hs Fq. unfold raw_idx. rewrite !py_int_Ztrunc.
  destruct (fdiv_finite_le x y s Fx Hxy Hs Fq) as [_ Hx].
  rewrite Hx, (fdiv_val y s) by (auto; lra).
  apply Ztrunc_le. apply RN_le. unfold Rdiv. apply Rmult_le_compat_r; [|lra].
  left. apply Rinv_0_lt_compat. exact Hs.
Qed.

Lemma idx_monotone : forall (s : f64) (n : Z) (x y : f64),
  ffinite x = true -> 0 <= val x <= val y -> 0 < val s -> ffinite (fdiv y s) = true ->
  (idx s n x <= idx s n y)%Z.
Proof.
  intros. unfold idx. apply Z.min_le_compat_r. apply raw_idx_monotone; assumption.
Qed.

Lemma raw_idx_nonneg : forall (s x : f64),
  ffinite x = true -> 0 <= val x -> 0 < val s -> (0 <= raw_idx s x)%Z.
Proof.
  intros s x Fx Hx Hs. unfold raw_idx, fdiv.
  assert (Hs0 : val s <> 0) by lra.
  generalize (Bdiv_correct 53 1024 Hprec53 Hmax1024 mode_NE x s Hs0).
  destruct (Rlt_bool _ _).
  - intros [H _]. rewrite py_int_Ztrunc, H. apply Ztrunc_nonneg.
    rewrite <- RN_0 at 1. apply RN_le. unfold Rdiv. apply Rmult_le_pos; [lra|].
    left. apply Rinv_0_lt_compat. exact Hs.
  - intros H. apply overflow_not_finite in H. unfold py_int, ftruncZ.
    destruct (Bdiv mode_NE x s); simpl in *; try discriminate; lia.
Qed.

Lemma idx_in_range : forall (s : f64) (n : Z) (x : f64),
  (1 <= n)%Z -> ffinite x = true -> 0 <= val x -> 0 < val s -> (0 <= idx s n x < n)%Z.
Proof.
  intros s n x Hn Fx Hx Hs. unfold idx. pose proof (raw_idx_nonneg s x Fx Hx Hs). lia.
Qed.

Lemma raw_idx_zero : forall (s x : f64), ffinite x = true -> val x = 0 -> 0 < val s -> raw_idx s x = 0%Z.
Proof.
  intros s x Fx Hx Hs. unfold raw_idx, fdiv.
  assert (Hs0 : val s <> 0) by lra.
  generalize (Bdiv_correct 53 1024 Hprec53 Hmax1024 mode_NE x s Hs0).
  rewrite Hx. unfold Rdiv. rewrite Rmult_0_l. simpl round_mode. rewrite RN_0, Rabs_R0.
  rewrite Rlt_bool_true by apply bpow_gt_0.
  intros [H _]. rewrite py_int_Ztrunc, H. apply (Ztrunc_IZR 0).
Qed.

Lemma idx_zero : forall (s : f64) (n : Z) (x : f64),
  (1 <= n)%Z -> ffinite x = true -> val x = 0 -> 0 < val s -> idx s n x = 0%Z.
Proof. intros. unfold idx. rewrite raw_idx_zero by assumption. lia. Qed.

(** ** successor / predecessor on non-negative finite floats *)
Lemma fsucc_below : forall x y : f64, ffinite x = true -> val x < val y ->
  ffinite (fsucc x) = true /\ val (fsucc x) = succ radix2 fexp64 (val x) /\
  val x <= val (fsucc x) <= val y.
Proof.
  intros x y Fx Hxy. unfold fsucc, ffinite in *.
  assert (Hs : succ radix2 fexp64 (val x) <= val y).
  { apply succ_le_lt; auto using fmt_val with typeclass_instances. }
  generalize (Bsucc_correct 53 1024 Hprec53 Hmax1024 x Fx).
  rewrite Rlt_bool_true.
  - intros [H1 [H2 _]]. repeat split; auto. rewrite H1. apply succ_ge_id. rewrite H1. exact Hs.
  - apply Rle_lt_trans with (1 := Hs). apply Rle_lt_trans with (2 := val_lt_emax y). apply Rle_abs.
Qed.

Lemma fpred_pos : forall x : f64, ffinite x = true -> 0 < val x ->
  ffinite (fpred x) = true /\ val (fpred x) = pred radix2 fexp64 (val x) /\
  0 <= val (fpred x) <= val x.
Proof.
  intros x Fx Hx. unfold fpred, ffinite in *.
  assert (H0 : 0 <= pred radix2 fexp64 (val x)).
  { apply pred_ge_0; auto using fmt_val with typeclass_instances. }
  generalize (Bpred_correct 53 1024 Hprec53 Hmax1024 x Fx).
  rewrite Rlt_bool_true.
  - intros [H1 [H2 _]]. repeat split; auto. rewrite H1. exact H0. rewrite H1. apply pred_le_id.
  - apply Rlt_le_trans with (2 := H0). rewrite <- Ropp_0. apply Ropp_lt_contravar. apply bpow_gt_0.
Qed.

Lemma val_le_pred : forall x y : f64, ffinite y = true -> 0 < val y -> val x < val y -> val x <= val (fpred y).
Proof.
  intros x y Fy Hy Hxy. destruct (fpred_pos y Fy Hy) as [_ [H _]]. rewrite H.
  apply pred_ge_gt; auto using fmt_val with typeclass_instances.
Qed.

(** ** the stepping loops *)
Lemma step_while_inv : forall {X : Type} (P : X -> Prop) (step : X -> X) (cond : X -> bool) fuel x r,
  (forall y, P y -> cond y = true -> P (step y)) -> P x ->
  step_while fuel step cond x = Some r -> P r /\ cond r = false.
Proof.
  intros X P step cond fuel. induction fuel as [|fuel IH]; intros x r Hstep Hx H; simpl in H.
  - discriminate.
  - destruct (cond x) eqn:E.
    + apply (IH (step x) r Hstep); auto.
    + injection H as H. subst r. auto.
Qed.

(** the domain of one direction: finite floats of [0, top] *)
Definition inD (top x : f64) : Prop := ffinite x = true /\ 0 <= val x <= val top.

Lemma idx_mono_D : forall (s top : f64) (n : Z) (x y : f64),
  0 < val s -> ffinite (fdiv top s) = true -> inD top x -> inD top y -> val x <= val y ->
  (idx s n x <= idx s n y)%Z.
Proof.
  intros s top n x y Hs Ft [Fx Hx] [Fy Hy] Hxy.
  apply idx_monotone; auto. lra.
  apply (fdiv_finite_le y top s); auto.
Qed.

Lemma lower_loops_min : forall (s top : f64) (n i : Z) fuel (start w r : f64),
  (1 <= n)%Z -> (1 <= i)%Z -> 0 < val s -> ffinite (fdiv top s) = true ->
  inD top start -> (idx s n start <= i)%Z ->
  inD top w -> idx s n w = i ->
  lower_loops fuel next_float_up next_float_down (idx s n) i start = Some r ->
  inD top r /\ idx s n r = i /\ (forall y, inD top y -> idx s n y = i -> val r <= val y).
Proof.
  intros s top n i fuel start w r Hn Hi Hs Ft Dstart Hstart Dw Hw H.
  pose proof (idx_mono_D s top n) as mono. specialize (fun x y => mono x y Hs Ft).
  unfold lower_loops, obind in H.
  destruct (step_while fuel next_float_down _ start) as [r1|] eqn:E1; [|discriminate].
  (* phase 1: stepping down while the index equals i keeps the index <= i *)
  apply (step_while_inv (fun y => inD top y /\ (idx s n y <= i)%Z)) in E1; auto.
  2:{ intros y [Dy Hy] Hc. apply Z.eqb_eq in Hc. destruct Dy as [Fy Vy].
      assert (Hpos : 0 < val y).
      { destruct (Rle_lt_or_eq_dec 0 (val y)) as [Hlt|Heq]; [lra | exact Hlt |].
        rewrite (idx_zero s n y) in Hc by auto. lia. }
      destruct (fpred_pos y Fy Hpos) as [F1 [_ V1]].
      assert (D1 : inD top (next_float_down y)) by (split; [exact F1 | unfold next_float_down; lra]).
      split; [exact D1|]. rewrite <- Hc. apply mono; auto. split; auto. unfold next_float_down; lra. }
  destruct E1 as [[D1 L1] C1]. apply Z.eqb_neq in C1.
  assert (Hlt1 : (idx s n r1 < i)%Z) by lia.
  (* phase 2: stepping up while the index is < i stays below every element of index >= i *)
  apply (step_while_inv (fun y => inD top y /\ forall z, inD top z -> (i <= idx s n z)%Z -> val y <= val z)) in H.
  - destruct H as [[Dr Hr] Cr]. apply Z.ltb_ge in Cr.
    assert (Hrw : val r <= val w) by (apply Hr; auto; lia).
    pose proof (mono r w Dr Dw Hrw) as Hle. split; [exact Dr|]. split; [lia|].
    intros y Dy Hy. apply Hr; auto. lia.
  - intros y [Dy Hy] Hc. apply Z.ltb_lt in Hc.
    assert (Hyw : val y < val w).
    { destruct (Rle_lt_or_eq_dec _ _ (Hy w Dw ltac:(lia))) as [Hlt|Heq]; [exact Hlt|].
      pose proof (mono w y Dw Dy ltac:(lra)). lia. }
    destruct (fsucc_below y w (proj1 Dy) Hyw) as [F1 [_ V1]].
    assert (D1' : inD top (next_float_up y)).
    { split; [exact F1|]. unfold next_float_up. destruct Dy as [_ Vy]. destruct Dw as [_ Vw]. lra. }
    split; [exact D1'|]. intros z Dz Hz.
    assert (Hyz : val y < val z).
    { destruct (Rle_lt_or_eq_dec _ _ (Hy z Dz Hz)) as [Hlt|Heq]; [exact Hlt|].
      pose proof (mono z y Dz Dy ltac:(lra)). lia. }
    destruct (fsucc_below y z (proj1 Dy) Hyz) as [_ [_ V2]]. unfold next_float_up. lra.
  - split; [exact D1|]. intros z Dz Hz.
    destruct (Rle_or_lt (val r1) (val z)) as [Hle|Hgt]; [exact Hle|].
    pose proof (mono z r1 Dz D1 ltac:(lra)). lia.
Qed.

Lemma upper_loops_max : forall (s top : f64) (n i : Z) fuel (start w z r : f64),
  0 < val s -> ffinite (fdiv top s) = true ->
  inD top start -> (i <= idx s n start)%Z ->
  inD top w -> idx s n w = i ->
  inD top z -> (i < idx s n z)%Z ->
  upper_loops fuel next_float_up next_float_down (idx s n) i start = Some r ->
  inD top r /\ idx s n r = i /\ (forall y, inD top y -> idx s n y = i -> val y <= val r).
Proof.
  intros s top n i fuel start w z r Hs Ft Dstart Hstart Dw Hw Dz Hz H.
  pose proof (idx_mono_D s top n) as mono. specialize (fun x y => mono x y Hs Ft).
  unfold upper_loops, obind in H.
  destruct (step_while fuel next_float_up _ start) as [r1|] eqn:E1; [|discriminate].
  apply (step_while_inv (fun y => inD top y /\ (i <= idx s n y)%Z)) in E1; auto.
  2:{ intros y [Dy Hy] Hc. apply Z.eqb_eq in Hc.
      assert (Hyz : val y < val z).
      { destruct (Rle_or_lt (val z) (val y)) as [Hle|Hgt]; [|exact Hgt].
        pose proof (mono z y Dz Dy Hle). lia. }
      destruct (fsucc_below y z (proj1 Dy) Hyz) as [F1 [_ V1]].
      assert (D1 : inD top (next_float_up y)).
      { split; [exact F1|]. unfold next_float_up. destruct Dy as [_ Vy]. destruct Dz as [_ Vz]. lra. }
      split; [exact D1|]. rewrite <- Hc. apply mono; auto. unfold next_float_up; lra. }
  destruct E1 as [[D1 L1] C1]. apply Z.eqb_neq in C1.
  assert (Hgt1 : (i < idx s n r1)%Z) by lia.
  apply (step_while_inv (fun y => inD top y /\ forall z', inD top z' -> (idx s n z' <= i)%Z -> val z' <= val y)) in H.
  - destruct H as [[Dr Hr] Cr]. rewrite Z.gtb_ltb in Cr. apply Z.ltb_ge in Cr.
    assert (Hrw : val w <= val r) by (apply Hr; auto; lia).
    pose proof (mono w r Dw Dr Hrw) as Hle. split; [exact Dr|]. split; [lia|].
    intros y Dy Hy. apply Hr; auto. lia.
  - intros y [Dy Hy] Hc. rewrite Z.gtb_ltb in Hc. apply Z.ltb_lt in Hc.
    assert (Hlt : forall z', inD top z' -> (idx s n z' <= i)%Z -> val z' < val y).
    { intros z' Dz' Hz'. destruct (Rle_lt_or_eq_dec _ _ (Hy z' Dz' Hz')) as [Hlt|Heq]; [exact Hlt|].
      pose proof (mono y z' Dy Dz' ltac:(lra)). lia. }
    assert (Hpos : 0 < val y).
    { pose proof (Hlt w Dw ltac:(lia)). destruct Dw as [_ Vw]. lra. }
    destruct (fpred_pos y (proj1 Dy) Hpos) as [F1 [_ V1]].
    assert (D1' : inD top (next_float_down y)).
    { split; [exact F1|]. unfold next_float_down. destruct Dy as [_ Vy]. lra. }
    split; [exact D1'|]. intros z' Dz' Hz'. unfold next_float_down.
    apply val_le_pred; auto. exact (proj1 Dy).
  - split; [exact D1|]. intros z' Dz' Hz'.
    destruct (Rle_or_lt (val z') (val r1)) as [Hle|Hgt]; [exact Hle|].
    pose proof (mono r1 z' D1 Dz' ltac:(lra)). lia.
Qed.

(** ** extents as least / greatest elements of the fibres of the index *)
Definition is_fmin (s top : f64) (n i : Z) (m : f64) : Prop :=
  inD top m /\ idx s n m = i /\ forall y, inD top y -> idx s n y = i -> val m <= val y.
Definition is_fmax (s top : f64) (n i : Z) (m : f64) : Prop :=
  inD top m /\ idx s n m = i /\ forall y, inD top y -> idx s n y = i -> val y <= val m.

Lemma fibre_interval : forall (s top : f64) (n i : Z) (mn mx : f64),
  0 < val s -> ffinite (fdiv top s) = true ->
  is_fmin s top n i mn -> is_fmax s top n i mx ->
  forall y, inD top y -> (idx s n y = i <-> val mn <= val y <= val mx).
Proof.
  intros s top n i mn mx Hs Ft [Dmn [Imn Hmn]] [Dmx [Imx Hmx]] y Dy. split.
  - intros Hy. split; auto.
  - intros [H1 H2].
    pose proof (idx_mono_D s top n mn y Hs Ft Dmn Dy H1).
    pose proof (idx_mono_D s top n y mx Hs Ft Dy Dmx H2). lia.
Qed.

Lemma succ_gt : forall x, x < succ radix2 fexp64 x.
Proof.
  intros x. destruct (Req_dec x 0) as [->|Hx].
  - rewrite succ_0. change fexp64 with (FLT_exp (-1074) 53). rewrite ulp_FLT_0 by easy. apply bpow_gt_0.
  - apply succ_gt_id. exact Hx.
Qed.

(** consecutive cells abut: the float after the maximum of cell i is the minimum of cell i+1 *)
Lemma extents_abut : forall (s top : f64) (n i : Z) (mx mn' : f64),
  0 < val s -> ffinite (fdiv top s) = true ->
  is_fmax s top n i mx -> is_fmin s top n (i + 1) mn' ->
  val (fsucc mx) = val mn' /\ val mn' = succ radix2 fexp64 (val mx).
Proof.
  intros s top n i mx mn' Hs Ft [Dmx [Imx Hmx]] [Dmn [Imn Hmn]].
  assert (Hlt : val mx < val mn').
  { destruct (Rle_or_lt (val mn') (val mx)) as [Hle|Hgt]; [|exact Hgt].
    pose proof (idx_mono_D s top n mn' mx Hs Ft Dmn Dmx Hle). lia. }
  destruct (fsucc_below mx mn' (proj1 Dmx) Hlt) as [F1 [V1 V2]].
  assert (D1 : inD top (fsucc mx)).
  { split; [exact F1|]. destruct Dmx as [_ ?]. destruct Dmn as [_ ?]. lra. }
  pose proof (idx_mono_D s top n mx (fsucc mx) Hs Ft Dmx D1 (proj1 V2)) as H1.
  pose proof (idx_mono_D s top n (fsucc mx) mn' Hs Ft D1 Dmn (proj2 V2)) as H2.
  assert (Hi : idx s n (fsucc mx) = (i + 1)%Z).
  { destruct (Z.eq_dec (idx s n (fsucc mx)) i) as [He|Hne]; [|lia].
    pose proof (Hmx _ D1 He) as Hc. rewrite V1 in Hc. pose proof (succ_gt (val mx)). lra. }
  pose proof (Hmn _ D1 Hi). split; [lra|]. rewrite <- V1. lra.
Qed.

(** every position of the domain lies in exactly one recorded extent, that of the cell it is mapped to *)
Lemma position_in_exactly_one_extent : forall (s top : f64) (n : Z) (mn mx : Z -> f64),
  (1 <= n)%Z -> 0 < val s -> ffinite (fdiv top s) = true ->
  (forall i, (0 <= i < n)%Z -> is_fmin s top n i (mn i) /\ is_fmax s top n i (mx i)) ->
  forall x, inD top x ->
    (0 <= idx s n x < n)%Z /\
    val (mn (idx s n x)) <= val x <= val (mx (idx s n x)) /\
    (forall c, (0 <= c < n)%Z -> val (mn c) <= val x <= val (mx c) -> c = idx s n x).
Proof.
  intros s top n mn mx Hn Hs Ft Hext x Dx.
  assert (Hr : (0 <= idx s n x < n)%Z) by (destruct Dx as [Fx Vx]; apply idx_in_range; auto; lra).
  split; [exact Hr|]. split.
  - destruct (Hext _ Hr) as [Hmin Hmax]. apply (fibre_interval s top n _ _ _ Hs Ft Hmin Hmax x Dx). reflexivity.
  - intros c Hc Hx. destruct (Hext _ Hc) as [Hmin Hmax]. symmetry.
    apply (fibre_interval s top n _ _ _ Hs Ft Hmin Hmax x Dx). exact Hx.
Qed.

(** ** the constructor's extents *)
Lemma fgt_zero : forall x : f64, ffinite x = true -> (fgt x fzero = true <-> 0 < val x).
Proof.
  intros x Fx. unfold fgt, flt, fcompare.
  rewrite (Bcompare_correct 53 1024 fzero x eq_refl Fx). simpl (val fzero).
  destruct (Rcompare_spec 0 (val x)); split; intros; try discriminate; try reflexivity; lra.
Qed.

Lemma lower_start_0 : forall s : f64, ffinite s = true ->
  ffinite (lower_start s 0) = true /\ val (lower_start s 0) = 0.
Proof.
  intros s Fs. unfold lower_start, fmul. change (of_Z 0) with (B754_zero false : f64).
  destruct s; try discriminate; simpl; auto.
Qed.

Lemma cell_min_correct : forall fuel (L : f64) (n i : Z) (w r : f64),
  let s := side L n in let top := fpred L in
  (1 <= n)%Z -> (0 <= i < n)%Z -> ffinite s = true -> 0 < val s -> ffinite (fdiv top s) = true ->
  ((1 <= i)%Z -> inD top (lower_start s i) /\ 0 < val (lower_start s i) /\ (idx s n (lower_start s i) <= i)%Z) ->
  inD top w -> idx s n w = i ->
  cell_min fuel L n i = Some r -> is_fmin s top n i r.
Proof.
  intros fuel L n i w r s top Hn Hi Fs Hs Ft Hstart Dw Hw H.
  unfold cell_min in H. fold s in H.
  destruct (Z.eq_dec i 0) as [->|Hne].
  - destruct (lower_start_0 s Fs) as [F0 V0].
    assert (G : fgt (lower_start s 0) fzero = false).
    { destruct (fgt (lower_start s 0) fzero) eqn:E; [|reflexivity].
      apply fgt_zero in E; auto. lra. }
    rewrite G in H. injection H as <-.
    assert (D0 : inD top (lower_start s 0)).
    { split; [exact F0|]. destruct Dw as [_ ?]. lra. }
    split; [exact D0|]. split.
    + apply idx_zero; auto.
    + intros y [_ Vy] _. lra.
  - destruct (Hstart ltac:(lia)) as [Dlo [Plo Ilo]].
    assert (G : fgt (lower_start s i) fzero = true) by (apply fgt_zero; [exact (proj1 Dlo) | exact Plo]).
    rewrite G in H.
    apply (lower_loops_min s top n i fuel (lower_start s i) w r); auto. lia.
Qed.

Lemma cell_max_correct : forall fuel (L : f64) (n i : Z) (w z r : f64),
  let s := side L n in let top := fpred L in
  (0 <= i < n)%Z -> 0 < val s -> ffinite (fdiv top s) = true -> ffinite top = true ->
  ((i + 1 < n)%Z -> inD top (upper_start s i) /\ (i <= idx s n (upper_start s i))%Z /\
                     inD top z /\ (i < idx s n z)%Z) ->
  inD top w -> idx s n w = i ->
  cell_max fuel L n i = Some r -> is_fmax s top n i r.
Proof.
  intros fuel L n i w z r s top Hi Hs Ft Ftop Hstart Dw Hw H.
  unfold cell_max in H. fold s in H.
  destruct (Z.eqb_spec (i + 1) n) as [He|Hne].
  - injection H as <-. change (next_float_down L) with top.
    assert (Dt : inD top top).
    { split; [exact Ftop|]. destruct Dw as [_ ?]. lra. }
    split; [exact Dt|]. split.
    + pose proof (idx_mono_D s top n w top Hs Ft Dw Dt (proj2 (proj2 Dw))) as Hm.
      rewrite Hw in Hm.
      assert (idx s n top <= n - 1)%Z by (unfold idx; apply Z.le_min_r). lia.
    + intros y [_ Vy] _. lra.
  - destruct (Hstart ltac:(lia)) as [Dup [Iup [Dz Iz]]].
    apply (upper_loops_max s top n i fuel (upper_start s i) w z r); auto.
Qed.

(** first cell starts at +0.0; last cell ends at the largest float below L *)
Lemma cell_min_first : forall fuel (L : f64) (n : Z), ffinite (side L n) = true ->
  exists r, cell_min fuel L n 0 = Some r /\ val r = 0 /\ ffinite r = true.
Proof.
  intros fuel L n Fs. unfold cell_min. destruct (lower_start_0 _ Fs) as [F0 V0].
  destruct (fgt (lower_start (side L n) 0) fzero) eqn:E.
  - apply fgt_zero in E; auto. lra.
  - eexists. split; [reflexivity|]. auto.
Qed.

Lemma cell_max_last : forall fuel (L : f64) (n : Z), cell_max fuel L n (n - 1) = Some (fpred L).
Proof.
  intros. unfold cell_max. replace (n - 1 + 1)%Z with n by ring. rewrite Z.eqb_refl. reflexivity.
Qed.

(** ** finding F2 on the unclamped index (before repair 0904f0b): a position below L whose raw index is n *)
Lemma idx_top_raw_refuted : exists (L : f64) (n : Z) (x : f64),
  fle fzero x = true /\ flt x L = true /\ raw_idx (side L n) x = n.
Proof.
  exists fone, 3%Z, (fpred fone). vm_compute. auto.
Qed.

(** ** the whole direction: the constructor's extents partition [0, pred L] *)
Definition grid_hyps (L : f64) (n : Z) : Prop :=
  let s := side L n in let top := fpred L in
  (1 <= n)%Z /\ ffinite s = true /\ 0 < val s /\ ffinite top = true /\ ffinite (fdiv top s) = true /\
  (forall i, (0 <= i < n)%Z ->
     (exists w, inD top w /\ idx s n w = i) /\
     ((1 <= i)%Z -> inD top (lower_start s i) /\ 0 < val (lower_start s i) /\
                    (idx s n (lower_start s i) <= i)%Z) /\
     ((i + 1 < n)%Z -> inD top (upper_start s i) /\ (i <= idx s n (upper_start s i))%Z)).

Theorem grid_partition : forall fuel (L : f64) (n : Z) (mn mx : Z -> f64),
  let s := side L n in let top := fpred L in
  grid_hyps L n ->
  (forall i, (0 <= i < n)%Z -> cell_min fuel L n i = Some (mn i) /\ cell_max fuel L n i = Some (mx i)) ->
  (* first cell starts at 0, last cell ends at the largest float below L *)
  val (mn 0%Z) = 0 /\ mx (n - 1)%Z = fpred L /\
  (* consecutive cells abut *)
  (forall i, (0 <= i)%Z -> (i + 1 < n)%Z ->
     val (fsucc (mx i)) = val (mn (i + 1)%Z) /\ val (mn (i + 1)%Z) = succ radix2 fexp64 (val (mx i))) /\
  (* every position of [0, pred L] is mapped to a cell of the grid, lies in that cell's extent and in no other *)
  (forall x, inD top x ->
     (0 <= idx s n x < n)%Z /\
     val (mn (idx s n x)) <= val x <= val (mx (idx s n x)) /\
     (forall c, (0 <= c < n)%Z -> val (mn c) <= val x <= val (mx c) -> c = idx s n x)).
Proof.
  intros fuel L n mn mx s top [Hn [Fs [Hs [Ftop [Ft Hall]]]]] Hret.
  fold s in Fs, Hs, Ft, Hall. fold top in Ftop, Ft, Hall.
  assert (Hext : forall i, (0 <= i < n)%Z -> is_fmin s top n i (mn i) /\ is_fmax s top n i (mx i)).
  { intros i Hi. destruct (Hret i Hi) as [Hmin Hmax].
    destruct (Hall i Hi) as [[w [Dw Hw]] [Hlo Hup]]. split.
    - apply (cell_min_correct fuel L n i w (mn i)); auto.
    - destruct (Z_lt_le_dec (i + 1) n) as [Hlt|Hge].
      + destruct (Hall (i + 1)%Z ltac:(lia)) as [[z [Dz Hz]] _].
        apply (cell_max_correct fuel L n i w z (mx i)); auto.
        intros _. destruct (Hup Hlt) as [H1 H2]. repeat split; try apply H1; try apply Dz; auto. fold s. lia.
      + apply (cell_max_correct fuel L n i w w (mx i)); auto. intros; lia. }
  split; [|split; [|split]].
  - destruct (Hret 0%Z ltac:(lia)) as [Hmin _].
    destruct (cell_min_first fuel L n Fs) as [r [Hr [Vr _]]]. rewrite Hmin in Hr. injection Hr as ->. exact Vr.
  - destruct (Hret (n - 1)%Z ltac:(lia)) as [_ Hmax]. rewrite cell_max_last in Hmax. congruence.
  - intros i Hi0 Hi1.
    destruct (Hext i ltac:(lia)) as [_ Hmax]. destruct (Hext (i + 1)%Z ltac:(lia)) as [Hmin _].
    apply (extents_abut s top n i); auto.
  - intros x Dx. apply (position_in_exactly_one_extent s top n mn mx); auto.
Qed.

(** ** soundness of the boolean hypotheses checked in Coq on every generated grid (case CPre) *)
Lemma fle_spec : forall x y : f64, ffinite x = true -> ffinite y = true -> fle x y = true -> val x <= val y.
Proof.
  intros x y Fx Fy. unfold fle, fcompare. rewrite (Bcompare_correct 53 1024 x y Fx Fy).
  destruct (Rcompare_spec (val x) (val y)); intros; try discriminate; lra.
Qed.

Lemma in_dom_sound : forall top x : f64, ffinite top = true -> in_dom top x = true -> inD top x.
Proof.
  intros top x Ft H. unfold in_dom in H. apply andb_true_iff in H. destruct H as [H H3].
  apply andb_true_iff in H. destruct H as [H1 H2]. split; [exact H1|]. split.
  - change 0 with (val fzero). apply fle_spec; auto.
  - apply fle_spec; auto.
Qed.

Lemma pre_from_sound : forall s top n ws i0, pre_from s top n i0 ws = true ->
  forall i, (i0 <= i < n)%Z -> exists w, pre_item s top n i w = true.
Proof.
  intros s top n ws; induction ws as [|w ws IH]; intros i0 H i Hi; simpl in H.
  - apply Z.eqb_eq in H. lia.
  - apply andb_true_iff in H. destruct H as [H1 H2].
    destruct (Z.eq_dec i i0) as [->|Hne]. exists w; exact H1.
    apply (IH (i0 + 1)%Z H2). lia.
Qed.

Ltac split_andb :=
  repeat match goal with H : (_ && _)%bool = true |- _ => apply andb_true_iff in H; destruct H end.

Lemma pre_item_sound : forall (s top : f64) (n i : Z) (w : f64), ffinite top = true ->
  pre_item s top n i w = true ->
  (inD top w /\ idx s n w = i) /\
  ((1 <= i)%Z -> inD top (lower_start s i) /\ 0 < val (lower_start s i) /\
                 (idx s n (lower_start s i) <= i)%Z) /\
  ((i + 1 < n)%Z -> inD top (upper_start s i) /\ (i <= idx s n (upper_start s i))%Z).
Proof.
  intros s top n i w Ft H. unfold pre_item in H. split_andb. split; [|split].
  - split. apply in_dom_sound; assumption. apply Z.eqb_eq; assumption.
  - intros Hi. destruct (Z.leb_spec 1 i); [|lia]. split_andb.
    assert (D : inD top (lower_start s i)) by (apply in_dom_sound; assumption).
    split; [exact D|]. split. apply fgt_zero; [exact (proj1 D) | assumption]. apply Z.leb_le; assumption.
  - intros Hi. destruct (Z.ltb_spec (i + 1) n); [|lia]. split_andb.
    split. apply in_dom_sound; assumption. apply Z.leb_le; assumption.
Qed.

Lemma pre_ok_sound : forall (L : f64) (n : Z) (ws : list f64), pre_ok L n ws = true -> grid_hyps L n.
Proof.
  intros L n ws H. unfold pre_ok in H. split_andb.
  match goal with H : (1 <=? n)%Z = true |- _ => apply Z.leb_le in H end.
  assert (Hs : 0 < val (side L n)) by (apply fgt_zero; assumption).
  unfold grid_hyps. repeat (split; [assumption|]).
  intros i Hi.
  match goal with H : pre_from _ _ _ _ _ = true |- _ =>
    destruct (pre_from_sound _ _ _ _ _ H i ltac:(lia)) as [w Hw] end.
  assert (Ftop : ffinite (fpred L) = true) by assumption.
  destruct (pre_item_sound _ _ _ _ _ Ftop Hw) as [[Dw Iw] [Hlo Hup]].
  split; [exists w; auto | split; assumption].
Qed.

(** the form used by Props/C16.v: boolean hypotheses (evaluated by vm_compute per grid) *)
Theorem grid_partition_checked : forall fuel (L : f64) (n : Z) (ws : list f64) (mn mx : Z -> f64),
  let s := side L n in let top := fpred L in
  pre_ok L n ws = true ->
  (forall i, (0 <= i < n)%Z -> cell_min fuel L n i = Some (mn i) /\ cell_max fuel L n i = Some (mx i)) ->
  val (mn 0%Z) = 0 /\ mx (n - 1)%Z = fpred L /\
  (forall i, (0 <= i)%Z -> (i + 1 < n)%Z ->
     val (fsucc (mx i)) = val (mn (i + 1)%Z) /\ val (mn (i + 1)%Z) = succ radix2 fexp64 (val (mx i))) /\
  (forall x, inD top x ->
     (0 <= idx s n x < n)%Z /\
     val (mn (idx s n x)) <= val x <= val (mx (idx s n x)) /\
     (forall c, (0 <= c < n)%Z -> val (mn c) <= val x <= val (mx c) -> c = idx s n x)).
Proof.
  intros fuel L n ws mn mx s top H. apply grid_partition. apply (pre_ok_sound L n ws H).
Qed.

(** positions of the box [0, L) are the floats of [0, pred L] *)
Lemma in_box_inD : forall (L x : f64), ffinite L = true -> ffinite x = true -> 0 <= val x < val L ->
  inD (fpred L) x.
Proof.
  intros L x FL Fx Hx. split; [exact Fx|]. split; [lra|]. apply val_le_pred; auto; lra.
Qed.

(** boolean-hypothesis form of [idx_monotone] (hypotheses decidable by evaluation) *)
Lemma idx_monotone_b : forall (s : f64) (n : Z) (x y : f64),
  ffinite x = true -> ffinite y = true -> fle fzero x = true -> fle x y = true ->
  ffinite s = true -> fgt s fzero = true -> ffinite (fdiv y s) = true ->
  (idx s n x <= idx s n y)%Z.
Proof.
  intros s n x y Fx Fy H0 Hxy Fs Hs Fq. apply idx_monotone; auto.
  - split. change 0 with (val fzero). apply fle_spec; auto. apply fle_spec; auto.
  - apply fgt_zero; auto.
Qed.

(** ** abstract partition lemma (pure Z) *)
Local Close Scope R_scope.
Local Open Scope Z_scope.
Definition mono_on (f : Z -> Z) (lo hi : Z) : Prop :=
  forall x y, lo <= x -> x <= y -> y <= hi -> f x <= f y.
Definition fibre_min (f : Z -> Z) (lo hi c m : Z) : Prop :=
  lo <= m <= hi /\ f m = c /\ forall x, lo <= x <= hi -> f x = c -> m <= x.
Definition fibre_max (f : Z -> Z) (lo hi c m : Z) : Prop :=
  lo <= m <= hi /\ f m = c /\ forall x, lo <= x <= hi -> f x = c -> x <= m.

Lemma fibre_min_exists : forall f lo hi, mono_on f lo hi ->
  forall x, lo <= x <= hi -> exists mn, fibre_min f lo hi (f x) mn /\ mn <= x.
Proof.
  intros f lo hi Hm x Hx.
  assert (H : forall k : nat, forall x, lo <= x <= hi -> x - lo <= Z.of_nat k ->
              exists mn, fibre_min f lo hi (f x) mn /\ mn <= x).
  { induction k as [|k IH]; intros y Hy Hk.
    - exists y. split; [|lia]. repeat split; try lia; try (intros; lia).
    - destruct (Z.eq_dec y lo) as [->|Hne].
      + exists lo. split; [|lia]. repeat split; try lia; try (intros; lia).
      + destruct (Z.eq_dec (f (y - 1)) (f y)) as [He|Hd].
        * destruct (IH (y - 1)) as [mn [Hmn Hle]]; try lia. exists mn. rewrite <- He. split; [assumption | lia].
        * exists y. split; [|lia]. repeat split; try lia. intros x' Hx' He.
          destruct (Z_lt_le_dec x' y) as [Hlt|]; [|assumption].
          pose proof (Hm x' (y - 1) ltac:(lia) ltac:(lia) ltac:(lia)).
          pose proof (Hm (y - 1) y ltac:(lia) ltac:(lia) ltac:(lia)). lia. }
  apply (H (Z.to_nat (x - lo))); [assumption | lia].
Qed.

Lemma fibre_max_exists : forall f lo hi, mono_on f lo hi ->
  forall x, lo <= x <= hi -> exists mx, fibre_max f lo hi (f x) mx /\ x <= mx.
Proof.
  intros f lo hi Hm x Hx.
  assert (H : forall k : nat, forall x, lo <= x <= hi -> hi - x <= Z.of_nat k ->
              exists mx, fibre_max f lo hi (f x) mx /\ x <= mx).
  { induction k as [|k IH]; intros y Hy Hk.
    - exists y. split; [|lia]. repeat split; try lia; try (intros; lia).
    - destruct (Z.eq_dec y hi) as [->|Hne].
      + exists hi. split; [|lia]. repeat split; try lia; try (intros; lia).
      + destruct (Z.eq_dec (f (y + 1)) (f y)) as [He|Hd].
        * destruct (IH (y + 1)) as [mx [Hmx Hle]]; try lia. exists mx. rewrite <- He. split; [assumption | lia].
        * exists y. split; [|lia]. repeat split; try lia. intros x' Hx' He.
          destruct (Z_lt_le_dec y x') as [Hlt|]; [|assumption].
          pose proof (Hm (y + 1) x' ltac:(lia) ltac:(lia) ltac:(lia)).
          pose proof (Hm y (y + 1) ltac:(lia) ltac:(lia) ltac:(lia)). lia. }
  apply (H (Z.to_nat (hi - x))); [assumption | lia].
Qed.

Theorem monotone_partition : forall f lo hi, mono_on f lo hi ->
  (* every element lies in a fibre with a least and a greatest element, between the two *)
  (forall x, lo <= x <= hi ->
     exists mn mx, fibre_min f lo hi (f x) mn /\ fibre_max f lo hi (f x) mx /\ mn <= x <= mx) /\
  (* a fibre is exactly the interval between its ends, so the intervals are pairwise disjoint *)
  (forall c mn mx, fibre_min f lo hi c mn -> fibre_max f lo hi c mx ->
     forall x, lo <= x <= hi -> (f x = c <-> mn <= x <= mx)) /\
  (* consecutive non-empty fibres abut: no gap, no overlap *)
  (forall c c' mx mn', c < c' -> fibre_max f lo hi c mx -> fibre_min f lo hi c' mn' ->
     (forall x, lo <= x <= hi -> f x <= c \/ c' <= f x) -> mn' = mx + 1) /\
  (* the first interval starts at lo, the last ends at hi: the intervals cover [lo, hi] *)
  (forall mn, fibre_min f lo hi (f lo) mn -> mn = lo) /\
  (forall mx, fibre_max f lo hi (f hi) mx -> mx = hi).
Proof.
  intros f lo hi Hm. split; [|split; [|split; [|split]]].
  - intros x H. destruct (fibre_min_exists f lo hi Hm x H) as [mn [Hmn Hle]].
    destruct (fibre_max_exists f lo hi Hm x H) as [mx [Hmx Hge]].
    exists mn, mx. auto.
  - intros c mn mx H H0 x Hx. split.
    + intros Hc. destruct H as [_ [_ Hmn]]. destruct H0 as [_ [_ Hmx]]. split; auto.
    + intros [H2 H3]. destruct H as [Hr [Hc _]]. destruct H0 as [Hr' [Hc' _]].
      pose proof (Hm mn x ltac:(lia) ltac:(lia) ltac:(lia)).
      pose proof (Hm x mx ltac:(lia) ltac:(lia) ltac:(lia)). lia.
  - intros c c' mx mn' Hcc H0 H1 H2.
    destruct H0 as [Hr [Hc Hmax]]. destruct H1 as [Hr' [Hc' Hmin]].
    assert (mx < mn').
    { destruct (Z_lt_le_dec mx mn'); [assumption|].
      pose proof (Hm mn' mx ltac:(lia) ltac:(lia) ltac:(lia)). lia. }
    destruct (Z.eq_dec mn' (mx + 1)); [assumption|].
    pose proof (Hm mx (mx + 1) ltac:(lia) ltac:(lia) ltac:(lia)).
    pose proof (Hm (mx + 1) mn' ltac:(lia) ltac:(lia) ltac:(lia)).
    destruct (H2 (mx + 1) ltac:(lia)).
    + specialize (Hmax (mx + 1) ltac:(lia) ltac:(lia)). lia.
    + specialize (Hmin (mx + 1) ltac:(lia) ltac:(lia)). lia.
  - intros mn H. destruct H as [Hr [Hc Hmin]]. specialize (Hmin lo ltac:(lia) eq_refl). lia.
  - intros mx H. destruct H as [Hr [Hc Hmax]]. specialize (Hmax hi ltac:(lia) eq_refl). lia.
Qed.

(** the two extent theorems as one statement (used by Props/C16.v) *)
Lemma extent_loops_correct_lemma :
  (forall (s top : f64) (n i : Z) fuel (start w r : f64),
     1 <= n -> 1 <= i -> (0 < val s)%R -> ffinite (fdiv top s) = true ->
     inD top start -> idx s n start <= i ->
     inD top w -> idx s n w = i ->
     lower_loops fuel next_float_up next_float_down (idx s n) i start = Some r ->
     inD top r /\ idx s n r = i /\ (forall y, inD top y -> idx s n y = i -> (val r <= val y)%R)) /\
  (forall (s top : f64) (n i : Z) fuel (start w z r : f64),
     (0 < val s)%R -> ffinite (fdiv top s) = true ->
     inD top start -> i <= idx s n start ->
     inD top w -> idx s n w = i ->
     inD top z -> i < idx s n z ->
     upper_loops fuel next_float_up next_float_down (idx s n) i start = Some r ->
     inD top r /\ idx s n r = i /\ (forall y, inD top y -> idx s n y = i -> (val y <= val r)%R)).
Proof. split; [exact lower_loops_min | exact upper_loops_max]. Qed.

(** ** all directions together: position_to_cell returns a cell of the grid *)
Require Import JF.Model.CellIndex JF.Proofs.CellIndexProofs.
Lemma idx_vec_valid : forall (ss : list f64) (ns xs : list Z),
  length ns = length ss -> length xs = length ss ->
  Forall (fun s => (0 < val s)%R) ss -> Forall (fun n => 1 <= n) ns ->
  Forall (fun x => ffinite (of_bits x) = true /\ (0 <= val (of_bits x))%R) xs ->
  valid ns (idx_vec ss ns xs).
Proof.
  induction ss as [|s ss IH]; intros [|n ns] [|x xs] Hn Hx Hs Hns Hxs; simpl in *; try discriminate.
  - constructor.
  - inversion Hs; inversion Hns; inversion Hxs; subst. constructor.
    + apply CellsProofs.idx_in_range; tauto.
    + apply IH; auto.
Qed.

Lemma position_to_cell_in_grid_lemma : forall (ss : list f64) (ns xs : list Z),
  length ns = length ss -> length xs = length ss ->
  Forall (fun s => (0 < val s)%R) ss -> Forall (fun n => 1 <= n) ns ->
  Forall (fun x => ffinite (of_bits x) = true /\ (0 <= val (of_bits x))%R) xs ->
  valid ns (idx_vec ss ns xs) /\ 0 <= flat ns (idx_vec ss ns xs) < number_of_cells ns.
Proof.
  intros ss ns xs H1 H2 H3 H4 H5. pose proof (idx_vec_valid ss ns xs H1 H2 H3 H4 H5) as V.
  split; [exact V | apply CellIndexProofs.flat_range; exact V].
Qed.

(** ** concrete floats and tactics for the non-vacuity examples of Props/C16.v
    L = 1.0, 3 cells (the grid of finding F2). *)
Definition ex_L : f64 := fone.
Definition ex_s : f64 := side ex_L 3.
Definition ex_top : f64 := fpred ex_L.
Definition ex_quarter : f64 := of_bits 0x3FD0000000000000.
Definition ex_mins : list f64 := map of_bits [0; 0x3FD5555555555555; 0x3FE5555555555555].

Ltac by_eval := vm_compute; reflexivity.
Ltac ex_inD := split; [by_eval | split; [change 0%R with (val fzero) |]; apply fle_spec; by_eval].



(* =========================================================================================== *)
(** * Error analysis on the physically meaningful domain: 2^-1000 <= L <= 2^1000, 1 <= n <= 2^20.

    With u = 2^-53 and s = fl(L/n): the index boundary k lies in (k*s*(1-2u), k*s] ([raw_idx_lt],
    [raw_idx_ge]); the start points fl(k*s) are within a factor (1 +- u) of k*s; one float step changes a
    positive (normal) float by a factor between (1+u) and (1+2u).  Hence the hypotheses [grid_hyps] hold
    ([domain_grid_hyps]) and each of the constructor's four loops ends after at most 5 steps
    ([lower_loops_terminate], [upper_loops_terminate]), which gives the unconditional
    [grid_partition_domain]. *)
From Coq Require Import Psatz.
From Flocq.Prop Require Import Relative.
Local Close Scope Z_scope.
Local Open Scope R_scope.


Definition uu : R := / 9007199254740992.   (* 2^-53 *)

Lemma uu_bpow : bpow radix2 (-53) = uu.
Proof. unfold uu. simpl. unfold Z.pow_pos. simpl. reflexivity. Qed.

Lemma bpow_m52 : bpow radix2 (-52) = 2 * uu.
Proof. unfold uu. simpl. unfold Z.pow_pos. simpl. lra. Qed.

(** relative error of rounding in the normal range *)
Lemma rel_RN : forall y, bpow radix2 (-1022) <= y -> y * (1 - uu) <= RN y <= y * (1 + uu).
Proof.
  intros y Hy.
  assert (H0 : 0 < y) by (apply Rlt_le_trans with (2 := Hy); apply bpow_gt_0).
  pose proof (relative_error_N_FLT radix2 (-1074) 53 eq_refl (fun x => negb (Z.even x)) y) as H.
  change (-1074 + 53 - 1)%Z with (-1022)%Z in H. rewrite Rabs_pos_eq in H by lra. specialize (H Hy).
  change (- (53) + 1)%Z with (-52)%Z in H. rewrite bpow_m52 in H.
  change (round radix2 (FLT_exp (-1074) 53) (Znearest (fun x => negb (Z.even x))) y) with (RN y) in H.
  apply Rabs_le_inv in H. lra.
Qed.

Notation RU := (round radix2 fexp64 Zceil).

Lemma rel_RU : forall y, bpow radix2 (-1022) <= y -> y <= RU y <= y * (1 + 2 * uu).
Proof.
  intros y Hy.
  assert (H0 : 0 < y) by (apply Rlt_le_trans with (2 := Hy); apply bpow_gt_0).
  pose proof (relative_error_FLT radix2 (-1074) 53 eq_refl Zceil y) as H.
  change (-1074 + 53 - 1)%Z with (-1022)%Z in H. rewrite Rabs_pos_eq in H by lra. specialize (H Hy).
  change (- (53) + 1)%Z with (-52)%Z in H. rewrite bpow_m52 in H.
  change (round radix2 (FLT_exp (-1074) 53) Zceil y) with (RU y) in H.
  assert (Hge : y <= RU y).
  { destruct (round_UP_pt radix2 fexp64 y) as [_ [H1 _]]. exact H1. }
  apply Rabs_lt_inv in H. lra.
Qed.

Lemma fmt_IZR : forall k : Z, (Z.abs k < 2 ^ 53)%Z -> fmt (IZR k).
Proof.
  intros k Hk. change fexp64 with (FLT_exp (-1074) 53). apply generic_format_FLT.
  apply (FLT_spec radix2 (-1074) 53 (IZR k) (Float radix2 k 0)).
  - unfold F2R. simpl. lra.
  - exact Hk.
  - simpl. lia.
Qed.

Lemma fmt_bpow : forall e : Z, (-1074 <= e)%Z -> fmt (bpow radix2 e).
Proof.
  intros e He. apply generic_format_bpow. unfold SpecFloat.fexp, SpecFloat.emin. lia.
Qed.

Lemma IZR_lt_emax : forall k : Z, (Z.abs k < 2 ^ 53)%Z -> Rabs (IZR k) < bpow radix2 1024.
Proof.
  intros k Hk. rewrite <- abs_IZR. apply Rlt_trans with (IZR (2 ^ 53)). apply IZR_lt; exact Hk.
  change (2 ^ 53)%Z with (radix2 ^ 53)%Z. rewrite IZR_Zpower by lia. apply bpow_lt. lia.
Qed.

Lemma of_Z_val : forall k : Z, (Z.abs k < 2 ^ 53)%Z -> ffinite (of_Z k) = true /\ val (of_Z k) = IZR k.
Proof.
  intros k Hk. unfold of_Z, ffinite.
  generalize (binary_normalize_correct 53 1024 Hprec53 Hmax1024 mode_NE k 0 false).
  cbv zeta. replace (F2R {| Fnum := k; Fexp := 0 |}) with (IZR k) by (unfold F2R; simpl; lra).
  simpl round_mode. rewrite (RN_fmt (IZR k)) by (apply fmt_IZR; exact Hk).
  rewrite Rlt_bool_true by (apply IZR_lt_emax; exact Hk).
  intros [H1 [H2 _]]. split; assumption.
Qed.

Lemma uu_pos : 0 < uu. Proof. unfold uu. lra. Qed.
Lemma uu_small : uu < / 1000000. Proof. unfold uu. lra. Qed.

(** the index boundary k lies between k*s*(1-2u) and k*s *)
Lemma raw_idx_ge : forall (s x : f64) (k : Z),
  val s > 0 -> ffinite (fdiv x s) = true -> (0 <= k < 2 ^ 53)%Z ->
  IZR k * val s <= val x -> (k <= raw_idx s x)%Z.
Proof.
  intros s x k Hs Fq Hk Hx. unfold raw_idx. rewrite py_int_Ztrunc, (fdiv_val x s) by (auto; lra).
  rewrite <- (Ztrunc_IZR k). apply Ztrunc_le.
  rewrite <- (RN_fmt (IZR k)) by (apply fmt_IZR; lia). apply RN_le.
  apply Rmult_le_reg_r with (val s); [lra|]. unfold Rdiv. rewrite Rmult_assoc, Rinv_l by lra. lra.
Qed.

Lemma raw_idx_lt : forall (s x : f64) (k : Z),
  val s > 0 -> 0 <= val x -> ffinite (fdiv x s) = true -> (1 <= k < 2 ^ 52)%Z ->
  val x <= IZR k * val s * (1 - 2 * uu) -> (raw_idx s x < k)%Z.
Proof.
  intros s x k Hs Hx0 Fq Hk Hx. unfold raw_idx. rewrite py_int_Ztrunc, (fdiv_val x s) by (auto; lra).
  pose proof uu_pos as Hu. pose proof uu_small as Hu'.
  assert (Hk1 : 1 <= IZR k) by (apply IZR_le; lia).
  set (y' := IZR k * (1 - 2 * uu)).
  assert (Hq : val x / val s <= y').
  { apply Rmult_le_reg_r with (val s); [lra|]. unfold Rdiv. rewrite Rmult_assoc, Rinv_l by lra. unfold y'. lra. }
  assert (Hq0 : 0 <= val x / val s).
  { unfold Rdiv. apply Rmult_le_pos; [lra|]. left. apply Rinv_0_lt_compat. lra. }
  assert (Hy' : bpow radix2 (-1022) <= y').
  { apply Rle_trans with (bpow radix2 (-1)). apply bpow_le; lia.
    simpl bpow. unfold y'. nra. }
  assert (Hr : RN (val x / val s) < IZR k).
  { apply Rle_lt_trans with (RN y'). apply RN_le; exact Hq.
    destruct (rel_RN y' Hy') as [_ H]. apply Rle_lt_trans with (1 := H). unfold y'. nra. }
  assert (H0 : 0 <= RN (val x / val s)) by (rewrite <- RN_0 at 1; apply RN_le; exact Hq0).
  rewrite Ztrunc_floor by exact H0. apply lt_IZR.
  apply Rle_lt_trans with (2 := Hr). apply Zfloor_lb.
Qed.

(** one step down / up changes a float by a relative amount between u and 2u *)
Lemma ulp_gt_u : forall r, 0 <= r -> r * uu < ulp radix2 fexp64 r.
Proof.
  intros r Hr. pose proof (ulp_FLT_gt radix2 (-1074) 53 r) as H.
  rewrite Rabs_pos_eq in H by exact Hr. change (- (53))%Z with (-53)%Z in H. rewrite uu_bpow in H. exact H.
Qed.

Lemma pred_factor : forall r, 0 < r -> fmt r -> pred radix2 fexp64 r * (1 + uu) <= r.
Proof.
  intros r Hr Fr.
  assert (H0 : 0 <= pred radix2 fexp64 r) by (apply pred_ge_0; auto with typeclass_instances).
  pose proof (pred_plus_ulp radix2 fexp64 r Hr Fr) as H.
  pose proof (ulp_gt_u _ H0). lra.
Qed.

Lemma succ_factor : forall r, 0 <= r -> r * (1 + uu) <= succ radix2 fexp64 r.
Proof.
  intros r Hr. rewrite succ_eq_pos by exact Hr. pose proof (ulp_gt_u r Hr). lra.
Qed.

Lemma pred_factor_lower : forall r, fmt r -> bpow radix2 (-1021) <= r -> r <= pred radix2 fexp64 r * (1 + 2 * uu).
Proof.
  intros r Fr Hr.
  assert (Hpos : 0 < r) by (apply Rlt_le_trans with (2 := Hr); apply bpow_gt_0).
  assert (Hp : bpow radix2 (-1022) <= pred radix2 fexp64 r).
  { apply pred_ge_gt; auto with typeclass_instances. apply fmt_bpow; lia.
    apply Rlt_le_trans with (2 := Hr). apply bpow_lt; lia. }
  pose proof (pred_plus_ulp radix2 fexp64 r Hpos Fr) as H.
  pose proof (ulp_FLT_le radix2 (-1074) 53 (pred radix2 fexp64 r)) as Hu.
  change (-1074 + 53 - 1)%Z with (-1022)%Z in Hu.
  assert (H0 : 0 <= pred radix2 fexp64 r) by (apply Rle_trans with (2 := Hp); apply bpow_ge_0).
  rewrite Rabs_pos_eq in Hu by exact H0. specialize (Hu Hp).
  change (1 - 53)%Z with (-52)%Z in Hu. rewrite bpow_m52 in Hu.
  change (FLT_exp (-1074) 53) with fexp64 in Hu. lra.
Qed.

Lemma fpred_factor : forall x : f64, ffinite x = true -> 0 < val x -> val (fpred x) * (1 + uu) <= val x.
Proof.
  intros x Fx Hx. destruct (fpred_pos x Fx Hx) as [_ [H _]]. rewrite H.
  apply pred_factor; [exact Hx | apply fmt_val].
Qed.

Lemma fpred_factor_lower : forall x : f64, ffinite x = true -> bpow radix2 (-1021) <= val x ->
  val x <= val (fpred x) * (1 + 2 * uu).
Proof.
  intros x Fx Hx.
  assert (Hpos : 0 < val x) by (apply Rlt_le_trans with (2 := Hx); apply bpow_gt_0).
  destruct (fpred_pos x Fx Hpos) as [_ [H _]]. rewrite H.
  apply pred_factor_lower; [apply fmt_val | exact Hx].
Qed.

Lemma fsucc_factor : forall x y : f64, ffinite x = true -> 0 <= val x -> val x < val y ->
  val x * (1 + uu) <= val (fsucc x).
Proof.
  intros x y Fx Hx Hxy. destruct (fsucc_below x y Fx Hxy) as [_ [H _]]. rewrite H.
  apply succ_factor; exact Hx.
Qed.

(** ** the physically meaningful domain *)
Definition domain (L : f64) (n : Z) : Prop :=
  ffinite L = true /\ bpow radix2 (-1000) <= val L <= bpow radix2 1000 /\ (1 <= n <= 2 ^ 20)%Z.

Lemma bpow_21 : bpow radix2 21 = 2097152.
Proof. simpl. unfold Z.pow_pos. simpl. reflexivity. Qed.

Lemma IZR_pow20 : IZR (2 ^ 20) = 1048576. Proof. reflexivity. Qed.

Lemma bpow_split : forall a b, bpow radix2 (a + b) = bpow radix2 a * bpow radix2 b.
Proof. intros. apply bpow_plus. Qed.

Lemma domain_side : forall L n, domain L n ->
  ffinite (side L n) = true /\ bpow radix2 (-1020) <= val (side L n) <= bpow radix2 1000 /\
  val L * (1 - uu) <= IZR n * val (side L n) <= val L * (1 + uu).
Proof.
  intros L n [FL [[HL1 HL2] Hn]].
  assert (Hn1 : 1 <= IZR n) by (apply IZR_le; lia).
  assert (Hn2 : IZR n <= 1048576) by (rewrite <- IZR_pow20; apply IZR_le; lia).
  assert (HL0 : 0 < val L) by (apply Rlt_le_trans with (2 := HL1); apply bpow_gt_0).
  destruct (of_Z_val n ltac:(lia)) as [Fn Vn].
  set (r := val L / IZR n).
  assert (Hnr : IZR n * r = val L) by (unfold r; field; lra).
  assert (Hr1 : bpow radix2 (-1020) <= r).
  { unfold r. apply Rmult_le_reg_r with (IZR n); [lra|]. unfold Rdiv. rewrite Rmult_assoc, Rinv_l by lra.
    rewrite Rmult_1_r. apply Rle_trans with (2 := HL1).
    replace (-1000)%Z with (-1020 + 20)%Z by lia. rewrite bpow_split.
    apply Rmult_le_compat_l. apply bpow_ge_0. simpl bpow. lra. }
  assert (Hr2 : r <= bpow radix2 1000).
  { apply Rle_trans with (2 := HL2). unfold r. apply Rmult_le_reg_r with (IZR n); [lra|].
    unfold Rdiv. rewrite Rmult_assoc, Rinv_l by lra. nra. }
  assert (Hs1 : bpow radix2 (-1020) <= RN r).
  { rewrite <- (RN_fmt (bpow radix2 (-1020))) by (apply fmt_bpow; lia). apply RN_le; exact Hr1. }
  assert (Hs2 : RN r <= bpow radix2 1000).
  { rewrite <- (RN_fmt (bpow radix2 1000)) by (apply fmt_bpow; lia). apply RN_le; exact Hr2. }
  assert (Hrel : r * (1 - uu) <= RN r <= r * (1 + uu)).
  { apply rel_RN. apply Rle_trans with (2 := Hr1). apply bpow_le; lia. }
  unfold side, fdiv, ffinite.
  generalize (Bdiv_correct 53 1024 Hprec53 Hmax1024 mode_NE L (of_Z n)).
  rewrite Vn. fold r. simpl round_mode.
  assert (H0 : 0 <= RN r) by (apply Rle_trans with (2 := Hs1); apply bpow_ge_0).
  rewrite Rlt_bool_true.
  2:{ rewrite Rabs_pos_eq by exact H0. apply Rle_lt_trans with (1 := Hs2). apply bpow_lt; lia. }
  intros H. destruct (H ltac:(lra)) as [H1 [H2 _]]. rewrite H1. split; [rewrite H2; exact FL|]. split; [lra|].
  pose proof uu_pos. pose proof uu_small.
  assert (IZR n * (r * (1 - uu)) <= IZR n * RN r) by (apply Rmult_le_compat_l; lra).
  assert (IZR n * RN r <= IZR n * (r * (1 + uu))) by (apply Rmult_le_compat_l; lra).
  replace (IZR n * (r * (1 - uu))) with (val L * (1 - uu)) in * by (rewrite <- Hnr; ring).
  replace (IZR n * (r * (1 + uu))) with (val L * (1 + uu)) in * by (rewrite <- Hnr; ring).
  lra.
Qed.

Lemma fdiv_finite_small : forall x s : f64, 0 <= val x -> 0 < val s ->
  val x <= bpow radix2 21 * val s -> ffinite x = true -> ffinite (fdiv x s) = true.
Proof.
  intros x s Hx Hs Hxs Fx. unfold fdiv, ffinite in *.
  generalize (Bdiv_correct 53 1024 Hprec53 Hmax1024 mode_NE x s ltac:(lra)). simpl round_mode.
  assert (Hq0 : 0 <= val x / val s).
  { unfold Rdiv. apply Rmult_le_pos; [lra|]. left. apply Rinv_0_lt_compat. lra. }
  assert (Hq : val x / val s <= bpow radix2 21).
  { apply Rmult_le_reg_r with (val s); [lra|]. unfold Rdiv. rewrite Rmult_assoc, Rinv_l by lra. lra. }
  rewrite Rlt_bool_true.
  - intros [_ [H _]]. congruence.
  - rewrite Rabs_pos_eq by (rewrite <- RN_0 at 1; apply RN_le; exact Hq0).
    apply Rle_lt_trans with (bpow radix2 21).
    rewrite <- (RN_fmt (bpow radix2 21)) by (apply fmt_bpow; lia). apply RN_le; exact Hq.
    apply bpow_lt; lia.
Qed.

Lemma domain_top : forall L n, domain L n ->
  ffinite (fpred L) = true /\ 0 <= val (fpred L) <= val L /\
  ffinite (fdiv (fpred L) (side L n)) = true.
Proof.
  intros L n HD. pose proof HD as [FL [[HL1 HL2] Hn]].
  assert (HL0 : 0 < val L) by (apply Rlt_le_trans with (2 := HL1); apply bpow_gt_0).
  destruct (fpred_pos L FL HL0) as [F1 [_ V1]].
  destruct (domain_side L n HD) as [Fs [[Hs1 Hs2] [Hns1 Hns2]]].
  assert (Hs0 : 0 < val (side L n)) by (apply Rlt_le_trans with (2 := Hs1); apply bpow_gt_0).
  split; [exact F1|]. split; [exact V1|].
  apply fdiv_finite_small; auto; try lra.
  assert (Hn2 : IZR n <= 1048576) by (rewrite <- IZR_pow20; apply IZR_le; lia).
  assert (IZR n * val (side L n) <= 1048576 * val (side L n)) by (apply Rmult_le_compat_r; lra).
  rewrite bpow_21. unfold uu in *. lra.
Qed.

Lemma bpow_20 : bpow radix2 20 = 1048576.
Proof. simpl. unfold Z.pow_pos. simpl. reflexivity. Qed.

Lemma ks_bounds : forall L n k, domain L n -> (1 <= k <= n - 1)%Z ->
  let s := val (side L n) in let a := IZR k * s in
  s <= a /\ a <= 1048576 * s /\ a * (1 + 2 * uu) < val L /\
  bpow radix2 (-1020) <= a /\ a <= bpow radix2 1020.
Proof.
  intros L n k HD Hk s a. pose proof HD as [FL [[HL1 HL2] Hn]].
  destruct (domain_side L n HD) as [Fs [[Hs1 Hs2] [Hns1 Hns2]]]. fold s in Hs1, Hs2, Hns1, Hns2.
  assert (Hs0 : 0 < s) by (apply Rlt_le_trans with (2 := Hs1); apply bpow_gt_0).
  assert (HL0 : 0 < val L) by (apply Rlt_le_trans with (2 := HL1); apply bpow_gt_0).
  assert (Hk1 : 1 <= IZR k) by (apply IZR_le; lia).
  assert (Hkn : IZR k <= IZR n - 1) by (rewrite <- minus_IZR; apply IZR_le; lia).
  assert (Hn2 : IZR n <= 1048576) by (rewrite <- IZR_pow20; apply IZR_le; lia).
  assert (H1 : s <= a) by (unfold a; nra).
  assert (H2 : a <= IZR n * s - s) by (unfold a; nra).
  assert (H3 : IZR n * s <= 1048576 * s) by nra.
  split; [exact H1|]. split; [lra|]. split; [unfold uu in *; lra|]. split; [lra|].
  apply Rle_trans with (1048576 * s); [lra|]. replace 1020%Z with (20 + 1000)%Z by lia.
  rewrite bpow_split, bpow_20. nra.
Qed.

Lemma mult_round : forall m (x y : f64), ffinite x = true -> ffinite y = true ->
  0 <= val x * val y <= bpow radix2 1020 ->
  ffinite (Bmult m x y) = true /\ val (Bmult m x y) = round radix2 fexp64 (round_mode m) (val x * val y).
Proof.
  intros m x y Fx Fy [H0 H1]. unfold ffinite in *.
  generalize (Bmult_correct 53 1024 Hprec53 Hmax1024 m x y).
  rewrite Rlt_bool_true.
  - intros [V [F _]]. rewrite F, Fx, Fy. auto.
  - rewrite Rabs_pos_eq.
    + apply Rle_lt_trans with (bpow radix2 1020); [|apply bpow_lt; lia].
      rewrite <- (round_generic radix2 fexp64 (round_mode m) (bpow radix2 1020)) by (apply fmt_bpow; lia).
      apply round_le; auto with typeclass_instances.
    + rewrite <- (round_0 radix2 fexp64 (round_mode m)). apply round_le; auto with typeclass_instances.
Qed.

(** the constructor's start point fl(k * side) for a cell boundary 1 <= k <= n-1 *)
Lemma start_point : forall L n k, domain L n -> (1 <= k <= n - 1)%Z ->
  let s := side L n in let p := fmul (of_Z k) s in let a := IZR k * val s in
  a * (1 - uu) <= val p <= a * (1 + uu) /\ inD (fpred L) p.
Proof.
  intros L n k HD Hk s p a. pose proof HD as [FL [[HL1 HL2] Hn]].
  destruct (ks_bounds L n k HD Hk) as [B1 [B2 [B3 [B4 B5]]]]. fold s a in B1, B2, B3, B4, B5.
  destruct (domain_side L n HD) as [Fs _]. fold s in Fs.
  destruct (of_Z_val k ltac:(lia)) as [Fk Vk].
  assert (Ha0 : 0 <= a) by (apply Rle_trans with (2 := B4); apply bpow_ge_0).
  destruct (mult_round mode_NE (of_Z k) s Fk Fs) as [Fp Vp]. rewrite Vk; fold a; lra.
  rewrite Vk in Vp. fold a in Vp. simpl round_mode in Vp. fold (fmul (of_Z k) s) in Fp, Vp. fold p in Fp, Vp.
  assert (Hrel : a * (1 - uu) <= RN a <= a * (1 + uu)).
  { apply rel_RN. apply Rle_trans with (2 := B4). apply bpow_le; lia. }
  rewrite Vp. split; [exact Hrel|].
  assert (HL0 : 0 < val L) by (apply Rlt_le_trans with (2 := HL1); apply bpow_gt_0).
  split; [exact Fp|]. split.
  - rewrite Vp. unfold uu in *. lra.
  - apply val_le_pred; auto. rewrite Vp. unfold uu in *. lra.
Qed.

(** a float in cell k (1 <= k <= n-1): k * side rounded up *)
Lemma cell_witness : forall L n k, domain L n -> (1 <= k <= n - 1)%Z ->
  let s := side L n in let a := IZR k * val s in
  exists w : f64, a <= val w <= a * (1 + 2 * uu) /\ inD (fpred L) w.
Proof.
  intros L n k HD Hk s a. pose proof HD as [FL [[HL1 HL2] Hn]].
  destruct (ks_bounds L n k HD Hk) as [B1 [B2 [B3 [B4 B5]]]]. fold s a in B1, B2, B3, B4, B5.
  destruct (domain_side L n HD) as [Fs _]. fold s in Fs.
  destruct (of_Z_val k ltac:(lia)) as [Fk Vk].
  assert (Ha0 : 0 <= a) by (apply Rle_trans with (2 := B4); apply bpow_ge_0).
  destruct (mult_round mode_UP (of_Z k) s Fk Fs) as [Fp Vp]. rewrite Vk; fold a; lra.
  rewrite Vk in Vp. fold a in Vp. simpl round_mode in Vp.
  exists (Bmult mode_UP (of_Z k) s).
  assert (Hrel : a <= RU a <= a * (1 + 2 * uu)).
  { apply rel_RU. apply Rle_trans with (2 := B4). apply bpow_le; lia. }
  rewrite Vp. split; [exact Hrel|].
  assert (HL0 : 0 < val L) by (apply Rlt_le_trans with (2 := HL1); apply bpow_gt_0).
  split; [exact Fp|]. split.
  - rewrite Vp. lra.
  - apply val_le_pred; auto. rewrite Vp. lra.
Qed.

Lemma side_pos : forall L n, domain L n -> 0 < val (side L n).
Proof.
  intros L n HD. destruct (domain_side L n HD) as [_ [[H _] _]].
  apply Rlt_le_trans with (2 := H). apply bpow_gt_0.
Qed.

Lemma inD_fdiv_finite : forall L n x, domain L n -> inD (fpred L) x -> ffinite (fdiv x (side L n)) = true.
Proof.
  intros L n x HD [Fx Vx]. destruct (domain_top L n HD) as [_ [_ Ft]].
  apply (fdiv_finite_le x (fpred L) (side L n)); auto. apply side_pos; exact HD.
Qed.

Lemma idx_ge_boundary : forall L n x k, domain L n -> inD (fpred L) x -> (0 <= k <= n - 1)%Z ->
  IZR k * val (side L n) <= val x -> (k <= idx (side L n) n x)%Z.
Proof.
  intros L n x k HD Dx Hk Hx. pose proof HD as [_ [_ Hn]]. unfold idx.
  apply Z.min_glb; [|lia]. apply raw_idx_ge; auto.
  - apply Rlt_gt. apply side_pos; exact HD.
  - apply inD_fdiv_finite; assumption.
  - lia.
Qed.

Lemma idx_lt_boundary : forall L n x k, domain L n -> inD (fpred L) x -> (1 <= k <= n)%Z ->
  val x <= IZR k * val (side L n) * (1 - 2 * uu) -> (idx (side L n) n x < k)%Z.
Proof.
  intros L n x k HD Dx Hk Hx. pose proof HD as [_ [_ Hn]]. unfold idx.
  apply Z.le_lt_trans with (raw_idx (side L n) x); [apply Z.le_min_l|].
  apply raw_idx_lt; auto.
  - apply Rlt_gt. apply side_pos; exact HD.
  - destruct Dx as [_ [H _]]. exact H.
  - apply inD_fdiv_finite; assumption.
  - lia.
Qed.

(** a float just above the boundary k*side has index exactly k *)
Lemma idx_near_boundary : forall L n x k, domain L n -> inD (fpred L) x -> (1 <= k <= n - 1)%Z ->
  IZR k * val (side L n) <= val x <= IZR k * val (side L n) * (1 + 2 * uu) ->
  idx (side L n) n x = k.
Proof.
  intros L n x k HD Dx Hk [H1 H2].
  assert (Hge : (k <= idx (side L n) n x)%Z) by (apply idx_ge_boundary; auto; lia).
  destruct (Z.eq_dec k (n - 1)) as [He|Hne].
  - assert (idx (side L n) n x <= n - 1)%Z by (unfold idx; apply Z.le_min_r). lia.
  - assert (Hlt : (idx (side L n) n x < k + 1)%Z).
    { apply idx_lt_boundary; auto; [lia|]. rewrite plus_IZR.
      destruct (ks_bounds L n k HD Hk) as [B1 [B2 _]]. unfold uu in *. lra. }
    lia.
Qed.

Lemma idx_le_below : forall L n x k, domain L n -> inD (fpred L) x -> (1 <= k <= n - 1)%Z ->
  val x <= IZR k * val (side L n) * (1 + 2 * uu) -> (idx (side L n) n x <= k)%Z.
Proof.
  intros L n x k HD Dx Hk H2.
  destruct (Z.eq_dec k (n - 1)) as [He|Hne].
  - assert (idx (side L n) n x <= n - 1)%Z by (unfold idx; apply Z.le_min_r). lia.
  - assert (Hlt : (idx (side L n) n x < k + 1)%Z).
    { apply idx_lt_boundary; auto; [lia|]. rewrite plus_IZR.
      destruct (ks_bounds L n k HD Hk) as [B1 [B2 _]]. unfold uu in *. lra. }
    lia.
Qed.

Lemma inD_zero : forall L n, domain L n -> inD (fpred L) fzero.
Proof.
  intros L n HD. destruct (domain_top L n HD) as [_ [[H _] _]]. split; [reflexivity|]. simpl. lra.
Qed.

Theorem domain_grid_hyps : forall L n, domain L n -> grid_hyps L n.
Proof.
  intros L n HD. pose proof HD as [FL [HL Hn]].
  destruct (domain_side L n HD) as [Fs _]. destruct (domain_top L n HD) as [Ftop [_ Ft]].
  pose proof (side_pos L n HD) as Hs.
  unfold grid_hyps. split; [lia|]. split; [exact Fs|]. split; [exact Hs|]. split; [exact Ftop|].
  split; [exact Ft|]. intros i Hi. split; [|split].
  - destruct (Z.eq_dec i 0) as [->|Hne].
    + exists fzero. split. apply (inD_zero L n HD). apply idx_zero; auto. lia.
    + destruct (cell_witness L n i HD ltac:(lia)) as [w [Hw Dw]]. exists w. split; [exact Dw|].
      apply idx_near_boundary; auto. lia.
  - intros Hi1. destruct (start_point L n i HD ltac:(lia)) as [Hp Dp].
    destruct (ks_bounds L n i HD ltac:(lia)) as [B1 [B2 [_ [B4 _]]]].
    assert (Ha : 0 < IZR i * val (side L n)) by (apply Rlt_le_trans with (2 := B4); apply bpow_gt_0).
    unfold lower_start. split; [exact Dp|]. split.
    + unfold uu in *. lra.
    + apply idx_le_below; auto. lia. unfold uu in *. lra.
  - intros Hi1. destruct (start_point L n (i + 1) HD ltac:(lia)) as [Hp Dp].
    destruct (ks_bounds L n (i + 1) HD ltac:(lia)) as [B1 [B2 _]].
    unfold upper_start. split; [exact Dp|].
    apply idx_ge_boundary; auto. lia. rewrite plus_IZR in *. unfold uu in *. lra.
Qed.

(** ** termination of the stepping loops *)
Lemma step_while_fuel : forall {X : Type} (Q : nat -> X -> Prop) (step : X -> X) (cond : X -> bool),
  (forall x, Q O x -> cond x = false) ->
  (forall k x, Q (S k) x -> cond x = true -> Q k (step x)) ->
  forall k fuel x, (k < fuel)%nat -> Q k x -> exists r, step_while fuel step cond x = Some r.
Proof.
  intros X Q step cond H0 HS. induction k as [|k IH]; intros fuel x Hk Hq.
  - destruct fuel as [|f]; [lia|]. simpl. rewrite (H0 x Hq). eauto.
  - destruct fuel as [|f]; [lia|]. simpl. destruct (cond x) eqn:E; [|eauto].
    apply IH; [lia|]. apply HS; assumption.
Qed.

Lemma pow1u_pos : forall k, 0 < (1 + uu) ^ k.
Proof. intros. apply pow_lt. pose proof uu_pos. lra. Qed.

Lemma idx_pos_val : forall L n x, domain L n -> inD (fpred L) x -> (1 <= idx (side L n) n x)%Z -> 0 < val x.
Proof.
  intros L n x HD [Fx [Vx _]] Hi. destruct (Rle_lt_or_eq_dec _ _ Vx) as [H|H]; [exact H|].
  pose proof HD as [_ [_ Hn]].
  rewrite (idx_zero (side L n) n x) in Hi; auto; try lia. apply side_pos; exact HD.
Qed.

Lemma inD_fpred : forall top x, inD top x -> 0 < val x -> inD top (fpred x).
Proof.
  intros top x [Fx [_ Vx]] Hx. destruct (fpred_pos x Fx Hx) as [F1 [_ V1]]. split; [exact F1|]. lra.
Qed.

Lemma bpow_m1020 : bpow radix2 (-1020) = 2 * bpow radix2 (-1021).
Proof. replace (-1020)%Z with (1 + -1021)%Z by lia. rewrite bpow_split. simpl (bpow radix2 1). lra. Qed.

Lemma lower_loops_terminate : forall L n i fuel, domain L n -> (1 <= i <= n - 1)%Z -> (6 <= fuel)%nat ->
  exists r, lower_loops fuel next_float_up next_float_down (idx (side L n) n) i (lower_start (side L n) i) = Some r.
Proof.
  intros L n i fuel HD Hi Hfuel.
  set (s := side L n). set (top := fpred L). set (a := IZR i * val s).
  destruct (start_point L n i HD Hi) as [Hlo Dlo]. fold s a top in Hlo, Dlo.
  destruct (ks_bounds L n i HD Hi) as [B1 [B2 [B3 [B4 B5]]]]. fold s a in B1, B2, B3, B4, B5.
  assert (Ha : 0 < a) by (apply Rlt_le_trans with (2 := B4); apply bpow_gt_0).
  pose proof (side_pos L n HD) as Hs. fold s in Hs.
  destruct (domain_top L n HD) as [Ftop [_ Ft]]. fold s top in Ftop, Ft.
  pose proof uu_pos as Hu.
  (* phase 1 terminates *)
  assert (T1 : exists r1, step_while fuel next_float_down (fun x => (idx s n x =? i)%Z) (lower_start s i) = Some r1).
  apply (step_while_fuel (fun k x => inD top x /\ val x <= a * (1 - 2 * uu) * (1 + uu) ^ k)) with (k := 4%nat).
  { intros x [Dx Hx]. simpl in Hx. apply Z.eqb_neq.
    assert (idx s n x < i)%Z by (apply idx_lt_boundary; auto; try lia; try (fold s a; lra)). lia. }
  { intros k x [Dx Hx] Hc. apply Z.eqb_eq in Hc.
    assert (Hpos : 0 < val x) by (apply (idx_pos_val L n x HD Dx); fold s; lia).
    split. apply inD_fpred; assumption.
    pose proof (fpred_factor x (proj1 Dx) Hpos) as Hf. pose proof (pow1u_pos k) as Hc'.
    apply Rmult_le_reg_r with (1 + uu); [lra|].
    replace (a * (1 - 2 * uu) * (1 + uu) ^ k * (1 + uu)) with (a * (1 - 2 * uu) * ((1 + uu) * (1 + uu) ^ k)) by ring.
    unfold next_float_down. simpl pow in Hx. lra. }
  { lia. }
  { split; [exact Dlo|]. unfold lower_start. fold s. simpl pow. unfold uu in *. lra. }
  destruct T1 as [r1 E1].
  (* where phase 1 stops *)
  pose proof E1 as E1'.
  apply (step_while_inv (fun y => inD top y /\ a * (1 - 2 * uu) <= val y * (1 + 2 * uu))) in E1'.
  2:{ intros y [Dy Hy] Hc. apply Z.eqb_eq in Hc.
      assert (Hgt : a * (1 - 2 * uu) < val y).
      { destruct (Rle_or_lt (val y) (a * (1 - 2 * uu))) as [Hle|Hgt]; [|exact Hgt].
        assert (idx s n y < i)%Z by (apply idx_lt_boundary; auto; try lia; try (fold s a; lra)). lia. }
      assert (Hpos : 0 < val y) by (unfold uu in *; lra).
      split. apply inD_fpred; assumption.
      assert (Hn : bpow radix2 (-1021) <= val y).
      { rewrite bpow_m1020 in B4. pose proof (bpow_gt_0 radix2 (-1021)). unfold uu in *. lra. }
      pose proof (fpred_factor_lower y (proj1 Dy) Hn). unfold next_float_down. lra. }
  2:{ split; [exact Dlo|]. unfold lower_start. fold s. unfold uu in *. lra. }
  destruct E1' as [[D1 H1] _].
  (* phase 2 terminates *)
  destruct (cell_witness L n i HD Hi) as [w [Hw Dw]]. fold s a top in Hw, Dw.
  assert (Iw : idx s n w = i) by (apply idx_near_boundary; auto).
  assert (T2 : exists r, step_while fuel next_float_up (fun x => (idx s n x <? i)%Z) r1 = Some r).
  apply (step_while_fuel (fun k x => inD top x /\ a <= val x * (1 + uu) ^ k)) with (k := 5%nat).
  { intros x [Dx Hx]. simpl in Hx. apply Z.ltb_ge. apply idx_ge_boundary; auto. lia. fold s a. lra. }
  { intros k x [Dx Hx] Hc. apply Z.ltb_lt in Hc.
    assert (Hxw : val x < val w).
    { destruct (Rle_or_lt (val w) (val x)) as [Hle|Hgt]; [|exact Hgt].
      pose proof (idx_mono_D s top n w x Hs Ft Dw Dx Hle). lia. }
    destruct (fsucc_below x w (proj1 Dx) Hxw) as [F1 [_ V1]].
    split. { split; [exact F1|]. unfold next_float_up. destruct Dx as [_ ?]. destruct Dw as [_ ?]. lra. }
    pose proof (fsucc_factor x w (proj1 Dx) (proj1 (proj2 Dx)) Hxw) as Hf. pose proof (pow1u_pos k) as Hc'.
    unfold next_float_up. simpl pow in Hx.
    apply Rle_trans with (1 := Hx). rewrite <- Rmult_assoc. apply Rmult_le_compat_r; lra. }
  { lia. }
  { split; [exact D1|]. destruct D1 as [_ [? _]]. simpl pow. unfold uu in *. lra. }
  destruct T2 as [r E2].
  exists r. unfold lower_loops, obind. fold s. rewrite E1. exact E2.
Qed.

Lemma upper_loops_terminate : forall L n i fuel, domain L n -> (0 <= i <= n - 2)%Z -> (6 <= fuel)%nat ->
  exists r, upper_loops fuel next_float_up next_float_down (idx (side L n) n) i (upper_start (side L n) i) = Some r.
Proof.
  intros L n i fuel HD Hi Hfuel.
  set (s := side L n). set (top := fpred L). set (b := IZR (i + 1) * val s).
  assert (Hk : (1 <= i + 1 <= n - 1)%Z) by lia.
  destruct (start_point L n (i + 1) HD Hk) as [Hup Dup]. fold s b top in Hup, Dup.
  destruct (ks_bounds L n (i + 1) HD Hk) as [B1 [B2 [B3 [B4 B5]]]]. fold s b in B1, B2, B3, B4, B5.
  assert (Hb : 0 < b) by (apply Rlt_le_trans with (2 := B4); apply bpow_gt_0).
  pose proof (side_pos L n HD) as Hs. fold s in Hs.
  destruct (domain_top L n HD) as [Ftop [_ Ft]]. fold s top in Ftop, Ft.
  pose proof uu_pos as Hu.
  destruct (cell_witness L n (i + 1) HD Hk) as [z [Hz Dz]]. fold s b top in Hz, Dz.
  assert (Iz : idx s n z = (i + 1)%Z) by (apply idx_near_boundary; auto).
  (* phase 1 terminates *)
  assert (T1 : exists r1, step_while fuel next_float_up (fun x => (idx s n x =? i)%Z) (upper_start s i) = Some r1).
  apply (step_while_fuel (fun k x => inD top x /\ b <= val x * (1 + uu) ^ k)) with (k := 2%nat).
  { intros x [Dx Hx]. simpl in Hx. apply Z.eqb_neq.
    assert (i + 1 <= idx s n x)%Z by (apply idx_ge_boundary; auto; try lia; try (fold s b; lra)). lia. }
  { intros k x [Dx Hx] Hc. apply Z.eqb_eq in Hc.
    assert (Hxz : val x < val z).
    { destruct (Rle_or_lt (val z) (val x)) as [Hle|Hgt]; [|exact Hgt].
      pose proof (idx_mono_D s top n z x Hs Ft Dz Dx Hle). lia. }
    destruct (fsucc_below x z (proj1 Dx) Hxz) as [F1 [_ V1]].
    split. { split; [exact F1|]. unfold next_float_up. destruct Dx as [_ ?]. destruct Dz as [_ ?]. lra. }
    pose proof (fsucc_factor x z (proj1 Dx) (proj1 (proj2 Dx)) Hxz) as Hf. pose proof (pow1u_pos k) as Hc'.
    unfold next_float_up. simpl pow in Hx.
    apply Rle_trans with (1 := Hx). rewrite <- Rmult_assoc. apply Rmult_le_compat_r; lra. }
  { lia. }
  { split; [exact Dup|]. unfold upper_start. fold s. simpl pow. unfold uu in *. lra. }
  destruct T1 as [r1 E1].
  (* where phase 1 stops *)
  pose proof E1 as E1'.
  apply (step_while_inv (fun y => inD top y /\ val y <= b * (1 + 2 * uu))) in E1'.
  2:{ intros y [Dy Hy] Hc. apply Z.eqb_eq in Hc.
      assert (Hyz : val y < val z).
      { destruct (Rle_or_lt (val z) (val y)) as [Hle|Hgt]; [|exact Hgt].
        pose proof (idx_mono_D s top n z y Hs Ft Dz Dy Hle). lia. }
      destruct (fsucc_below y z (proj1 Dy) Hyz) as [F1 [_ V1]].
      split. { split; [exact F1|]. unfold next_float_up. destruct Dy as [_ ?]. destruct Dz as [_ ?]. lra. }
      unfold next_float_up. lra. }
  2:{ split; [exact Dup|]. unfold upper_start. fold s. unfold uu in *. lra. }
  destruct E1' as [[D1 H1] _].
  (* phase 2 terminates *)
  assert (T2 : exists r, step_while fuel next_float_down (fun x => (idx s n x >? i)%Z) r1 = Some r).
  apply (step_while_fuel (fun k x => inD top x /\ val x <= b * (1 - 2 * uu) * (1 + uu) ^ k)) with (k := 5%nat).
  { intros x [Dx Hx]. simpl in Hx. rewrite Z.gtb_ltb. apply Z.ltb_ge.
    assert (idx s n x < i + 1)%Z by (apply idx_lt_boundary; auto; try lia; try (fold s b; lra)). lia. }
  { intros k x [Dx Hx] Hc. rewrite Z.gtb_ltb in Hc. apply Z.ltb_lt in Hc.
    assert (Hpos : 0 < val x) by (apply (idx_pos_val L n x HD Dx); fold s; lia).
    split. apply inD_fpred; assumption.
    pose proof (fpred_factor x (proj1 Dx) Hpos) as Hf. pose proof (pow1u_pos k) as Hc'.
    apply Rmult_le_reg_r with (1 + uu); [lra|].
    replace (b * (1 - 2 * uu) * (1 + uu) ^ k * (1 + uu)) with (b * (1 - 2 * uu) * ((1 + uu) * (1 + uu) ^ k)) by ring.
    unfold next_float_down. simpl pow in Hx. lra. }
  { lia. }
  { split; [exact D1|]. simpl pow. unfold uu in *. lra. }
  destruct T2 as [r E2].
  exists r. unfold upper_loops, obind. fold s. rewrite E1. exact E2.
Qed.

(** ** total correctness on the domain *)
Lemma cell_min_total : forall L n i fuel, domain L n -> (0 <= i < n)%Z -> (6 <= fuel)%nat ->
  exists r, cell_min fuel L n i = Some r.
Proof.
  intros L n i fuel HD Hi Hfuel. destruct (domain_side L n HD) as [Fs _].
  destruct (Z.eq_dec i 0) as [->|Hne].
  - destruct (cell_min_first fuel L n Fs) as [r [Hr _]]. eauto.
  - unfold cell_min. destruct (start_point L n i HD ltac:(lia)) as [Hlo Dlo].
    destruct (ks_bounds L n i HD ltac:(lia)) as [_ [_ [_ [B4 _]]]].
    assert (Ha : 0 < IZR i * val (side L n)) by (apply Rlt_le_trans with (2 := B4); apply bpow_gt_0).
    assert (G : fgt (lower_start (side L n) i) fzero = true).
    { apply fgt_zero. exact (proj1 Dlo). unfold lower_start. unfold uu in *. lra. }
    rewrite G. apply lower_loops_terminate; auto. lia.
Qed.

Lemma cell_max_total : forall L n i fuel, domain L n -> (0 <= i < n)%Z -> (6 <= fuel)%nat ->
  exists r, cell_max fuel L n i = Some r.
Proof.
  intros L n i fuel HD Hi Hfuel. unfold cell_max.
  destruct (Z.eqb_spec (i + 1) n) as [He|Hne]; [eauto|].
  apply upper_loops_terminate; auto. lia.
Qed.

Lemma grid_extents_are_fibres : forall fuel (L : f64) (n : Z) (mn mx : Z -> f64),
  grid_hyps L n ->
  (forall i, (0 <= i < n)%Z -> cell_min fuel L n i = Some (mn i) /\ cell_max fuel L n i = Some (mx i)) ->
  forall i, (0 <= i < n)%Z ->
    is_fmin (side L n) (fpred L) n i (mn i) /\ is_fmax (side L n) (fpred L) n i (mx i).
Proof.
  intros fuel L n mn mx [Hn [Fs [Hs [Ftop [Ft Hall]]]]] Hret i Hi.
  destruct (Hret i Hi) as [Hmin Hmax].
  destruct (Hall i Hi) as [[w [Dw Hw]] [Hlo Hup]]. split.
  - apply (cell_min_correct fuel L n i w (mn i)); auto.
  - destruct (Z_lt_le_dec (i + 1) n) as [Hlt|Hge].
    + destruct (Hall (i + 1)%Z ltac:(lia)) as [[z [Dz Hz]] _].
      apply (cell_max_correct fuel L n i w z (mx i)); auto.
      intros _. destruct (Hup Hlt) as [H1 H2]. repeat split; try apply H1; try apply Dz; auto. lia.
    + apply (cell_max_correct fuel L n i w w (mx i)); auto. intros; lia.
Qed.

Definition opt_get (o : option f64) : f64 := match o with Some r => r | None => fzero end.

(** For every box length 2^-1000 <= L <= 2^1000 and every 1 <= n <= 2^20 cells: the constructor's loops
    terminate (within default_fuel = 64 steps; 6 suffice), the recorded extents are the least / greatest
    floats of the cells, and they partition the floats of [0, pred L]. *)
Theorem grid_partition_domain : forall (L : f64) (n : Z), domain L n ->
  let s := side L n in let top := fpred L in
  exists mn mx : Z -> f64,
  (forall i, (0 <= i < n)%Z ->
     cell_min default_fuel L n i = Some (mn i) /\ cell_max default_fuel L n i = Some (mx i) /\
     is_fmin s top n i (mn i) /\ is_fmax s top n i (mx i)) /\
  val (mn 0%Z) = 0 /\ mx (n - 1)%Z = fpred L /\
  (forall i, (0 <= i)%Z -> (i + 1 < n)%Z ->
     val (fsucc (mx i)) = val (mn (i + 1)%Z) /\ val (mn (i + 1)%Z) = succ radix2 fexp64 (val (mx i))) /\
  (forall x, inD top x ->
     (0 <= idx s n x < n)%Z /\
     val (mn (idx s n x)) <= val x <= val (mx (idx s n x)) /\
     (forall c, (0 <= c < n)%Z -> val (mn c) <= val x <= val (mx c) -> c = idx s n x)).
Proof.
  intros L n HD s top.
  set (mn := fun i => opt_get (cell_min default_fuel L n i)).
  set (mx := fun i => opt_get (cell_max default_fuel L n i)).
  assert (Hret : forall i, (0 <= i < n)%Z ->
            cell_min default_fuel L n i = Some (mn i) /\ cell_max default_fuel L n i = Some (mx i)).
  { intros i Hi. unfold mn, mx.
    destruct (cell_min_total L n i default_fuel HD Hi) as [r1 ->]. unfold default_fuel; lia.
    destruct (cell_max_total L n i default_fuel HD Hi) as [r2 ->]. unfold default_fuel; lia.
    simpl. auto. }
  pose proof (domain_grid_hyps L n HD) as GH.
  exists mn, mx. split.
  - intros i Hi. destruct (Hret i Hi) as [H1 H2].
    destruct (grid_extents_are_fibres default_fuel L n mn mx GH Hret i Hi) as [H3 H4]. auto.
  - apply (grid_partition default_fuel L n mn mx GH Hret).
Qed.

(** monotonicity for positions of the box without any finiteness side condition *)
Lemma idx_monotone_domain : forall L n x y, domain L n ->
  ffinite x = true -> ffinite y = true -> 0 <= val x <= val y -> val y < val L ->
  (idx (side L n) n x <= idx (side L n) n y)%Z.
Proof.
  intros L n x y HD Fx Fy Hxy HyL. pose proof HD as [FL _].
  destruct (domain_top L n HD) as [_ [_ Ft]].
  apply (idx_mono_D (side L n) (fpred L) n); auto.
  - apply side_pos; exact HD.
  - apply in_box_inD; auto. lra.
  - apply in_box_inD; auto. lra.
  - lra.
Qed.

(** the constructor's loops, total correctness on the domain *)
Lemma extent_loops_domain : forall L n, domain L n ->
  let s := side L n in let top := fpred L in
  (forall i, (1 <= i <= n - 1)%Z -> exists r,
     lower_loops default_fuel next_float_up next_float_down (idx s n) i (lower_start s i) = Some r /\
     is_fmin s top n i r) /\
  (forall i, (0 <= i <= n - 2)%Z -> exists r,
     upper_loops default_fuel next_float_up next_float_down (idx s n) i (upper_start s i) = Some r /\
     is_fmax s top n i r).
Proof.
  intros L n HD s top. pose proof (domain_grid_hyps L n HD) as [Hn [Fs [Hs [Ftop [Ft Hall]]]]].
  fold s top in Fs, Hs, Ftop, Ft, Hall. split.
  - intros i Hi. destruct (lower_loops_terminate L n i default_fuel HD Hi) as [r Hr]. unfold default_fuel; lia.
    fold s in Hr. exists r. split; [exact Hr|].
    destruct (Hall i ltac:(lia)) as [[w [Dw Hw]] [Hlo _]]. destruct (Hlo ltac:(lia)) as [Dlo [_ Ilo]].
    apply (lower_loops_min s top n i default_fuel (lower_start s i) w r); auto; lia.
  - intros i Hi. destruct (upper_loops_terminate L n i default_fuel HD Hi) as [r Hr]. unfold default_fuel; lia.
    fold s in Hr. exists r. split; [exact Hr|].
    destruct (Hall i ltac:(lia)) as [[w [Dw Hw]] [_ Hup]]. destruct (Hup ltac:(lia)) as [Dup Iup].
    destruct (Hall (i + 1)%Z ltac:(lia)) as [[z [Dz Hz]] _].
    apply (upper_loops_max s top n i default_fuel (upper_start s i) w z r); auto. lia.
Qed.

(** statements with the domain spelled out (used by Props/C16.v) *)
Lemma grid_partition_lemma : forall (L : f64) (n : Z),
  ffinite L = true -> bpow radix2 (-1000) <= val L <= bpow radix2 1000 -> (1 <= n <= 2 ^ 20)%Z ->
  let s := side L n in let top := fpred L in
  exists mn mx : Z -> f64,
  (forall i, (0 <= i < n)%Z ->
     cell_min default_fuel L n i = Some (mn i) /\ cell_max default_fuel L n i = Some (mx i) /\
     is_fmin s top n i (mn i) /\ is_fmax s top n i (mx i)) /\
  val (mn 0%Z) = 0 /\ mx (n - 1)%Z = fpred L /\
  (forall i, (0 <= i)%Z -> (i + 1 < n)%Z ->
     val (fsucc (mx i)) = val (mn (i + 1)%Z) /\ val (mn (i + 1)%Z) = succ radix2 fexp64 (val (mx i))) /\
  (forall x, inD top x ->
     (0 <= idx s n x < n)%Z /\
     val (mn (idx s n x)) <= val x <= val (mx (idx s n x)) /\
     (forall c, (0 <= c < n)%Z -> val (mn c) <= val x <= val (mx c) -> c = idx s n x)).
Proof. intros L n H1 H2 H3. apply grid_partition_domain. repeat split; tauto || lia. Qed.

Lemma extent_loops_lemma : forall (L : f64) (n : Z),
  ffinite L = true -> bpow radix2 (-1000) <= val L <= bpow radix2 1000 -> (1 <= n <= 2 ^ 20)%Z ->
  let s := side L n in let top := fpred L in
  (forall i, (1 <= i <= n - 1)%Z -> exists r,
     lower_loops default_fuel next_float_up next_float_down (idx s n) i (lower_start s i) = Some r /\
     is_fmin s top n i r) /\
  (forall i, (0 <= i <= n - 2)%Z -> exists r,
     upper_loops default_fuel next_float_up next_float_down (idx s n) i (upper_start s i) = Some r /\
     is_fmax s top n i r).
Proof. intros L n H1 H2 H3. apply extent_loops_domain. repeat split; tauto || lia. Qed.

Lemma idx_monotone_box_lemma : forall (L : f64) (n : Z) (x y : f64),
  ffinite L = true -> bpow radix2 (-1000) <= val L <= bpow radix2 1000 -> (1 <= n <= 2 ^ 20)%Z ->
  ffinite x = true -> ffinite y = true -> 0 <= val x <= val y -> val y < val L ->
  (idx (side L n) n x <= idx (side L n) n y)%Z.
Proof. intros L n x y H1 H2 H3. apply idx_monotone_domain. repeat split; tauto || lia. Qed.

Lemma domain_example : domain fone 3.
Proof.
  split; [reflexivity|]. split; [|lia]. change (val fone) with (val Bone).
  rewrite Bone_correct. change 1 with (bpow radix2 0). split; apply bpow_le; lia.
Qed.
