(** * Proofs/F64Facts.v — reusable real-valued facts about the binary64 layer (Flocq). *)
From Coq Require Import ZArith Bool List Reals Lia Lra Psatz.
From Flocq Require Import Core.Core IEEE754.BinarySingleNaN.
Require Import JF.Base.F64 JF.Base.PyFloat.
Local Open Scope R_scope.

(** ** Notation: the binary64 format and rounding to nearest even. *)
Notation fexp64 := (FLT_exp (-1074) 53).
Notation fmt64 := (generic_format radix2 fexp64).
Notation RN := (round radix2 fexp64 ZnearestE).
Notation ulp64 := (ulp radix2 fexp64).
Notation R_ x := (B2R (prec:=53) (emax:=1024) x) (only parsing).

#[global] Instance fexp64_valid : Valid_exp fexp64 := FLT_exp_valid (-1074) 53.

Lemma fmt_B2R : forall x : f64, fmt64 (B2R x).
Proof. intros x. exact (generic_format_B2R 53 1024 x). Qed.

Lemma RN_id : forall r, fmt64 r -> RN r = r.
Proof. intros r H. apply round_generic; auto with typeclass_instances. Qed.

Lemma RN_B2R : forall x : f64, RN (B2R x) = B2R x.
Proof. intros; apply RN_id, fmt_B2R. Qed.

Lemma RN_le : forall x y, x <= y -> RN x <= RN y.
Proof. intros; apply round_le; auto with typeclass_instances. Qed.

Lemma RN_0 : RN 0 = 0.
Proof. apply round_0; auto with typeclass_instances. Qed.

Lemma RN_err : forall x, Rabs (RN x - x) <= / 2 * ulp64 x.
Proof. intros; apply error_le_half_ulp; auto with typeclass_instances. Qed.

Lemma B2R_lt_emax : forall x : f64, Rabs (B2R x) < bpow radix2 1024.
Proof. intros x. apply (abs_B2R_lt_emax 53 1024 x). Qed.

(** ** Arithmetic: real-valued specifications under finiteness / no overflow. *)
Lemma fadd_spec : forall x y : f64,
  ffinite x = true -> ffinite y = true ->
  Rabs (RN (B2R x + B2R y)) < bpow radix2 1024 ->
  B2R (fadd x y) = RN (B2R x + B2R y) /\ ffinite (fadd x y) = true.
Proof.
  intros x y Fx Fy H.
  generalize (Bplus_correct 53 1024 _ _ mode_NE x y Fx Fy).
  simpl round_mode. rewrite Rlt_bool_true by exact H.
  intros (A & B & _). split; assumption.
Qed.

Lemma fsub_spec : forall x y : f64,
  ffinite x = true -> ffinite y = true ->
  Rabs (RN (B2R x - B2R y)) < bpow radix2 1024 ->
  B2R (fsub x y) = RN (B2R x - B2R y) /\ ffinite (fsub x y) = true.
Proof.
  intros x y Fx Fy H.
  generalize (Bminus_correct 53 1024 _ _ mode_NE x y Fx Fy).
  simpl round_mode. rewrite Rlt_bool_true by exact H.
  intros (A & B & _). split; assumption.
Qed.

Lemma fmul_spec : forall x y : f64,
  ffinite x = true -> ffinite y = true ->
  Rabs (RN (B2R x * B2R y)) < bpow radix2 1024 ->
  B2R (fmul x y) = RN (B2R x * B2R y) /\ ffinite (fmul x y) = true.
Proof.
  intros x y Fx Fy H.
  generalize (Bmult_correct 53 1024 _ _ mode_NE x y).
  simpl round_mode. rewrite Rlt_bool_true by exact H.
  intros (A & B & _). split. assumption. unfold ffinite, fmul in *. rewrite B, Fx, Fy. reflexivity.
Qed.

Lemma fdiv_spec : forall x y : f64,
  ffinite x = true -> B2R y <> 0 ->
  Rabs (RN (B2R x / B2R y)) < bpow radix2 1024 ->
  B2R (fdiv x y) = RN (B2R x / B2R y) /\ ffinite (fdiv x y) = true.
Proof.
  intros x y Fx Hy H.
  generalize (Bdiv_correct 53 1024 _ _ mode_NE x y Hy).
  simpl round_mode. rewrite Rlt_bool_true by exact H.
  intros (A & B & _). split. assumption. unfold ffinite, fdiv in *. rewrite B. exact Fx.
Qed.

(** ** Comparisons (finite operands). *)
Lemma fcompare_spec : forall x y : f64,
  ffinite x = true -> ffinite y = true -> fcompare x y = Some (Rcompare (B2R x) (B2R y)).
Proof. intros; apply Bcompare_correct; assumption. Qed.

Lemma flt_spec : forall x y : f64,
  ffinite x = true -> ffinite y = true -> flt x y = Rlt_bool (B2R x) (B2R y).
Proof.
  intros x y Fx Fy. unfold flt. rewrite fcompare_spec by assumption.
  unfold Rlt_bool. destruct (Rcompare (B2R x) (B2R y)); reflexivity.
Qed.

Lemma feq_spec : forall x y : f64,
  ffinite x = true -> ffinite y = true -> feq x y = Req_bool (B2R x) (B2R y).
Proof.
  intros x y Fx Fy. unfold feq. rewrite fcompare_spec by assumption.
  unfold Req_bool. destruct (Rcompare (B2R x) (B2R y)); reflexivity.
Qed.

Lemma fle_spec : forall x y : f64,
  ffinite x = true -> ffinite y = true -> fle x y = Rle_bool (B2R x) (B2R y).
Proof.
  intros x y Fx Fy. unfold fle. rewrite fcompare_spec by assumption.
  unfold Rle_bool. destruct (Rcompare (B2R x) (B2R y)); reflexivity.
Qed.

Lemma flt_true_iff : forall x y : f64,
  ffinite x = true -> ffinite y = true -> (flt x y = true <-> B2R x < B2R y).
Proof.
  intros x y Fx Fy. rewrite flt_spec by assumption. split; intros H.
  - destruct (Rlt_bool_spec (B2R x) (B2R y)); [assumption|discriminate].
  - apply Rlt_bool_true; assumption.
Qed.

Lemma feq_true_iff : forall x y : f64,
  ffinite x = true -> ffinite y = true -> (feq x y = true <-> B2R x = B2R y).
Proof.
  intros x y Fx Fy. rewrite feq_spec by assumption. split; intros H.
  - destruct (Req_bool_spec (B2R x) (B2R y)); [assumption|discriminate].
  - apply Req_bool_true; assumption.
Qed.

Lemma fle_true_iff : forall x y : f64,
  ffinite x = true -> ffinite y = true -> (fle x y = true <-> B2R x <= B2R y).
Proof.
  intros x y Fx Fy. rewrite fle_spec by assumption. split; intros H.
  - destruct (Rle_bool_spec (B2R x) (B2R y)); [assumption|discriminate].
  - apply Rle_bool_true; assumption.
Qed.

(** Constants. *)
Lemma fzero_R : B2R fzero = 0. Proof. reflexivity. Qed.
Lemma fone_R : B2R fone = 1. Proof. apply Bone_correct. Qed.
Lemma fone_finite : ffinite fone = true. Proof. apply is_finite_Bone. Qed.
Lemma fone_sign : fsign fone = false. Proof. apply Bsign_Bone. Qed.

(** ** Integers of magnitude at most 2^53 are representable. *)
Lemma fmt_IZR : forall n : Z, (Z.abs n <= 2 ^ 53)%Z -> fmt64 (IZR n).
Proof.
  intros n Hn.
  destruct (Z_lt_le_dec (Z.abs n) (2 ^ 53)) as [Hlt|Hge].
  - apply generic_format_FLT. exists (Float radix2 n 0).
    + unfold F2R; simpl. ring.
    + exact Hlt.
    + simpl. lia.
  - assert (Habs : Z.abs n = (2 ^ 53)%Z) by lia.
    apply generic_format_FLT.
    destruct (Z.abs_eq_or_opp n) as [E|E]; rewrite E in Habs.
    + exists (Float radix2 1 53).
      * rewrite Habs. unfold F2R; simpl. lra.
      * simpl. lia.
      * simpl. lia.
    + exists (Float radix2 (-1) 53).
      * replace n with (- 2 ^ 53)%Z by lia. unfold F2R; simpl. lra.
      * simpl. lia.
      * simpl. lia.
Qed.

(** ** Structure of finite floats. *)
Lemma bounded_inv : forall mx ex,
  SpecFloat.bounded 53 1024 mx ex = true -> (Z.pos mx < 2 ^ 53)%Z /\ (-1074 <= ex)%Z.
Proof.
  intros mx ex H. unfold SpecFloat.bounded in H. apply andb_prop in H. destruct H as [H _].
  unfold SpecFloat.canonical_mantissa in H. apply Zeq_bool_eq in H.
  unfold SpecFloat.fexp, SpecFloat.emin in H.
  rewrite Digits.Zpos_digits2_pos in H.
  assert (D : (Digits.Zdigits radix2 (Z.pos mx) <= 53)%Z) by lia.
  split; [|lia].
  generalize (Digits.Zdigits_correct radix2 (Z.pos mx)). intros [_ Hlt].
  rewrite Z.abs_eq in Hlt by lia.
  apply Z.lt_le_trans with (1 := Hlt).
  change (2 ^ 53)%Z with (radix2 ^ 53)%Z.
  apply Zpower_le. exact D.
Qed.
