(** * Proofs/F64Facts.v — reusable real-valued facts about the binary64 layer (Flocq). *)
From Coq Require Import ZArith Bool List Reals Lia Lra Psatz.
From Flocq Require Import Core.Core IEEE754.BinarySingleNaN.
Require Import JF.Base.F64 JF.Base.PyFloat.
Local Open Scope R_scope.

(** ** Notation: the binary64 format and rounding to nearest even. *)
Notation fexp64 := (FLT_exp (-1074) 53).
Notation fmt64 := (generic_format radix2 fexp64).
Notation RN := (round radix2 fexp64 ZnearestE).
Notation ulp64 := (ulp radix2 fexp64).
Notation R_ x := (B2R (prec:=53) (emax:=1024) x) (only parsing).

#[global] Instance fexp64_valid : Valid_exp fexp64 := FLT_exp_valid (-1074) 53.

Lemma fmt_B2R : forall x : f64, fmt64 (B2R x).
Proof. intros x. exact (generic_format_B2R 53 1024 x). Qed.

Lemma RN_id : forall r, fmt64 r -> RN r = r.
Proof. intros r H. apply round_generic; auto with typeclass_instances. Qed.

Lemma RN_B2R : forall x : f64, RN (B2R x) = B2R x.
Proof. intros; apply RN_id, fmt_B2R. Qed.

Lemma RN_le : forall x y, x <= y -> RN x <= RN y.
Proof. intros; apply round_le; auto with typeclass_instances. Qed.

Lemma RN_0 : RN 0 = 0.
Proof. apply round_0; auto with typeclass_instances. Qed.

Lemma RN_err : forall x, Rabs (RN x - x) <= / 2 * ulp64 x.
Proof. intros; apply error_le_half_ulp; auto with typeclass_instances. Qed.

Lemma B2R_lt_emax : forall x : f64, Rabs (B2R x) < bpow radix2 1024.
Proof. intros x. apply (abs_B2R_lt_emax 53 1024 x). Qed.

(** ** Arithmetic: real-valued specifications under finiteness / no overflow. *)
Lemma fadd_spec : forall x y : f64,
  ffinite x = true -> ffinite y = true ->
  Rabs (RN (B2R x + B2R y)) < bpow radix2 1024 ->
  B2R (fadd x y) = RN (B2R x + B2R y) /\ ffinite (fadd x y) = true.
Proof.
  intros x y Fx Fy H.
  generalize (Bplus_correct 53 1024 _ _ mode_NE x y Fx Fy).
  simpl round_mode. rewrite Rlt_bool_true by exact H.
  intros (A & B & _). split; assumption.
Qed.

Lemma fsub_spec : forall x y : f64,
  ffinite x = true -> ffinite y = true ->
  Rabs (RN (B2R x - B2R y)) < bpow radix2 1024 ->
  B2R (fsub x y) = RN (B2R x - B2R y) /\ ffinite (fsub x y) = true.
Proof.
  intros x y Fx Fy H.
  generalize (Bminus_correct 53 1024 _ _ mode_NE x y Fx Fy).
  simpl round_mode. rewrite Rlt_bool_true by exact H.
  intros (A & B & _). split; assumption.
Qed.

Lemma fmul_spec : forall x y : f64,
  ffinite x = true -> ffinite y = true ->
  Rabs (RN (B2R x * B2R y)) < bpow radix2 1024 ->
  B2R (fmul x y) = RN (B2R x * B2R y) /\ ffinite (fmul x y) = true.
Proof.
  intros x y Fx Fy H.
  generalize (Bmult_correct 53 1024 _ _ mode_NE x y).
  simpl round_mode. rewrite Rlt_bool_true by exact H.
  intros (A & B & _). split. assumption. unfold ffinite, fmul in *. rewrite B, Fx, Fy. reflexivity.
Qed.

Lemma fdiv_spec : forall x y : f64,
  ffinite x = true -> B2R y <> 0 ->
  Rabs (RN (B2R x / B2R y)) < bpow radix2 1024 ->
  B2R (fdiv x y) = RN (B2R x / B2R y) /\ ffinite (fdiv x y) = true.
Proof.
  intros x y Fx Hy H.
  generalize (Bdiv_correct 53 1024 _ _ mode_NE x y Hy).
  simpl round_mode. rewrite Rlt_bool_true by exact H.
  intros (A & B & _). split. assumption. unfold ffinite, fdiv in *. rewrite B. exact Fx.
Qed.

(** ** Comparisons (finite operands). *)
Lemma fcompare_spec : forall x y : f64,
  ffinite x = true -> ffinite y = true -> fcompare x y = Some (Rcompare (B2R x) (B2R y)).
Proof. intros; apply Bcompare_correct; assumption. Qed.

Lemma flt_spec : forall x y : f64,
  ffinite x = true -> ffinite y = true -> flt x y = Rlt_bool (B2R x) (B2R y).
Proof.
  intros x y Fx Fy. unfold flt. rewrite fcompare_spec by assumption.
  unfold Rlt_bool. destruct (Rcompare (B2R x) (B2R y)); reflexivity.
Qed.

Lemma feq_spec : forall x y : f64,
  ffinite x = true -> ffinite y = true -> feq x y = Req_bool (B2R x) (B2R y).
Proof.
  intros x y Fx Fy. unfold feq. rewrite fcompare_spec by assumption.
  unfold Req_bool. destruct (Rcompare (B2R x) (B2R y)); reflexivity.
Qed.

Lemma fle_spec : forall x y : f64,
  ffinite x = true -> ffinite y = true -> fle x y = Rle_bool (B2R x) (B2R y).
Proof.
  intros x y Fx Fy. unfold fle. rewrite fcompare_spec by assumption.
  unfold Rle_bool. destruct (Rcompare (B2R x) (B2R y)); reflexivity.
Qed.

Lemma flt_true_iff : forall x y : f64,
  ffinite x = true -> ffinite y = true -> (flt x y = true <-> B2R x < B2R y).
Proof.
  intros x y Fx Fy. rewrite flt_spec by assumption. split; intros H.
  - destruct (Rlt_bool_spec (B2R x) (B2R y)); [assumption|discriminate].
  - apply Rlt_bool_true; assumption.
Qed.

Lemma feq_true_iff : forall x y : f64,
  ffinite x = true -> ffinite y = true -> (feq x y = true <-> B2R x = B2R y).
Proof.
  intros x y Fx Fy. rewrite feq_spec by assumption. split; intros H.
  - destruct (Req_bool_spec (B2R x) (B2R y)); [assumption|discriminate].
  - apply Req_bool_true; assumption.
Qed.

Lemma fle_true_iff : forall x y : f64,
  ffinite x = true -> ffinite y = true -> (fle x y = true <-> B2R x <= B2R y).
Proof.
  intros x y Fx Fy. rewrite fle_spec by assumption. split; intros H.
  - destruct (Rle_bool_spec (B2R x) (B2R y)); [assumption|discriminate].
  - apply Rle_bool_true; assumption.
Qed.

(** Constants. *)
Lemma fzero_R : B2R fzero = 0. Proof. reflexivity. Qed.
Lemma fone_R : B2R fone = 1. Proof. apply Bone_correct. Qed.
Lemma fone_finite : ffinite fone = true. Proof. apply is_finite_Bone. Qed.
Lemma fone_sign : fsign fone = false. Proof. apply Bsign_Bone. Qed.

(** ** Integers of magnitude at most 2^53 are representable. *)
Lemma fmt_IZR : forall n : Z, (Z.abs n <= 2 ^ 53)%Z -> fmt64 (IZR n).
Proof.
  intros n Hn.
  destruct (Z_lt_le_dec (Z.abs n) (2 ^ 53)) as [Hlt|Hge].
  - apply generic_format_FLT. exists (Float radix2 n 0).
    + unfold F2R; simpl. ring.
    + exact Hlt.
    + simpl. lia.
  - assert (Habs : Z.abs n = (2 ^ 53)%Z) by lia.
    apply generic_format_FLT.
    destruct (Z.abs_eq_or_opp n) as [E|E]; rewrite E in Habs.
    + exists (Float radix2 1 53).
      * rewrite Habs. unfold F2R; simpl. lra.
      * simpl. lia.
      * simpl. lia.
    + exists (Float radix2 (-1) 53).
      * replace n with (- 2 ^ 53)%Z by lia. unfold F2R; simpl. lra.
      * simpl. lia.
      * simpl. lia.
Qed.

(** ** Structure of finite floats. *)
Lemma bounded_inv : forall mx ex,
  SpecFloat.bounded 53 1024 mx ex = true -> (Z.pos mx < 2 ^ 53)%Z /\ (-1074 <= ex)%Z.
Proof.
  intros mx ex H. unfold SpecFloat.bounded in H. apply andb_prop in H. destruct H as [H _].
  unfold SpecFloat.canonical_mantissa in H. apply Zeq_bool_eq in H.
  unfold SpecFloat.fexp, SpecFloat.emin in H.
  rewrite Digits.Zpos_digits2_pos in H.
  assert (D : (Digits.Zdigits radix2 (Z.pos mx) <= 53)%Z) by lia.
  split; [|lia].
  generalize (Digits.Zdigits_correct radix2 (Z.pos mx)). intros [_ Hlt].
  rewrite Z.abs_eq in Hlt by lia.
  apply Z.lt_le_trans with (1 := Hlt).
  change (2 ^ 53)%Z with (radix2 ^ 53)%Z.
  apply Zpower_le. exact D.
Qed.

(** ** C fmod, exact. *)
Lemma cond_Zopp_IZR : forall s z, IZR (cond_Zopp s z) = (if s then - IZR z else IZR z)%R.
Proof. intros [|] z; simpl; [apply opp_IZR|reflexivity]. Qed.

Lemma ffmod_spec : forall x y : f64,
  ffinite x = true -> ffinite y = true -> B2R y <> 0 ->
  exists k : Z,
    B2R (ffmod x y) = B2R x - IZR k * B2R y /\
    Rabs (B2R (ffmod x y)) < Rabs (B2R y) /\
    Rabs (B2R (ffmod x y)) <= Rabs (B2R x) /\
    ffinite (ffmod x y) = true /\
    fsign (ffmod x y) = fsign x.
Proof.
  intros [sx|sx| |sx mx ex Hx] [sy|sy| |sy my ey Hy] Fx Fy Hy0; try discriminate;
    try (simpl in Hy0; congruence).
  - exists 0%Z. simpl. rewrite Rabs_R0. repeat split; try lra.
    apply Rabs_pos_lt. exact Hy0.
  - destruct (bounded_inv _ _ Hx) as [Bmx Bex]. destruct (bounded_inv _ _ Hy) as [Bmy Bey].
    unfold ffmod.
    set (e := Z.min ex ey).
    set (X := (Z.pos mx * 2 ^ (ex - e))%Z).
    set (Y := (Z.pos my * 2 ^ (ey - e))%Z).
    set (r := Z.rem X Y).
    assert (He1 : (e <= ex)%Z) by (unfold e; lia).
    assert (He2 : (e <= ey)%Z) by (unfold e; lia).
    assert (HX : (0 < X)%Z) by (unfold X; apply Z.mul_pos_pos; [lia|apply Z.pow_pos_nonneg; lia]).
    assert (HY : (0 < Y)%Z) by (unfold Y; apply Z.mul_pos_pos; [lia|apply Z.pow_pos_nonneg; lia]).
    assert (Hr : (0 <= r < Y)%Z) by (apply Z.rem_bound_pos; lia).
    assert (HrX : (r <= X)%Z) by (apply Z.rem_le; lia).
    assert (Hr53 : (r < 2 ^ 53)%Z).
    { destruct (Z_le_dec ex ey) as [L|L].
      - assert (e = ex) by (unfold e; lia).
        assert (X = Z.pos mx) by (unfold X; replace (ex - e)%Z with 0%Z by lia; simpl; lia). lia.
      - assert (e = ey) by (unfold e; lia).
        assert (Y = Z.pos my) by (unfold Y; replace (ey - e)%Z with 0%Z by lia; simpl; lia). lia. }
    assert (Hxe : B2R (B754_finite sx mx ex Hx) = F2R (Float radix2 (cond_Zopp sx X) e)).
    { simpl. rewrite (F2R_change_exp radix2 e _ ex He1).
      apply (f_equal (fun z => F2R (Float radix2 z e))).
      destruct sx; unfold cond_Zopp, X; change (radix_val radix2) with 2%Z; ring. }
    assert (Hye : B2R (B754_finite sy my ey Hy) = F2R (Float radix2 (cond_Zopp sy Y) e)).
    { simpl. rewrite (F2R_change_exp radix2 e _ ey He2).
      apply (f_equal (fun z => F2R (Float radix2 z e))).
      destruct sy; unfold cond_Zopp, Y; change (radix_val radix2) with 2%Z; ring. }
    set (m := if sx then (- r)%Z else r).
    assert (Hm : m = cond_Zopp sx r) by (unfold m; destruct sx; reflexivity).
    assert (Hfmt : fmt64 (F2R (Float radix2 m e))).
    { apply generic_format_FLT. exists (Float radix2 m e); simpl.
      - reflexivity.
      - rewrite Hm, abs_cond_Zopp. rewrite Z.abs_eq; lia.
      - unfold e; lia. }
    assert (Habs : Rabs (F2R (Float radix2 m e)) = F2R (Float radix2 r e)).
    { rewrite Hm. rewrite <- F2R_Zabs. simpl. rewrite abs_cond_Zopp, Z.abs_eq by lia. reflexivity. }
    assert (HabsX : Rabs (B2R (B754_finite sx mx ex Hx)) = F2R (Float radix2 X e)).
    { rewrite Hxe, <- F2R_Zabs. simpl. rewrite abs_cond_Zopp, Z.abs_eq by lia. reflexivity. }
    assert (HabsY : Rabs (B2R (B754_finite sy my ey Hy)) = F2R (Float radix2 Y e)).
    { rewrite Hye, <- F2R_Zabs. simpl. rewrite abs_cond_Zopp, Z.abs_eq by lia. reflexivity. }
    generalize (binary_normalize_correct 53 1024 Hprec53 Hmax1024 mode_NE m e sx).
    simpl round_mode. fold fexp64.
    replace (SpecFloat.fexp 53 1024) with fexp64 by reflexivity.
    cbv zeta. rewrite (RN_id _ Hfmt).
    rewrite Rlt_bool_true.
    2:{ rewrite Habs. apply Rle_lt_trans with (F2R (Float radix2 X e)).
        - apply F2R_le. exact HrX.
        - rewrite <- HabsX. apply B2R_lt_emax. }
    intros (V & Fin & Sg).
    exists (cond_Zopp sx (cond_Zopp sy (Z.quot X Y))).
    split; [|split; [|split; [|split]]].
    + rewrite V, Hxe, Hye, Hm. unfold F2R; simpl.
      rewrite !cond_Zopp_IZR.
      assert (EQ : IZR X = IZR Y * IZR (Z.quot X Y) + IZR r).
      { rewrite <- mult_IZR, <- plus_IZR. f_equal. unfold r. apply Z.quot_rem'. }
      destruct sx, sy; rewrite EQ; ring.
    + rewrite V, Habs, HabsY. apply F2R_lt. lia.
    + rewrite V, Habs, HabsX. apply F2R_le. exact HrX.
    + exact Fin.
    + unfold fsign. rewrite Sg. simpl.
      destruct (Rcompare_spec (F2R (Float radix2 m e)) 0) as [C|C|C].
      * destruct sx; [reflexivity|]. exfalso.
        assert (0 <= F2R (Float radix2 m e)) by (apply F2R_ge_0; simpl; unfold m; lia). lra.
      * reflexivity.
      * destruct sx; [|reflexivity]. exfalso.
        assert (F2R (Float radix2 m e) <= 0) by (apply F2R_le_0; simpl; unfold m; lia). lra.
Qed.

(** ** Sign, zero test, NaN test of finite floats. *)
Lemma fsign_nonneg : forall x : f64, ffinite x = true -> fsign x = false -> 0 <= B2R x.
Proof.
  intros [s|s| |s m e H] F S; try discriminate; simpl in *; try lra.
  subst s. apply F2R_ge_0. simpl. lia.
Qed.

Lemma fsign_nonpos : forall x : f64, ffinite x = true -> fsign x = true -> B2R x <= 0.
Proof.
  intros [s|s| |s m e H] F S; try discriminate; simpl in *; try lra.
  subst s. apply F2R_le_0. simpl. lia.
Qed.

Lemma fsign_of_pos : forall x : f64, ffinite x = true -> 0 < B2R x -> fsign x = false.
Proof.
  intros x F P. destruct (fsign x) eqn:S; [|reflexivity].
  generalize (fsign_nonpos x F S). lra.
Qed.

Lemma fsign_of_neg : forall x : f64, ffinite x = true -> B2R x < 0 -> fsign x = true.
Proof.
  intros x F P. destruct (fsign x) eqn:S; [reflexivity|].
  generalize (fsign_nonneg x F S). lra.
Qed.

Lemma fiszero_spec : forall x : f64, ffinite x = true -> (fiszero x = true <-> B2R x = 0).
Proof.
  intros [s|s| |s m e H] F; try discriminate; simpl; split; intros; try reflexivity; try discriminate.
  exfalso. destruct s.
  - assert (F2R (Float radix2 (cond_Zopp true (Z.pos m)) e) < 0) by (apply F2R_lt_0; simpl; lia). lra.
  - assert (0 < F2R (Float radix2 (cond_Zopp false (Z.pos m)) e)) by (apply F2R_gt_0; simpl; lia). lra.
Qed.

Lemma fiszero_false : forall x : f64, ffinite x = true -> B2R x <> 0 -> fiszero x = false.
Proof.
  intros x F H. destruct (fiszero x) eqn:E; [|reflexivity].
  apply fiszero_spec in E; [contradiction|assumption].
Qed.

Lemma fiszero_true : forall x : f64, ffinite x = true -> B2R x = 0 -> fiszero x = true.
Proof. intros x F H. apply fiszero_spec; assumption. Qed.

Lemma fisnan_finite : forall x : f64, ffinite x = true -> fisnan x = false.
Proof. intros [s|s| |s m e H] F; try discriminate; reflexivity. Qed.

Lemma fisinf_finite : forall x : f64, ffinite x = true -> fisinf x = false.
Proof. intros [s|s| |s m e H] F; try discriminate; reflexivity. Qed.

(** Two finite floats with the same real value and the same sign are the same float. *)
Lemma f64_eq : forall x y : f64,
  ffinite x = true -> ffinite y = true -> B2R x = B2R y -> fsign x = fsign y -> x = y.
Proof. intros; apply B2R_Bsign_inj; assumption. Qed.

Lemma nonneg_zero_is_fzero : forall x : f64,
  ffinite x = true -> fsign x = false -> B2R x = 0 -> x = fzero.
Proof. intros x F S Z. apply f64_eq; try assumption; reflexivity. Qed.

(** Sign of a sum with positive exact value. *)
Lemma fadd_sign_pos : forall x y : f64,
  ffinite x = true -> ffinite y = true ->
  Rabs (RN (B2R x + B2R y)) < bpow radix2 1024 ->
  0 < B2R x + B2R y -> fsign (fadd x y) = false.
Proof.
  intros x y Fx Fy H P.
  generalize (Bplus_correct 53 1024 _ _ mode_NE x y Fx Fy).
  simpl round_mode. rewrite Rlt_bool_true by exact H.
  intros (_ & _ & S). unfold fsign, fadd. rewrite S.
  rewrite Rcompare_Gt by exact P. reflexivity.
Qed.

(** [fmod] of an argument already smaller in magnitude than the modulus is the identity. *)
Lemma ffmod_small : forall x y : f64,
  ffinite x = true -> ffinite y = true -> Rabs (B2R x) < Rabs (B2R y) -> ffmod x y = x.
Proof.
  intros x y Fx Fy H.
  assert (Hy0 : B2R y <> 0) by (intros E; rewrite E, Rabs_R0 in H; generalize (Rabs_pos (B2R x)); lra).
  destruct (ffmod_spec x y Fx Fy Hy0) as (k & V & B1 & B2 & Fin & Sg).
  apply f64_eq; try assumption.
  assert (K : k = 0%Z).
  { destruct (Z.eq_dec k 0) as [E|NE]; [exact E|exfalso].
    assert (1 <= Rabs (IZR k)).
    { rewrite <- abs_IZR. apply IZR_le. lia. }
    assert (Rabs (B2R y) <= Rabs (IZR k * B2R y)).
    { rewrite Rabs_mult. generalize (Rabs_pos (B2R y)). nra. }
    assert (E : IZR k * B2R y = B2R x - B2R (ffmod x y)) by lra.
    rewrite E in H1.
    destruct (fsign x) eqn:Sx.
    - generalize (fsign_nonpos x Fx Sx) (fsign_nonpos _ Fin Sg). intros.
      rewrite (Rabs_left1 (B2R x)) in * by assumption.
      rewrite (Rabs_left1 (B2R (ffmod x y))) in * by assumption.
      revert H1. unfold Rabs at 2. destruct Rcase_abs; lra.
    - generalize (fsign_nonneg x Fx Sx) (fsign_nonneg _ Fin Sg). intros.
      rewrite (Rabs_pos_eq (B2R x)) in * by assumption.
      rewrite (Rabs_pos_eq (B2R (ffmod x y))) in * by assumption.
      revert H1. unfold Rabs at 2. destruct Rcase_abs; lra. }
  rewrite V, K. simpl. ring.
Qed.

(** Rounding stays between two representable bounds. *)
Lemma RN_between : forall (a b : f64) r, B2R a <= r <= B2R b -> B2R a <= RN r <= B2R b.
Proof.
  intros a b r [H1 H2]. split.
  - rewrite <- (RN_B2R a). apply RN_le; assumption.
  - rewrite <- (RN_B2R b). apply RN_le; assumption.
Qed.

Lemma RN_no_overflow_le : forall (b : f64) r, Rabs r <= Rabs (B2R b) -> Rabs (RN r) < bpow radix2 1024.
Proof.
  intros b r H. apply Rle_lt_trans with (Rabs (B2R b)); [|apply B2R_lt_emax].
  apply abs_round_le_generic; auto with typeclass_instances.
  apply generic_format_abs, fmt_B2R.
Qed.

(** ** Python's float [%] for a positive finite modulus. *)
Lemma py_mod_pos : forall x y : f64,
  ffinite x = true -> ffinite y = true -> 0 < B2R y ->
  exists (m : f64) (k : Z),
    py_mod x y = Some m /\ ffinite m = true /\ fsign m = false /\
    0 <= B2R x - IZR k * B2R y < B2R y /\
    B2R m = RN (B2R x - IZR k * B2R y) /\
    (0 <= B2R x -> fmt64 (B2R x - IZR k * B2R y)).
Proof.
  intros x y Fx Fy Py.
  assert (Hy0 : B2R y <> 0) by lra.
  assert (Sy : fsign y = false) by (apply fsign_of_pos; assumption).
  destruct (ffmod_spec x y Fx Fy Hy0) as (k & V & B1 & B2 & Fin & Sg).
  rewrite (Rabs_pos_eq (B2R y)) in B1 by lra.
  unfold py_mod. rewrite (fiszero_false y Fy Hy0).
  assert (Fzf : ffinite fzero = true) by reflexivity.
  assert (LY : flt y fzero = false).
  { rewrite flt_spec by assumption. apply Rlt_bool_false. simpl. lra. }
  rewrite LY. rewrite (fisnan_finite _ Fin).
  destruct (Rtotal_order (B2R (ffmod x y)) 0) as [Neg|[Zer|Pos]].
  - (* negative remainder: one rounded addition of the modulus *)
    rewrite (fiszero_false _ Fin) by lra. simpl negb. simpl andb.
    assert (LM : flt (ffmod x y) fzero = true).
    { rewrite flt_spec by assumption. apply Rlt_bool_true. simpl. lra. }
    rewrite LM. simpl Bool.eqb. cbv iota.
    rewrite (Rabs_left (B2R (ffmod x y))) in B1 by lra.
    assert (NO : Rabs (RN (B2R (ffmod x y) + B2R y)) < bpow radix2 1024).
    { apply (RN_no_overflow_le y). rewrite !Rabs_pos_eq by lra. lra. }
    destruct (fadd_spec _ _ Fin Fy NO) as [VA FA].
    exists (fadd (ffmod x y) y), (k - 1)%Z.
    assert (E : B2R x - IZR (k - 1) * B2R y = B2R (ffmod x y) + B2R y).
    { rewrite minus_IZR, V. ring. }
    rewrite E.
    split; [reflexivity|]. split; [exact FA|].
    split; [apply fadd_sign_pos; try assumption; lra|].
    split; [lra|]. split; [exact VA|].
    intros Px. exfalso.
    assert (fsign x = true) by (rewrite <- Sg; apply fsign_of_neg; assumption).
    generalize (fsign_nonpos x Fx H). intros.
    assert (B2R x = 0) by lra.
    rewrite H1, Rabs_R0 in B2. generalize (Rabs_pos (B2R (ffmod x y))). intros.
    assert (Rabs (B2R (ffmod x y)) = 0) by lra.
    apply Rabs_eq_R0 in H3. lra.
  - (* zero remainder *)
    rewrite (fiszero_true _ Fin Zer). simpl negb. simpl andb. cbv iota.
    exists fzero, k.
    assert (E : B2R x - IZR k * B2R y = 0) by lra.
    rewrite E.
    split.
    { f_equal. unfold fcopysign. rewrite Sy. reflexivity. }
    split; [reflexivity|]. split; [reflexivity|]. split; [lra|].
    split; [simpl; symmetry; apply RN_0|].
    intros _. apply generic_format_0.
  - (* positive remainder *)
    rewrite (fiszero_false _ Fin) by lra. simpl negb. simpl andb.
    assert (LM : flt (ffmod x y) fzero = false).
    { rewrite flt_spec by assumption. apply Rlt_bool_false. simpl. lra. }
    rewrite LM. simpl Bool.eqb. cbv iota.
    rewrite (Rabs_pos_eq (B2R (ffmod x y))) in B1 by lra.
    exists (ffmod x y), k.
    rewrite <- V.
    split; [reflexivity|]. split; [exact Fin|].
    split; [apply fsign_of_pos; assumption|].
    split; [lra|]. split; [symmetry; apply RN_B2R|].
    intros _. apply fmt_B2R.
Qed.

(** ** Constants given by bit patterns. *)
Definition fhalf : f64 := of_bits 0x3FE0000000000000.
Lemma fhalf_SF : B2SF fhalf = SpecFloat.S754_finite false 4503599627370496 (-53).
Proof. vm_compute. reflexivity. Qed.
Lemma fhalf_R : B2R fhalf = / 2.
Proof. rewrite <- SF2R_B2SF, fhalf_SF. unfold SF2R, F2R. simpl. lra. Qed.
Lemma fhalf_finite : ffinite fhalf = true.
Proof. vm_compute. reflexivity. Qed.

(** ** floor *)
Lemma ffloor_spec : forall x : f64,
  B2R (ffloor x) = IZR (Zfloor (B2R x)) /\ ffinite (ffloor x) = ffinite x.
Proof.
  intros x. destruct (Bnearbyint_correct 53 1024 Hmax1024 mode_DN x) as (A & B & _).
  split; [|exact B]. unfold ffloor. rewrite A. simpl round_mode. apply round_FIX_IZR.
Qed.

(** The floor of a binary64 number is a binary64 number. *)
Lemma fmt_floor : forall x : f64, fmt64 (IZR (Zfloor (B2R x))).
Proof. intros x. rewrite <- (proj1 (ffloor_spec x)). apply fmt_B2R. Qed.

Lemma Zfloor_bounds : forall r, IZR (Zfloor r) <= r < IZR (Zfloor r) + 1.
Proof. intros r. split; [apply Zfloor_lb|apply Zfloor_ub]. Qed.

(** ** Python's [divmod(x, 1.0)] for finite non-negative [x]. *)
Lemma py_divmod1_nonneg : forall x : f64,
  ffinite x = true -> 0 <= B2R x ->
  ffinite (fst (py_divmod1 x)) = true /\ ffinite (snd (py_divmod1 x)) = true /\
  B2R (fst (py_divmod1 x)) = IZR (Zfloor (B2R x)) /\
  B2R (snd (py_divmod1 x)) = B2R x - IZR (Zfloor (B2R x)).
Proof.
  intros x Fx Px.
  assert (H1 : B2R fone <> 0) by (rewrite fone_R; lra).
  destruct (ffmod_spec x fone Fx fone_finite H1) as (k & V & B1 & B2 & Fin & Sg).
  rewrite fone_R in V, B1. rewrite Rabs_R1 in B1. rewrite Rmult_1_r in V.
  set (m0 := ffmod x fone) in *.
  assert (P0 : 0 <= B2R m0).
  { destruct (fsign x) eqn:Sx.
    - generalize (fsign_nonpos x Fx Sx). intros.
      assert (E : B2R x = 0) by lra. rewrite E, Rabs_R0 in B2.
      generalize (Rabs_pos (B2R m0)). intros.
      assert (Rabs (B2R m0) = 0) by lra. apply Rabs_eq_R0 in H2. lra.
    - apply fsign_nonneg; [exact Fin|exact Sg]. }
  rewrite Rabs_pos_eq in B1 by exact P0.
  assert (K : Zfloor (B2R x) = k).
  { apply Zfloor_imp. rewrite plus_IZR. simpl. lra. }
  rewrite K.
  (* x - m0 = k exactly *)
  assert (Fk : fmt64 (IZR k)) by (rewrite <- K; apply fmt_floor).
  assert (Ek : B2R x - B2R m0 = IZR k) by lra.
  assert (NOk : Rabs (RN (IZR k)) < bpow radix2 1024).
  { rewrite RN_id by exact Fk. apply Rle_lt_trans with (Rabs (B2R x)); [|apply B2R_lt_emax].
    rewrite Rabs_pos_eq with (x := B2R x) by exact Px.
    assert (IZR (-1) < IZR k) by (simpl; lra). apply lt_IZR in H.
    assert (0 <= IZR k) by (apply IZR_le; lia). rewrite Rabs_pos_eq by assumption. lra. }
  destruct (fsub_spec x m0 Fx Fin) as [Vs Fs]; [rewrite Ek; exact NOk|].
  rewrite Ek, RN_id in Vs by exact Fk.
  set (s := fsub x m0) in *.
  destruct (fdiv_spec s fone Fs H1) as [Vd Fd].
  { rewrite Vs, fone_R. unfold Rdiv. rewrite Rinv_1, Rmult_1_r. exact NOk. }
  rewrite Vs, fone_R in Vd. unfold Rdiv in Vd. rewrite Rinv_1, Rmult_1_r, RN_id in Vd by exact Fk.
  set (d0 := fdiv s fone) in *.
  (* unfold the definition *)
  unfold py_divmod1, py_divmod.
  rewrite (fiszero_false fone fone_finite H1).
  fold m0. fold s. fold d0.
  assert (Fzf : ffinite fzero = true) by reflexivity.
  assert (L1 : flt fone fzero = false).
  { rewrite flt_spec by (try apply fone_finite; reflexivity). apply Rlt_bool_false. rewrite fone_R. simpl. lra. }
  assert (L2 : flt m0 fzero = false).
  { rewrite flt_spec by assumption. apply Rlt_bool_false. simpl. lra. }
  rewrite L1, L2. simpl Bool.eqb. cbv iota.
  assert (CS : fcopysign fzero fone = fzero).
  { unfold fcopysign. rewrite fone_sign. reflexivity. }
  rewrite CS.
  (* the pair (m, d) *)
  set (md := if negb (fiszero m0) then (m0, d0) else (fzero, d0)).
  assert (MD : snd md = d0 /\ ffinite (fst md) = true /\ B2R (fst md) = B2R m0).
  { unfold md. destruct (fiszero m0) eqn:Z0; simpl.
    - split; [reflexivity|]. split; [reflexivity|].
      symmetry. apply fiszero_spec; assumption.
    - split; [reflexivity|]. split; [exact Fin|reflexivity]. }
  destruct md as [m d]. simpl in MD. destruct MD as (Ed & Fm & Vm). subst d.
  cbv zeta.
  (* the quotient *)
  destruct (fiszero d0) eqn:Zd.
  - (* floor is zero *)
    simpl negb. cbv iota. simpl fst. simpl snd.
    assert (Zk : IZR k = 0) by (rewrite <- Vd; apply fiszero_spec; assumption).
    destruct (fdiv_spec x fone Fx H1) as [Vq Fq].
    { rewrite fone_R. unfold Rdiv. rewrite Rinv_1, Rmult_1_r, RN_B2R. apply B2R_lt_emax. }
    split.
    { unfold fcopysign. destruct (Bool.eqb (fsign fzero) (fsign (fdiv x fone))); reflexivity. }
    split; [exact Fm|]. split.
    { unfold fcopysign. destruct (Bool.eqb (fsign fzero) (fsign (fdiv x fone))); simpl; lra. }
    lra.
  - simpl negb. cbv iota. simpl fst. simpl snd.
    destruct (ffloor_spec d0) as [Vf Ff]. rewrite Fd in Ff. rewrite Vd, Zfloor_IZR in Vf.
    set (fl := ffloor d0) in *.
    destruct (fsub_spec d0 fl Fd Ff) as [Vz Fz].
    { rewrite Vd, Vf, Rminus_diag_eq, RN_0, Rabs_R0 by reflexivity. apply bpow_gt_0. }
    rewrite Vd, Vf, Rminus_diag_eq, RN_0 in Vz by reflexivity.
    assert (G : fgt (fsub d0 fl) (of_bits 4602678819172646912) = false).
    { change (of_bits 4602678819172646912) with fhalf. unfold fgt.
      rewrite flt_spec by (try exact fhalf_finite; exact Fz).
      apply Rlt_bool_false. rewrite Vz, fhalf_R. lra. }
    rewrite G.
    split; [exact Ff|]. split; [exact Fm|]. split; [exact Vf|]. lra.
Qed.

(** ** Concrete floats: from the bit-level image to the real value. *)
Lemma B2R_of_SF_finite : forall (x : f64) s m e,
  B2SF x = SpecFloat.S754_finite s m e -> B2R x = F2R (Float radix2 (cond_Zopp s (Z.pos m)) e).
Proof. intros x s m e H. rewrite <- SF2R_B2SF, H. reflexivity. Qed.

Lemma B2R_of_SF_zero : forall (x : f64) s, B2SF x = SpecFloat.S754_zero s -> B2R x = 0.
Proof. intros x s H. rewrite <- SF2R_B2SF, H. reflexivity. Qed.

Lemma sf_eqb_eq : forall a b, sf_eqb a b = true -> a = b.
Proof.
  intros [s|s| |s m e] [s'|s'| |s' m' e']; simpl; intros H; try discriminate; try reflexivity.
  - apply Bool.eqb_prop in H. congruence.
  - apply Bool.eqb_prop in H. congruence.
  - apply andb_prop in H. destruct H as [H H3]. apply andb_prop in H. destruct H as [H1 H2].
    apply Bool.eqb_prop in H1. apply Pos.eqb_eq in H2. apply Z.eqb_eq in H3. congruence.
Qed.

Lemma feqb_bits_B2R : forall x y : f64, feqb_bits x y = true -> B2R x = B2R y.
Proof.
  intros x y H. apply sf_eqb_eq in H. rewrite <- (SF2R_B2SF _ _ x), <- (SF2R_B2SF _ _ y), H. reflexivity.
Qed.

(** [b2r x]: rewrite [B2R x] for a closed float [x] into an explicit [F2R]. *)
Ltac b2r x :=
  let sf := eval vm_compute in (B2SF x) in
  match sf with
  | SpecFloat.S754_finite ?s ?m ?e =>
      rewrite (B2R_of_SF_finite x s m e) by (vm_compute; reflexivity)
  | SpecFloat.S754_zero ?s => rewrite (B2R_of_SF_zero x s) by (vm_compute; reflexivity)
  end.
Ltac b2r_in x H :=
  let sf := eval vm_compute in (B2SF x) in
  match sf with
  | SpecFloat.S754_finite ?s ?m ?e =>
      rewrite (B2R_of_SF_finite x s m e) in H by (vm_compute; reflexivity)
  | SpecFloat.S754_zero ?s => rewrite (B2R_of_SF_zero x s) in H by (vm_compute; reflexivity)
  end.
