(** * Proofs/OccupancyRunProofs.v — every run accepted by [check_ocase] (any number of legs, units, cells) satisfies
    the occupancy invariant [occ_inv] at every leg, with [cellof] = cell of the unit's recorded position at that
    leg; the active unit changes its cell only at cell-boundary events and into the neighbouring cell. *)
From Coq Require Import List ZArith Bool Arith Lia Permutation.
Require Import JF.Base.F64 JF.Model.Cells JF.Model.Occupancy JF.Model.OccupancyRun JF.Proofs.OccupancyProofs.
Import ListNotations.

Lemma llist_eqb_spec a b : llist_eqb a b = true -> a = b.
Proof.
  revert b. induction a as [|x a IH]; destruct b as [|y b]; simpl; intros H; try discriminate; auto.
  apply andb_true_iff in H. destruct H as [H1 H2]. apply list_Z_eqb_spec in H1. subst. f_equal; auto.
Qed.

Lemma mem_lz_spec x l : mem_lz x l = true <-> In x l.
Proof. apply (mem_cell_spec _ list_Z_eqb list_Z_eqb_spec). Qed.

Lemma nodup_lz_spec l : nodup_lz l = true -> NoDup l.
Proof. apply (nodup_b_spec _ list_Z_eqb list_Z_eqb_spec). Qed.

Lemma in_aget (m : cmap) k v : NoDup (map fst m) -> In (k, v) m -> aget list_Z_eqb m k = Some v.
Proof.
  induction m as [|[k' v'] r IH]; simpl; intros ND Hin; [contradiction|].
  inversion ND as [|? ? Hnot ND']; subst.
  destruct Hin as [E|Hin].
  - inversion E; subst. rewrite (proj2 (list_Z_eqb_spec k k)); auto.
  - destruct (list_Z_eqb k' k) eqn:E; auto.
    apply list_Z_eqb_spec in E; subst. exfalso. apply Hnot. apply in_map_iff. exists (k, v). auto.
Qed.

Lemma nodup_map_filter {A B} (f : A -> B) (p : A -> bool) (l : list A) :
  NoDup (map f l) -> NoDup (map f (filter p l)).
Proof.
  induction l as [|a r IH]; simpl; intros ND; auto.
  inversion ND as [|? ? Hnot ND']; subst.
  destruct (p a); simpl; auto. constructor; auto.
  intros H. apply Hnot. apply in_map_iff in H. destruct H as (x & E & Hx). apply filter_In in Hx.
  apply in_map_iff. exists x. tauto.
Qed.

Notation occ_inv_lz := (occ_inv list_Z_eqb list_Z_eqb).

(** ** one leg *)
Section Leg.
  Variable cfg : rcfg.
  Hypothesis cells_nodup : NoDup (rc_cells cfg).
  Hypothesis units_nodup : NoDup (rc_units cfg).

  Theorem step_leg_inv s cl l s' cl' :
    occ_inv_lz (rc_cells cfg) s (rc_units cfg) (cellof_of cl) ->
    step_leg cfg s cl l = Some (s', cl') ->
    occ_inv_lz (rc_cells cfg) s' (rc_units cfg) (cellof_of cl')
    /\ cl' = cells_of_positions (rc_sides cfg) (rc_counts cfg) (ol_units l)
    /\ update list_Z_eqb list_Z_eqb s (ol_nid l) (ol_rel l) (cell_of (rc_sides cfg) (rc_counts cfg) (ol_pos l)) = Ok s'.
  Proof.
    intros I H. unfold step_leg in H.
    set (clx := cells_of_positions (rc_sides cfg) (rc_counts cfg) (ol_units l)) in *.
    set (c := cell_of (rc_sides cfg) (rc_counts cfg) (ol_pos l)) in *.
    destruct (hyps_ok cfg s cl clx l c && crossing_ok cfg s l c) eqn:Hk; [|discriminate].
    apply andb_true_iff in Hk. destruct Hk as [Hh _].
    destruct (update list_Z_eqb list_Z_eqb s (ol_nid l) (ol_rel l) c) as [s1|] eqn:Eu; [|discriminate].
    destruct (snap_eqb s1 (ol_snap l)); [|discriminate]. inversion H; subst s1 cl'. clear H.
    unfold hyps_ok in Hh.
    repeat (apply andb_true_iff in Hh; let H' := fresh "K" in destruct Hh as [Hh H']).
    rename Hh into J1, K3 into J2, K2 into J3, K1 into J4, K0 into J5, K into J6.
    rewrite forallb_forall in J2. rewrite forallb_forall in J5. unfold lz in *.
    assert (H3 : ol_rel l = true <-> In (ol_nid l) (rc_units cfg)).
    { apply Bool.eqb_prop in J3. rewrite J3. apply mem_lz_spec. }
    assert (H4 : ol_rel l = true -> c = cellof_of clx (ol_nid l)).
    { intros E. rewrite E in J4. apply list_Z_eqb_spec; auto. }
    assert (H5 : forall u, In u (rc_units cfg) -> is_active list_Z_eqb s u = false ->
                           cellof_of clx u = cellof_of cl u).
    { intros u Hu Ha. specialize (J5 u Hu). cbv beta in J5. unfold is_active in Ha. unfold lz in *. rewrite Ha in J5.
      apply list_Z_eqb_spec; auto. }
    assert (H6 : forall a, active_id s = Some a -> a <> ol_nid l -> cellof_of clx a = cellof_of cl a).
    { intros a Ea Hne. rewrite Ea in J6. destruct (list_Z_eqb a (ol_nid l)) eqn:E.
      - apply list_Z_eqb_spec in E. contradiction.
      - apply list_Z_eqb_spec; auto. }
    assert (H2 : forall u, In u (rc_units cfg) -> In (cellof_of clx u) (rc_cells cfg)).
    { intros u Hu. apply mem_lz_spec. auto. }
    destruct (update_inv _ _ list_Z_eqb list_Z_eqb list_Z_eqb_spec list_Z_eqb_spec (rc_cells cfg) cells_nodup
                (rc_units cfg) (cellof_of cl) (cellof_of clx) units_nodup H2 s (ol_nid l) (ol_rel l) c I H3 H4 H5 H6)
      as (s2 & E2 & I2).
    rewrite Eu in E2. inversion E2; subst s2. auto.
  Qed.

  (** (c): the active unit changes its cell only at a cell-boundary event, into the neighbouring cell *)
  Lemma refill_active (s : ost) c s' :
    refill list_Z_eqb s c = Ok s' -> active_id s' = active_id s /\ active_cell s' = active_cell s.
  Proof.
    unfold refill. destruct (aget _ (surplus _) _) as [sl|]; [|intros H; discriminate H].
    destruct (pop_last _) as [[x sl']|]; [|intros H; discriminate H]. simpl.
    destruct (aget _ (occupants _) _); intros H; inversion H; subst; simpl; auto.
  Qed.

  Lemma take_out_active (s2 : ost) c nid s' :
    take_out _ _ list_Z_eqb list_Z_eqb s2 c nid = Ok s' ->
    active_id s' = active_id s2 /\ active_cell s' = active_cell s2.
  Proof.
    unfold take_out.
    match goal with |- bind ?X ?F = _ -> _ => destruct X as [s4|] eqn:EX; [|discriminate] end.
    assert (A4 : active_id s4 = active_id s2 /\ active_cell s4 = active_cell s2).
    { destruct (aget _ (occupants _) _) as [oc|]; [|discriminate EX].
      destruct (remove_first _ _ _) as [oc'|].
      - destruct (refill_condition _ _ _).
        + apply refill_active in EX. simpl in EX. exact EX.
        + inversion EX; subst. simpl. auto.
      - destruct (aget _ (surplus _) _) as [sl|]; [|discriminate EX].
        destruct (remove_first _ _ _); [|discriminate EX]. inversion EX; subst. simpl. auto. }
    simpl. destruct (negb _); intros H; inversion H; subst; simpl; tauto.
  Qed.

  Lemma update_active (s : ost) nid rel c s' :
    update list_Z_eqb list_Z_eqb s nid rel c = Ok s' ->
    (opt_id_eqb list_Z_eqb (active_id s) nid = true /\ active_id s' = active_id s /\ active_cell s' = Some c)
    \/ (opt_id_eqb list_Z_eqb (active_id s) nid = false
        /\ ((active_id s' = Some nid /\ active_cell s' = Some c) \/ active_id s' = None)).
  Proof.
    rewrite (update_unfold _ _ list_Z_eqb list_Z_eqb).
    destruct (opt_id_eqb _ _ _) eqn:E.
    - intros H. inversion H; subst. left. simpl. auto.
    - intros H. right. split; auto.
      destruct (reinsert _ _ _ _) as [s1|]; [|discriminate H]. simpl in H.
      destruct rel.
      + apply take_out_active in H. simpl in H. destruct H as [-> ->]. auto.
      + inversion H; subst. simpl. auto.
  Qed.

  Definition crossing_fact (s : ost) (l : oleg) (s' : ost) : Prop :=
    forall a ac c', active_id s = Some a -> active_id s' = Some a ->
                    active_cell s = Some ac -> active_cell s' = Some c' -> ac <> c' ->
                    ol_prev_boundary l = true /\ neighbour (rc_counts cfg) ac c' = true.

  Theorem step_leg_crossing s cl l s' cl' :
    step_leg cfg s cl l = Some (s', cl') -> crossing_fact s l s'.
  Proof.
    intros H a ac c' Ea Ea' Ec Ec' Hne. unfold step_leg in H.
    set (c := cell_of (rc_sides cfg) (rc_counts cfg) (ol_pos l)) in *.
    destruct (hyps_ok cfg s cl _ l c && crossing_ok cfg s l c) eqn:Hk; [|discriminate].
    apply andb_true_iff in Hk. destruct Hk as [_ Hc].
    destruct (update list_Z_eqb list_Z_eqb s (ol_nid l) (ol_rel l) c) as [s1|] eqn:Eu; [|discriminate].
    destruct (snap_eqb s1 (ol_snap l)); [|discriminate]. inversion H; subst s1 cl'. clear H.
    destruct (update_active _ _ _ _ _ Eu) as [(E1 & E2 & E3)|(E1 & [[E2 E3]|E2])]; unfold ost, lz in *.
    - rewrite Ea in E1. simpl in E1.
      rewrite E3 in Ec'. inversion Ec'; subst c'.
      unfold crossing_ok in Hc. unfold ost, lz in *. rewrite Ea, Ec, E1 in Hc.
      destruct (list_Z_eqb ac c) eqn:E.
      + apply list_Z_eqb_spec in E. contradiction.
      + apply andb_true_iff in Hc. tauto.
    - rewrite Ea in E1. simpl in E1. rewrite Ea' in E2. inversion E2; subst.
      rewrite (proj2 (list_Z_eqb_spec _ _) eq_refl) in E1. discriminate.
    - rewrite Ea' in E2. discriminate.
  Qed.

  (** ** whole runs *)
  Fixpoint crossings_ok (s : ost) (legs : list oleg) (rest : list (ost * cmap)) : Prop :=
    match legs, rest with
    | [], [] => True
    | l :: lr, (s', _) :: rr => crossing_fact s l s' /\ crossings_ok s' lr rr
    | _, _ => False
    end.

  Lemma run_legs_inv : forall legs s cl rest,
    occ_inv_lz (rc_cells cfg) s (rc_units cfg) (cellof_of cl) ->
    run_legs cfg s cl legs = Some rest ->
    length rest = length legs
    /\ Forall (fun sc => occ_inv_lz (rc_cells cfg) (fst sc) (rc_units cfg) (cellof_of (snd sc))) rest
    /\ crossings_ok s legs rest.
  Proof.
    induction legs as [|l lr IH]; intros s cl rest I H; simpl in H.
    - inversion H; subst. simpl. auto.
    - destruct (step_leg cfg s cl l) as [[s' cl']|] eqn:E; [|discriminate].
      destruct (run_legs cfg s' cl' lr) as [rr|] eqn:Er; [|discriminate]. inversion H; subst.
      destruct (step_leg_inv _ _ _ _ _ I E) as (I' & _ & _).
      destruct (IH _ _ _ I' Er) as (Hl & Hf & Hc).
      simpl. split; [lia|]. split; [constructor; auto|]. split; auto.
      eapply step_leg_crossing; eauto.
  Qed.
End Leg.

(** ** the initial state *)
Lemma units_of_case c : case_units c = units_of (case_us c).
Proof. reflexivity. Qed.

Lemma init_case_inv c s0 cl0 :
  init_case c = Some (s0, cl0) ->
  NoDup (rc_cells (case_cfg c)) /\ NoDup (rc_units (case_cfg c))
  /\ occ_inv_lz (rc_cells (case_cfg c)) s0 (rc_units (case_cfg c)) (cellof_of cl0)
  /\ active_id s0 = None
  /\ cl0 = case_cl0 c.
Proof.
  unfold init_case. intros H.
  destruct (nodup_lz (rc_cells (case_cfg c)) && nodup_lz (map fst (case_cl0 c))
            && forallb (fun uc => mem_lz (snd uc) (rc_cells (case_cfg c))) (case_cl0 c)) eqn:Hk; [|discriminate].
  apply andb_true_iff in Hk. destruct Hk as [Hk K3]. apply andb_true_iff in Hk. destruct Hk as [K1 K2].
  apply nodup_lz_spec in K1. apply nodup_lz_spec in K2. rewrite forallb_forall in K3.
  destruct (initialize list_Z_eqb (rc_cells (case_cfg c)) (limit_of_max (oc_max c)) (case_us c)) as [s|] eqn:Ei;
    [|discriminate].
  destruct (snap_eqb s (oc_init_snap c)); [|discriminate]. inversion H; subst s cl0. clear H.
  assert (Hus : forall u c0 r, In (u, c0, r) (case_us c) ->
                               In c0 (rc_cells (case_cfg c)) /\ cellof_of (case_cl0 c) u = c0).
  { intros u c0 r Hin.
    assert (Hin' : In (u, c0) (case_cl0 c)).
    { unfold case_cl0. apply in_map_iff. exists (u, c0, r). auto. }
    split.
    - apply mem_lz_spec. apply (K3 (u, c0) Hin').
    - unfold cellof_of. rewrite (in_aget _ _ _ K2 Hin'). reflexivity. }
  destruct (init_inv _ _ list_Z_eqb list_Z_eqb list_Z_eqb_spec (rc_cells (case_cfg c)) K1
              (limit_of_max (oc_max c)) (case_us c) (cellof_of (case_cl0 c)) Hus) as (s & E & I & Ai & _).
  unfold ost, lz in E, Ei. rewrite Ei in E. inversion E; subst s.
  split; auto. split; [|auto].
  simpl. unfold case_units.
  assert (Hm : map fst (case_cl0 c) = map (fun x => fst (fst x)) (case_us c)).
  { unfold case_cl0. rewrite map_map. reflexivity. }
  rewrite Hm in K2. apply nodup_map_filter; auto.
Qed.

(** ** accepted runs of any length *)
Theorem run_occ_inv c :
  check_ocase c = true ->
  exists states,
    run_case c = Some states
    /\ length states = S (length (oc_legs c))
    /\ NoDup (torus_cells (oc_counts c)) /\ NoDup (case_units c)
    /\ Forall (fun sc => occ_inv_lz (torus_cells (oc_counts c)) (fst sc) (case_units c) (cellof_of (snd sc))) states.
Proof.
  unfold check_ocase. destruct (run_case c) as [states|] eqn:E; [|discriminate]. intros _.
  exists states. split; auto.
  unfold run_case in E.
  destruct (init_case c) as [[s0 cl0]|] eqn:Ei; [|discriminate].
  destruct (run_legs (case_cfg c) s0 cl0 (oc_legs c)) as [rest|] eqn:Er; [|discriminate].
  inversion E; subst states.
  destruct (init_case_inv _ _ _ Ei) as (ND1 & ND2 & I0 & _ & _).
  destruct (run_legs_inv (case_cfg c) ND1 ND2 _ _ _ _ I0 Er) as (Hl & Hf & _).
  simpl. split; [lia|]. split; [exact ND1|]. split; [exact ND2|]. constructor; auto.
Qed.

(** the cell recorded for a unit at a leg is the cell of its recorded position at that leg *)
Theorem run_cells_are_position_cells c states :
  run_case c = Some states ->
  match states with
  | [] => False
  | (_, cl0) :: rest =>
      cl0 = case_cl0 c
      /\ Forall2 (fun l sc => snd sc = cells_of_positions (case_sides c) (oc_counts c) (ol_units l)) (oc_legs c) rest
  end.
Proof.
  unfold run_case. destruct (init_case c) as [[s0 cl0]|] eqn:Ei; [|discriminate].
  destruct (run_legs (case_cfg c) s0 cl0 (oc_legs c)) as [rest|] eqn:Er; [|discriminate].
  intros H; inversion H; subst states. clear H.
  destruct (init_case_inv _ _ _ Ei) as (_ & _ & _ & _ & E0). split; auto.
  clear Ei E0. revert s0 cl0 rest Er.
  induction (oc_legs c) as [|l lr IH]; intros s cl rest H; simpl in H.
  - inversion H; subst. constructor.
  - destruct (step_leg (case_cfg c) s cl l) as [[s' cl']|] eqn:E; [|discriminate].
    destruct (run_legs (case_cfg c) s' cl' lr) as [rr|] eqn:Er; [|discriminate]. inversion H; subst.
    constructor; eauto.
    simpl. unfold step_leg in E.
    destruct (hyps_ok _ _ _ _ _ _ && crossing_ok _ _ _ _); [|discriminate].
    destruct (update _ _ _ _ _ _); [|discriminate].
    destruct (snap_eqb _ _); [|discriminate]. inversion E; subst. reflexivity.
Qed.

Theorem active_changes_cell_only_at_boundary c states :
  run_case c = Some states ->
  match states with
  | [] => False
  | (s0, _) :: rest => crossings_ok (case_cfg c) s0 (oc_legs c) rest
  end.
Proof.
  unfold run_case. destruct (init_case c) as [[s0 cl0]|] eqn:Ei; [|discriminate].
  destruct (run_legs (case_cfg c) s0 cl0 (oc_legs c)) as [rest|] eqn:Er; [|discriminate].
  intros H; inversion H; subst states. clear H.
  destruct (init_case_inv _ _ _ Ei) as (ND1 & ND2 & I0 & _ & _).
  destruct (run_legs_inv (case_cfg c) ND1 ND2 _ _ _ _ I0 Er) as (_ & _ & Hc). exact Hc.
Qed.
