(** * Proofs/OccupancyRunProofs.v — every run accepted by [check_ocase] (any number of legs, units, cells) satisfies
    the occupancy invariant [occ_inv] at every leg, with [cellof] = cell of the unit's recorded position at that
    leg; the active unit changes its cell only at cell-boundary events and into the neighbouring cell. *)
From Coq Require Import List ZArith Bool Arith Lia Permutation.
Require Import JF.Base.F64 JF.Model.Cells JF.Model.Occupancy JF.Model.OccupancyRun JF.Proofs.OccupancyProofs.
Import ListNotations.

Lemma llist_eqb_spec a b : llist_eqb a b = true -> a = b.
Proof.
  revert b. induction a as [|x a IH]; destruct b as [|y b]; simpl; intros H; try discriminate; auto.
  apply andb_true_iff in H. destruct H as [H1 H2]. apply list_Z_eqb_spec in H1. subst. f_equal; auto.
Qed.

Lemma mem_lz_spec x l : mem_lz x l = true <-> In x l.
Proof. apply (mem_cell_spec _ list_Z_eqb list_Z_eqb_spec). Qed.

Lemma nodup_lz_spec l : nodup_lz l = true -> NoDup l.
Proof. apply (nodup_b_spec _ list_Z_eqb list_Z_eqb_spec). Qed.

Lemma in_aget (m : cmap) k v : NoDup (map fst m) -> In (k, v) m -> aget list_Z_eqb m k = Some v.
Proof.
  induction m as [|[k' v'] r IH]; simpl; intros ND Hin; [contradiction|].
  inversion ND as [|? ? Hnot ND']; subst.
  destruct Hin as [E|Hin].
  - inversion E; subst. rewrite (proj2 (list_Z_eqb_spec k k)); auto.
  - destruct (list_Z_eqb k' k) eqn:E; auto.
    apply list_Z_eqb_spec in E; subst. exfalso. apply Hnot. apply in_map_iff. exists (k, v). auto.
Qed.

Lemma nodup_map_filter {A B} (f : A -> B) (p : A -> bool) (l : list A) :
  NoDup (map f l) -> NoDup (map f (filter p l)).
Proof.
  induction l as [|a r IH]; simpl; intros ND; auto.
  inversion ND as [|? ? Hnot ND']; subst.
  destruct (p a); simpl; auto. constructor; auto.
  intros H. apply Hnot. apply in_map_iff in H. destruct H as (x & E & Hx). apply filter_In in Hx.
  apply in_map_iff. exists x. tauto.
Qed.

Notation occ_inv_lz := (occ_inv list_Z_eqb list_Z_eqb).

(** ** one leg *)
Section Leg.
  Variable cfg : rcfg.
  Hypothesis cells_nodup : NoDup (rc_cells cfg).
  Hypothesis units_nodup : NoDup (rc_units cfg).

  Theorem step_leg_inv s cl l s' cl' :
    occ_inv_lz (rc_cells cfg) s (rc_units cfg) (cellof_of cl) ->
    step_leg cfg s cl l = Some (s', cl') ->
    occ_inv_lz (rc_cells cfg) s' (rc_units cfg) (cellof_of cl')
    /\ cl' = cells_of_positions (rc_sides cfg) (rc_counts cfg) (ol_units l)
    /\ update list_Z_eqb list_Z_eqb s (ol_nid l) (ol_rel l) (cell_of (rc_sides cfg) (rc_counts cfg) (ol_pos l)) = Ok s'.
  Proof.
    intros I H. unfold step_leg in H.
    set (clx := cells_of_positions (rc_sides cfg) (rc_counts cfg) (ol_units l)) in *.
    set (c := cell_of (rc_sides cfg) (rc_counts cfg) (ol_pos l)) in *.
    destruct (hyps_ok cfg s cl clx l c && crossing_ok cfg s l c) eqn:Hk; [|discriminate].
    apply andb_true_iff in Hk. destruct Hk as [Hh _].
    destruct (update list_Z_eqb list_Z_eqb s (ol_nid l) (ol_rel l) c) as [s1|] eqn:Eu; [|discriminate].
    destruct (snap_eqb s1 (ol_snap l)); [|discriminate]. inversion H; subst s1 cl'. clear H.
    unfold hyps_ok in Hh.
    repeat (apply andb_true_iff in Hh; let H' := fresh "K" in destruct Hh as [Hh H']).
    rename Hh into J1, K3 into J2, K2 into J3, K1 into J4, K0 into J5, K into J6.
    rewrite forallb_forall in J2. rewrite forallb_forall in J5. unfold lz in *.
    assert (H3 : ol_rel l = true <-> In (ol_nid l) (rc_units cfg)).
    { apply Bool.eqb_prop in J3. rewrite J3. apply mem_lz_spec. }
    assert (H4 : ol_rel l = true -> c = cellof_of clx (ol_nid l)).
    { intros E. rewrite E in J4. apply list_Z_eqb_spec; auto. }
    assert (H5 : forall u, In u (rc_units cfg) -> is_active list_Z_eqb s u = false ->
                           cellof_of clx u = cellof_of cl u).
    { intros u Hu Ha. specialize (J5 u Hu). cbv beta in J5. unfold is_active in Ha. unfold lz in *. rewrite Ha in J5.
      apply list_Z_eqb_spec; auto. }
    assert (H6 : forall a, active_id s = Some a -> a <> ol_nid l -> cellof_of clx a = cellof_of cl a).
    { intros a Ea Hne. rewrite Ea in J6. destruct (list_Z_eqb a (ol_nid l)) eqn:E.
      - apply list_Z_eqb_spec in E. contradiction.
      - apply list_Z_eqb_spec; auto. }
    assert (H2 : forall u, In u (rc_units cfg) -> In (cellof_of clx u) (rc_cells cfg)).
    { intros u Hu. apply mem_lz_spec. auto. }
    destruct (update_inv _ _ list_Z_eqb list_Z_eqb list_Z_eqb_spec list_Z_eqb_spec (rc_cells cfg) cells_nodup
                (rc_units cfg) (cellof_of cl) (cellof_of clx) units_nodup H2 s (ol_nid l) (ol_rel l) c I H3 H4 H5 H6)
      as (s2 & E2 & I2).
    rewrite Eu in E2. inversion E2; subst s2. auto.
  Qed.

  (** (c): the active unit changes its cell only at a cell-boundary event, into the neighbouring cell *)
  Lemma refill_active (s : ost) c s' :
    refill list_Z_eqb s c = Ok s' -> active_id s' = active_id s /\ active_cell s' = active_cell s.
  Proof.
    unfold refill. destruct (aget _ (surplus _) _) as [sl|]; [|intros H; discriminate H].
    destruct (pop_last _) as [[x sl']|]; [|intros H; discriminate H]. simpl.
    destruct (aget _ (occupants _) _); intros H; inversion H; subst; simpl; auto.
  Qed.

  Lemma take_out_active (s2 : ost) c nid s' :
    take_out _ _ list_Z_eqb list_Z_eqb s2 c nid = Ok s' ->
    active_id s' = active_id s2 /\ active_cell s' = active_cell s2.
  Proof.
    unfold take_out.
    match goal with |- bind ?X ?F = _ -> _ => destruct X as [s4|] eqn:EX; [|discriminate] end.
    assert (A4 : active_id s4 = active_id s2 /\ active_cell s4 = active_cell s2).
    { destruct (aget _ (occupants _) _) as [oc|]; [|discriminate EX].
      destruct (remove_first _ _ _) as [oc'|].
      - destruct (refill_condition _ _ _).
        + apply refill_active in EX. simpl in EX. exact EX.
        + inversion EX; subst. simpl. auto.
      - destruct (aget _ (surplus _) _) as [sl|]; [|discriminate EX].
        destruct (remove_first _ _ _); [|discriminate EX]. inversion EX; subst. simpl. auto. }
    simpl. destruct (negb _); intros H; inversion H; subst; simpl; tauto.
  Qed.

  Lemma update_active (s : ost) nid rel c s' :
    update list_Z_eqb list_Z_eqb s nid rel c = Ok s' ->
    (opt_id_eqb list_Z_eqb (active_id s) nid = true /\ active_id s' = active_id s /\ active_cell s' = Some c)
    \/ (opt_id_eqb list_Z_eqb (active_id s) nid = false
        /\ ((active_id s' = Some nid /\ active_cell s' = Some c) \/ active_id s' = None)).
  Proof.
    rewrite (update_unfold _ _ list_Z_eqb list_Z_eqb).
    destruct (opt_id_eqb _ _ _) eqn:E.
    - intros H. inversion H; subst. left. simpl. auto.
    - intros H. right. split; auto.
      destruct (reinsert _ _ _ _) as [s1|]; [|discriminate H]. simpl in H.
      destruct rel.
      + apply take_out_active in H. simpl in H. destruct H as [-> ->]. auto.
      + inversion H; subst. simpl. auto.
  Qed.

  Definition crossing_fact (s : ost) (l : oleg) (s' : ost) : Prop :=
    forall a ac c', active_id s = Some a -> active_id s' = Some a ->
                    active_cell s = Some ac -> active_cell s' = Some c' -> ac <> c' ->
                    ol_prev_boundary l = true /\ neighbour (rc_counts cfg) ac c' = true.

  Theorem step_leg_crossing s cl l s' cl' :
    step_leg cfg s cl l = Some (s', cl') -> crossing_fact s l s'.
  Proof.
    intros H a ac c' Ea Ea' Ec Ec' Hne. unfold step_leg in H.
    set (c := cell_of (rc_sides cfg) (rc_counts cfg) (ol_pos l)) in *.
    destruct (hyps_ok cfg s cl _ l c && crossing_ok cfg s l c) eqn:Hk; [|discriminate].
    apply andb_true_iff in Hk. destruct Hk as [_ Hc].
    destruct (update list_Z_eqb list_Z_eqb s (ol_nid l) (ol_rel l) c) as [s1|] eqn:Eu; [|discriminate].
    destruct (snap_eqb s1 (ol_snap l)); [|discriminate]. inversion H; subst s1 cl'. clear H.
    destruct (update_active _ _ _ _ _ Eu) as [(E1 & E2 & E3)|(E1 & [[E2 E3]|E2])]; unfold ost, lz in *.
    - rewrite Ea in E1. simpl in E1.
      rewrite E3 in Ec'. inversion Ec'; subst c'.
      unfold crossing_ok in Hc. unfold ost, lz in *. rewrite Ea, Ec, E1 in Hc.
      destruct (list_Z_eqb ac c) eqn:E.
      + apply list_Z_eqb_spec in E. contradiction.
      + apply andb_true_iff in Hc. tauto.
    - rewrite Ea in E1. simpl in E1. rewrite Ea' in E2. inversion E2; subst.
      rewrite (proj2 (list_Z_eqb_spec _ _) eq_refl) in E1. discriminate.
    - rewrite Ea' in E2. discriminate.
  Qed.

  (** ** whole runs *)
  Fixpoint crossings_ok (s : ost) (legs : list oleg) (rest : list (ost * cmap)) : Prop :=
    match legs, rest with
    | [], [] => True
    | l :: lr, (s', _) :: rr => crossing_fact s l s' /\ crossings_ok s' lr rr
    | _, _ => False
    end.

  Lemma run_legs_inv : forall legs s cl rest,
    occ_inv_lz (rc_cells cfg) s (rc_units cfg) (cellof_of cl) ->
    run_legs cfg s cl legs = Some rest ->
    length rest = length legs
    /\ Forall (fun sc => occ_inv_lz (rc_cells cfg) (fst sc) (rc_units cfg) (cellof_of (snd sc))) rest
    /\ crossings_ok s legs rest.
  Proof.
    induction legs as [|l lr IH]; intros s cl rest I H; simpl in H.
    - inversion H; subst. simpl. auto.
    - destruct (step_leg cfg s cl l) as [[s' cl']|] eqn:E; [|discriminate].
      destruct (run_legs cfg s' cl' lr) as [rr|] eqn:Er; [|discriminate]. inversion H; subst.
      destruct (step_leg_inv _ _ _ _ _ I E) as (I' & _ & _).
      destruct (IH _ _ _ I' Er) as (Hl & Hf & Hc).
      simpl. split; [lia|]. split; [constructor; auto|]. split; auto.
      eapply step_leg_crossing; eauto.
  Qed.
End Leg.

(** ** the initial state *)
Lemma units_of_case c : case_units c = units_of (case_us c).
Proof. reflexivity. Qed.

Lemma init_case_inv c s0 cl0 :
  init_case c = Some (s0, cl0) ->
  NoDup (rc_cells (case_cfg c)) /\ NoDup (rc_units (case_cfg c))
  /\ occ_inv_lz (rc_cells (case_cfg c)) s0 (rc_units (case_cfg c)) (cellof_of cl0)
  /\ active_id s0 = None
  /\ cl0 = case_cl0 c.
Proof.
  unfold init_case. intros H.
  destruct (nodup_lz (rc_cells (case_cfg c)) && nodup_lz (map fst (case_cl0 c))
            && forallb (fun uc => mem_lz (snd uc) (rc_cells (case_cfg c))) (case_cl0 c)) eqn:Hk; [|discriminate].
  apply andb_true_iff in Hk. destruct Hk as [Hk K3]. apply andb_true_iff in Hk. destruct Hk as [K1 K2].
  apply nodup_lz_spec in K1. apply nodup_lz_spec in K2. rewrite forallb_forall in K3.
  destruct (initialize list_Z_eqb (rc_cells (case_cfg c)) (limit_of_max (oc_max c)) (case_us c)) as [s|] eqn:Ei;
    [|discriminate].
  destruct (snap_eqb s (oc_init_snap c)); [|discriminate]. inversion H; subst s cl0. clear H.
  assert (Hus : forall u c0 r, In (u, c0, r) (case_us c) ->
                               In c0 (rc_cells (case_cfg c)) /\ cellof_of (case_cl0 c) u = c0).
  { intros u c0 r Hin.
    assert (Hin' : In (u, c0) (case_cl0 c)).
    { unfold case_cl0. apply in_map_iff. exists (u, c0, r). auto. }
    split.
    - apply mem_lz_spec. apply (K3 (u, c0) Hin').
    - unfold cellof_of. rewrite (in_aget _ _ _ K2 Hin'). reflexivity. }
  destruct (init_inv _ _ list_Z_eqb list_Z_eqb list_Z_eqb_spec (rc_cells (case_cfg c)) K1
              (limit_of_max (oc_max c)) (case_us c) (cellof_of (case_cl0 c)) Hus) as (s & E & I & Ai & _).
  unfold ost, lz in E, Ei. rewrite Ei in E. inversion E; subst s.
  split; auto. split; [|auto].
  simpl. unfold case_units.
  assert (Hm : map fst (case_cl0 c) = map (fun x => fst (fst x)) (case_us c)).
  { unfold case_cl0. rewrite map_map. reflexivity. }
  rewrite Hm in K2. apply nodup_map_filter; auto.
Qed.

(** ** accepted runs of any length *)
Theorem run_occ_inv c :
  check_ocase c = true ->
  exists states,
    run_case c = Some states
    /\ length states = S (length (oc_legs c))
    /\ NoDup (torus_cells (oc_counts c)) /\ NoDup (case_units c)
    /\ Forall (fun sc => occ_inv_lz (torus_cells (oc_counts c)) (fst sc) (case_units c) (cellof_of (snd sc))) states.
Proof.
  unfold check_ocase. destruct (run_case c) as [states|] eqn:E; [|discriminate]. intros _.
  exists states. split; auto.
  unfold run_case in E.
  destruct (init_case c) as [[s0 cl0]|] eqn:Ei; [|discriminate].
  destruct (run_legs (case_cfg c) s0 cl0 (oc_legs c)) as [rest|] eqn:Er; [|discriminate].
  inversion E; subst states.
  destruct (init_case_inv _ _ _ Ei) as (ND1 & ND2 & I0 & _ & _).
  destruct (run_legs_inv (case_cfg c) ND1 ND2 _ _ _ _ I0 Er) as (Hl & Hf & _).
  simpl. split; [lia|]. split; [exact ND1|]. split; [exact ND2|]. constructor; auto.
Qed.

(** the cell recorded for a unit at a leg is the cell of its recorded position at that leg *)
Theorem run_cells_are_position_cells c states :
  run_case c = Some states ->
  match states with
  | [] => False
  | (_, cl0) :: rest =>
      cl0 = case_cl0 c
      /\ Forall2 (fun l sc => snd sc = cells_of_positions (case_sides c) (oc_counts c) (ol_units l)) (oc_legs c) rest
  end.
Proof.
  unfold run_case. destruct (init_case c) as [[s0 cl0]|] eqn:Ei; [|discriminate].
  destruct (run_legs (case_cfg c) s0 cl0 (oc_legs c)) as [rest|] eqn:Er; [|discriminate].
  intros H; inversion H; subst states. clear H.
  destruct (init_case_inv _ _ _ Ei) as (_ & _ & _ & _ & E0). split; auto.
  clear Ei E0. revert s0 cl0 rest Er.
  induction (oc_legs c) as [|l lr IH]; intros s cl rest H; simpl in H.
  - inversion H; subst. constructor.
  - destruct (step_leg (case_cfg c) s cl l) as [[s' cl']|] eqn:E; [|discriminate].
    destruct (run_legs (case_cfg c) s' cl' lr) as [rr|] eqn:Er; [|discriminate]. inversion H; subst.
    constructor; eauto.
    simpl. unfold step_leg in E.
    destruct (hyps_ok _ _ _ _ _ _ && crossing_ok _ _ _ _); [|discriminate].
    destruct (update _ _ _ _ _ _); [|discriminate].
    destruct (snap_eqb _ _); [|discriminate]. inversion E; subst. reflexivity.
Qed.

Theorem active_changes_cell_only_at_boundary c states :
  run_case c = Some states ->
  match states with
  | [] => False
  | (s0, _) :: rest => crossings_ok (case_cfg c) s0 (oc_legs c) rest
  end.
Proof.
  unfold run_case. destruct (init_case c) as [[s0 cl0]|] eqn:Ei; [|discriminate].
  destruct (run_legs (case_cfg c) s0 cl0 (oc_legs c)) as [rest|] eqn:Er; [|discriminate].
  intros H; inversion H; subst states. clear H.
  destruct (init_case_inv _ _ _ Ei) as (ND1 & ND2 & I0 & _ & _).
  destruct (run_legs_inv (case_cfg c) ND1 ND2 _ _ _ _ I0 Er) as (_ & _ & Hc). exact Hc.
Qed.

(** ** The torus cell system of Model/Occupancy.v satisfies [cellsys_ok] for all positive counts and all layer
    numbers >= 0 (through the index theory of Proofs/CellIndexProofs.v). *)
Require JF.Model.CellIndex JF.Proofs.CellIndexProofs JF.Proofs.FactorMapProofs.
Module CI := JF.Model.CellIndex.
Module CIP := JF.Proofs.CellIndexProofs.
Module FMP := JF.Proofs.FactorMapProofs.

Section Torus.
  Local Open Scope Z_scope.

  Lemma zip3_same f : forall a b c, Occupancy.zip3 f a b c = CI.zip3 f a b c.
  Proof. induction a as [|x a IH]; intros [|y b] [|z c]; simpl; auto; try (f_equal; apply IH). Qed.

  Lemma torus_translate_eq ns c r : torus_translate ns c r = CI.translate ns c r.
  Proof. unfold torus_translate, CI.translate. apply zip3_same. Qed.

  Lemma torus_relative_eq ns c r : torus_relative ns c r = CI.relative ns c r.
  Proof. unfold torus_relative, CI.relative. apply zip3_same. Qed.

  Lemma zrange_from_spec k : forall a x, In x (zrange_from a k) <-> a <= x < a + Z.of_nat k.
  Proof.
    induction k as [|k IH]; intros a x; simpl zrange_from.
    - simpl. lia.
    - simpl In. rewrite IH. lia.
  Qed.

  Lemma zrange_from_nodup k : forall a, NoDup (zrange_from a k).
  Proof.
    induction k as [|k IH]; intros a; simpl; constructor; auto. rewrite zrange_from_spec. lia.
  Qed.

  Lemma torus_cells_spec : forall ns x, In x (torus_cells ns) <-> CI.valid ns x.
  Proof.
    induction ns as [|n ns IH]; intros x; simpl.
    - split.
      + intros [<-|[]]. constructor.
      + intros H. inversion H. auto.
    - rewrite in_flat_map. split.
      + intros (tl & Htl & Hx). apply in_map_iff in Hx. destruct Hx as (i & <- & Hi).
        unfold zrange in Hi. apply zrange_from_spec in Hi.
        constructor; [|apply IH; auto].
        destruct (Z_le_gt_dec n 0); [replace (Z.to_nat n) with 0%nat in Hi by lia; simpl in Hi; lia|].
        rewrite Z2Nat.id in Hi by lia. lia.
      + intros H. inversion H as [|i n' tl ns' Hi Htl]; subst. exists tl. split; [apply IH; auto|].
        apply in_map_iff. exists i. split; auto. unfold zrange. apply zrange_from_spec.
        rewrite Z2Nat.id by lia. lia.
  Qed.

  Lemma torus_cells_nodup : forall ns, NoDup (torus_cells ns).
  Proof.
    induction ns as [|n ns IH]; simpl.
    - constructor; [intros []|constructor].
    - apply FMP.nodup_flat_map; auto.
      + intros tl _. apply FMP.nodup_map_inj; [|apply zrange_from_nodup].
        intros x y _ _ H. inversion H; auto.
      + intros x y z _ _ Hne Hx Hy. apply in_map_iff in Hx. apply in_map_iff in Hy.
        destruct Hx as (i & <- & _). destruct Hy as (j & E & _). inversion E; subst. contradiction.
  Qed.

  Lemma dedup_lz_in : forall l x, In x (dedup_lz l) <-> In x l.
  Proof.
    induction l as [|y r IH]; intros x; simpl; [tauto|].
    destruct (existsb (list_Z_eqb y) r) eqn:E.
    - rewrite IH. split; auto. intros [<-|H]; auto.
      apply existsb_exists in E. destruct E as (z & Hz & Ez). apply list_Z_eqb_spec in Ez. subst; auto.
    - simpl. rewrite IH. tauto.
  Qed.

  Lemma dedup_lz_nodup : forall l, NoDup (dedup_lz l).
  Proof.
    induction l as [|y r IH]; simpl; [constructor|].
    destruct (existsb (list_Z_eqb y) r) eqn:E; auto.
    constructor; auto. rewrite dedup_lz_in. intros H.
    assert (existsb (list_Z_eqb y) r = true); [|congruence].
    apply existsb_exists. exists y. split; auto. apply list_Z_eqb_spec; auto.
  Qed.

  Lemma torus_nearby_raw_spec l : 0 <= l -> forall ns c b, length c = length ns ->
    (In b (torus_nearby_raw ns c l) <-> CIP.near l ns c b).
  Proof.
    intros Hl. induction ns as [|n ns IH]; intros [|x c] b Hlen; simpl in Hlen; try discriminate.
    - simpl. destruct b; split; try tauto. intros [H|[]]. discriminate.
    - cbn [torus_nearby_raw]. rewrite in_flat_map. destruct b as [|y b]; cbn [CIP.near].
      + split; [|tauto]. intros (tl & _ & H). apply in_map_iff in H. destruct H as (i & E & _). discriminate.
      + split.
        * intros (tl & Htl & H). apply in_map_iff in H. destruct H as (i & E & Hi). inversion E; subst.
          apply zrange_from_spec in Hi. rewrite Z2Nat.id in Hi by lia.
          split; [|apply IH; auto].
          exists (i - x). split; [lia|]. f_equal. lia.
        * intros [(d & Hd & ->) Hn]. exists b. split; [apply IH; auto|].
          apply in_map_iff. exists (x + d). split; auto.
          apply zrange_from_spec. rewrite Z2Nat.id by lia. lia.
  Qed.

  Lemma torus_nearby_spec l ns c b : 0 <= l -> length c = length ns ->
    (In b (torus_nearby ns l c) <-> CIP.near l ns c b).
  Proof. intros Hl Hlen. unfold torus_nearby. rewrite dedup_lz_in. apply torus_nearby_raw_spec; auto. Qed.

  Theorem torus_cs_ok ns l : Forall (fun n => 0 < n) ns -> 0 <= l -> cellsys_ok (torus_cs ns l).
  Proof.
    intros Hpos Hl.
    assert (V : forall x, In x (torus_cells ns) <-> CI.valid ns x) by (apply torus_cells_spec).
    assert (Z0 : map (fun _ : Z => 0) ns = CI.zero ns) by reflexivity.
    constructor; simpl.
    - apply torus_cells_nodup.
    - rewrite Z0. apply V. apply CIP.valid_zero; auto.
    - intros c _. apply dedup_lz_nodup.
    - intros c c' Hc Hc'. apply V in Hc. apply V.
      apply torus_nearby_spec in Hc'; auto; [|apply CIP.valid_length; auto].
      eapply CIP.near_valid; eauto.
    - intros a r Ha Hr. apply V in Ha. apply V in Hr. apply V. rewrite torus_translate_eq.
      apply CIP.valid_translate; auto; apply CIP.valid_length; auto.
    - intros c a Hc Ha. apply V in Ha. apply V in Hc. apply V. rewrite torus_relative_eq.
      apply CIP.valid_relative; auto; apply CIP.valid_length; auto.
    - intros a c Ha Hc. apply V in Ha. apply V in Hc. rewrite torus_translate_eq, torus_relative_eq.
      apply CIP.translate_relative; auto.
    - intros a r Ha Hr. apply V in Ha. apply V in Hr. rewrite torus_translate_eq, torus_relative_eq.
      apply CIP.relative_translate; auto.
    - intros a r Ha Hr. apply V in Ha. apply V in Hr. rewrite Z0.
      assert (La : length a = length ns) by (apply CIP.valid_length; auto).
      assert (Lz : length (CI.zero ns) = length ns) by (apply CIP.zero_length).
      rewrite !torus_nearby_spec by (auto; rewrite torus_translate_eq; auto).
      rewrite torus_translate_eq.
      rewrite (CIP.near_translate l ns a (CI.translate ns a r) La). split.
      + intros (z & Hz & E).
        assert (Vz : CI.valid ns z) by (eapply CIP.near_valid; eauto).
        apply (CIP.translate_injective ns a r z Ha Hr Vz) in E. subst. auto.
      + intros H. exists r. auto.
    - intros c Hc. apply V in Hc. rewrite Z0, torus_relative_eq. apply CIP.relative_zero; auto.
  Qed.
End Torus.

(** ** C10 on accepted real runs *)
Lemma remove_one_lz_spec x : forall l l', remove_one_lz x l = Some l' -> Permutation l (x :: l').
Proof.
  induction l as [|y r IH]; simpl; intros l' H; [discriminate|].
  destruct (list_Z_eqb x y) eqn:E.
  - apply list_Z_eqb_spec in E. inversion H; subst. reflexivity.
  - destruct (remove_one_lz x r) as [r'|]; [|discriminate]. inversion H; subst.
    rewrite (IH r' eq_refl). apply perm_swap.
Qed.

Lemma same_members_perm : forall a b, same_members a b = true -> Permutation a b.
Proof.
  induction a as [|x r IH]; simpl; intros b H.
  - destruct b; [constructor|discriminate].
  - destruct (remove_one_lz x b) as [b'|] eqn:E; [|discriminate].
    rewrite (remove_one_lz_spec _ _ _ E). constructor. apply IH; auto.
Qed.

Lemma tuple_eqb_targets a b : tuple_eqb a b = true -> Permutation (tl a) (tl b).
Proof.
  destruct a as [|x a], b as [|y b]; simpl; intros H; try discriminate; auto.
  apply andb_true_iff in H. apply same_members_perm. tauto.
Qed.

Lemma remove_tuple_spec x : forall l l', remove_tuple x l = Some l' ->
  exists y, tuple_eqb x y = true /\ Permutation l (y :: l').
Proof.
  induction l as [|y r IH]; simpl; intros l' H; [discriminate|].
  destruct (tuple_eqb x y) eqn:E.
  - inversion H; subst. exists y. split; auto.
  - destruct (remove_tuple x r) as [r'|]; [|discriminate]. inversion H; subst.
    destruct (IH r' eq_refl) as (z & Ez & P). exists z. split; auto.
    rewrite P. apply perm_swap.
Qed.

Lemma same_tuples_targets : forall a b, same_tuples a b = true ->
  Permutation (targets_of a) (targets_of b).
Proof.
  induction a as [|x r IH]; simpl; intros b H.
  - destruct b; [constructor|discriminate].
  - destruct (remove_tuple x b) as [b'|] eqn:E; [|discriminate].
    destruct (remove_tuple_spec _ _ _ E) as (y & Ey & P).
    unfold targets_of in *. rewrite (Permutation_flat_map _ P). simpl.
    apply Permutation_app; [apply tuple_eqb_targets; auto|apply IH; auto].
Qed.

(** the cell recorded for every relevant unit lies in the grid, at every leg *)
Lemma aget_in (m : cmap) k v : aget list_Z_eqb m k = Some v -> In (k, v) m.
Proof.
  induction m as [|[k' v'] r IH]; simpl; [discriminate|].
  destruct (list_Z_eqb k' k) eqn:E.
  - apply list_Z_eqb_spec in E. intros H; inversion H; subst. auto.
  - auto.
Qed.

Definition cells_valid (cfg : rcfg) (cl : cmap) : Prop :=
  forall u, In u (rc_units cfg) -> In (cellof_of cl u) (rc_cells cfg).

Lemma step_leg_valid cfg s cl l s' cl' : step_leg cfg s cl l = Some (s', cl') -> cells_valid cfg cl'.
Proof.
  unfold step_leg. intros H.
  destruct (hyps_ok _ _ _ _ _ _ && crossing_ok _ _ _ _) eqn:Hk; [|discriminate].
  apply andb_true_iff in Hk. destruct Hk as [Hh _].
  destruct (update _ _ _ _ _ _); [|discriminate]. destruct (snap_eqb _ _); [|discriminate].
  inversion H; subst. unfold hyps_ok in Hh.
  repeat (apply andb_true_iff in Hh; let H' := fresh "K" in destruct Hh as [Hh H']).
  rewrite forallb_forall in K3. intros u Hu. apply mem_lz_spec. apply K3; auto.
Qed.

Lemma run_legs_valid cfg : forall legs s cl rest, run_legs cfg s cl legs = Some rest ->
  Forall (fun sc => cells_valid cfg (snd sc)) rest.
Proof.
  induction legs as [|l lr IH]; intros s cl rest H; simpl in H.
  - inversion H; constructor.
  - destruct (step_leg cfg s cl l) as [[s' cl']|] eqn:E; [|discriminate].
    destruct (run_legs cfg s' cl' lr) as [rr|] eqn:Er; [|discriminate]. inversion H; subst.
    constructor; [simpl; eapply step_leg_valid; eauto|eapply IH; eauto].
Qed.

Lemma init_case_valid c s0 cl0 : init_case c = Some (s0, cl0) -> cells_valid (case_cfg c) cl0.
Proof.
  unfold init_case. intros H.
  destruct (nodup_lz (rc_cells (case_cfg c)) && nodup_lz (map fst (case_cl0 c))
            && forallb (fun uc => mem_lz (snd uc) (rc_cells (case_cfg c))) (case_cl0 c)) eqn:Hk; [|discriminate].
  apply andb_true_iff in Hk. destruct Hk as [_ K3]. rewrite forallb_forall in K3.
  destruct (initialize _ _ _ _); [|discriminate]. destruct (snap_eqb _ _); [|discriminate].
  inversion H; subst. intros u Hu.
  simpl in Hu. unfold case_units in Hu. apply in_map_iff in Hu. destruct Hu as (x & Ex & Hx).
  apply filter_In in Hx. destruct Hx as [Hx _].
  assert (Hk : In u (map fst (case_cl0 c))).
  { unfold case_cl0. rewrite map_map. apply in_map_iff. exists x. auto. }
  destruct (aget_some_in _ _ list_Z_eqb list_Z_eqb_spec _ _ Hk) as (v & Ev).
  unfold cellof_of. rewrite Ev. simpl. apply mem_lz_spec. apply (K3 (u, v)). apply aget_in; auto.
Qed.

(** what acceptance says at one recorded state: with a relevant active unit, the targets of the RECORDED generations of
    the nearby and the surplus tagger together with the far family -- the model's cell-veto targets of the replayed
    state (= the recorded internals), or the targets of the recorded generation of a cell-bounding tagger -- are a
    permutation of the other relevant units *)
Definition partition_at (cs : cellsys lz) (units : list lz) (sc : ost * cmap) (gens : list tgen) : Prop :=
  forall a, active_id (fst sc) = Some a ->
  forall rn rs, In (mkTGen TNearby true rn) gens -> In (mkTGen TSurplus true rs) gens ->
    Permutation (cell_veto_targets list_Z_eqb cs (fst sc) ++ targets_of rn ++ targets_of rs)
                (others list_Z_eqb (fst sc) units)
    /\ (forall rb, In (mkTGen TBounding true rb) gens ->
                   Permutation (targets_of rb ++ targets_of rn ++ targets_of rs) (others list_Z_eqb (fst sc) units)).

Theorem run_cells_partition (c : tcase) :
  check_tcase_run c = true ->
  exists states,
    run_case (tc_o c) = Some states
    /\ Forall2 (partition_at (case_cs c) (case_units (tc_o c))) states (tc_gens c).
Proof.
  unfold check_tcase_run. intros H.
  apply andb_true_iff in H. destruct H as [H Hg]. apply andb_true_iff in H. destruct H as [Hpos Hl].
  assert (OK : cellsys_ok (case_cs c)).
  { apply torus_cs_ok.
    - apply Forall_forall. intros n Hn. rewrite forallb_forall in Hpos. apply Z.ltb_lt. auto.
    - apply Z.leb_le; auto. }
  destruct (run_case (tc_o c)) as [states|] eqn:E; [|discriminate].
  apply andb_true_iff in Hg. destruct Hg as [Hg _].
  exists states. split; auto.
  (* invariant and validity at every state *)
  assert (Hinv : Forall (fun sc => occ_inv_lz (torus_cells (oc_counts (tc_o c))) (fst sc) (case_units (tc_o c))
                                              (cellof_of (snd sc))
                                   /\ cells_valid (case_cfg (tc_o c)) (snd sc)) states).
  { destruct (run_occ_inv (tc_o c)) as (st' & E' & _ & _ & _ & F).
    { unfold check_ocase. rewrite E. reflexivity. }
    rewrite E in E'. inversion E'; subst st'.
    unfold run_case in E.
    destruct (init_case (tc_o c)) as [[s0 cl0]|] eqn:Ei; [|discriminate].
    destruct (run_legs (case_cfg (tc_o c)) s0 cl0 (oc_legs (tc_o c))) as [rest|] eqn:Er; [|discriminate].
    inversion E; subst states.
    pose proof (init_case_valid _ _ _ Ei) as V0. pose proof (run_legs_valid _ _ _ _ _ Er) as Vr.
    inversion F as [|? ? F0 Fr]; subst. constructor; [split; auto|].
    clear - Fr Vr. induction Fr; inversion Vr; subst; constructor; auto. }
  assert (ND : NoDup (case_units (tc_o c))).
  { destruct (run_occ_inv (tc_o c)) as (st' & _ & _ & _ & ND & _); auto.
    unfold check_ocase. rewrite E. reflexivity. }
  clear E. revert Hg Hinv. generalize (tc_gens c) as gens.
  induction states as [|sc sr IH]; intros [|g gr] Hg Hinv; simpl in Hg; try discriminate; [constructor|].
  apply andb_true_iff in Hg. destruct Hg as [Hg1 Hg2].
  inversion Hinv as [|? ? [I V] Hr]; subst.
  constructor; [|apply IH; auto].
  rewrite forallb_forall in Hg1.
  intros a Ea rn rs Hn Hs.
  assert (Hv : forall u, In u (case_units (tc_o c)) -> In (cellof_of (snd sc) u) (cs_cells (case_cs c))) by exact V.
  assert (I' : occ_inv_lz (cs_cells (case_cs c)) (fst sc) (case_units (tc_o c)) (cellof_of (snd sc))) by exact I.
  pose proof (cells_partition _ _ list_Z_eqb list_Z_eqb list_Z_eqb_spec (case_cs c) OK _ _ Hv (fst sc) a I' Ea) as P.
  pose proof (Hg1 _ Hn) as Gn. pose proof (Hg1 _ Hs) as Gs. unfold gen_ok in Gn, Gs. simpl in Gn, Gs.
  apply same_tuples_targets in Gn. apply same_tuples_targets in Gs.
  change (targets_of (excluded_cells_tagger list_Z_eqb (case_cs c) (fst sc)))
    with (nearby_targets list_Z_eqb (case_cs c) (fst sc)) in Gn.
  change (targets_of (surplus_cells_tagger (fst sc))) with (surplus_targets (fst sc)) in Gs.
  split.
  - rewrite <- Gn, <- Gs. exact P.
  - intros rb Hb. pose proof (Hg1 _ Hb) as Gb. unfold gen_ok in Gb. simpl in Gb.
    apply same_tuples_targets in Gb.
    change (targets_of (cell_bounding_tagger list_Z_eqb (case_cs c) (fst sc)))
      with (bounding_targets list_Z_eqb (case_cs c) (fst sc)) in Gb.
    rewrite <- Gb, <- Gn, <- Gs.
    rewrite (cell_bounding_same_targets _ _ list_Z_eqb list_Z_eqb list_Z_eqb_spec (case_cs c) OK _ _ Hv (fst sc) a I' Ea).
    exact P.
Qed.

Lemma veto_ok_in (cs : cellsys lz) (s : ost) (tg : list lz) (u : lz) :
  veto_ok cs s tg = true -> In u tg -> In u (cell_veto_targets list_Z_eqb cs s).
Proof.
  unfold veto_ok, cell_veto_targets. unfold ost, lz in *. intros Hv Hu.
  destruct (yield_active_cells s) as [|[ac a] rest] eqn:Ey; [discriminate Hv|].
  apply existsb_exists in Hv. destruct Hv as (r & Hr & Hm). apply same_members_perm in Hm.
  apply in_flat_map. exists (ac, a). split; [left; reflexivity|].
  apply in_flat_map. exists r. split; auto.
  eapply Permutation_in; [symmetry; exact Hm|exact Hu].
Qed.

(** every committed cell-veto event of an accepted run hands over units that the model's cell-veto family reaches
    from the replayed state ([cell_veto_targets]); by [run_cells_partition] these are disjoint from the targets of the
    nearby and surplus taggers *)
Theorem run_veto_targets_far (c : tcase) :
  check_tcase_run c = true ->
  exists states,
    run_case (tc_o c) = Some states
    /\ Forall2 (fun sc vs => forall tg u, In tg vs -> In u tg ->
                              In u (cell_veto_targets list_Z_eqb (case_cs c) (fst sc))) states (tc_vetos c).
Proof.
  unfold check_tcase_run. intros H.
  apply andb_true_iff in H. destruct H as [_ Hg].
  destruct (run_case (tc_o c)) as [states|]; [|discriminate].
  apply andb_true_iff in Hg. destruct Hg as [_ Hv].
  exists states. split; auto.
  revert Hv. generalize (tc_vetos c) as vs.
  induction states as [|sc sr IH]; intros [|v vr] Hv; simpl in Hv; try discriminate; constructor.
  - apply andb_true_iff in Hv. destruct Hv as [Hv _]. rewrite forallb_forall in Hv.
    intros tg u Htg Hu. apply (veto_ok_in _ _ tg); auto.
  - apply andb_true_iff in Hv. apply IH. tauto.
Qed.
