(** * Proofs/WalkerProofs.v — lemmas about Model/Walker.v (C18). *)
From Coq Require Import QArith Lqa List Bool ZArith Lia.
Require Import JF.Base.QInterval JF.Model.Lifting JF.Model.Walker JF.Proofs.LiftingProofs.
Import ListNotations.
Open Scope Q_scope.
Local Opaque Qred.

(** ** vocabulary *)
Definition rsum (items : list witem) : Q := qsum (map w_rate items).
(** the part of an item's rate that belongs to cell [i] *)
Definition ishare (i : nat) (it : witem) : Q := if Nat.eqb (w_id it) i then w_rate it else 0.
Definition mass (i : nat) (items : list witem) : Q := qsum (map (ishare i) items).
Definition share (i : nat) (row : wrow) : Q :=
  match row with
  | RPair s l => ishare i s + ishare i l
  | RSingle it => ishare i it
  end.
Definition tshare (i : nat) (tbl : list wrow) : Q := qsum (map (share i) tbl).
Definition row_mass (row : wrow) : Q :=
  match row with RPair s l => w_rate s + w_rate l | RSingle it => w_rate it end.
Definition row_ok (mean : Q) (row : wrow) : Prop :=
  match row with
  | RPair s l => 0 <= w_rate s /\ w_rate s <= mean /\ w_rate l == mean - w_rate s
  | RSingle it => w_rate it == mean
  end.
Definition rows_ok (mean : Q) (tbl : list wrow) : Prop := forall row, In row tbl -> row_ok mean row.
Definition all_le (m : Q) (items : list witem) : Prop := forall it, In it items -> w_rate it <= m.
Definition all_ge (m : Q) (items : list witem) : Prop := forall it, In it items -> m <= w_rate it.
Definition all_nonneg (items : list witem) : Prop := forall it, In it items -> 0 <= w_rate it.
Definition all_eq (m : Q) (items : list witem) : Prop := forall it, In it items -> w_rate it == m.

(** ** qlen *)
Lemma qlen_nil {A} : qlen (@nil A) == 0.
Proof. reflexivity. Qed.

Lemma qlen_cons {A} (x : A) l : qlen (x :: l) == 1 + qlen l.
Proof.
  unfold qlen. simpl length. rewrite Nat2Z.inj_succ. unfold Z.succ. rewrite inject_Z_plus.
  change (inject_Z 1) with 1. lra.
Qed.

Lemma qlen_nonneg {A} (l : list A) : 0 <= qlen l.
Proof.
  unfold qlen. change 0 with (inject_Z 0). rewrite <- Zle_Qle. lia.
Qed.

Lemma qlen_pos {A} (l : list A) : l <> [] -> 0 < qlen l.
Proof.
  destruct l. congruence. intros _. rewrite qlen_cons. assert (H := qlen_nonneg l). lra.
Qed.

Lemma qlen_add {A B C} (a : list A) (b : list B) (c : list C) :
  (length a + length b = length c)%nat -> qlen a + qlen b == qlen c.
Proof.
  intros H. unfold qlen. rewrite <- H. rewrite Nat2Z.inj_add. rewrite inject_Z_plus. lra.
Qed.

(** ** items all on one side of the mean whose sum is mean * count are all equal to the mean *)
Lemma rsum_le m items : all_le m items -> rsum items <= m * qlen items.
Proof.
  unfold rsum. induction items as [|x l IH]; intros H; simpl.
  - rewrite qlen_nil. lra.
  - rewrite qlen_cons. assert (w_rate x <= m) by (apply H; simpl; auto).
    assert (qsum (map w_rate l) <= m * qlen l) by (apply IH; intros it Hi; apply H; simpl; auto). lra.
Qed.

Lemma rsum_ge m items : all_ge m items -> m * qlen items <= rsum items.
Proof.
  unfold rsum. induction items as [|x l IH]; intros H; simpl.
  - rewrite qlen_nil. lra.
  - rewrite qlen_cons. assert (m <= w_rate x) by (apply H; simpl; auto).
    assert (m * qlen l <= qsum (map w_rate l)) by (apply IH; intros it Hi; apply H; simpl; auto). lra.
Qed.

Lemma all_eq_le m items : all_le m items -> rsum items == m * qlen items -> all_eq m items.
Proof.
  induction items as [|x l IH]; intros H E it Hi; simpl in Hi. contradiction.
  assert (Hx : w_rate x <= m) by (apply H; simpl; auto).
  assert (Hl : all_le m l) by (intros y Hy; apply H; simpl; auto).
  assert (L := rsum_le m l Hl). unfold rsum in *. simpl in E. rewrite qlen_cons in E.
  destruct Hi as [<- | Hi]. lra. apply IH; auto. unfold rsum. lra.
Qed.

Lemma all_eq_ge m items : all_ge m items -> rsum items == m * qlen items -> all_eq m items.
Proof.
  induction items as [|x l IH]; intros H E it Hi; simpl in Hi. contradiction.
  assert (Hx : m <= w_rate x) by (apply H; simpl; auto).
  assert (Hl : all_ge m l) by (intros y Hy; apply H; simpl; auto).
  assert (L := rsum_ge m l Hl). unfold rsum in *. simpl in E. rewrite qlen_cons in E.
  destruct Hi as [<- | Hi]. lra. apply IH; auto. unfold rsum. lra.
Qed.

(** ** the final asserts hold in exact arithmetic *)
Lemma leftover_ok mean items : 0 < mean -> all_eq mean items -> leftover_check mean items = None.
Proof.
  intros Hm. induction items as [|x l IH]; intros H; simpl. reflexivity.
  destruct (Qeq_bool mean 0) eqn:E. apply Qeq_bool_iff in E. lra.
  assert (Hx : w_rate x == mean) by (apply H; simpl; auto).
  assert (D : w_rate x / mean == 1) by (rewrite Hx; field; lra).
  assert (A1 : Qlt_bool assert_lo (w_rate x / mean) = true).
  { apply Qlt_bool_iff. rewrite D. unfold assert_lo. lra. }
  assert (A2 : Qlt_bool (w_rate x / mean) assert_hi = true).
  { apply Qlt_bool_iff. rewrite D. unfold assert_hi. lra. }
  rewrite A1, A2. simpl. apply IH. intros y Hy. apply H. simpl; auto.
Qed.

Lemma leftover_cases mean items :
  leftover_check mean items = None \/ leftover_check mean items = Some WZeroDivision \/
  leftover_check mean items = Some WAssertionError.
Proof.
  induction items as [|x l IH]; simpl; auto.
  destruct (Qeq_bool mean 0); auto.
  destruct (Qlt_bool assert_lo (w_rate x / mean) && Qlt_bool (w_rate x / mean) assert_hi); auto.
Qed.

(** ** shares *)
Lemma qsum_rev l : qsum (rev l) == qsum l.
Proof. induction l; simpl. lra. rewrite qsum_app. simpl. lra. Qed.

Lemma tshare_rev i tbl : tshare i (rev tbl) == tshare i tbl.
Proof. unfold tshare. rewrite map_rev. apply qsum_rev. Qed.

Lemma tshare_app i a b : tshare i (a ++ b) == tshare i a + tshare i b.
Proof. unfold tshare. rewrite map_app. apply qsum_app. Qed.

Lemma tshare_singles i mean items :
  all_eq mean items -> tshare i (map (single mean) items) == mass i items.
Proof.
  unfold tshare, mass. induction items as [|x l IH]; intros H; simpl. lra.
  rewrite IH by (intros y Hy; apply H; simpl; auto).
  assert (Hx : w_rate x == mean) by (apply H; simpl; auto).
  unfold ishare. simpl. destruct (Nat.eqb (w_id x) i); lra.
Qed.

Lemma rows_ok_singles mean items : rows_ok mean (map (single mean) items).
Proof.
  intros row Hr. apply in_map_iff in Hr. destruct Hr as [it [<- _]]. simpl. reflexivity.
Qed.

Lemma rows_ok_app mean a b : rows_ok mean a -> rows_ok mean b -> rows_ok mean (a ++ b).
Proof. intros Ha Hb row Hr. apply in_app_or in Hr. destruct Hr; auto. Qed.

Lemma rows_ok_rev mean a : rows_ok mean a -> rows_ok mean (rev a).
Proof. intros Ha row Hr. apply in_rev in Hr. auto. Qed.

Lemma mass_nil i : mass i [] == 0.
Proof. reflexivity. Qed.

(** ** the end of [_build_table] *)
Lemma finish_spec mean small large acc :
  0 < mean -> all_eq mean small -> all_eq mean large -> rows_ok mean acc ->
  exists tbl, build_finish mean small large acc = WOk tbl /\ rows_ok mean tbl /\
    (forall i, tshare i tbl == tshare i acc + mass i small + mass i large) /\
    length tbl = (length acc + length small + length large)%nat.
Proof.
  intros Hm Hs Hl Ha. unfold build_finish.
  rewrite (leftover_ok mean small Hm Hs), (leftover_ok mean large Hm Hl).
  eexists. split; [reflexivity|]. split; [|split].
  - apply rows_ok_app. apply rows_ok_rev; auto. apply rows_ok_app; apply rows_ok_singles.
  - intros i. rewrite !tshare_app, tshare_rev, !tshare_singles; auto. lra.
  - rewrite !app_length, rev_length, !map_length. lia.
Qed.

(** ** the main loop *)
Lemma loop_spec : forall fuel mean small large acc,
  0 < mean -> (length small + length large < fuel)%nat ->
  all_le mean small -> all_ge mean large -> all_nonneg small ->
  rsum small + rsum large == mean * (qlen small + qlen large) ->
  rows_ok mean acc ->
  exists tbl, build_loop fuel mean small large acc = WOk tbl /\ rows_ok mean tbl /\
    (forall i, tshare i tbl == tshare i acc + mass i small + mass i large) /\
    length tbl = (length acc + length small + length large)%nat.
Proof.
  induction fuel as [|f IH]; intros mean small large acc Hm Hf Hle Hge Hnn Hsum Hacc. lia.
  simpl build_loop.
  destruct small as [|s small'].
  { (* small empty: every large item equals the mean *)
    apply finish_spec; auto. intros it Hi; contradiction.
    apply all_eq_ge; auto. unfold rsum in *. simpl in Hsum. rewrite qlen_nil in Hsum.
    unfold rsum. lra. }
  destruct large as [|l large'].
  { apply finish_spec; auto. 2: intros it Hi; contradiction.
    apply all_eq_le; auto. unfold rsum in *. simpl in Hsum. rewrite qlen_nil in Hsum.
    unfold rsum. simpl. lra. }
  assert (Hs1 : w_rate s <= mean) by (apply Hle; simpl; auto).
  assert (Hs0 : 0 <= w_rate s) by (apply Hnn; simpl; auto).
  assert (Hl1 : mean <= w_rate l) by (apply Hge; simpl; auto).
  assert (Hle' : all_le mean small') by (intros y Hy; apply Hle; simpl; auto).
  assert (Hnn' : all_nonneg small') by (intros y Hy; apply Hnn; simpl; auto).
  assert (Hge' : all_ge mean large') by (intros y Hy; apply Hge; simpl; auto).
  unfold rsum in Hsum. simpl in Hsum. rewrite !qlen_cons in Hsum.
  fold (rsum small') in Hsum. fold (rsum large') in Hsum.
  assert (R1 := Qred_correct (mean - w_rate s)).
  assert (R2 := Qred_correct (w_rate l - (mean - w_rate s))).
  set (row := RPair s (mkW (w_id l) (Qred (mean - w_rate s)))).
  set (l2 := mkW (w_id l) (Qred (w_rate l - (mean - w_rate s)))).
  assert (Hrow : rows_ok mean (row :: acc)).
  { intros r [<- | Hr]; auto. simpl. repeat split; auto. }
  assert (Hshare : forall i, share i row + ishare i l2 == ishare i s + ishare i l).
  { intros i. unfold row, l2, share, ishare. simpl. destruct (Nat.eqb (w_id l) i); lra. }
  destruct (Qlt_bool (Qred (w_rate l - (mean - w_rate s))) mean) eqn:E.
  - apply Qlt_bool_iff in E.
    destruct (IH mean (l2 :: small') large' (row :: acc)) as [tbl [T1 [T2 [T3 T4]]]]; auto.
    + simpl in *. lia.
    + intros y [<- | Hy]; auto. simpl. lra.
    + intros y [<- | Hy]; auto. simpl. lra.
    + unfold rsum at 1. simpl. fold (rsum small'). rewrite qlen_cons. lra.
    + exists tbl. split; auto. split; auto. split.
      * intros i. rewrite T3. unfold tshare, mass. simpl. specialize (Hshare i).
        unfold row in Hshare. simpl in Hshare. lra.
      * rewrite T4. simpl. lia.
  - apply Qlt_bool_false in E.
    destruct (IH mean small' (l2 :: large') (row :: acc)) as [tbl [T1 [T2 [T3 T4]]]]; auto.
    + simpl in *. lia.
    + intros y [<- | Hy]; auto.
    + unfold rsum at 2. simpl. fold (rsum large'). rewrite qlen_cons. lra.
    + exists tbl. split; auto. split; auto. split.
      * intros i. rewrite T3. unfold tshare, mass. simpl. specialize (Hshare i).
        unfold row in Hshare. simpl in Hshare. lra.
      * rewrite T4. simpl. lia.
Qed.

(** ** the initial partition *)
Lemma partition_spec mean : forall items small large s' l',
  partition_items mean items small large = (s', l') ->
  all_le mean small -> all_ge mean large -> all_nonneg small -> all_nonneg items ->
  all_le mean s' /\ all_ge mean l' /\ all_nonneg s' /\
  rsum s' + rsum l' == rsum small + rsum large + rsum items /\
  (length s' + length l' = length small + length large + length items)%nat /\
  (forall i, mass i s' + mass i l' == mass i small + mass i large + mass i items).
Proof.
  induction items as [|x items IH]; intros small large s' l' H Hle Hge Hnn Hin; simpl in H.
  - inversion H; subst. unfold rsum, mass. simpl. repeat split; auto; try lra; try lia. intros; lra.
  - assert (Hin' : all_nonneg items) by (intros y Hy; apply Hin; simpl; auto).
    assert (Hx : 0 <= w_rate x) by (apply Hin; simpl; auto).
    destruct (Qlt_bool mean (w_rate x)) eqn:E.
    + apply Qlt_bool_iff in E.
      destruct (IH _ _ _ _ H) as [A [B [C [D [F G]]]]]; auto.
      { intros y [<- | Hy]; auto. lra. }
      repeat split; auto.
      * rewrite D. unfold rsum. simpl. lra.
      * rewrite F. simpl. lia.
      * intros i. rewrite G. unfold mass. simpl. lra.
    + apply Qlt_bool_false in E.
      destruct (IH _ _ _ _ H) as [A [B [C [D [F G]]]]]; auto.
      { intros y [<- | Hy]; auto. }
      { intros y [<- | Hy]; auto. }
      repeat split; auto.
      * rewrite D. unfold rsum. simpl. lra.
      * rewrite F. simpl. lia.
      * intros i. rewrite G. unfold mass. simpl. lra.
Qed.

Lemma partition_length mean : forall items small large s' l',
  partition_items mean items small large = (s', l') ->
  (length s' + length l' = length small + length large + length items)%nat.
Proof.
  induction items as [|x items IH]; intros small large s' l' H; simpl in H.
  - inversion H; subst. simpl. lia.
  - destruct (Qlt_bool mean (w_rate x)); apply IH in H; simpl in *; lia.
Qed.

(** ** the numbered input items *)
Lemma items_length rs : forall k, length (items_from k rs) = length rs.
Proof. induction rs; intros; simpl; auto. Qed.

Lemma items_rsum rs : forall k, rsum (items_from k rs) == qsum rs.
Proof. unfold rsum. induction rs; intros; simpl. lra. rewrite IHrs. lra. Qed.

Lemma items_nonneg rs : (forall r, In r rs -> 0 <= r) -> forall k, all_nonneg (items_from k rs).
Proof.
  induction rs as [|r rs IH]; intros H k it Hi; simpl in Hi. contradiction.
  destruct Hi as [<- | Hi]. simpl. apply H; simpl; auto.
  eapply IH; eauto. intros; apply H; simpl; auto.
Qed.

Lemma mass_items_lt rs : forall k i, (i < k)%nat -> mass i (items_from k rs) == 0.
Proof.
  unfold mass. induction rs as [|r rs IH]; intros k i H; simpl. lra.
  rewrite IH by lia. unfold ishare. simpl.
  destruct (Nat.eqb k i) eqn:E. apply Nat.eqb_eq in E. lia. lra.
Qed.

Lemma mass_items rs : forall k i, mass (k + i) (items_from k rs) == nth i rs 0.
Proof.
  induction rs as [|r rs IH]; intros k i.
  - simpl. destruct i; reflexivity.
  - change (items_from k (r :: rs)) with (mkW k r :: items_from (S k) rs).
    unfold mass. simpl map. simpl qsum. fold (mass (k + i) (items_from (S k) rs)).
    unfold ishare at 1. simpl w_id. simpl w_rate. destruct i.
    + rewrite Nat.add_0_r, Nat.eqb_refl. rewrite mass_items_lt by lia. simpl. lra.
    + destruct (Nat.eqb k (k + S i)) eqn:E. apply Nat.eqb_eq in E. lia.
      replace (k + S i)%nat with (S k + i)%nat by lia. rewrite IH. simpl. lra.
Qed.

Lemma existsb_neg_false rs : (forall r, In r rs -> 0 <= r) -> existsb (fun r => Qlt_bool r 0) rs = false.
Proof.
  induction rs as [|r rs IH]; intros H; simpl. reflexivity.
  assert (E : Qlt_bool r 0 = false) by (apply Qlt_bool_false; apply H; simpl; auto).
  rewrite E. simpl. apply IH. intros; apply H; simpl; auto.
Qed.

Lemma total_rate_qsum rs : total_rate rs == qsum rs.
Proof. unfold total_rate, py_sum. rewrite fold_left_qsum. lra. Qed.

Lemma mean_times_len rs : rs <> [] -> mean_rate rs * qlen rs == qsum rs.
Proof.
  intros H. unfold mean_rate. rewrite Qred_correct, total_rate_qsum. field.
  assert (K := qlen_pos rs H). lra.
Qed.

Lemma mean_pos rs : 0 < qsum rs -> 0 < mean_rate rs.
Proof.
  intros H. assert (Hne : rs <> []) by (intros ->; simpl in H; lra).
  assert (K := qlen_pos rs Hne). unfold mean_rate. rewrite Qred_correct, total_rate_qsum.
  unfold Qdiv. apply Qmult_lt_0_compat; auto. apply Qinv_lt_0_compat; auto.
Qed.

(** ** the constructor *)
Theorem build_ok rs :
  (forall r, In r rs -> 0 <= r) -> 0 < qsum rs ->
  exists tbl, build rs = WOk tbl /\ length tbl = length rs /\ rows_ok (mean_rate rs) tbl /\
              forall i, tshare i tbl == nth i rs 0.
Proof.
  intros Hnn Hpos.
  assert (Hne : rs <> []) by (intros ->; simpl in Hpos; lra).
  assert (Hm := mean_pos rs Hpos). assert (HM := mean_times_len rs Hne).
  unfold build. destruct rs as [|r0 rs0]; [congruence|].
  set (rs := r0 :: rs0) in *. clearbody rs. set (mean := mean_rate rs) in *.
  rewrite (existsb_neg_false rs Hnn).
  destruct (partition_items mean (items_from 0 rs) [] []) as [small large] eqn:EP.
  destruct (partition_spec mean _ _ _ _ _ EP) as [A [B [C [D [F G]]]]];
    try (intros it Hi; contradiction).
  { apply items_nonneg; auto. }
  rewrite items_length in F. simpl in F.
  destruct (loop_spec (S (length rs)) mean small large []) as [tbl [T1 [T2 [T3 T4]]]]; auto.
  - lia.
  - rewrite D. unfold rsum at 1 2. simpl. rewrite items_rsum.
    assert (Q := qlen_add small large rs F). rewrite Q. lra.
  - intros row Hr; contradiction.
  - exists tbl. split; auto. split; [|split]; auto.
    + rewrite T4. simpl. lia.
    + intros i. rewrite T3. unfold tshare at 1. simpl.
      specialize (G i). unfold mass at 3 4 in G. simpl in G.
      assert (M := mass_items rs 0 i). simpl in M. lra.
Qed.

(** ** termination of the model's fuel *)
Lemma finish_no_fuel mean small large acc : build_finish mean small large acc <> WFuel.
Proof.
  unfold build_finish.
  destruct (leftover_cases mean small) as [-> | [-> | ->]]; try congruence.
  destruct (leftover_cases mean large) as [-> | [-> | ->]]; congruence.
Qed.

Lemma loop_no_fuel : forall fuel mean small large acc,
  (length small + length large < fuel)%nat -> build_loop fuel mean small large acc <> WFuel.
Proof.
  induction fuel as [|f IH]; intros mean small large acc H. lia.
  simpl. destruct small as [|s small']. apply finish_no_fuel.
  destruct large as [|l large']. apply finish_no_fuel.
  destruct (Qlt_bool _ mean); apply IH; simpl in *; lia.
Qed.

Theorem build_no_fuel rs : build rs <> WFuel.
Proof.
  unfold build. destruct rs as [|r0 rs0]. congruence.
  destruct (existsb _ _). congruence.
  destruct (partition_items _ _ [] []) as [small large] eqn:EP.
  apply partition_length in EP. rewrite items_length in EP. simpl in EP.
  apply loop_no_fuel. simpl. lia.
Qed.

(** ** every row has mass = mean *)
Lemma row_ok_mass mean row : row_ok mean row -> row_mass row == mean.
Proof. destruct row; simpl. intros [A [B C]]. lra. auto. Qed.

(** ** sampling *)
Definition ent_len (i id : nat) (iv : qint) : Q :=
  if Nat.eqb id i then len (inter (mkI 0 1) iv) else 0.

(** length of the set of draws u in (0,1] for which [row] yields cell [i] *)
Definition sel_len (i : nat) (mean : Q) (row : wrow) : Q :=
  match row with
  | RPair s l => ent_len i (w_id s) (mkI 0 (w_rate s / mean)) + ent_len i (w_id l) (mkI (w_rate s / mean) 1)
  | RSingle it => ent_len i (w_id it) (mkI 0 (w_rate it / mean))
  end.

(** probability of cell [i] over the pair of draws (uniform row, uniform u) *)
Definition sel_prob (i : nat) (mean : Q) (tbl : list wrow) : Q :=
  qsum (map (sel_len i mean) tbl) / qlen tbl.

Lemma uniform_le_iff u mean x : 0 < mean -> (uniform u 0 mean <= x <-> u <= x / mean).
Proof.
  intros Hm. unfold uniform. rewrite le_div_iff by auto. split; intros; lra.
Qed.

Lemma sample_spec tbl mean r u row i :
  0 < mean -> 0 < u -> u <= 1 -> nth_error tbl r = Some row ->
  (sample tbl mean r u = SOk i <->
   match row with
   | RPair s l => (w_id s = i /\ mem_oc u (mkI 0 (w_rate s / mean))) \/
                  (w_id l = i /\ mem_oc u (mkI (w_rate s / mean) 1))
   | RSingle it => w_id it = i /\ mem_oc u (mkI 0 (w_rate it / mean))
   end).
Proof.
  intros Hm H0 H1 Hr. unfold sample. rewrite Hr. unfold mem_oc. simpl.
  destruct row as [s l | it].
  - destruct (Qle_bool (uniform u 0 mean) (w_rate s)) eqn:E.
    + apply Qle_bool_iff in E. apply uniform_le_iff in E; auto. split.
      * intros K. inversion K; subst. left. repeat split; auto.
      * intros [[<- _] | [_ [K _]]]. reflexivity. lra.
    + apply Qle_bool_false in E.
      assert (E' : w_rate s / mean < u).
      { apply Qnot_le_lt. intros K. apply uniform_le_iff in K; auto. lra. }
      split.
      * intros K. inversion K; subst. right. repeat split; auto.
      * intros [[_ [_ K]] | [<- _]]. lra. reflexivity.
  - destruct (Qle_bool (uniform u 0 mean) (w_rate it)) eqn:E.
    + apply Qle_bool_iff in E. apply uniform_le_iff in E; auto. split.
      * intros K. inversion K; subst. repeat split; auto.
      * intros [<- _]. reflexivity.
    + apply Qle_bool_false in E.
      assert (E' : w_rate it / mean < u).
      { apply Qnot_le_lt. intros K. apply uniform_le_iff in K; auto. lra. }
      split. discriminate. intros [_ [_ K]]. lra.
Qed.

Lemma unit_frac x mean : 0 < mean -> 0 <= x -> x <= mean -> 0 <= x / mean /\ x / mean <= 1.
Proof.
  intros Hm H0 H1. split.
  - apply le_div_iff; auto. lra.
  - apply div_le_iff; auto. lra.
Qed.

Lemma sel_len_share i mean row : 0 < mean -> row_ok mean row -> sel_len i mean row == share i row / mean.
Proof.
  intros Hm Hr. destruct row as [s l | it]; simpl in Hr |- *.
  - destruct Hr as [A [B C]]. destruct (unit_frac _ _ Hm A B) as [F0 F1].
    assert (D : w_rate l / mean == 1 - w_rate s / mean) by (rewrite C; field; lra).
    set (x := w_rate s / mean) in *. unfold ent_len, ishare.
    assert (L1 : len (inter (mkI 0 1) (mkI 0 x)) == x) by (unfold len, inter; simpl; qmm).
    assert (L2 : len (inter (mkI 0 1) (mkI x 1)) == 1 - x) by (unfold len, inter; simpl; qmm).
    assert (P1 : (w_rate s + w_rate l) / mean == x + (1 - x)) by (unfold x; rewrite C; field; lra).
    assert (P2 : (w_rate s + 0) / mean == x) by (unfold x; field; lra).
    assert (P3 : (0 + w_rate l) / mean == 1 - x) by (unfold x; rewrite C; field; lra).
    assert (P4 : (0 + 0) / mean == 0) by (field; lra).
    destruct (Nat.eqb (w_id s) i); destruct (Nat.eqb (w_id l) i);
      rewrite ?L1, ?L2, ?P1, ?P2, ?P3, ?P4; lra.
  - assert (D : w_rate it / mean == 1) by (rewrite Hr; field; lra).
    unfold ent_len, ishare. destruct (Nat.eqb (w_id it) i).
    + set (x := w_rate it / mean) in *. unfold len, inter. simpl. qmm.
    + field. lra.
Qed.

Lemma share_nonneg i mean row : 0 < mean -> row_ok mean row -> 0 <= share i row.
Proof.
  intros Hm Hr. destruct row as [s l | it]; simpl in *; unfold ishare.
  - destruct Hr as [A [B C]]. destruct (Nat.eqb (w_id s) i); destruct (Nat.eqb (w_id l) i); lra.
  - destruct (Nat.eqb (w_id it) i); lra.
Qed.

(** [alias_exact], probability form *)
Theorem alias_prob rs tbl i :
  (forall r, In r rs -> 0 <= r) -> 0 < qsum rs -> build rs = WOk tbl ->
  sel_prob i (mean_rate rs) tbl == nth i rs 0 / total_rate rs.
Proof.
  intros Hnn Hpos Hb. destruct (build_ok rs Hnn Hpos) as [tbl' [B1 [B2 [B3 B4]]]].
  rewrite Hb in B1. inversion B1; subst tbl'. clear B1.
  assert (Hne : rs <> []) by (intros ->; simpl in Hpos; lra).
  assert (Hm := mean_pos rs Hpos). assert (HM := mean_times_len rs Hne).
  assert (HL := qlen_pos rs Hne).
  set (mean := mean_rate rs) in *. unfold sel_prob.
  rewrite (qsum_map_ext _ (fun row => (/ mean) * share i row)).
  - rewrite qsum_map_scale. fold (tshare i tbl). rewrite B4.
    assert (Q : qlen tbl == qlen rs) by (unfold qlen; rewrite B2; reflexivity).
    rewrite Q. rewrite total_rate_qsum. rewrite <- HM. field. lra.
  - intros row Hr. rewrite sel_len_share; auto. field. lra.
Qed.

(** [zero_rate_never] *)
Theorem zero_never rs tbl i r u :
  (forall x, In x rs -> 0 <= x) -> 0 < qsum rs -> build rs = WOk tbl ->
  nth i rs 0 == 0 -> 0 < u -> u <= 1 -> sample tbl (mean_rate rs) r u <> SOk i.
Proof.
  intros Hnn Hpos Hb Hz H0 H1 E. destruct (build_ok rs Hnn Hpos) as [tbl' [B1 [B2 [B3 B4]]]].
  rewrite Hb in B1. inversion B1; subst tbl'. clear B1.
  assert (Hm := mean_pos rs Hpos). set (mean := mean_rate rs) in *.
  destruct (nth_error tbl r) as [row|] eqn:Er.
  2: { unfold sample in E. rewrite Er in E. discriminate. }
  assert (Hin : In row tbl) by (eapply nth_error_In; eauto).
  assert (Hok := B3 row Hin).
  assert (Hz' : share i row == 0).
  { apply (qsum_zero_all (map (share i) tbl)).
    - intros x Hx. apply in_map_iff in Hx. destruct Hx as [row' [<- Hr']].
      eapply share_nonneg; eauto.
    - fold (tshare i tbl). rewrite B4. auto.
    - apply in_map; auto. }
  apply (sample_spec tbl mean r u row i Hm H0 H1 Er) in E.
  destruct row as [s l | it]; simpl in Hok, Hz', E; unfold mem_oc in E; simpl in E; unfold ishare in Hz'.
  - destruct Hok as [A [B C]].
    destruct E as [[Ei [E1 E2]] | [Ei [E1 E2]]].
    + apply le_div_iff in E2; auto. assert (0 < u * mean) by (apply Qmult_lt_0_compat; auto).
      apply Nat.eqb_eq in Ei. rewrite Ei in Hz'. destruct (Nat.eqb (w_id l) i); lra.
    + apply div_lt_iff in E1; auto. assert (u * mean <= mean) by (apply mul_le_one; lra).
      apply Nat.eqb_eq in Ei. rewrite Ei in Hz'. destruct (Nat.eqb (w_id s) i); lra.
  - destruct E as [Ei _]. apply Nat.eqb_eq in Ei. rewrite Ei in Hz'. lra.
Qed.
