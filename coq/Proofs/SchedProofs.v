(** * Proofs/SchedProofs.v — HeapScheduler / ListScheduler against the reference scheduler. *)
From Coq Require Import List Arith Bool NArith Lia.
Require Import JF.Model.Heap JF.Model.Sched JF.Proofs.HeapProofs.
Import ListNotations.

Section SchedProofs.
  Variable K : Type.
  Variable ltb : K -> K -> bool.
  Variable bot : K.
  Variable kinf : K.
  Variable good : K -> Prop.

  Hypothesis ltb_asym : forall a b, good a -> good b -> ltb a b = true -> ltb b a = false.
  Hypothesis le_trans_hyp : forall a b c, good a -> good b -> good c ->
      ltb b a = false -> ltb c b = false -> ltb c a = false.
  Hypothesis bot_least : forall k, ltb k bot = false.
  Hypothesis bot_good : good bot.
  Hypothesis kinf_good : good kinf.

  Notation entry := (entry K).
  Notation heap := (heap K).
  Notation hsched := (hsched K).
  Notation lsched := (lsched K).
  Notation rsched := (rsched K).
  Notation heap_inv := (heap_inv K ltb bot good).
  Notation In_heap := (In_heap K).
  Notation le := (le K ltb).
  Notation hs_step := (hs_step K ltb bot kinf).
  Notation hs_run := (hs_run K ltb bot kinf).
  Notation hs_push := (hs_push K ltb bot kinf).
  Notation hs_get := (hs_get K ltb bot).
  Notation hs_pickle := (hs_pickle K ltb bot).
  Notation ls_step := (ls_step K ltb).
  Notation ls_run := (ls_run K ltb).
  Notation rs_step := (rs_step K ltb).
  Notation rs_run := (rs_run K ltb).
  Notation list_min := (list_min K ltb).
  Notation rebuild := (rebuild K ltb bot).
  Notation getstate_loop := (getstate_loop K bot).

  Let le_trans := le_trans K ltb good le_trans_hyp.
  Let lt_le := lt_le K ltb good ltb_asym.
  Let le_refl := le_refl K ltb good ltb_asym.
  Let lt_le_trans := lt_le_trans K ltb good le_trans_hyp.

  Definition finite (t : K) : Prop := ltb t kinf = true.
  (** equivalent keys: neither is smaller (for floats: numerically equal times) *)
  Definition keq (a b : K) : Prop := ltb a b = false /\ ltb b a = false.

  Lemma keq_refl : forall a, good a -> keq a a.
  Proof. intros a Ha; split; apply le_refl; auto. Qed.

  Lemma ltb_congr : forall a a' b b', good a -> good a' -> good b -> good b' ->
    keq a a' -> keq b b' -> ltb a b = ltb a' b'.
  Proof.
    intros a a' b b' Ha Ha' Hb Hb' (A1 & A2) (B1 & B2).
    destruct (ltb a b) eqn:E1; destruct (ltb a' b') eqn:E2; auto.
    - (* a < b, b' <= a' *)
      assert (ltb a b' = true) by (apply (lt_le_trans a b b'); auto).
      assert (ltb a a' = true) by (apply (lt_le_trans a b' a'); auto).
      congruence.
    - assert (ltb a' b = true) by (apply (lt_le_trans a' b' b); auto).
      assert (ltb a' a = true) by (apply (lt_le_trans a' b a); auto).
      congruence.
  Qed.

  (** ** entries in a heap satisfying the invariant *)
  Lemma In_heap_ok : forall h e, heap_inv h -> In_heap h e -> good (ekey e) /\ ehd e <> None.
  Proof.
    intros h e (_ & [(H0 & _)|(H1 & H2 & H3 & H4 & H5)]) (i & Hi & Hge); [lia|].
    destruct (H4 i Hi) as (e' & He' & Hg & Hhd). rewrite Hge in He'. inversion He'; subst; auto.
  Qed.

  Lemma entry_eta : forall (e : entry) hd, ehd e = Some hd -> mkE (ekey e) (Some hd) (ectr e) = e.
  Proof. intros [k h c] hd H; cbn in *; subst; reflexivity. Qed.

  (** ** pickling, set level *)
  Definition entry_ok (e : entry) : Prop := ehd e <> None /\ good (ekey e).

  Lemma getstate_spec : forall h, heap_inv h -> forall fuel index, hlen h <= fuel + index -> 1 <= fuel ->
    exists l, getstate_loop fuel h index = Some l /\ Forall entry_ok l /\
      forall j, nth_error l j =
                if index + 1 + j <? hlen h then cget (entries h) (index + 1 + j) else None.
  Proof.
    intros h Hinv. induction fuel as [|f IH]; intros index Hf H1; [lia|].
    cbn [Sched.getstate_loop].
    destruct (entry_at_spec K ltb bot good h index Hinv) as [(L & e & He & Hge & Hhd & Hg)|(L & He)].
    - rewrite He. cbn [obind]. destruct (ehd e) eqn:Ehd; [|congruence].
      destruct (IH (S index) ltac:(lia) ltac:(lia)) as (rest & Hrun & Hall & Hnth).
      rewrite Hrun. cbn [obind]. exists (e :: rest). split; [reflexivity|].
      split; [constructor; auto; split; auto; congruence|].
      intros [|j].
      + cbn [nth_error]. rewrite Nat.add_0_r. destruct (Nat.ltb_spec (index + 1) (hlen h)); [auto|lia].
      + cbn [nth_error]. rewrite Hnth. replace (S index + 1 + j) with (index + 1 + S j) by lia. reflexivity.
    - rewrite He. cbn [obind]. cbn [ehd sentinel]. exists []. split; [reflexivity|]. split; [constructor|].
      intros j. destruct (Nat.ltb_spec (index + 1 + j) (hlen h)); [lia|]. destruct j; reflexivity.
  Qed.

  Lemma getstate_In : forall h, heap_inv h ->
    exists l, getstate_loop (S (hlen h)) h 0 = Some l /\ Forall entry_ok l /\
      (forall e, In e l <-> In_heap h e).
  Proof.
    intros h Hinv. destruct (getstate_spec h Hinv (S (hlen h)) 0 ltac:(lia) ltac:(lia)) as (l & Hrun & Hall & Hnth).
    exists l. split; [exact Hrun|]. split; [exact Hall|].
    intros e. split.
    - intros Hin. apply In_nth_error in Hin. destruct Hin as (j & Hj). rewrite Hnth in Hj.
      destruct (Nat.ltb_spec (0 + 1 + j) (hlen h)); [|discriminate].
      exists (0 + 1 + j). split; [lia|exact Hj].
    - intros (i & Hi & Hge). apply nth_error_In with (n := i - 1). rewrite Hnth.
      replace (0 + 1 + (i - 1)) with i by lia. destruct (Nat.ltb_spec i (hlen h)); [exact Hge|lia].
  Qed.

  Lemma rebuild_In : forall l h, heap_inv h -> Forall entry_ok l ->
    exists h', rebuild h l = Some h' /\ heap_inv h' /\ (forall e, In_heap h' e <-> In e l \/ In_heap h e).
  Proof.
    induction l as [|e r IH]; intros h Hinv Hall.
    - exists h. split; [reflexivity|]. split; [exact Hinv|]. intros e; cbn; tauto.
    - inversion Hall as [|? ? (Hhd & Hg) Hall']; subst. cbn [Sched.rebuild].
      destruct (ehd e) as [hd|] eqn:Ehd; [|congruence].
      destruct (insert_spec K ltb bot good ltb_asym le_trans_hyp bot_least bot_good h (ekey e) hd (ectr e) Hinv Hg)
        as (h1 & Hins & Hinv1 & Hmem1 & _).
      rewrite Hins. cbn [obind].
      destruct (IH h1 Hinv1 Hall') as (h' & Hrun & Hinv' & Hmem').
      exists h'. split; [exact Hrun|]. split; [exact Hinv'|].
      intros x. rewrite Hmem', Hmem1. rewrite (entry_eta e hd Ehd). cbn [In]. split.
      + intros [H|[H|H]]; auto.
      + intros [[H|H]|H]; auto.
  Qed.

  (** ** The abstraction relation between a HeapScheduler state and the list of live events *)
  Definition all_good (l : list (K * N)) : Prop := forall x, In x l -> good (fst x).

  Record R (s : hsched) (l : list (K * N)) : Prop := {
    r_inv : heap_inv (hs_heap s);
    r_ctr : forall e hd, In_heap (hs_heap s) e -> ehd e = Some hd ->
            (ectr e <= hs_mvc s hd)%N /\ (ectr e < two32)%N /\ finite (ekey e);
    r_live : forall t hd, (In (t, hd) l /\ finite t) <->
             exists c, In_heap (hs_heap s) (mkE t (Some hd) c) /\ (hs_mvc s hd <= c)%N;
    r_alloc : hs_alloc s = heap_bytes (hs_heap s);
    r_good : all_good l
  }.

  Lemma R_init : R (hs_init K bot) [].
  Proof.
    constructor; cbn.
    - apply empty_heap_inv.
    - intros e hd (i & Hi & _). cbn in Hi. lia.
    - intros t hd. split; [intros ([] & _)|intros (c & (i & Hi & _) & _); cbn in Hi; lia].
    - reflexivity.
    - intros x [].
  Qed.

  Lemma heap_bytes_mono : forall h h' : heap, hsize h <= hsize h' -> (heap_bytes h <= heap_bytes h')%N.
  Proof. intros h h' H. unfold heap_bytes. apply N.mul_le_mono_r. lia. Qed.

  (** *** push *)
  Lemma push_alloc : forall (h h' : heap) mvc' last alloc, alloc = heap_bytes h -> hsize h <= hsize h' ->
    exists a', (if N.eqb (heap_bytes h') alloc then Some (mkHS h' mvc' last alloc, @ONone K)
                else if N.ltb alloc (heap_bytes h') then Some (mkHS h' mvc' last (heap_bytes h'), ONone)
                else Some (mkHS h' mvc' last alloc, OExc ExMemory)) = Some (mkHS h' mvc' last a', ONone) /\
               a' = heap_bytes h'.
  Proof.
    intros h h' mvc' last alloc Ha Hs. pose proof (heap_bytes_mono h h' Hs) as Hm.
    destruct (N.eqb_spec (heap_bytes h') alloc) as [E|E].
    - exists alloc. split; [reflexivity|congruence].
    - destruct (N.ltb_spec alloc (heap_bytes h')) as [L|L].
      + exists (heap_bytes h'). split; reflexivity.
      + exfalso. lia.
  Qed.

  Lemma R_push : forall s l t hd, R s l -> good t ->
    exists s', hs_push s t hd = Some (s', ONone) /\ R s' (l ++ [(t, hd)]) /\ hs_last s' = hs_last s.
  Proof.
    intros s l t hd HR Ht. unfold Sched.hs_push.
    assert (Hgood' : all_good (l ++ [(t, hd)])).
    { intros x Hx. apply in_app_or in Hx. destruct Hx as [Hx|[<-|[]]]; [apply (r_good _ _ HR); auto|exact Ht]. }
    destruct (ltb t kinf) eqn:Efin.
    2:{ exists s. split; [reflexivity|]. split; [|reflexivity].
        constructor; try apply HR; auto.
        intros t' hd'. rewrite <- (r_live _ _ HR). rewrite in_app_iff. cbn [In]. split.
        - intros ([H|[H|[]]] & Hf); [auto|]. inversion H; subst. unfold finite in Hf. congruence.
        - intros (H & Hf); auto. }
    destruct (N.ltb_spec (hs_mvc s hd) two32) as [Lc|Lc].
    - (* ordinary insertion *)
      destruct (insert_spec K ltb bot good ltb_asym le_trans_hyp bot_least bot_good
                  (hs_heap s) t hd (hs_mvc s hd) (r_inv _ _ HR) Ht)
        as (h' & Hins & Hinv' & Hmem' & Hsz' & _).
      rewrite Hins. cbn [obind]. cbv beta iota zeta.
      destruct (push_alloc (hs_heap s) h' (hs_mvc s) (hs_last s) (hs_alloc s) (r_alloc _ _ HR) Hsz')
        as (a' & Hal & Ha').
      rewrite Hal. eexists. split; [reflexivity|]. split; [|reflexivity].
      constructor; cbn [hs_heap hs_mvc hs_alloc hs_last]; auto.
      + intros e hd' He Hhd'. apply Hmem' in He. destruct He as [->|He].
        * cbn in Hhd'. inversion Hhd'; subst hd'. cbn [ectr ekey]. repeat split; auto. lia.
        * apply (r_ctr _ _ HR); auto.
      + intros t' hd'. rewrite in_app_iff. cbn [In]. split.
        * intros ([H|[H|[]]] & Hf).
          -- destruct (proj1 (r_live _ _ HR t' hd') (conj H Hf)) as (c & Hc & Hle).
             exists c. split; [apply Hmem'; auto|exact Hle].
          -- inversion H; subst t' hd'. exists (hs_mvc s hd). split; [apply Hmem'; auto|lia].
        * intros (c & Hc & Hle). apply Hmem' in Hc. destruct Hc as [Hc|Hc].
          -- inversion Hc; subst t' hd' c. split; auto.
          -- destruct (proj2 (r_live _ _ HR t' hd') (ex_intro _ c (conj Hc Hle))) as (H & Hf). auto.
    - (* OverflowError: delete_events, counter reset, insertion with counter 0 *)
      destruct (delete_events_spec K ltb bot good ltb_asym le_trans_hyp bot_least bot_good
                  (hs_heap s) hd (r_inv _ _ HR))
        as (h1 & Hdel & Hinv1 & Hsz1 & Hmem1).
      rewrite Hdel. cbn [obind].
      destruct (insert_spec K ltb bot good ltb_asym le_trans_hyp bot_least bot_good h1 t hd 0%N Hinv1 Ht)
        as (h' & Hins & Hinv' & Hmem' & Hsz' & _).
      rewrite Hins. cbn [obind]. cbv beta iota zeta.
      destruct (push_alloc (hs_heap s) h' (mvc_set (hs_mvc s) hd 0%N) (hs_last s) (hs_alloc s)
                  (r_alloc _ _ HR) ltac:(lia))
        as (a' & Hal & Ha').
      rewrite Hal. eexists. split; [reflexivity|]. split; [|reflexivity].
      constructor; cbn [hs_heap hs_mvc hs_alloc hs_last]; auto.
      + intros e hd' He Hhd'. apply Hmem' in He. destruct He as [->|He].
        * cbn in Hhd'. inversion Hhd'; subst hd'. cbn [ectr ekey]. unfold mvc_set. rewrite N.eqb_refl.
          repeat split; auto; unfold two32; lia.
        * apply Hmem1 in He. destruct He as (He & Hne).
          unfold mvc_set. destruct (N.eqb_spec hd' hd) as [->|Hd]; [congruence|].
          apply (r_ctr _ _ HR); auto.
      + intros t' hd'. rewrite in_app_iff. cbn [In]. split.
        * intros ([H|[H|[]]] & Hf).
          -- destruct (proj1 (r_live _ _ HR t' hd') (conj H Hf)) as (c & Hc & Hle).
             destruct (r_ctr _ _ HR _ hd' Hc eq_refl) as (_ & Hc32 & _). cbn [ectr] in Hc32.
             assert (Hd : hd' <> hd) by (intros ->; lia).
             exists c. split.
             ++ apply Hmem'. right. apply Hmem1. split; [exact Hc|]. cbn. congruence.
             ++ unfold mvc_set. destruct (N.eqb_spec hd' hd); [contradiction|exact Hle].
          -- inversion H; subst t' hd'. exists 0%N. split; [apply Hmem'; auto|].
             unfold mvc_set. rewrite N.eqb_refl. lia.
        * intros (c & Hc & Hle). apply Hmem' in Hc. destruct Hc as [Hc|Hc].
          -- inversion Hc; subst t' hd' c. split; auto.
          -- apply Hmem1 in Hc. destruct Hc as (Hc & Hne). cbn [ehd] in Hne.
             unfold mvc_set in Hle. destruct (N.eqb_spec hd' hd) as [->|Hd]; [congruence|].
             destruct (proj2 (r_live _ _ HR t' hd') (ex_intro _ c (conj Hc Hle))) as (H & Hf). auto.
  Qed.

  (** *** trash / bump *)
  Lemma rs_trash_In : forall hd (l : list (K * N)) x, In x (rs_trash K hd l) <-> In x l /\ snd x <> hd.
  Proof.
    intros hd l x. unfold rs_trash. rewrite filter_In. split; intros (H1 & H2); split; auto.
    - intros E. rewrite E, N.eqb_refl in H2. discriminate.
    - destruct (N.eqb_spec (snd x) hd); [contradiction|reflexivity].
  Qed.

  Lemma R_bump : forall s l hd n, R s l -> (1 <= n)%N -> R (hs_bump K s hd n) (rs_trash K hd l).
  Proof.
    intros s l hd n HR Hn. unfold hs_bump.
    constructor; cbn [hs_heap hs_mvc hs_alloc hs_last]; try apply HR.
    - intros e hd' He Hhd'. destruct (r_ctr _ _ HR e hd' He Hhd') as (H1 & H2 & H3).
      repeat split; auto. unfold mvc_set. destruct (N.eqb_spec hd' hd) as [->|Hd]; lia.
    - intros t hd'. rewrite rs_trash_In. cbn [snd]. split.
      + intros ((Hin & Hne) & Hf). destruct (proj1 (r_live _ _ HR t hd') (conj Hin Hf)) as (c & Hc & Hle).
        exists c. split; [exact Hc|]. unfold mvc_set. destruct (N.eqb_spec hd' hd); [contradiction|exact Hle].
      + intros (c & Hc & Hle). unfold mvc_set in Hle.
        destruct (N.eqb_spec hd' hd) as [->|Hd].
        * destruct (r_ctr _ _ HR _ hd Hc eq_refl) as (H1 & _). cbn [ectr] in H1. lia.
        * destruct (proj2 (r_live _ _ HR t hd') (ex_intro _ c (conj Hc Hle))) as (H & Hf). auto.
    - intros x Hx. apply rs_trash_In in Hx. apply (r_good _ _ HR). tauto.
  Qed.

  Lemma R_bump0 : forall s l hd, R s l -> R (hs_bump K s hd 0%N) l.
  Proof.
    intros s l hd HR. unfold hs_bump.
    assert (E : forall x, mvc_set (hs_mvc s) hd (hs_mvc s hd + 0)%N x = hs_mvc s x).
    { intros x. unfold mvc_set. destruct (N.eqb_spec x hd) as [->|]; lia. }
    constructor; cbn [hs_heap hs_mvc hs_alloc hs_last]; try apply HR.
    - intros e hd' He Hhd'. rewrite E. apply (r_ctr _ _ HR); auto.
    - intros t hd'. rewrite (r_live _ _ HR). split; intros (c & Hc & Hle); exists c; rewrite E in *; auto.
  Qed.

  (** *** minimum of a list *)
  Lemma list_min_spec : forall l best, good (fst best) -> all_good l ->
    let m := list_min best l in
    (m = best \/ In m l) /\ le (fst m) (fst best) /\ (forall x, In x l -> le (fst m) (fst x)).
  Proof.
    induction l as [|x r IH]; intros best Hb Hg; cbn [Sched.list_min].
    - split; [auto|]. split; [apply le_refl; auto|]. intros x [].
    - assert (Hx : good (fst x)) by (apply Hg; left; reflexivity).
      assert (Hr : all_good r) by (intros y Hy; apply Hg; right; exact Hy).
      destruct (ltb (fst x) (fst best)) eqn:E.
      + destruct (IH x Hx Hr) as (H1 & H2 & H3). cbv zeta in *.
        assert (Hm : good (fst (list_min x r))).
        { destruct H1 as [->|H1]; [exact Hx|apply Hr; exact H1]. }
        split; [destruct H1 as [->|H1]; [right; left; reflexivity|right; right; exact H1]|].
        split.
        * apply le_trans with (b := fst x); auto.
        * intros y [<-|Hy]; auto.
      + destruct (IH best Hb Hr) as (H1 & H2 & H3). cbv zeta in *.
        assert (Hm : good (fst (list_min best r))).
        { destruct H1 as [->|H1]; [exact Hb|apply Hr; exact H1]. }
        split; [destruct H1 as [->|H1]; [left; reflexivity|right; right; exact H1]|].
        split; [exact H2|].
        intros y [<-|Hy]; auto.
        apply le_trans with (b := fst best); auto.
  Qed.

  Lemma rs_min_spec : forall x r, all_good (x :: r) ->
    let m := list_min x r in In m (x :: r) /\ forall y, In y (x :: r) -> le (fst m) (fst y).
  Proof.
    intros x r Hg. assert (Hx : good (fst x)) by (apply Hg; left; reflexivity).
    assert (Hr : all_good r) by (intros y Hy; apply Hg; right; exact Hy).
    destruct (list_min_spec r x Hx Hr) as (H1 & H2 & H3). cbv zeta in *.
    split; [destruct H1 as [->|H1]; [left; reflexivity|right; exact H1]|].
    intros y [<-|Hy]; auto.
  Qed.

  (** *** get *)
  Lemma hs_cb_live : forall m (e : entry) hd, ehd e = Some hd -> (hs_cb K m e = false <-> (m hd <= ectr e)%N).
  Proof.
    intros m e hd Hhd. unfold hs_cb. rewrite Hhd. destruct (N.ltb_spec (ectr e) (m hd)); split; intros; try lia; try discriminate; auto.
  Qed.

  (** What [get_succeeding_event] of the heap scheduler does in a state related to the live list [l]:
      - the relation is preserved (lazy deletion only removes dead entries);
      - either no finite live event exists and the scheduler error "empty" is raised,
      - or a minimal finite live event (t, hd) of [l] is found; it is returned unless its time is
        smaller than the last returned time (then the "decreasing" scheduler error is raised). *)
  Lemma R_get : forall s l, R s l ->
    exists s' out, hs_get s = Some (s', out) /\ R s' l /\
      (((forall x, In x l -> ~ finite (fst x)) /\ out = OExc ExEmpty /\ hs_last s' = hs_last s) \/
       (exists t hd, In (t, hd) l /\ finite t /\
          (forall x, In x l -> finite (fst x) -> le t (fst x)) /\
          ((ltb t (hs_last s) = true /\ out = OExc ExDecreasing /\ hs_last s' = hs_last s) \/
           (ltb t (hs_last s) = false /\ out = OGot hd t /\ hs_last s' = t)))).
  Proof.
    intros s l HR. unfold Sched.hs_get.
    destruct (root_spec K ltb bot good ltb_asym le_trans_hyp bot_least bot_good
                (hs_cb K (hs_mvc s)) (hs_heap s) (r_inv _ _ HR))
      as (h' & r & Hroot & Hinv' & Hsz' & Hsub & Hkeep & Hres).
    rewrite Hroot. cbn [obind].
    assert (HR' : forall last, R (mkHS h' (hs_mvc s) last (hs_alloc s)) l).
    { intros last. constructor; cbn [hs_heap hs_mvc hs_alloc hs_last].
      - exact Hinv'.
      - intros e hd He Hhd. apply (r_ctr _ _ HR); auto.
      - intros t hd. rewrite (r_live _ _ HR). split; intros (c & Hc & Hle); exists c; split; auto.
        apply Hkeep; auto. apply (hs_cb_live _ _ hd eq_refl). exact Hle.
      - rewrite (r_alloc _ _ HR). unfold heap_bytes. rewrite Hsz'. reflexivity.
      - apply HR. }
    destruct Hres as [(Hdead & ->)|(Hin & Hcb & Hhd & Hmin)].
    - cbn [ehd sentinel]. eexists _, _. split; [reflexivity|]. split; [apply HR'|]. left.
      split; [|split; reflexivity].
      intros [t hd] Hx Hf. cbn [fst] in Hf.
      destruct (proj1 (r_live _ _ HR t hd) (conj Hx Hf)) as (c & Hc & Hle).
      pose proof (Hdead _ Hc) as Hd. apply (hs_cb_live _ _ hd eq_refl) in Hle. congruence.
    - destruct (ehd r) as [hd|] eqn:Ehd; [|congruence].
      pose proof (entry_eta r hd Ehd) as Heta.
      assert (Hlive : (hs_mvc s hd <= ectr r)%N) by (apply (hs_cb_live _ _ hd Ehd); exact Hcb).
      assert (Hrl : In (ekey r, hd) l /\ finite (ekey r)).
      { apply (r_live _ _ HR). exists (ectr r). rewrite Heta. auto. }
      assert (Hminl : forall x, In x l -> finite (fst x) -> le (ekey r) (fst x)).
      { intros [t' hd'] Hx Hf. cbn [fst] in *.
        destruct (proj1 (r_live _ _ HR t' hd') (conj Hx Hf)) as (c & Hc & Hle).
        apply (Hmin _ Hc). apply (hs_cb_live _ _ hd' eq_refl). exact Hle. }
      destruct (ltb (ekey r) (hs_last s)) eqn:Eg.
      + eexists _, _. split; [reflexivity|]. split; [apply HR'|]. right.
        exists (ekey r), hd. split; [apply Hrl|]. split; [apply Hrl|]. split; [exact Hminl|].
        left. auto.
      + eexists _, _. split; [reflexivity|]. split; [apply HR'|]. right.
        exists (ekey r), hd. split; [apply Hrl|]. split; [apply Hrl|]. split; [exact Hminl|].
        right. auto.
  Qed.

  (** *** pickle *)
  Lemma R_pickle : forall s l, R s l ->
    exists s', hs_pickle s = Some s' /\ R s' l /\ hs_last s' = hs_last s.
  Proof.
    intros s l HR. unfold Sched.hs_pickle, Sched.hs_getstate.
    destruct (getstate_In (hs_heap s) (r_inv _ _ HR)) as (es & Hget & Hall & Hmem).
    rewrite Hget. cbn [obind].
    destruct (rebuild_In es empty_heap (empty_heap_inv K ltb bot good) Hall) as (h' & Hreb & Hinv' & Hmem').
    rewrite Hreb. cbn [obind]. eexists. split; [reflexivity|]. split; [|reflexivity].
    assert (Heq : forall e, In_heap h' e <-> In_heap (hs_heap s) e).
    { intros e. rewrite Hmem', Hmem. split; [intros [H|(i & Hi & _)]; [exact H|cbn in Hi; lia]|auto]. }
    constructor; cbn [hs_heap hs_mvc hs_alloc hs_last].
    - exact Hinv'.
    - intros e hd He Hhd. apply Heq in He. apply (r_ctr _ _ HR); auto.
    - intros t hd. rewrite (r_live _ _ HR). split; intros (c & Hc & Hle); exists c; split; auto; apply Heq; auto.
    - reflexivity.
    - apply HR.
  Qed.

End SchedProofs.
